(** Theorems about one ObjectSet controller pass (C03, C04, C06, C09, C11 and the reporting clause of C01). *)
From Coq Require Import List NArith ZArith Bool Lia.
From PKO Require Import Util Base BaseProofs Owner Api ApiProofs Phase PhaseProofs TeardownProofs PreflightProofs AdoptionProofs ObjectSet.
Import ListNotations.
Local Open Scope N_scope.

Section Phases.
  Variable force : bool.
  Let c : cfg := {| c_flavor := FObjectSet; c_force := force |}.

  Lemma rp_cons w ow prev ph rest acc :
    reconcile_phases force w ow prev (ph :: rest) acc =
    match reconcile_phase c idw w ow prev (ph_class ph) (ph_objects ph) with
    | (w1, e1, PhErr e) => (w1, e1, PRErr e)
    | (w1, e1, PhPreflight _) => (w1, e1, PRPreflight)
    | (w1, e1, PhOk actual failed) =>
        let acc' := acc ++ map fst (filter (fun ko => is_controller Native (ow_id ow) (snd ko)) actual) in
        match failed with
        | _ :: _ => (w1, e1, PROk acc' (Some (ph_name ph)))
        | [] => let '(w2, e2, r) := reconcile_phases force w1 ow prev rest acc' in (w2, e1 ++ e2, r)
        end
    end.
  Proof. reflexivity. Qed.

  (** ** A completed phase: every object is present afterwards and passes the probe *)
  Definition obj_ok (w : world) (ow : owner) (p : pobj) : Prop :=
    exists o, lookup (key_of ow p) (w_store w) = Some o /\ probe_ok (key_of ow p) o = true.

  (** reconcile_object returns the stored object (or, paused, the cached one). *)
  Lemma rec_obj_returns_stored w ow prev p w' evs o :
    reconcile_object c idw w ow prev p = (w', evs, ROk o) -> lookup (key_of ow p) (w_store w') = Some o.
  Proof.
    unfold reconcile_object. fold (key_of ow p).
    destruct (set_controller_l _ _ _ []) as [dref|]; [|discriminate].
    destruct (ow_paused ow).
    { unfold cache_get. destruct (lookup (key_of ow p) (w_store w)) as [x|] eqn:E; [|discriminate].
      destruct (o_cache x); [|discriminate]. intros H. injection H as <- _ <-. exact E. }
    rewrite cur_lookup.
    assert (Hda : forall rd ap, do_apply idw w (key_of ow p) rd ap = (w', evs, ROk o) -> lookup (key_of ow p) (w_store w') = Some o).
    { intros rd ap H. destruct (do_apply_events _ _ _ _ _ _ _ _ H) as (post & _ & Hp). destruct post as [x| |]; [|contradiction|destruct Hp; discriminate].
      destruct Hp as [Hr Ha]. injection Hr as <-. now destruct (api_apply_spec _ _ _ _ _ _ Ha). }
    destruct (lookup (key_of ow p) (w_store w)) as [cu|] eqn:El; [|apply Hda].
    destruct (check_adoption _ _ _ _ _ _); try discriminate; try apply Hda.
    - intros H. injection H as <- _ <-. exact El.
    - destruct (set_controller_l _ _ _ (release_l _)); [apply Hda|discriminate].
  Qed.

  Lemma rec_objs_ok_present ow prev ps : forall w acc failed w' evs a,
    reconcile_objects c idw w ow prev ps acc failed = (w', evs, PhOk a []) ->
    NoDup (map (key_of ow) ps) ->
    failed = [] /\ forall p, In p ps -> obj_ok w' ow p.
  Proof.
    induction ps as [|p ps IH]; intros w acc failed w' evs a H Hnd; cbn in H.
    - injection H as <- <- <- ->. split; [reflexivity|]. intros p [].
    - inversion Hnd as [|? ? Hnotin Hnd']; subst.
      destruct (reconcile_object c idw w ow prev p) as [[w1 e1] r1] eqn:E1.
      destruct r1 as [o| |e]; [| |discriminate].
      + destruct (reconcile_objects c idw w1 ow prev ps _ _) as [[w2 e2] r2] eqn:E2. injection H as <- <- ->.
        destruct (IH _ _ _ _ _ _ E2 Hnd') as [Hf Hall].
        fold (key_of ow p) in Hf. destruct (probe_ok (key_of ow p) o) eqn:Epr; [|destruct failed; discriminate].
        split; [exact Hf|]. intros p0 [<-|Hin]; [|now apply Hall].
        exists o. split; [|exact Epr].
        destruct (rec_objs_frame c ow prev (key_of ow p) ps _ _ _ _ _ _ E2) as [Hfr _].
        * intros p1 Hin1 Heq. apply Hnotin. rewrite <- Heq. now apply in_map.
        * rewrite Hfr. eapply rec_obj_returns_stored; eauto.
      + destruct (reconcile_objects c idw w1 ow prev ps _ _) as [[w2 e2] r2] eqn:E2. injection H as <- <- ->.
        destruct (IH _ _ _ _ _ _ E2 Hnd') as [Hf _]. destruct failed; discriminate.
  Qed.

  (** Events of a phase name only objects of that phase; other keys are untouched. *)
  Lemma rec_phase_frame ow prev class ps w w' evs r k :
    reconcile_phase c idw w ow prev class ps = (w', evs, r) ->
    (forall p, In p ps -> key_of ow p <> k) ->
    lookup k (w_store w') = lookup k (w_store w) /\ Forall (fun e => ev_key e <> k) evs.
  Proof.
    unfold reconcile_phase. destruct (flat_map _ ps).
    - intros H Hk. eapply rec_objs_frame; eauto.
    - intros H _. injection H as <- <- <-. split; [reflexivity|constructor].
  Qed.

  Lemma rec_phase_events_in ow prev class ps w w' evs r :
    reconcile_phase c idw w ow prev class ps = (w', evs, r) ->
    Forall (fun e => In (ev_key e) (map (key_of ow) ps)) evs.
  Proof.
    unfold reconcile_phase. destruct (flat_map _ ps).
    - intros H. pose proof (rec_objs_justified c _ _ _ _ _ _ _ _ _ _ H) as HJ.
      eapply Forall_impl; [|exact HJ]. intros e (p & rd & pre & post & Hin & -> & _). cbn. now apply in_map.
    - intros H. injection H as _ <- _. constructor.
  Qed.

  Definition phase_keys (ow : owner) (ph : phase) : list okey := map (key_of ow) (ph_objects ph).
  Definition phase_ok (w : world) (ow : owner) (ph : phase) : Prop := forall p, In p (ph_objects ph) -> obj_ok w ow p.

  (** Keys named by no phase are untouched by the phase loop. *)
  Lemma rp_frame ow prev k phs : forall w acc w' evs r,
    reconcile_phases force w ow prev phs acc = (w', evs, r) ->
    ~ In k (flat_map (phase_keys ow) phs) ->
    lookup k (w_store w') = lookup k (w_store w).
  Proof.
    induction phs as [|x xs IHl]; intros w acc w' evs r E2 Hk.
    - cbn in E2. now injection E2 as <- _ _.
    - rewrite rp_cons in E2. cbv zeta in E2.
      destruct (reconcile_phase c idw w ow prev (ph_class x) (ph_objects x)) as [[wa ea] ra] eqn:Ea.
      assert (Hfa : lookup k (w_store wa) = lookup k (w_store w)).
      { eapply rec_phase_frame; eauto. intros p1 Hin1 Heq. apply Hk. cbn. apply in_or_app. left.
        rewrite <- Heq. unfold phase_keys. now apply in_map. }
      destruct ra as [e|vs|a f]; try (injection E2 as <- _ _; exact Hfa).
      destruct f; [|injection E2 as <- _ _; exact Hfa].
      destruct (reconcile_phases force wa ow prev xs _) as [[wb eb] rb] eqn:Eb. injection E2 as <- _ _.
      rewrite <- Hfa. eapply IHl; eauto. intros Hin. apply Hk. cbn. apply in_or_app. now right.
  Qed.

  (** ** C03: rollout gating.
      If any request of the pass names an object of some phase, every object of every earlier phase is
      present after the pass and passes the availability probe (the states the pass itself obtained:
      later phases do not touch earlier objects). *)
  Lemma rp_gate ow prev phs : forall w acc w' evs r,
    reconcile_phases force w ow prev phs acc = (w', evs, r) ->
    NoDup (flat_map (phase_keys ow) phs) ->
    forall pre ph post, phs = pre ++ ph :: post ->
      Exists (fun e => In (ev_key e) (phase_keys ow ph)) evs ->
      forall q, In q pre -> phase_ok w' ow q.
  Proof.
    induction phs as [|ph0 rest IH]; intros w acc w' evs r H Hnd pre ph post Hsplit Hex q Hq.
    - destruct pre; discriminate.
    - rewrite rp_cons in H. cbv zeta in H.
      destruct (reconcile_phase c idw w ow prev (ph_class ph0) (ph_objects ph0)) as [[w1 e1] r1] eqn:E1.
      cbn in Hnd. pose proof (NoDup_app_r _ _ Hnd) as Hnd_rest.
      destruct pre as [|q0 pre'].
      + contradiction.
      + cbn in Hsplit. injection Hsplit as -> ->.
        (* an event names an object of ph, which lies strictly after ph0: so ph0 completed *)
        assert (Hdisj : forall k, In k (phase_keys ow q0) -> ~ In k (flat_map (phase_keys ow) (pre' ++ ph :: post))).
        { intros k Hk. eapply NoDup_app_disj; eauto. }
        assert (Hph_in : forall k, In k (phase_keys ow ph) -> In k (flat_map (phase_keys ow) (pre' ++ ph :: post))).
        { intros k Hk. apply in_flat_map. exists ph. split; [apply in_or_app; right; now left|assumption]. }
        assert (He1 : Forall (fun e => ~ In (ev_key e) (phase_keys ow ph)) e1).
        { eapply Forall_impl; [|exact (rec_phase_events_in _ _ _ _ _ _ _ _ E1)]. cbn. intros e Hin Hin2.
          apply (Hdisj _ Hin). now apply Hph_in. }
        destruct r1 as [e|vs|actual failed].
        * injection H as <- <- <-. exfalso. apply Exists_exists in Hex. destruct Hex as (e0 & Hin0 & Hk0).
          rewrite Forall_forall in He1. now apply (He1 e0 Hin0).
        * injection H as <- <- <-. exfalso. apply Exists_exists in Hex. destruct Hex as (e0 & Hin0 & Hk0).
          rewrite Forall_forall in He1. now apply (He1 e0 Hin0).
        * destruct failed as [|f fs].
          -- destruct (reconcile_phases force w1 ow prev (pre' ++ ph :: post) _) as [[w2 e2] r2] eqn:E2.
             injection H as <- <- <-.
             assert (Hex2 : Exists (fun e => In (ev_key e) (phase_keys ow ph)) e2).
             { apply Exists_app in Hex. destruct Hex as [Hex|Hex]; [|assumption]. exfalso.
               apply Exists_exists in Hex. destruct Hex as (e0 & Hin0 & Hk0). rewrite Forall_forall in He1. now apply (He1 e0 Hin0). }
             destruct Hq as [<-|Hq].
             ++ (* q0 itself: completed in w1, untouched by the rest *)
                unfold reconcile_phase in E1. destruct (flat_map _ (ph_objects q0)); [|discriminate].
                assert (Hndq : NoDup (map (key_of ow) (ph_objects q0))).
                { unfold phase_keys in Hnd. now apply NoDup_app_l in Hnd. }
                destruct (rec_objs_ok_present ow prev _ _ _ _ _ _ _ E1 Hndq) as [_ Hall].
                intros p Hp. destruct (Hall p Hp) as (o & Ho & Hpr). exists o. split; [|exact Hpr].
                rewrite <- Ho. eapply rp_frame; eauto. apply Hdisj. unfold phase_keys. now apply in_map.
             ++ eapply (IH _ _ _ _ _ E2 Hnd_rest pre' ph post eq_refl Hex2 q Hq).
          -- injection H as <- <- <-. exfalso. apply Exists_exists in Hex. destruct Hex as (e0 & Hin0 & Hk0).
             rewrite Forall_forall in He1. now apply (He1 e0 Hin0).
  Qed.
End Phases.

Section MorePhases.
  Variable force : bool.
  Let c : cfg := {| c_flavor := FObjectSet; c_force := force |}.

  (** What it means for an object to fail the pass's check: absent, failing the probe, or (paused owner)
      invisible to the cache. *)
  Definition obj_fails (w : world) (ow : owner) (p : pobj) : Prop :=
    match lookup (key_of ow p) (w_store w) with
    | None => True
    | Some o => probe_ok (key_of ow p) o = false \/ (ow_paused ow = true /\ o_cache o = false)
    end.

  Lemma rec_obj_missing w ow prev p w' evs :
    reconcile_object c idw w ow prev p = (w', evs, RMissing) ->
    w' = w /\ ow_paused ow = true /\
    match lookup (key_of ow p) (w_store w) with None => True | Some o => o_cache o = false end.
  Proof.
    unfold reconcile_object. fold (key_of ow p).
    destruct (set_controller_l _ _ _ []) as [dref|]; [|discriminate].
    destruct (ow_paused ow) eqn:Ep.
    { unfold cache_get. destruct (lookup (key_of ow p) (w_store w)) as [x|] eqn:E.
      - destruct (o_cache x) eqn:Ec; [discriminate|]. intros H. injection H as <- _. auto.
      - intros H. injection H as <- _. auto. }
    rewrite cur_lookup.
    assert (Hda : forall rd ap, do_apply idw w (key_of ow p) rd ap <> (w', evs, RMissing)).
    { intros rd ap H. destruct (do_apply_events _ _ _ _ _ _ _ _ H) as (post & _ & Hp). destruct post; [destruct Hp; discriminate|contradiction|destruct Hp; discriminate]. }
    destruct (lookup (key_of ow p) (w_store w)) as [cu|]; [|intros H; now apply Hda in H].
    destruct (check_adoption _ _ _ _ _ _); try discriminate; try (intros H; now apply Hda in H).
    destruct (set_controller_l _ _ _ (release_l _)); [intros H; now apply Hda in H|discriminate].
  Qed.

  (** A phase whose pass reports failures has an object that fails in the resulting world. *)
  Lemma rec_objs_failed_witness ow prev ps : forall w acc failed w' evs a f,
    reconcile_objects c idw w ow prev ps acc failed = (w', evs, PhOk a f) ->
    NoDup (map (key_of ow) ps) ->
    exists extra, f = failed ++ extra /\ (extra <> [] -> exists p, In p ps /\ obj_fails w' ow p).
  Proof.
    induction ps as [|p ps IH]; intros w acc failed w' evs a f H Hnd; cbn in H.
    - injection H as <- <- <- <-. exists []. split; [now rewrite app_nil_r|]. congruence.
    - inversion Hnd as [|? ? Hnotin Hnd']; subst.
      destruct (reconcile_object c idw w ow prev p) as [[w1 e1] r1] eqn:E1.
      assert (Hfr : forall w2 e2 r2 acc' failed', reconcile_objects c idw w1 ow prev ps acc' failed' = (w2, e2, r2) ->
                    lookup (key_of ow p) (w_store w2) = lookup (key_of ow p) (w_store w1)).
      { intros w2 e2 r2 acc' failed' E2. eapply rec_objs_frame; eauto. intros p1 Hin1 Heq. apply Hnotin. rewrite <- Heq. now apply in_map. }
      destruct r1 as [o| |e]; [| |discriminate].
      + destruct (reconcile_objects c idw w1 ow prev ps _ _) as [[w2 e2] r2] eqn:E2. injection H as <- <- ->.
        destruct (IH _ _ _ _ _ _ _ E2 Hnd') as (extra & -> & Hex).
        fold (key_of ow p). destruct (probe_ok (key_of ow p) o) eqn:Epr.
        * exists extra. split; [reflexivity|]. intros Hne. destruct (Hex Hne) as (p0 & Hin & Hf). exists p0. split; [now right|assumption].
        * exists (key_of ow p :: extra). split; [now rewrite <- app_assoc|]. intros _. exists p. split; [now left|].
          unfold obj_fails. rewrite (Hfr _ _ _ _ _ E2). rewrite (rec_obj_returns_stored force _ _ _ _ _ _ _ E1). now left.
      + destruct (reconcile_objects c idw w1 ow prev ps _ _) as [[w2 e2] r2] eqn:E2. injection H as <- <- ->.
        destruct (IH _ _ _ _ _ _ _ E2 Hnd') as (extra & -> & Hex).
        exists (key_of ow p :: extra). split; [now rewrite <- app_assoc|]. intros _. exists p. split; [now left|].
        destruct (rec_obj_missing _ _ _ _ _ _ E1) as (-> & Hp & Hm).
        unfold obj_fails. rewrite (Hfr _ _ _ _ _ E2). destruct (lookup (key_of ow p) (w_store w)); auto.
  Qed.

  (** C03, second sentence: the phase named as failing is the first one that is not complete; all phases
      before it are complete, none after it was touched. *)
  Lemma rp_first_failure ow prev phs : forall w acc w' evs ctrlof n,
    reconcile_phases force w ow prev phs acc = (w', evs, PROk ctrlof (Some n)) ->
    NoDup (flat_map (phase_keys ow) phs) ->
    exists pre ph post, phs = pre ++ ph :: post /\ ph_name ph = n /\
      (forall q, In q pre -> phase_ok w' ow q) /\
      (exists p, In p (ph_objects ph) /\ obj_fails w' ow p) /\
      Forall (fun e => ~ In (ev_key e) (flat_map (phase_keys ow) post)) evs.
  Proof.
    induction phs as [|ph0 rest IH]; intros w acc w' evs ctrlof n H Hnd; [cbn in H; discriminate|].
    rewrite rp_cons in H. cbv zeta in H. fold c in H.
    destruct (reconcile_phase c idw w ow prev (ph_class ph0) (ph_objects ph0)) as [[w1 e1] r1] eqn:E1.
    cbn in Hnd. pose proof (NoDup_app_r _ _ Hnd) as Hnd_rest. pose proof (NoDup_app_l _ _ Hnd) as Hnd0.
    destruct r1 as [e|vs|actual failed]; [discriminate|discriminate|].
    pose proof E1 as E1'. unfold reconcile_phase in E1'. destruct (flat_map _ (ph_objects ph0)); [|discriminate].
    destruct failed as [|f fs].
    - destruct (reconcile_phases force w1 ow prev rest _) as [[w2 e2] r2] eqn:E2. injection H as <- <- ->.
      destruct (IH _ _ _ _ _ _ E2 Hnd_rest) as (pre & ph & post & -> & Hn & Hpre & Hfail & Hpost).
      exists (ph0 :: pre), ph, post. split; [reflexivity|]. split; [assumption|]. split; [|split; [assumption|]].
      + intros q [<-|Hq]; [|now apply Hpre].
        destruct (rec_objs_ok_present force ow prev _ _ _ _ _ _ _ E1' Hnd0) as [_ Hall].
        intros p Hp. destruct (Hall p Hp) as (o & Ho & Hpr). exists o. split; [|assumption]. rewrite <- Ho.
        eapply rp_frame; eauto. eapply NoDup_app_disj; eauto. unfold phase_keys. now apply in_map.
      + apply Forall_app. split; [|assumption].
        eapply Forall_impl; [|exact (rec_phase_events_in force _ _ _ _ _ _ _ _ E1)]. cbn. intros e Hin Hin2.
        eapply NoDup_app_disj; [exact Hnd|exact Hin|]. rewrite flat_map_app. apply in_or_app. right. cbn. apply in_or_app. now right.
    - injection H as <- <- _ <-. exists [], ph0, rest. split; [reflexivity|]. split; [reflexivity|]. split; [intros q []|]. split.
      + destruct (rec_objs_failed_witness ow prev _ _ _ _ _ _ _ _ E1' Hnd0) as (extra & Hf & Hex). cbn in Hf. subst extra.
        apply Hex. discriminate.
      + eapply Forall_impl; [|exact (rec_phase_events_in force _ _ _ _ _ _ _ _ E1)]. cbn. intros e Hin Hin2.
        eapply NoDup_app_disj; eauto.
  Qed.

  (** C09 at the ObjectSet level: a paused owner writes to no member. *)
  Lemma rp_paused ow prev phs : forall w acc w' evs r,
    ow_paused ow = true -> reconcile_phases force w ow prev phs acc = (w', evs, r) -> w' = w /\ evs = [].
  Proof.
    induction phs as [|ph rest IH]; intros w acc w' evs r Hp H.
    - cbn in H. injection H as <- <- _. auto.
    - rewrite rp_cons in H. cbv zeta in H. fold c in H.
      destruct (reconcile_phase c idw w ow prev (ph_class ph) (ph_objects ph)) as [[w1 e1] r1] eqn:E1.
      assert (H1 : w1 = w /\ e1 = []).
      { unfold reconcile_phase in E1. destruct (flat_map _ (ph_objects ph)); [|injection E1 as <- <- _; auto].
        eapply phase_paused_no_write; eauto. }
      destruct H1 as [-> ->].
      destruct r1 as [e|vs|a f]; try (injection H as <- <- _; auto).
      destruct f; [|injection H as <- <- _; auto].
      destruct (reconcile_phases force w ow prev rest _) as [[w2 e2] r2] eqn:E2. injection H as <- <- _.
      destruct (IH _ _ _ _ _ Hp E2) as [-> ->]. auto.
  Qed.

  (** ** C04: teardown order *)
  Definition td_obj_done (w : world) (ow : owner) (p : pobj) : Prop :=
    preflight_obj FObjectSet ow false p <> [] \/
    match lookup (key_of ow p) (w_store w) with
    | None => True
    | Some o => is_controller Native (ow_id ow) o = false
    end.

  Lemma remove_owner_not_owner ow l : is_owner_l ow (remove_owner_l ow l) = true -> is_controller_l ow (remove_owner_l ow l) = true -> True.
  Proof. auto. Qed.

  (** An object reported as cleaned up is, in the resulting world, absent or not controlled by the owner,
      or was excluded by the teardown preflight. *)
  Lemma td_obj_done_spec w ow p w' evs :
    teardown_object c idw w ow p = (w', evs, true) -> teardown_err evs = false -> td_obj_done w' ow p.
  Proof.
    unfold teardown_object, td_obj_done. fold (key_of ow p). cbn [c_flavor c flavor_strat].
    destruct (preflight_obj FObjectSet ow false p) eqn:Ep; [|intros _ _; left; discriminate].
    intros H Herr. right. unfold api_get in H.
    destruct (lookup (key_of ow p) (w_store w)) as [cu|] eqn:El.
    - destruct (is_controller Native (ow_id ow) cu) eqn:Hc; cbn [negb] in H.
      + unfold idw in H. destruct (api_delete w (key_of ow p) (o_uid cu) (o_rv cu)) as [w2 r] eqn:Ed.
        injection H as <- <- Hd. destruct r; try discriminate.
        destruct (api_delete_effect _ _ _ _ _ _ Ed) as [Hn ->]. now rewrite Hn.
      + destruct (is_owner Native (ow_id ow) cu) eqn:Ho; cbn [negb] in H.
        * unfold idw in H. destruct (api_release_patch w (key_of ow p) _) as [[w2 [o|]]|] eqn:Er; [injection H as <- <-|discriminate|discriminate].
          destruct (api_release_spec _ _ _ _ _ Er) as (st & Hst & Hl & _ & _ & Hown & _).
          rewrite Hl. unfold is_controller. cbn [refs]. rewrite Hown.
          (* the owner's own reference was not a controller reference, and removing one entry cannot create one *)
          unfold is_controller in Hc. cbn [refs] in Hc.
          clear -Hc. unfold remove_owner_l. induction (o_owners cu) as [|x xs IH]; [reflexivity|].
          cbn in Hc. apply orb_false_iff in Hc. destruct Hc as [Hx Hxs]. cbn.
          destruct (same_obj x (ow_id ow)) eqn:Es.
          -- destruct xs as [|y ys]; [reflexivity|]. unfold is_controller_l in *. 
             assert (Hall : forall z, In z (y :: ys) -> (same_obj z (ow_id ow) && r_ctrl z) = false).
             { intros z Hz. destruct (same_obj z (ow_id ow) && r_ctrl z) eqn:E; [|reflexivity].
               assert (existsb (fun r => same_obj r (ow_id ow) && r_ctrl r) (y :: ys) = true) by (apply existsb_exists; eauto). congruence. }
             destruct (existsb _ (last (y :: ys) x :: removelast (y :: ys))) eqn:E; [|reflexivity].
             apply existsb_exists in E. destruct E as (z & Hz & Hzt). exfalso.
             destruct Hz as [<-|Hz].
             ++ destruct (exists_last (l := y :: ys)) as (l' & a & Hla); [discriminate|]. rewrite Hla, last_last in Hzt.
                rewrite (Hall a) in Hzt; [discriminate|]. rewrite Hla. apply in_or_app. right. now left.
             ++ rewrite (Hall z) in Hzt; [discriminate|]. 
                destruct (exists_last (l := y :: ys)) as (l' & a & Hla); [discriminate|]. rewrite Hla in Hz |- *.
                rewrite removelast_last in Hz. apply in_or_app. now left.
          -- cbn. rewrite Es. cbn. apply IH. exact Hxs.
        * injection H as <- _. rewrite El. exact Hc.
    - injection H as <- _. now rewrite El.
  Qed.
End MorePhases.

Section TeardownOrder.
  Variable force : bool.
  Let c : cfg := {| c_flavor := FObjectSet; c_force := force |}.

  Lemma td_objs_done ow ps : forall w alldone w' evs,
    teardown_objects c idw w ow ps alldone = (w', evs, TdOk true) ->
    NoDup (map (key_of ow) ps) ->
    alldone = true /\ forall p, In p ps -> td_obj_done w' ow p.
  Proof.
    induction ps as [|p ps IH]; intros w alldone w' evs H Hnd; cbn in H.
    - injection H as <- _ ->. split; [reflexivity|]. intros p [].
    - inversion Hnd as [|? ? Hnotin Hnd']; subst.
      destruct (teardown_object c idw w ow p) as [[w1 e1] d] eqn:E1.
      destruct (teardown_err e1) eqn:Eerr; [discriminate|].
      destruct (teardown_objects c idw w1 ow ps (alldone && d)) as [[w2 e2] r2] eqn:E2. injection H as <- _ ->.
      destruct (IH _ _ _ _ E2 Hnd') as [Had Hall]. apply andb_true_iff in Had. destruct Had as [-> ->].
      split; [reflexivity|]. intros p0 [<-|Hin]; [|now apply Hall].
      pose proof (td_obj_done_spec force _ _ _ _ _ E1 Eerr) as Hd.
      unfold td_obj_done in *. destruct Hd as [Hd|Hd]; [now left|right].
      rewrite (td_objs_frame c ow (key_of ow p) ps _ _ _ _ _ E2); [exact Hd|].
      intros p1 Hin1 Heq. apply Hnotin. rewrite <- Heq. now apply in_map.
  Qed.

  Lemma td_phase_events_in ow ps w w' evs r :
    teardown_phase c idw w ow ps = (w', evs, r) -> Forall (fun e => In (ev_key e) (map (key_of ow) ps)) evs.
  Proof.
    unfold teardown_phase. intros H. pose proof (td_objs_events c _ _ _ _ _ _ _ _ H) as He.
    eapply Forall_impl; [|exact He]. intros e [Hk _]. exact Hk.
  Qed.

  Lemma tp_cons w ow ph rest :
    teardown_phases force w ow (ph :: rest) =
    match teardown_phase c idw w ow (ph_objects ph) with
    | (w1, e1, TdErr) => (w1, e1, TdErr)
    | (w1, e1, TdOk false) => (w1, e1, TdOk false)
    | (w1, e1, TdOk true) => let '(w2, e2, r) := teardown_phases force w1 ow rest in (w2, e1 ++ e2, r)
    end.
  Proof. reflexivity. Qed.

  Lemma tp_frame ow k rphs : forall w w' evs r,
    teardown_phases force w ow rphs = (w', evs, r) ->
    ~ In k (flat_map (phase_keys ow) rphs) -> lookup k (w_store w') = lookup k (w_store w).
  Proof.
    induction rphs as [|x xs IH]; intros w w' evs r H Hk.
    - cbn in H. now injection H as <- _ _.
    - rewrite tp_cons in H.
      destruct (teardown_phase c idw w ow (ph_objects x)) as [[w1 e1] r1] eqn:E1.
      assert (Hf : lookup k (w_store w1) = lookup k (w_store w)).
      { unfold teardown_phase in E1. eapply td_objs_frame; eauto. intros p Hin Heq. apply Hk. cbn. apply in_or_app. left.
        rewrite <- Heq. unfold phase_keys. now apply in_map. }
      destruct r1 as [|[|]]; try (injection H as <- _ _; exact Hf).
      destruct (teardown_phases force w1 ow xs) as [[w2 e2] r2] eqn:E2. injection H as <- _ _.
      rewrite <- Hf. eapply IH; eauto. intros Hin. apply Hk. cbn. apply in_or_app. now right.
  Qed.

  (** C04, order: [rphs] is the phase list in teardown (reverse) order. If any request names an object
      of some phase, every object of every phase torn down before it (i.e. every LATER phase of the
      ObjectSet) is, after the pass, absent or no longer controlled by the ObjectSet (or was excluded by
      the teardown preflight). *)
  Lemma tp_order ow rphs : forall w w' evs r,
    teardown_phases force w ow rphs = (w', evs, r) ->
    NoDup (flat_map (phase_keys ow) rphs) ->
    forall pre ph post, rphs = pre ++ ph :: post ->
      Exists (fun e => In (ev_key e) (phase_keys ow ph)) evs ->
      forall q p, In q pre -> In p (ph_objects q) -> td_obj_done w' ow p.
  Proof.
    induction rphs as [|ph0 rest IH]; intros w w' evs r H Hnd pre ph post Hsplit Hex q p Hq Hp.
    - destruct pre; discriminate.
    - rewrite tp_cons in H.
      destruct (teardown_phase c idw w ow (ph_objects ph0)) as [[w1 e1] r1] eqn:E1.
      cbn in Hnd. pose proof (NoDup_app_r _ _ Hnd) as Hnd_rest. pose proof (NoDup_app_l _ _ Hnd) as Hnd0.
      destruct pre as [|q0 pre']; [contradiction|]. cbn in Hsplit. injection Hsplit as -> ->.
      assert (Hph_in : forall k, In k (phase_keys ow ph) -> In k (flat_map (phase_keys ow) (pre' ++ ph :: post))).
      { intros k Hk. apply in_flat_map. exists ph. split; [apply in_or_app; right; now left|assumption]. }
      assert (He1 : Forall (fun e => ~ In (ev_key e) (phase_keys ow ph)) e1).
      { eapply Forall_impl; [|exact (td_phase_events_in _ _ _ _ _ _ E1)]. cbn. intros e Hin Hin2.
        eapply NoDup_app_disj; [exact Hnd|exact Hin|]. now apply Hph_in. }
      assert (Hno : forall l, l = e1 -> Exists (fun e => In (ev_key e) (phase_keys ow ph)) l -> False).
      { intros l -> Hx. apply Exists_exists in Hx. destruct Hx as (e0 & Hin0 & Hk0). rewrite Forall_forall in He1. now apply (He1 e0 Hin0). }
      destruct r1 as [|[|]].
      + injection H as <- <- <-. exfalso. eapply Hno; eauto.
      + destruct (teardown_phases force w1 ow (pre' ++ ph :: post)) as [[w2 e2] r2] eqn:E2. injection H as <- <- <-.
        assert (Hex2 : Exists (fun e => In (ev_key e) (phase_keys ow ph)) e2).
        { apply Exists_app in Hex. destruct Hex as [Hex|Hex]; [exfalso; eapply Hno; eauto|assumption]. }
        destruct Hq as [<-|Hq].
        * unfold teardown_phase in E1. destruct (td_objs_done ow _ _ _ _ _ E1 Hnd0) as [_ Hall].
          pose proof (Hall p Hp) as Hd. unfold td_obj_done in *. destruct Hd as [Hd|Hd]; [now left|right].
          rewrite (tp_frame ow (key_of ow p) _ _ _ _ _ E2); [exact Hd|].
          eapply NoDup_app_disj; [exact Hnd|]. unfold phase_keys. now apply in_map.
        * eapply (IH _ _ _ _ E2 Hnd_rest pre' ph post eq_refl Hex2 q p Hq Hp).
      + injection H as <- <- <-. exfalso. eapply Hno; eauto.
  Qed.

  (** All phases done: every listed object is absent, not controlled by the ObjectSet, or excluded. *)
  Lemma tp_done ow rphs : forall w w' evs,
    teardown_phases force w ow rphs = (w', evs, TdOk true) ->
    NoDup (flat_map (phase_keys ow) rphs) ->
    forall q p, In q rphs -> In p (ph_objects q) -> td_obj_done w' ow p.
  Proof.
    induction rphs as [|ph0 rest IH]; intros w w' evs H Hnd q p Hq Hp; [contradiction|].
    rewrite tp_cons in H.
    destruct (teardown_phase c idw w ow (ph_objects ph0)) as [[w1 e1] r1] eqn:E1.
    cbn in Hnd. pose proof (NoDup_app_r _ _ Hnd) as Hnd_rest. pose proof (NoDup_app_l _ _ Hnd) as Hnd0.
    destruct r1 as [|[|]]; try discriminate.
    destruct (teardown_phases force w1 ow rest) as [[w2 e2] r2] eqn:E2. injection H as <- _ ->.
    destruct Hq as [<-|Hq]; [|eapply IH; eauto].
    unfold teardown_phase in E1. destruct (td_objs_done ow _ _ _ _ _ E1 Hnd0) as [_ Hall].
    pose proof (Hall p Hp) as Hd. unfold td_obj_done in *. destruct Hd as [Hd|Hd]; [now left|right].
    rewrite (tp_frame ow (key_of ow p) _ _ _ _ _ E2); [exact Hd|].
    eapply NoDup_app_disj; [exact Hnd|]. unfold phase_keys. now apply in_map.
  Qed.
End TeardownOrder.

Section ControllerOf.
  Variable force : bool.
  Let c : cfg := {| c_flavor := FObjectSet; c_force := force |}.

  (** The objects a phase returns are the stored ones, keyed by the phase's objects; when nothing failed
      there is exactly one per listed object, in order. *)
  Lemma rec_objs_actual ow prev ps : forall w acc failed w' evs a f,
    reconcile_objects c idw w ow prev ps acc failed = (w', evs, PhOk a f) ->
    NoDup (map (key_of ow) ps) ->
    exists new, a = acc ++ new /\
      Forall (fun ko => In (fst ko) (map (key_of ow) ps) /\ lookup (fst ko) (w_store w') = Some (snd ko)) new /\
      (f = [] -> map fst new = map (key_of ow) ps).
  Proof.
    induction ps as [|p ps IH]; intros w acc failed w' evs a f H Hnd; cbn in H.
    - injection H as <- <- <- <-. exists []. split; [now rewrite app_nil_r|]. split; [constructor|reflexivity].
    - inversion Hnd as [|? ? Hnotin Hnd']; subst.
      destruct (reconcile_object c idw w ow prev p) as [[w1 e1] r1] eqn:E1.
      destruct r1 as [o| |e]; [| |discriminate].
      + destruct (reconcile_objects c idw w1 ow prev ps _ _) as [[w2 e2] r2] eqn:E2. injection H as <- <- ->.
        destruct (IH _ _ _ _ _ _ _ E2 Hnd') as (new & -> & Hall & Hok).
        exists ((key_of ow p, o) :: new). split; [now rewrite <- app_assoc|]. split.
        * constructor.
          -- cbn. split; [now left|].
             destruct (rec_objs_frame c ow prev (key_of ow p) ps _ _ _ _ _ _ E2) as [Hfr _].
             ++ intros p1 Hin1 Heq. apply Hnotin. rewrite <- Heq. now apply in_map.
             ++ rewrite Hfr. eapply rec_obj_returns_stored; eauto.
          -- eapply Forall_impl; [|exact Hall]. intros ko [Hin Hl]. split; [now right|assumption].
        * intros ->. cbn. f_equal. apply Hok.
          (* nothing failed at all *)
          destruct (rec_objs_failed_witness force ow prev _ _ _ _ _ _ _ _ E2 Hnd') as (extra & Hf & _).
          destruct (if probe_ok (desired_key ow p) o then failed else failed ++ [desired_key ow p]); [|discriminate].
          reflexivity.
      + destruct (reconcile_objects c idw w1 ow prev ps _ _) as [[w2 e2] r2] eqn:E2. injection H as <- <- ->.
        destruct (IH _ _ _ _ _ _ _ E2 Hnd') as (new & -> & Hall & Hok).
        exists new. split; [reflexivity|]. split.
        * eapply Forall_impl; [|exact Hall]. intros ko [Hin Hl]. split; [now right|assumption].
        * intros ->. exfalso.
          destruct (rec_objs_failed_witness force ow prev _ _ _ _ _ _ _ _ E2 Hnd') as (extra & Hf & _).
          destruct failed; discriminate.
  Qed.

  (** What the phase loop reports as controlled. *)
  Definition seen_controlled (w : world) (ow : owner) (k : okey) : Prop :=
    exists o, lookup k (w_store w) = Some o /\ is_controller Native (ow_id ow) o = true.

  Lemma rp_ctrlof_sound ow prev phs : forall w acc w' evs ctrlof fph,
    reconcile_phases force w ow prev phs acc = (w', evs, PROk ctrlof fph) ->
    NoDup (flat_map (phase_keys ow) phs) ->
    exists new, ctrlof = acc ++ new /\
      Forall (fun k => In k (flat_map (phase_keys ow) phs) /\ seen_controlled w' ow k) new.
  Proof.
    induction phs as [|ph rest IH]; intros w acc w' evs ctrlof fph H Hnd.
    - cbn in H. injection H as <- _ <- _. exists []. split; [now rewrite app_nil_r|constructor].
    - rewrite rp_cons in H. cbv zeta in H. fold c in H.
      destruct (reconcile_phase c idw w ow prev (ph_class ph) (ph_objects ph)) as [[w1 e1] r1] eqn:E1.
      cbn in Hnd. pose proof (NoDup_app_r _ _ Hnd) as Hnd_rest. pose proof (NoDup_app_l _ _ Hnd) as Hnd0.
      destruct r1 as [e|vs|actual failed]; [discriminate|discriminate|].
      pose proof E1 as E1'. unfold reconcile_phase in E1'. destruct (flat_map _ (ph_objects ph)); [|discriminate].
      destruct (rec_objs_actual ow prev _ _ _ _ _ _ _ _ E1' Hnd0) as (newa & Ha & Hall & _). cbn in Ha. subst actual.
      set (mine := map fst (filter (fun ko => is_controller Native (ow_id ow) (snd ko)) newa)) in *.
      assert (Hmine : forall wf, (forall k, In k (phase_keys ow ph) -> lookup k (w_store wf) = lookup k (w_store w1)) ->
                Forall (fun k => In k (phase_keys ow ph ++ flat_map (phase_keys ow) rest) /\ seen_controlled wf ow k) mine).
      { intros wf Hfr. subst mine. apply Forall_forall. intros k Hk. apply in_map_iff in Hk. destruct Hk as ([k0 o] & <- & Hin).
        apply filter_In in Hin. destruct Hin as [Hin Hc]. rewrite Forall_forall in Hall. destruct (Hall _ Hin) as [Hkin Hl]. cbn in *.
        split; [apply in_or_app; now left|]. exists o. split; [|assumption]. rewrite Hfr; assumption. }
      destruct failed as [|f fs].
      + destruct (reconcile_phases force w1 ow prev rest _) as [[w2 e2] r2] eqn:E2. injection H as <- _ ->.
        destruct (IH _ _ _ _ _ _ E2 Hnd_rest) as (new & -> & Hnew).
        exists (mine ++ new). split; [now rewrite app_assoc|]. apply Forall_app. split.
        * apply Hmine. intros k Hk. eapply rp_frame; eauto. eapply NoDup_app_disj; eauto.
        * eapply Forall_impl; [|exact Hnew]. intros k [Hin Hs]. split; [apply in_or_app; now right|assumption].
      + injection H as <- _ <- _. exists mine. split; [reflexivity|]. apply Hmine. reflexivity.
  Qed.

  (** Completeness when every phase completed: every listed object that is controlled afterwards is in
      the reported list. *)
  Lemma rp_ctrlof_complete ow prev phs : forall w acc w' evs ctrlof,
    reconcile_phases force w ow prev phs acc = (w', evs, PROk ctrlof None) ->
    NoDup (flat_map (phase_keys ow) phs) ->
    forall k, In k (flat_map (phase_keys ow) phs) -> seen_controlled w' ow k -> In k ctrlof.
  Proof.
    induction phs as [|ph rest IH]; intros w acc w' evs ctrlof H Hnd k Hk Hs; [contradiction|].
    rewrite rp_cons in H. cbv zeta in H. fold c in H.
    destruct (reconcile_phase c idw w ow prev (ph_class ph) (ph_objects ph)) as [[w1 e1] r1] eqn:E1.
    cbn in Hnd, Hk. pose proof (NoDup_app_r _ _ Hnd) as Hnd_rest. pose proof (NoDup_app_l _ _ Hnd) as Hnd0.
    destruct r1 as [e|vs|actual failed]; [discriminate|discriminate|].
    destruct failed as [|f fs]; [|discriminate].
    pose proof E1 as E1'. unfold reconcile_phase in E1'. destruct (flat_map _ (ph_objects ph)); [|discriminate].
    destruct (rec_objs_actual ow prev _ _ _ _ _ _ _ _ E1' Hnd0) as (newa & Ha & Hall & Hok). cbn in Ha. subst actual.
    specialize (Hok eq_refl).
    destruct (reconcile_phases force w1 ow prev rest _) as [[w2 e2] r2] eqn:E2. injection H as <- _ ->.
    destruct (rp_ctrlof_sound ow prev rest _ _ _ _ _ _ E2 Hnd_rest) as (new & Hc & _).
    apply in_app_or in Hk. destruct Hk as [Hk|Hk].
    - (* k belongs to this phase *)
      rewrite Hc. apply in_or_app. left. apply in_or_app. right.
      unfold phase_keys in Hk. rewrite <- Hok in Hk. apply in_map_iff in Hk. destruct Hk as ([k0 o] & Hk0 & Hin). cbn in Hk0. subst k0.
      apply in_map_iff. exists (k, o). split; [reflexivity|]. apply filter_In. split; [assumption|]. cbn.
      destruct Hs as (o' & Hl' & Hc'). rewrite Forall_forall in Hall. destruct (Hall _ Hin) as [Hkin Hl]. cbn in Hl, Hkin.
      assert (lookup k (w_store w2) = lookup k (w_store w1)) as Hfr by (eapply rp_frame; eauto; eapply NoDup_app_disj; eauto).
      rewrite Hfr, Hl in Hl'. injection Hl' as <-. exact Hc'.
    - eapply IH; eauto.
  Qed.
End ControllerOf.

(** * Status derivation (C06) *)
Section Status.
  Lemma ctype_eqb_spec a b : ctype_eqb a b = true <-> a = b.
  Proof. destruct a, b; cbn; split; congruence. Qed.

  Lemma find_set_cond_same cs c : find_cond (set_cond cs c) (cd_type c) = Some c.
  Proof.
    unfold find_cond. induction cs as [|x xs IH]; cbn.
    - assert (ctype_eqb (cd_type c) (cd_type c) = true) as -> by now apply ctype_eqb_spec. reflexivity.
    - destruct (ctype_eqb (cd_type x) (cd_type c)) eqn:E; cbn.
      + assert (ctype_eqb (cd_type c) (cd_type c) = true) as -> by now apply ctype_eqb_spec. reflexivity.
      + rewrite E. exact IH.
  Qed.

  Lemma find_set_cond_other cs c t : cd_type c <> t -> find_cond (set_cond cs c) t = find_cond cs t.
  Proof.
    intros Hne. unfold find_cond. induction cs as [|x xs IH]; cbn.
    - destruct (ctype_eqb (cd_type c) t) eqn:E; [apply ctype_eqb_spec in E; contradiction|reflexivity].
    - destruct (ctype_eqb (cd_type x) (cd_type c)) eqn:E; cbn.
      + apply ctype_eqb_spec in E.
        destruct (ctype_eqb (cd_type c) t) eqn:E1; [apply ctype_eqb_spec in E1; contradiction|].
        destruct (ctype_eqb (cd_type x) t) eqn:E2; [apply ctype_eqb_spec in E2; congruence|]. reflexivity.
      + destruct (ctype_eqb (cd_type x) t); [reflexivity|exact IH].
  Qed.

  Lemma find_remove_cond_other cs t' t : t' <> t -> find_cond (remove_cond cs t') t = find_cond cs t.
  Proof.
    intros Hne. unfold find_cond, remove_cond. induction cs as [|x xs IH]; cbn; [reflexivity|].
    destruct (ctype_eqb (cd_type x) t') eqn:E; cbn.
    - apply ctype_eqb_spec in E. destruct (ctype_eqb (cd_type x) t) eqn:E2; [apply ctype_eqb_spec in E2; congruence|exact IH].
    - destruct (ctype_eqb (cd_type x) t); [reflexivity|exact IH].
  Qed.

  Lemma find_remove_cond_same cs t : find_cond (remove_cond cs t) t = None.
  Proof.
    unfold find_cond, remove_cond. induction cs as [|x xs IH]; cbn; [reflexivity|].
    destruct (ctype_eqb (cd_type x) t) eqn:E; cbn; [exact IH|]. now rewrite E.
  Qed.

  Lemma paused_cond_other m t : t <> CPaused -> find_cond (paused_cond m) t = find_cond (os_conds m) t.
  Proof.
    intros Hne. unfold paused_cond. destruct (lifecycle_eqb (os_life m) LPaused).
    - apply find_set_cond_other. cbn. congruence.
    - apply find_remove_cond_other. congruence.
  Qed.

  (** Available in the computed status: True exactly when no phase failed, always for the generation of
      the object the pass read. *)
  Lemma final_status_available m ctrlof failed :
    exists cd, find_cond (os_conds (final_status m ctrlof failed)) CAvailable = Some cd /\
      cd_gen cd = os_gen m /\
      (cd_status cd = STrue <-> failed = None) /\
      os_ctrlof (final_status m ctrlof failed) = ctrlof.
  Proof.
    unfold final_status. cbn [os_conds set_conds os_ctrlof].
    rewrite paused_cond_other by discriminate. cbn [os_conds set_conds].
    destruct failed as [n|].
    - rewrite (find_set_cond_same _ (mk_cond _ CAvailable SFalse RProbeFailure)).
      eexists. split; [reflexivity|]. cbn. repeat split; try discriminate.
    - match goal with |- context [if ?b then _ else _] => destruct b end.
      + rewrite find_set_cond_other by (cbn; discriminate).
        rewrite (find_set_cond_same _ (mk_cond _ CAvailable STrue RAvailable)).
        eexists. split; [reflexivity|]. cbn. repeat split; reflexivity.
      + rewrite (find_set_cond_same _ (mk_cond _ CAvailable STrue RAvailable)).
        eexists. split; [reflexivity|]. cbn. repeat split; reflexivity.
  Qed.

  (** Succeeded is never withdrawn by the status computation, and is newly set only while Available and
      not in transition. *)
  Lemma final_status_succeeded m ctrlof failed :
    (cond_true (os_conds m) CSucceeded = true -> cond_true (os_conds (final_status m ctrlof failed)) CSucceeded = true) /\
    (cond_true (os_conds m) CSucceeded = false -> cond_true (os_conds (final_status m ctrlof failed)) CSucceeded = true ->
       failed = None /\ in_transition (set_ctrlof m ctrlof) ctrlof = false).
  Proof.
    unfold final_status, cond_true. cbn [os_conds set_conds].
    rewrite paused_cond_other by discriminate. cbn [os_conds set_conds].
    set (m1 := set_ctrlof m ctrlof).
    set (intr := in_transition m1 ctrlof).
    assert (Hcs1 : forall t, t <> CInTransition ->
       find_cond (if intr then set_cond (os_conds m1) (mk_cond m1 CInTransition STrue RInTransition) else remove_cond (os_conds m1) CInTransition) t
       = find_cond (os_conds m) t).
    { intros t Ht. destruct intr; [apply find_set_cond_other; cbn; congruence|apply find_remove_cond_other; congruence]. }
    destruct failed as [n|].
    - rewrite find_set_cond_other by (cbn; discriminate). rewrite Hcs1 by discriminate.
      split; [auto|]. intros H1 H2. rewrite H1 in H2. discriminate.
    - match goal with |- context [if ?b then _ else _] => destruct b eqn:Eb end.
      + rewrite (find_set_cond_same _ (mk_cond m1 CSucceeded STrue RRolloutSuccess)). cbn.
        split; [auto|]. intros _ _. apply andb_true_iff in Eb. destruct Eb as [_ Eb]. apply negb_true_iff in Eb. auto.
      + rewrite find_set_cond_other by (cbn; discriminate). rewrite Hcs1 by discriminate.
        split; [auto|]. intros H1 H2. rewrite H1 in H2. discriminate.
  Qed.

  Lemma fold_remove_all_empty ctrlof : forall all,
    fold_left (fun acc c => remove_all_key c acc) ctrlof all = [] -> forall k, In k all -> In k ctrlof.
  Proof.
    induction ctrlof as [|c cs IH]; intros all H k Hk; cbn in H.
    - subst all. contradiction.
    - destruct (okey_dec k c) as [->|Hne]; [now left|]. right. apply (IH _ H).
      unfold remove_all_key. apply filter_In. split; [assumption|]. apply negb_true_iff. now apply okey_eqb_neq.
  Qed.

  Lemma dedup_keys_in l k : In k l -> In k (dedup_keys l).
  Proof.
    induction l as [|x xs IH]; intros Hin; [contradiction|]. cbn.
    destruct (existsb (okey_eqb x) xs) eqn:E.
    - destruct Hin as [<-|Hin]; [|now apply IH]. apply existsb_exists in E. destruct E as (y & Hy & Ey).
      apply okey_eqb_spec in Ey. subst y. now apply IH.
    - destruct Hin as [<-|Hin]; [now left|right; now apply IH].
  Qed.

  (** InTransition is cleared only if every object of the spec is in the reported controllerOf. *)
  Lemma not_in_transition_all_controlled m ctrlof :
    in_transition m ctrlof = false -> os_life m <> LArchived ->
    forall p, In p (all_objects m) -> In (spec_key m p) ctrlof.
  Proof.
    unfold in_transition. intros H Hl p Hp.
    destruct (lifecycle_eqb (os_life m) LArchived) eqn:E; [destruct (os_life m); try discriminate; congruence|].
    apply negb_false_iff in H. unfold is_nil in H.
    destruct (fold_left _ ctrlof _) eqn:Ef; [|discriminate].
    eapply fold_remove_all_empty; eauto. apply dedup_keys_in. now apply in_map.
  Qed.

  Lemma final_status_in_transition m ctrlof failed :
    find_cond (os_conds (final_status m ctrlof failed)) CInTransition = None ->
    in_transition (set_ctrlof m ctrlof) ctrlof = false.
  Proof.
    unfold final_status. cbn [os_conds set_conds]. rewrite paused_cond_other by discriminate. cbn [os_conds set_conds].
    destruct (in_transition (set_ctrlof m ctrlof) ctrlof) eqn:E; [|reflexivity].
    intros H. exfalso.
    assert (Hin : find_cond (set_cond (os_conds (set_ctrlof m ctrlof)) (mk_cond (set_ctrlof m ctrlof) CInTransition STrue RInTransition)) CInTransition <> None).
    { rewrite (find_set_cond_same _ (mk_cond _ CInTransition STrue RInTransition)). discriminate. }
    destruct failed.
    - rewrite find_set_cond_other in H by (cbn; discriminate). contradiction.
    - match type of H with context [if ?b then _ else _] => destruct b end.
      + rewrite !find_set_cond_other in H by (cbn; discriminate). contradiction.
      + rewrite find_set_cond_other in H by (cbn; discriminate). contradiction.
  Qed.
End Status.

(** * Inversion of one active pass *)
Section PassInversion.
  Variable force : bool.

  Definition member_evs (evs : list sev) : list ev :=
    flat_map (fun e => match e with SMember x => [x] | SMeta _ => [] end) evs.

  Lemma member_evs_app a b : member_evs (a ++ b) = member_evs a ++ member_evs b.
  Proof. unfold member_evs. now rewrite flat_map_app. Qed.

  Lemma member_evs_members l : member_evs (map SMember l) = l.
  Proof. induction l as [|x xs IH]; [reflexivity|]. cbn [map]. unfold member_evs in *. cbn [flat_map app]. now rewrite IH. Qed.

  Definition is_local (ph : phase) : bool := negb (ph_class ph).
  Definition local_phases (s : oset) : list phase := filter is_local (os_phases s).

  Lemma update_status_store sw m sw' m' ok :
    update_status sw m = (sw', m', ok) -> w_store (sw_w sw') = w_store (sw_w sw).
  Proof.
    unfold update_status. destruct (find_set _ _ _ _) as [st|]; [|intros H; now injection H as <- _ _].
    destruct (negb _); [intros H; now injection H as <- _ _|].
    destruct (status_eqb st m); intros H; injection H as <- _ _; reflexivity.
  Qed.

  Lemma patch_finalizer_store sw m fin sw' r :
    patch_finalizer sw m fin = (sw', r) -> w_store (sw_w sw') = w_store (sw_w sw).
  Proof.
    unfold patch_finalizer. destruct (find_set _ _ _ _) as [st|]; [|intros H; now injection H as <- _].
    destruct (negb (os_rv st =? os_rv m)); [intros H; now injection H as <- _|].
    destruct (negb fin && os_deleting st && negb (os_orphan st)); intros H; injection H as <- _; reflexivity.
  Qed.

  (** Facts about the in-memory copy that stay fixed through finalizer and revision handling. *)
  Definition same_spec (a b : oset) : Prop :=
    os_id a = os_id b /\ os_phases a = os_phases b /\ os_life a = os_life b /\ os_gen a = os_gen b /\
    os_pkg a = os_pkg b /\ os_conds a = os_conds b /\ os_prev a = os_prev b.

  Lemma patch_finalizer_same sw m fin sw' m' :
    find_set (sw_sets sw) (oi_kind (os_id m)) (oi_ns (os_id m)) (oi_name (os_id m)) = Some m ->
    patch_finalizer sw m fin = (sw', Some m') -> same_spec m' m.
  Proof.
    intros Hf. unfold patch_finalizer. rewrite Hf. rewrite N.eqb_refl. cbn [negb].
    destruct (negb fin && os_deleting m && negb (os_orphan m)); intros H; injection H as _ <-; repeat split; reflexivity.
  Qed.

  Lemma update_status_same sw m sw' m' ok :
    find_set (sw_sets sw) (oi_kind (os_id m)) (oi_ns (os_id m)) (oi_name (os_id m)) = Some m ->
    forall m1, same_spec m1 m -> os_rv m1 = os_rv m ->
    update_status sw m1 = (sw', m', ok) -> same_spec m' m.
  Proof.
    intros Hf m1 Hs Hrv. unfold update_status.
    destruct Hs as (Hid & Hph & Hl & Hg & Hp & Hc & Hpr). rewrite Hid, Hf.
    destruct (negb (os_rv m =? os_rv m1)); [intros H; injection H as _ <- _; repeat split; assumption|].
    destruct (status_eqb m m1); intros H; injection H as _ <- _; repeat split; try assumption; reflexivity.
  Qed.

  Definition status_keeps (mem0 : oset) (e : sev) : Prop :=
    match e with
    | SMeta (MStatus _ conds _ _ fph _) =>
        fph = None /\
        (find_cond conds CAvailable = find_cond (os_conds mem0) CAvailable \/
         exists cd, find_cond conds CAvailable = Some cd /\ cd_status cd = SFalse) /\
        find_cond conds CSucceeded = find_cond (os_conds mem0) CSucceeded
    | SMeta (MFinalizer _ _) => True
    | SMember _ => False
    end.

  Lemma revision_pass_inv sw mem sw1 evs1 mem1 rr :
    find_set (sw_sets sw) (oi_kind (os_id mem)) (oi_ns (os_id mem)) (oi_name (os_id mem)) = Some mem ->
    revision_pass sw mem = (sw1, evs1, mem1, rr) ->
    same_spec mem1 mem /\ w_store (sw_w sw1) = w_store (sw_w sw) /\ Forall (status_keeps mem) evs1.
  Proof.
    intros Hf. unfold revision_pass.
    destruct (negb (Z.eqb (os_revision mem) 0)); [intros H; injection H as <- <- <- _; repeat split; constructor|].
    destruct (os_prev mem) eqn:Epv; [intros H; injection H as <- <- <- _; repeat split; try constructor; auto|].
    destruct (scan_prev _ _ _ _) as [[latest|]|].
    - destruct (update_status sw (set_revision mem (latest + 1))) as [[sw2 m2] ok] eqn:Eu.
      intros H; injection H as <- <- <- _. split; [|split].
      + eapply (update_status_same _ _ _ _ _ Hf (set_revision mem (latest + 1))); eauto; repeat split; auto.
      + eapply update_status_store; eauto.
      + constructor; [|constructor]. cbn. split; [reflexivity|]. split; [now left|reflexivity].
    - intros H; injection H as <- <- <- _; repeat split; constructor.
    - intros H; injection H as <- <- <- _; repeat split; constructor.
  Qed.

  (** The outcome of an active pass, as far as member objects and the final status are concerned. *)
  Definition reached_phases (sw : sworld) (mem0 : oset) (sw' : sworld) (evs : list sev) (r : sres) : Prop :=
    exists mem1 w0 sets1 w2 pr pre,
      os_id mem1 = os_id mem0 /\ os_phases mem1 = os_phases mem0 /\ os_life mem1 = os_life mem0 /\
      os_gen mem1 = os_gen mem0 /\ os_conds mem1 = os_conds mem0 /\
      w_store w0 = w_store (sw_w sw) /\ dup_count [] (map (spec_key mem1) (all_objects mem1)) = O /\
      reconcile_phases force w0 (as_owner mem1) (lookup_prev sets1 mem1) (local_phases mem1) [] = (w2, member_evs evs, pr) /\
      w_store (sw_w sw') = w_store w2 /\ member_evs pre = [] /\
      match pr with
      | PROk ctrlof failed => exists ok, evs = pre ++ map SMember (member_evs evs) ++ [status_ev_f (final_status mem1 ctrlof failed) failed ok]
      | PRPreflight => exists ok m', evs = pre ++ map SMember (member_evs evs) ++ [status_ev m' ok] /\
                                     find_cond (os_conds m') CAvailable = Some (mk_cond mem1 CAvailable SFalse RPreflightError)
      | PRErr e =>
          if match e with ErrNotPrevious | ErrRevCollision => true | _ => false end
          then exists ok m', evs = pre ++ map SMember (member_evs evs) ++ [status_ev m' ok] /\
                             find_cond (os_conds m') CAvailable = Some (mk_cond mem1 CAvailable SFalse RCollisionDetected)
          else evs = pre ++ map SMember (member_evs evs) /\ r = SError
      end.

  Definition stopped_early (sw : sworld) (mem0 : oset) (sw' : sworld) (evs : list sev) : Prop :=
    w_store (sw_w sw') = w_store (sw_w sw) /\ Forall (status_keeps mem0) evs.

  Lemma status_keeps_members mem0 evs : Forall (status_keeps mem0) evs -> member_evs evs = [].
  Proof.
    induction evs as [|e evs IH]; intros H; [reflexivity|]. inversion H as [|? ? He Hr]; subst.
    destruct e as [x|m]; [contradiction|]. cbn. now apply IH.
  Qed.

  Lemma status_keeps_same a b e :
    find_cond (os_conds a) CAvailable = find_cond (os_conds b) CAvailable ->
    find_cond (os_conds a) CSucceeded = find_cond (os_conds b) CSucceeded ->
    status_keeps a e -> status_keeps b e.
  Proof. intros H1 H2. destruct e as [x|[|]]; cbn; auto. intros (Hf & Ha & Hs). rewrite <- H1, <- H2. auto. Qed.

  Lemma active_body_inv sw0 evs0 mem mem0 sw' evs r :
    find_set (sw_sets sw0) (oi_kind (os_id mem)) (oi_ns (os_id mem)) (oi_name (os_id mem)) = Some mem ->
    same_spec mem mem0 -> Forall (status_keeps mem0) evs0 ->
    active_body force sw0 evs0 mem = (sw', evs, r) ->
    (w_store (sw_w sw') = w_store (sw_w sw0) /\ Forall (status_keeps mem0) evs) \/
    exists mem1 w0 sets1 w2 pr pre,
      same_spec mem1 mem0 /\
      w_store w0 = w_store (sw_w sw0) /\ dup_count [] (map (spec_key mem1) (all_objects mem1)) = O /\
      reconcile_phases force w0 (as_owner mem1) (lookup_prev sets1 mem1) (local_phases mem1) [] = (w2, member_evs evs, pr) /\
      w_store (sw_w sw') = w_store w2 /\ Forall (status_keeps mem0) pre /\
      match pr with
      | PROk ctrlof failed => exists ok, evs = pre ++ map SMember (member_evs evs) ++ [status_ev_f (final_status mem1 ctrlof failed) failed ok] /\ r = (if ok then SDone false else SError)
      | PRPreflight => exists ok m', evs = pre ++ map SMember (member_evs evs) ++ [status_ev m' ok] /\
                                     find_cond (os_conds m') CAvailable = Some (mk_cond mem1 CAvailable SFalse RPreflightError) /\
                                     r = (if ok then SDone true else SError)
      | PRErr e =>
          if match e with ErrNotPrevious | ErrRevCollision => true | _ => false end
          then exists ok m', evs = pre ++ map SMember (member_evs evs) ++ [status_ev m' ok] /\
                             find_cond (os_conds m') CAvailable = Some (mk_cond mem1 CAvailable SFalse RCollisionDetected) /\
                             r = (if ok then SDone true else SError)
          else evs = pre ++ map SMember (member_evs evs) /\ r = SError
      end.
  Proof.
    intros Hf Hs0 Hev0. unfold active_body.
    destruct (revision_pass sw0 mem) as [[[sw1 evs1] mem1] rr] eqn:Erev.
    destruct (revision_pass_inv _ _ _ _ _ _ Hf Erev) as (Hs1 & Hst1 & Hev1).
    assert (Hs10 : same_spec mem1 mem0).
    { destruct Hs1 as (?&?&?&?&?&?&?), Hs0 as (?&?&?&?&?&?&?). repeat split; congruence. }
    assert (Hev1' : Forall (status_keeps mem0) evs1).
    { eapply Forall_impl; [|exact Hev1]. intros e. apply status_keeps_same; destruct Hs0 as (?&?&?&?&?&Hc&?); now rewrite Hc. }
    assert (Hpre : Forall (status_keeps mem0) (evs0 ++ evs1)) by (apply Forall_app; auto).
    assert (Hcond1 : os_conds mem1 = os_conds mem0) by (destruct Hs10 as (?&?&?&?&?&?&?); assumption).
    assert (Hfail : forall sw2 evsx rs swf evsf rf,
              (let m' := set_conds mem1 (set_cond (os_conds mem1) (mk_cond mem1 CAvailable SFalse rs)) in
               let '(sw'', _, ok) := update_status sw2 m' in
               (sw'', evsx ++ [status_ev m' ok], if ok then SDone true else SError)) = (swf, evsf, rf) ->
              w_store (sw_w swf) = w_store (sw_w sw2) /\
              exists ok m', evsf = evsx ++ [status_ev m' ok] /\
                find_cond (os_conds m') CAvailable = Some (mk_cond mem1 CAvailable SFalse rs) /\
                find_cond (os_conds m') CSucceeded = find_cond (os_conds mem0) CSucceeded /\
                rf = (if ok then SDone true else SError)).
    { intros sw2 evsx rs swf evsf rf. cbv zeta.
      destruct (update_status sw2 _) as [[sw3 m3] ok] eqn:Eu. intros H. injection H as <- <- <-.
      split; [eapply update_status_store; eauto|]. exists ok. eexists. split; [reflexivity|]. cbn [os_conds set_conds].
      split; [apply (find_set_cond_same _ (mk_cond mem1 CAvailable SFalse rs))|].
      split; [rewrite find_set_cond_other by (cbn; discriminate); now rewrite Hcond1|]. reflexivity. }
    destruct rr.
    - (* RevGo *)
      destruct (Nat.ltb 0 (dup_count [] (map (spec_key mem1) (all_objects mem1)))) eqn:Edup.
      + intros H. destruct (Hfail _ _ _ _ _ _ H) as (Hst & ok & m' & -> & Ha & Hsu & _).
        left. split; [congruence|]. apply Forall_app. split; [assumption|]. constructor; [|constructor].
        cbn. split; [reflexivity|]. split; [right; eexists; split; [exact Ha|reflexivity]|assumption].
      + apply Nat.ltb_ge in Edup. assert (Hdup : dup_count [] (map (spec_key mem1) (all_objects mem1)) = O) by lia.
        destruct (reconcile_phases force (sw_w sw1) (as_owner mem1) _ _ []) as [[w2 pevs] pr] eqn:Erp.
        intros H. right.
        assert (Hmem : forall tail, member_evs tail = [] -> member_evs ((evs0 ++ evs1 ++ map SMember pevs) ++ tail) = pevs).
        { intros tail Ht. rewrite !member_evs_app, Ht, member_evs_members, (status_keeps_members _ _ Hev0), (status_keeps_members _ _ Hev1'). cbn. now rewrite app_nil_r. }
        destruct pr as [e| |ctrlof failed].
        * destruct (match e with ErrNotPrevious | ErrRevCollision => true | _ => false end) eqn:Ecoll.
          -- assert (H' : (let m' := set_conds mem1 (set_cond (os_conds mem1) (mk_cond mem1 CAvailable SFalse RCollisionDetected)) in
                          let '(sw'', _, ok) := update_status (with_w sw1 w2) m' in
                          (sw'', (evs0 ++ evs1 ++ map SMember pevs) ++ [status_ev m' ok], if ok then SDone true else SError)) = (sw', evs, r))
               by (destruct e; try discriminate; exact H).
             destruct (Hfail _ _ _ _ _ _ H') as (Hst & ok & m' & -> & Ha & Hsu & ->).
             exists mem1, (sw_w sw1), (sw_sets sw1), w2, (PRErr e), (evs0 ++ evs1).
             rewrite (Hmem [status_ev m' ok] eq_refl). split; [exact Hs10|]. repeat split; auto.
             rewrite Ecoll. exists ok, m'. rewrite <- !app_assoc. auto.
          -- assert (H' : (with_w sw1 w2, evs0 ++ evs1 ++ map SMember pevs, SError) = (sw', evs, r))
               by (destruct e; try discriminate; exact H).
             injection H' as <- <- <-.
             exists mem1, (sw_w sw1), (sw_sets sw1), w2, (PRErr e), (evs0 ++ evs1).
             replace (evs0 ++ evs1 ++ map SMember pevs) with ((evs0 ++ evs1 ++ map SMember pevs) ++ []) by apply app_nil_r.
             rewrite (Hmem [] eq_refl). rewrite app_nil_r. split; [exact Hs10|]. repeat split; auto.
             rewrite Ecoll. rewrite <- app_assoc. auto.
        * destruct (Hfail _ _ _ _ _ _ H) as (Hst & ok & m' & -> & Ha & Hsu & ->).
          exists mem1, (sw_w sw1), (sw_sets sw1), w2, PRPreflight, (evs0 ++ evs1).
          rewrite (Hmem [status_ev m' ok] eq_refl). split; [exact Hs10|]. repeat split; auto.
          exists ok, m'. rewrite <- !app_assoc. auto.
        * destruct (update_status (with_w sw1 w2) (final_status mem1 ctrlof failed)) as [[sw3 m3] ok] eqn:Eu.
          injection H as <- <- <-.
          exists mem1, (sw_w sw1), (sw_sets sw1), w2, (PROk ctrlof failed), (evs0 ++ evs1).
          rewrite (Hmem [status_ev_f (final_status mem1 ctrlof failed) failed ok] eq_refl).
          split; [exact Hs10|]. repeat split; auto.
          -- rewrite (update_status_store _ _ _ _ _ Eu). reflexivity.
          -- exists ok. rewrite <- !app_assoc. auto.
    - (* RevRequeue *)
      destruct (update_status sw1 _) as [[sw2 m2] ok] eqn:Eu. intros H. injection H as <- <- <-.
      left. split; [rewrite (update_status_store _ _ _ _ _ Eu); exact Hst1|].
      rewrite app_assoc. apply Forall_app. split; [assumption|]. constructor; [|constructor].
      unfold status_ev, status_ev_f, status_keeps. cbn [os_conds set_conds]. rewrite !paused_cond_other by discriminate. rewrite Hcond1. auto.
    - (* RevErr *)
      intros H. injection H as <- <- <-. left. split; [exact Hst1|assumption].
  Qed.
End PassInversion.

(** * Theorems about GenericObjectSetController.Reconcile *)
Section SetLevel.
  Variable force : bool.

  Lemma find_set_id sets k ns n mem : find_set sets k ns n = Some mem ->
    oi_kind (os_id mem) = k /\ oi_ns (os_id mem) = ns /\ oi_name (os_id mem) = n.
  Proof.
    unfold find_set. intros H. apply find_some in H. destruct H as [_ H].
    apply andb_true_iff in H. destruct H as [H H3]. apply andb_true_iff in H. destruct H as [H1 H2].
    apply N.eqb_eq in H1, H2, H3. auto.
  Qed.

  Lemma find_put_set sets s st :
    find_set sets (oi_kind (os_id s)) (oi_ns (os_id s)) (oi_name (os_id s)) = Some st ->
    find_set (put_set sets s) (oi_kind (os_id s)) (oi_ns (os_id s)) (oi_name (os_id s)) = Some s.
  Proof.
    unfold find_set. induction sets as [|x xs IH]; cbn; [discriminate|].
    unfold oid_eqb.
    destruct ((oi_kind (os_id x) =? oi_kind (os_id s)) && (oi_ns (os_id x) =? oi_ns (os_id s)) && (oi_name (os_id x) =? oi_name (os_id s))) eqn:E.
    - intros _. cbn. now rewrite !N.eqb_refl.
    - intros H. cbn. rewrite E. now apply IH.
  Qed.

  Definition is_active (mem : oset) : Prop :=
    cond_true (os_conds mem) CArchived = false /\ os_deleting mem = false /\ os_life mem <> LArchived.

  Lemma same_spec_refl m : same_spec m m.
  Proof. repeat split. Qed.

  (** An active pass either stops before the phase loop (no member request, stored Available/Succeeded
      conditions re-sent unchanged or Available=False) or reaches the phase loop as described by
      [active_body_inv]. *)
  Lemma objectset_pass_active sw k ns n mem0 sw' evs r :
    find_set (sw_sets sw) k ns n = Some mem0 -> is_active mem0 ->
    objectset_pass force sw k ns n = (sw', evs, r) ->
    (w_store (sw_w sw') = w_store (sw_w sw) /\ Forall (status_keeps mem0) evs) \/
    exists mem1 w0 sets1 w2 pr pre,
      same_spec mem1 mem0 /\
      w_store w0 = w_store (sw_w sw) /\ dup_count [] (map (spec_key mem1) (all_objects mem1)) = O /\
      reconcile_phases force w0 (as_owner mem1) (lookup_prev sets1 mem1) (local_phases mem1) [] = (w2, member_evs evs, pr) /\
      w_store (sw_w sw') = w_store w2 /\ Forall (status_keeps mem0) pre /\
      match pr with
      | PROk ctrlof failed => exists ok, evs = pre ++ map SMember (member_evs evs) ++ [status_ev_f (final_status mem1 ctrlof failed) failed ok] /\ r = (if ok then SDone false else SError)
      | PRPreflight => exists ok m', evs = pre ++ map SMember (member_evs evs) ++ [status_ev m' ok] /\
                                     find_cond (os_conds m') CAvailable = Some (mk_cond mem1 CAvailable SFalse RPreflightError) /\
                                     r = (if ok then SDone true else SError)
      | PRErr e =>
          if match e with ErrNotPrevious | ErrRevCollision => true | _ => false end
          then exists ok m', evs = pre ++ map SMember (member_evs evs) ++ [status_ev m' ok] /\
                             find_cond (os_conds m') CAvailable = Some (mk_cond mem1 CAvailable SFalse RCollisionDetected) /\
                             r = (if ok then SDone true else SError)
          else evs = pre ++ map SMember (member_evs evs) /\ r = SError
      end.
  Proof.
    intros Hfind (Harch & Hdel & Hlife). unfold objectset_pass. rewrite Hfind, Harch, Hdel.
    assert (lifecycle_eqb (os_life mem0) LArchived = false) as -> by (destruct (os_life mem0); try reflexivity; congruence).
    cbn [orb]. unfold active_pass.
    destruct (find_set_id _ _ _ _ _ Hfind) as (Hk & Hns & Hn).
    assert (Hf0 : find_set (sw_sets sw) (oi_kind (os_id mem0)) (oi_ns (os_id mem0)) (oi_name (os_id mem0)) = Some mem0) by now rewrite Hk, Hns, Hn.
    destruct (os_fin mem0).
    - intros H. exact (active_body_inv force sw [] mem0 mem0 sw' evs r Hf0 (same_spec_refl _) (Forall_nil _) H).
    - destruct (patch_finalizer sw mem0 true) as [sw0 [m|]] eqn:Ep.
      + pose proof (patch_finalizer_store _ _ _ _ _ Ep) as Hst.
        pose proof (patch_finalizer_same _ _ _ _ _ Hf0 Ep) as Hsm.
        assert (Hfm : find_set (sw_sets sw0) (oi_kind (os_id m)) (oi_ns (os_id m)) (oi_name (os_id m)) = Some m).
        { unfold patch_finalizer in Ep. rewrite Hf0, N.eqb_refl in Ep. cbn in Ep. injection Ep as <- <-. cbn [sw_sets os_id set_fin].
          apply (find_put_set (sw_sets sw) (set_fin mem0 true (w_rv (sw_w sw))) mem0). exact Hf0. }
        intros H.
        assert (Hev0 : Forall (status_keeps mem0) [SMeta (MFinalizer true true)]) by (constructor; [exact I|constructor]).
        destruct (active_body_inv force sw0 _ m mem0 sw' evs r Hfm Hsm Hev0 H) as [[Hs He]|Hr].
        * left. split; [congruence|assumption].
        * right. destruct Hr as (mem1 & w0 & sets1 & w2 & pr & pre & H1 & H2 & rest). exists mem1, w0, sets1, w2, pr, pre.
          split; [assumption|]. split; [congruence|exact rest].
      + intros H. injection H as <- <- <-. left. split; [eapply patch_finalizer_store; eauto|].
        constructor; [exact I|constructor].
  Qed.

  (** Every phase completed. *)
  Lemma rp_all_ok ow prev phs : forall w acc w' evs ctrlof,
    reconcile_phases force w ow prev phs acc = (w', evs, PROk ctrlof None) ->
    NoDup (flat_map (phase_keys ow) phs) -> forall q, In q phs -> phase_ok w' ow q.
  Proof.
    induction phs as [|ph rest IH]; intros w acc w' evs ctrlof H Hnd q Hq; [contradiction|].
    rewrite rp_cons in H. cbv zeta in H.
    destruct (reconcile_phase _ idw w ow prev (ph_class ph) (ph_objects ph)) as [[w1 e1] r1] eqn:E1.
    cbn in Hnd. pose proof (NoDup_app_r _ _ Hnd) as Hnd_rest. pose proof (NoDup_app_l _ _ Hnd) as Hnd0.
    destruct r1 as [e|vs|actual failed]; [discriminate|discriminate|].
    destruct failed as [|f fs]; [|discriminate].
    destruct (reconcile_phases force w1 ow prev rest _) as [[w2 e2] r2] eqn:E2. injection H as <- _ ->.
    destruct Hq as [<-|Hq]; [|eapply IH; eauto].
    unfold reconcile_phase in E1. destruct (flat_map _ (ph_objects ph)); [|discriminate].
    destruct (rec_objs_ok_present force ow prev _ _ _ _ _ _ _ E1 Hnd0) as [_ Hall].
    intros p Hp. destruct (Hall p Hp) as (o & Ho & Hpr). exists o. split; [|assumption]. rewrite <- Ho.
    eapply rp_frame; eauto. eapply NoDup_app_disj; [exact Hnd|]. unfold phase_keys. now apply in_map.
  Qed.

  Definition desired_keys_nodup (mem : oset) : Prop :=
    NoDup (flat_map (phase_keys (as_owner mem)) (local_phases mem)).

  Lemma as_owner_keys m1 m0 : same_spec m1 m0 ->
    local_phases m1 = local_phases m0 /\ (forall p, key_of (as_owner m1) p = key_of (as_owner m0) p) /\
    ow_paused (as_owner m1) = ow_paused (as_owner m0) /\ ow_id (as_owner m1) = ow_id (as_owner m0).
  Proof.
    intros (Hid & Hph & Hl & _). unfold local_phases, key_of, desired_key, as_owner. cbn. rewrite Hid, Hph, Hl. auto.
  Qed.

  Lemma phase_keys_same m1 m0 : same_spec m1 m0 -> forall ph, phase_keys (as_owner m1) ph = phase_keys (as_owner m0) ph.
  Proof. intros Hs ph. destruct (as_owner_keys _ _ Hs) as (_ & Hk & _). unfold phase_keys. apply map_ext. exact Hk. Qed.

  Lemma nodup_same m1 m0 : same_spec m1 m0 -> desired_keys_nodup m0 -> desired_keys_nodup m1.
  Proof.
    intros Hs. unfold desired_keys_nodup. destruct (as_owner_keys _ _ Hs) as (Hl & _). rewrite Hl.
    intros H. erewrite flat_map_ext; [exact H|]. intros ph. now apply phase_keys_same.
  Qed.

  (** C03 for the controller: if any request of an active pass names an object of a phase, all objects of
      all earlier phases are present afterwards and pass the availability probe. *)
  Theorem C03_rollout_gated sw k ns n mem0 sw' evs r :
    find_set (sw_sets sw) k ns n = Some mem0 -> is_active mem0 -> desired_keys_nodup mem0 ->
    objectset_pass force sw k ns n = (sw', evs, r) ->
    forall pre ph post, local_phases mem0 = pre ++ ph :: post ->
      Exists (fun e => In (ev_key e) (phase_keys (as_owner mem0) ph)) (member_evs evs) ->
      forall q, In q pre -> phase_ok (sw_w sw') (as_owner mem0) q.
  Proof.
    intros Hfind Hact Hnd H pre ph post Hsplit Hex q Hq.
    destruct (objectset_pass_active _ _ _ _ _ _ _ _ Hfind Hact H) as [[_ Hkeep]|Hr].
    - rewrite (status_keeps_members _ _ Hkeep) in Hex. inversion Hex.
    - destruct Hr as (mem1 & w0 & sets1 & w2 & pr & pre0 & Hs & Hw0 & _ & Hrp & Hw2 & _).
      destruct (as_owner_keys _ _ Hs) as (Hl & Hk & _).
      assert (Hpo : forall w, phase_ok w (as_owner mem1) q -> phase_ok w (as_owner mem0) q).
      { intros w Hp p Hin. destruct (Hp p Hin) as (o & Ho & Hpr). exists o. rewrite <- Hk. auto. }
      apply Hpo. intros p Hin. 
      assert (Hg := rp_gate force (as_owner mem1) _ _ _ _ _ _ _ Hrp (nodup_same _ _ Hs Hnd) pre ph post).
      rewrite Hl in Hg. specialize (Hg Hsplit).
      rewrite (phase_keys_same _ _ Hs) in Hg. specialize (Hg Hex q Hq p Hin).
      destruct Hg as (o & Ho & Hpr). exists o. unfold phase_ok, obj_ok. rewrite Hw2. auto.
  Qed.

  (** C09: a paused (not deleted, not archived) ObjectSet sends no request for any member, and its store
      of members is unchanged. *)
  Theorem C09_paused_hands_off sw k ns n mem0 sw' evs r :
    find_set (sw_sets sw) k ns n = Some mem0 -> is_active mem0 -> os_life mem0 = LPaused ->
    objectset_pass force sw k ns n = (sw', evs, r) ->
    member_evs evs = [] /\ w_store (sw_w sw') = w_store (sw_w sw).
  Proof.
    intros Hfind Hact Hp H.
    destruct (objectset_pass_active _ _ _ _ _ _ _ _ Hfind Hact H) as [[Hst Hkeep]|Hr].
    - split; [now apply (status_keeps_members mem0)|assumption].
    - destruct Hr as (mem1 & w0 & sets1 & w2 & pr & pre0 & Hs & Hw0 & _ & Hrp & Hw2 & _).
      assert (Hpa : ow_paused (as_owner mem1) = true).
      { destruct Hs as (_ & _ & Hl & _). unfold as_owner. cbn. now rewrite Hl, Hp. }
      destruct (rp_paused force _ _ _ _ _ _ _ _ Hpa Hrp) as [-> ->]. split; [reflexivity|congruence].
  Qed.

  (** C11: an ObjectSet that lists the same object twice (as written) sends no request for any member. *)
  Theorem C11_duplicate_writes_nothing sw k ns n mem0 sw' evs r :
    find_set (sw_sets sw) k ns n = Some mem0 -> is_active mem0 -> dup_count [] (map (spec_key mem0) (all_objects mem0)) <> O ->
    objectset_pass force sw k ns n = (sw', evs, r) ->
    member_evs evs = [] /\ w_store (sw_w sw') = w_store (sw_w sw).
  Proof.
    intros Hfind Hact Hd H.
    destruct (objectset_pass_active _ _ _ _ _ _ _ _ Hfind Hact H) as [[Hst Hkeep]|Hr].
    - split; [now apply (status_keeps_members mem0)|assumption].
    - destruct Hr as (mem1 & w0 & sets1 & w2 & pr & pre0 & Hs & _ & Hdup & _). exfalso. apply Hd.
      destruct Hs as (Hid & Hph & _).
      assert (Heq : map (spec_key mem0) (all_objects mem0) = map (spec_key mem1) (all_objects mem1)).
      { unfold all_objects. rewrite Hph. apply map_ext. intros p. unfold spec_key, desired_key, as_owner. cbn. now rewrite Hid. }
      now rewrite Heq.
  Qed.

  (** C06: Available=True is newly written only for the generation the pass read, only when every phase
      completed, with a controllerOf list that is sound and complete w.r.t. what the pass saw; and the
      request names no failing phase. *)
  Theorem C06_available_true_justified sw k ns n mem0 sw' evs r rev conds ctrlof rem fph ok cd :
    find_set (sw_sets sw) k ns n = Some mem0 -> is_active mem0 -> desired_keys_nodup mem0 ->
    objectset_pass force sw k ns n = (sw', evs, r) ->
    In (SMeta (MStatus rev conds ctrlof rem fph ok)) evs ->
    find_cond conds CAvailable = Some cd -> cd_status cd = STrue ->
    find_cond (os_conds mem0) CAvailable <> Some cd ->
    cd_gen cd = os_gen mem0 /\ fph = None /\
    (forall q, In q (local_phases mem0) -> phase_ok (sw_w sw') (as_owner mem0) q) /\
    (forall key, In key ctrlof -> seen_controlled (sw_w sw') (as_owner mem0) key) /\
    (forall key, In key (flat_map (phase_keys (as_owner mem0)) (local_phases mem0)) ->
                 seen_controlled (sw_w sw') (as_owner mem0) key -> In key ctrlof).
  Proof.
    intros Hfind Hact Hnd H Hin Hfc Hst Hnew.
    assert (Hkeep_contra : forall l, Forall (status_keeps mem0) l -> In (SMeta (MStatus rev conds ctrlof rem fph ok)) l -> False).
    { intros l Hl Hi. rewrite Forall_forall in Hl. specialize (Hl _ Hi). cbn in Hl. destruct Hl as (_ & [Ha|(cd' & Ha & Hf)] & _).
      - apply Hnew. now rewrite <- Ha.
      - rewrite Hfc in Ha. injection Ha as <-. rewrite Hst in Hf. discriminate. }
    destruct (objectset_pass_active _ _ _ _ _ _ _ _ Hfind Hact H) as [[_ Hkeep]|Hr]; [exfalso; eauto|].
    destruct Hr as (mem1 & w0 & sets1 & w2 & pr & pre0 & Hs & Hw0 & _ & Hrp & Hw2 & Hpre & Hpr).
    assert (Hnot_member : forall l, ~ In (SMeta (MStatus rev conds ctrlof rem fph ok)) (map SMember l)).
    { intros l Hi. apply in_map_iff in Hi. destruct Hi as (x & Hx & _). discriminate. }
    assert (Hfalse_contra : forall m' ok', find_cond (os_conds m') CAvailable = Some (mk_cond mem1 CAvailable SFalse RPreflightError) \/
                                          find_cond (os_conds m') CAvailable = Some (mk_cond mem1 CAvailable SFalse RCollisionDetected) ->
                                          SMeta (MStatus rev conds ctrlof rem fph ok) = status_ev m' ok' -> False).
    { intros m' ok' Hc He. unfold status_ev, status_ev_f in He. injection He as _ Hcd _ _ _ _. subst conds.
      destruct Hc as [Hc|Hc]; rewrite Hfc in Hc; injection Hc as Hcd; rewrite Hcd in Hst; discriminate. }
    destruct pr as [e| |co failed].
    - destruct (match e with ErrNotPrevious | ErrRevCollision => true | _ => false end).
      + destruct Hpr as (ok' & m' & Hev & Ha & _). exfalso. rewrite Hev in Hin.
        apply in_app_or in Hin. destruct Hin as [Hi|Hi]; [eauto|]. apply in_app_or in Hi. destruct Hi as [Hi|[Hi|[]]]; [now apply Hnot_member in Hi|].
        eapply Hfalse_contra; eauto.
      + destruct Hpr as [Hev _]. exfalso. rewrite Hev in Hin. apply in_app_or in Hin. destruct Hin as [Hi|Hi]; [eauto|now apply Hnot_member in Hi].
    - destruct Hpr as (ok' & m' & Hev & Ha & _). exfalso. rewrite Hev in Hin.
      apply in_app_or in Hin. destruct Hin as [Hi|Hi]; [eauto|]. apply in_app_or in Hi. destruct Hi as [Hi|[Hi|[]]]; [now apply Hnot_member in Hi|].
      eapply Hfalse_contra; eauto.
    - destruct Hpr as (ok' & Hev & _). rewrite Hev in Hin.
      apply in_app_or in Hin. destruct Hin as [Hi|Hi]; [exfalso; eauto|]. apply in_app_or in Hi. destruct Hi as [Hi|[Hi|[]]]; [exfalso; now apply Hnot_member in Hi|].
      destruct (final_status_available mem1 co failed) as (cd0 & Hc0 & Hgen & Hiff & Hco).
      remember (final_status mem1 co failed) as fs eqn:Efs.
      unfold status_ev_f in Hi. injection Hi as Erev Econds Ectrl Erem Efph Eok.
      subst conds ctrlof fph.
      rewrite Hfc in Hc0. injection Hc0 as <-.
      assert (failed = None) as -> by now apply Hiff.
      destruct (as_owner_keys _ _ Hs) as (Hl & Hk & _ & Hid).
      destruct Hs as (_ & _ & _ & Hg & _).
      assert (Hsc : forall key, seen_controlled w2 (as_owner mem1) key <-> seen_controlled (sw_w sw') (as_owner mem0) key).
      { intros key. unfold seen_controlled. rewrite Hw2, Hid. tauto. }
      assert (Hnd1 : NoDup (flat_map (phase_keys (as_owner mem1)) (local_phases mem1))).
      { rewrite Hl. erewrite flat_map_ext; [exact Hnd|]. intros ph. unfold phase_keys. apply map_ext. exact Hk. }
      split; [congruence|]. split; [reflexivity|]. split; [|split].
      + intros q Hq p Hp. rewrite <- Hl in Hq. destruct (rp_all_ok _ _ _ _ _ _ _ _ Hrp Hnd1 q Hq p Hp) as (o & Ho & Hpr0).
        exists o. rewrite <- Hk. rewrite Hw2. auto.
      + intros key Hkey. rewrite Hco in Hkey.
        destruct (rp_ctrlof_sound force _ _ _ _ _ _ _ _ _ Hrp Hnd1) as (new & -> & Hnew0). cbn in Hkey.
        rewrite Forall_forall in Hnew0. destruct (Hnew0 _ Hkey) as [_ Hsn]. now apply Hsc.
      + intros key Hkey Hsn. rewrite Hco.
        eapply (rp_ctrlof_complete force _ _ _ _ _ _ _ _ Hrp Hnd1).
        * rewrite Hl. erewrite flat_map_ext; [exact Hkey|]. intros ph. unfold phase_keys. apply map_ext. exact Hk.
        * now apply Hsc.
  Qed.
End SetLevel.

(** * Deletion and archival (C04, C05 orphan clause, C06 archival clauses) *)
Section Deletion.
  Variable force : bool.

  Definition teardown_of (sw : sworld) (mem : oset) : world * list ev * tdphres :=
    if os_fin mem then
      if os_orphan mem then (sw_w sw, [], TdOk true)
      else teardown_phases force (sw_w sw) (as_owner mem) (rev (local_phases mem))
    else (sw_w sw, [], TdOk true).

  (** Shape of a deletion/archival pass: the member requests are exactly those of the teardown; the
      finalizer is removed, or Archived=True sent, only after the teardown reported all phases done. *)
  Lemma deletion_pass_inv sw mem sw' evs r :
    deletion_pass force sw mem = (sw', evs, r) ->
    exists w1 tevs td,
      teardown_of sw mem = (w1, tevs, td) /\ member_evs evs = tevs /\ w_store (sw_w sw') = w_store w1 /\
      (forall ok, In (SMeta (MFinalizer false ok)) evs -> td = TdOk true /\ os_fin mem = true) /\
      (forall rev0 conds ctrlof rem fph ok, In (SMeta (MStatus rev0 conds ctrlof rem fph ok)) evs ->
         find_cond conds CAvailable = None /\ fph = None /\ os_life mem = LArchived /\
         (cond_true conds CArchived = true -> td = TdOk true /\ ctrlof = [])) /\
      (forall added ok, In (SMeta (MFinalizer added ok)) evs -> added = false).
  Proof.
    unfold deletion_pass.
    change (if os_fin mem then if os_orphan mem then (sw_w sw, [], TdOk true)
            else teardown_phases force (sw_w sw) (as_owner mem) (rev (filter (fun ph => negb (ph_class ph)) (os_phases mem)))
            else (sw_w sw, [], TdOk true)) with (teardown_of sw mem).
    destruct (teardown_of sw mem) as [[w1 tevs] td] eqn:Etd.
    set (archived := lifecycle_eqb (os_life mem) LArchived).
    assert (Harch : archived = true -> os_life mem = LArchived) by (subst archived; destruct (os_life mem); cbn; congruence).
    (* the common tail *)
    assert (Hfinish : forall sw1 evs1 mem1 swf evsf rf,
       (if negb archived then (sw1, evs1, SDone false)
        else let '(sw'', _, ok) := update_status sw1 (set_conds mem1 (remove_cond (os_conds mem1) CAvailable)) in
             (sw'', evs1 ++ [status_ev (set_conds mem1 (remove_cond (os_conds mem1) CAvailable)) ok], if ok then SDone false else SError)) = (swf, evsf, rf) ->
       w_store (sw_w swf) = w_store (sw_w sw1) /\
       (evsf = evs1 \/ exists ok, archived = true /\ evsf = evs1 ++ [status_ev (set_conds mem1 (remove_cond (os_conds mem1) CAvailable)) ok])).
    { intros sw1 evs1 mem1 swf evsf rf. destruct (negb archived) eqn:Ea.
      - intros H. injection H as <- <- _. auto.
      - destruct (update_status sw1 _) as [[sw2 m2] ok] eqn:Eu. intros H. injection H as <- <- _.
        split; [eapply update_status_store; eauto|]. right. exists ok. apply negb_false_iff in Ea. auto. }
    assert (Hmem_members : member_evs (map SMember tevs) = tevs) by apply member_evs_members.
    assert (Hstatus_fact : forall mem1 (rev0 : Z) conds ctrlof rem fph ok ok',
       SMeta (MStatus rev0 conds ctrlof rem fph ok) = status_ev (set_conds mem1 (remove_cond (os_conds mem1) CAvailable)) ok' ->
       find_cond conds CAvailable = None /\ fph = None /\ conds = remove_cond (os_conds mem1) CAvailable /\ ctrlof = os_ctrlof mem1).
    { intros mem1 rev0 conds ctrlof rem fph ok ok' He. unfold status_ev, status_ev_f in He. injection He as _ -> -> _ -> _.
      cbn. split; [apply find_remove_cond_same|auto]. }
    destruct td as [|done].
    - (* teardown error *)
      intros H. injection H as <- <- <-. exists w1, tevs, TdErr. split; [reflexivity|]. split; [assumption|]. split; [reflexivity|].
      repeat split; intros; exfalso; match goal with H : In _ (map SMember _) |- _ => apply in_map_iff in H; destruct H as (? & ? & _); discriminate end.
    - destruct done.
      + (* all phases done *)
        destruct (os_fin mem) eqn:Efin.
        * destruct (patch_finalizer (with_w sw w1) mem false) as [sw2 [mem2|]] eqn:Ep.
          -- intros H. destruct (Hfinish _ _ _ _ _ _ H) as [Hst Hev].
             pose proof (patch_finalizer_store _ _ _ _ _ Ep) as Hst2. cbn in Hst2.
             exists w1, tevs, (TdOk true). split; [reflexivity|].
             assert (Hmem : member_evs evs = tevs).
             { destruct Hev as [->|(ok & _ & ->)]; rewrite ?member_evs_app, Hmem_members; cbn; now rewrite ?app_nil_r. }
             split; [assumption|]. split; [congruence|].
             match type of Hev with context [status_ev (set_conds ?M _) _] => set (mem3 := M) in * end.
             assert (Hin_cases : forall e, In e evs -> In e (map SMember tevs) \/ e = SMeta (MFinalizer false true) \/
                        exists ok, archived = true /\ e = status_ev (set_conds mem3 (remove_cond (os_conds mem3) CAvailable)) ok).
             { intros e Hin. destruct Hev as [->|(ok & Ha & ->)].
               - apply in_app_or in Hin. destruct Hin as [Hin|[<-|[]]]; auto.
               - apply in_app_or in Hin. destruct Hin as [Hin|[<-|[]]]; [|right; right; eauto].
                 apply in_app_or in Hin. destruct Hin as [Hin|[<-|[]]]; auto. }
             split; [|split].
             ++ intros ok _. auto.
             ++ intros rev0 conds ctrlof rem fph ok Hin. destruct (Hin_cases _ Hin) as [Hi|[Hi|(ok' & Ha & Hi)]].
                ** apply in_map_iff in Hi. destruct Hi as (? & ? & _). discriminate.
                ** discriminate.
                ** unfold mem3 in Hi; rewrite Ha in Hi. destruct (Hstatus_fact _ _ _ _ _ _ _ _ Hi) as (H1 & H2 & H3 & H4).
                   split; [assumption|]. split; [assumption|]. split; [now apply Harch|]. intros _. split; [reflexivity|].
                   rewrite H4. reflexivity.
             ++ intros added ok Hin. destruct (Hin_cases _ Hin) as [Hi|[Hi|(ok' & _ & Hi)]].
                ** apply in_map_iff in Hi. destruct Hi as (? & ? & _). discriminate.
                ** now injection Hi as ->.
                ** unfold status_ev, status_ev_f in Hi. discriminate.
          -- intros H. injection H as <- <- <-. pose proof (patch_finalizer_store _ _ _ _ _ Ep) as Hst2. cbn in Hst2.
             exists w1, tevs, (TdOk true). split; [reflexivity|]. rewrite member_evs_app, Hmem_members. cbn. rewrite app_nil_r.
             split; [reflexivity|]. split; [assumption|].
             split; [|split].
             ++ intros ok _. auto.
             ++ intros rev0 conds ctrlof rem fph ok Hin. apply in_app_or in Hin. destruct Hin as [Hi|[Hi|[]]]; [|discriminate].
                apply in_map_iff in Hi. destruct Hi as (? & ? & _). discriminate.
             ++ intros added ok Hin. apply in_app_or in Hin. destruct Hin as [Hi|[Hi|[]]]; [|now injection Hi as <-].
                apply in_map_iff in Hi. destruct Hi as (? & ? & _). discriminate.
        * intros H. destruct (Hfinish _ _ _ _ _ _ H) as [Hst Hev]. cbn in Hst.
          exists w1, tevs, (TdOk true). split; [reflexivity|].
          assert (Hmem : member_evs evs = tevs).
          { destruct Hev as [->|(ok & _ & ->)]; rewrite ?member_evs_app, Hmem_members; cbn; now rewrite ?app_nil_r. }
          split; [assumption|]. split; [assumption|].
          match type of Hev with context [status_ev (set_conds ?M _) _] => set (mem3 := M) in * end.
          assert (Hin_cases : forall e, In e evs -> In e (map SMember tevs) \/
                     exists ok, archived = true /\ e = status_ev (set_conds mem3 (remove_cond (os_conds mem3) CAvailable)) ok).
          { intros e Hin. destruct Hev as [->|(ok & Ha & ->)]; [auto|].
            apply in_app_or in Hin. destruct Hin as [Hin|[<-|[]]]; [auto|right; eauto]. }
          split; [|split].
          -- intros ok Hin. exfalso. destruct (Hin_cases _ Hin) as [Hi|(ok' & _ & Hi)].
             ++ apply in_map_iff in Hi. destruct Hi as (? & ? & _). discriminate.
             ++ unfold status_ev, status_ev_f in Hi. discriminate.
          -- intros rev0 conds ctrlof rem fph ok Hin. destruct (Hin_cases _ Hin) as [Hi|(ok' & Ha & Hi)].
             ++ apply in_map_iff in Hi. destruct Hi as (? & ? & _). discriminate.
             ++ unfold mem3 in Hi; rewrite Ha in Hi. destruct (Hstatus_fact _ _ _ _ _ _ _ _ Hi) as (H1 & H2 & H3 & H4).
                split; [assumption|]. split; [assumption|]. split; [now apply Harch|]. intros _. split; [reflexivity|].
                rewrite H4. reflexivity.
          -- intros added ok Hin. exfalso. destruct (Hin_cases _ Hin) as [Hi|(ok' & _ & Hi)].
             ++ apply in_map_iff in Hi. destruct Hi as (? & ? & _). discriminate.
             ++ unfold status_ev, status_ev_f in Hi. discriminate.
      + (* not done: finalizer stays, Archived=False *)
        intros H. destruct (Hfinish _ _ _ _ _ _ H) as [Hst Hev]. cbn in Hst.
        exists w1, tevs, (TdOk false). split; [reflexivity|].
        assert (Hmem : member_evs evs = tevs).
        { destruct Hev as [->|(ok & _ & ->)]; rewrite ?member_evs_app, Hmem_members; cbn; now rewrite ?app_nil_r. }
        split; [assumption|]. split; [assumption|].
        match type of Hev with context [status_ev (set_conds ?M _) _] => set (mem3 := M) in * end.
        assert (Hin_cases : forall e, In e evs -> In e (map SMember tevs) \/
                   exists ok, archived = true /\ e = status_ev (set_conds mem3 (remove_cond (os_conds mem3) CAvailable)) ok).
        { intros e Hin. destruct Hev as [->|(ok & Ha & ->)]; [auto|].
          apply in_app_or in Hin. destruct Hin as [Hin|[<-|[]]]; [auto|right; eauto]. }
        split; [|split].
        * intros ok Hin. exfalso. destruct (Hin_cases _ Hin) as [Hi|(ok' & _ & Hi)].
          -- apply in_map_iff in Hi. destruct Hi as (? & ? & _). discriminate.
          -- unfold status_ev, status_ev_f in Hi. discriminate.
        * intros rev0 conds ctrlof rem fph ok Hin. destruct (Hin_cases _ Hin) as [Hi|(ok' & Ha & Hi)].
          -- apply in_map_iff in Hi. destruct Hi as (? & ? & _). discriminate.
          -- unfold mem3 in Hi; rewrite Ha in Hi. destruct (Hstatus_fact _ _ _ _ _ _ _ _ Hi) as (H1 & H2 & H3 & H4).
             split; [assumption|]. split; [assumption|]. split; [now apply Harch|].
             intros Hat. exfalso. rewrite H3 in Hat. unfold cond_true in Hat. rewrite find_remove_cond_other in Hat by discriminate.
             cbn [os_conds set_conds] in Hat.
             rewrite (find_set_cond_same _ (mk_cond mem CArchived SFalse RArchivalInProgress)) in Hat. cbn in Hat. discriminate.
        * intros added ok Hin. exfalso. destruct (Hin_cases _ Hin) as [Hi|(ok' & _ & Hi)].
          -- apply in_map_iff in Hi. destruct Hi as (? & ? & _). discriminate.
          -- unfold status_ev, status_ev_f in Hi. discriminate.
  Qed.
End Deletion.

From Coq Require Import Permutation.

Section SetDeletion.
  Variable force : bool.

  Lemma nodup_flat_map_rev {A B} (f : A -> list B) l : NoDup (flat_map f l) -> NoDup (flat_map f (rev l)).
  Proof. apply Permutation_NoDup. apply Permutation_flat_map. apply Permutation_rev. Qed.

  Definition is_going (mem : oset) : Prop :=
    cond_true (os_conds mem) CArchived = false /\ (os_deleting mem = true \/ os_life mem = LArchived).

  Lemma objectset_pass_going sw k ns n mem0 sw' evs r :
    find_set (sw_sets sw) k ns n = Some mem0 -> is_going mem0 ->
    objectset_pass force sw k ns n = (sw', evs, r) -> deletion_pass force sw mem0 = (sw', evs, r).
  Proof.
    intros Hfind (Ha & Hg). unfold objectset_pass. rewrite Hfind, Ha.
    assert (os_deleting mem0 || lifecycle_eqb (os_life mem0) LArchived = true) as ->.
    { destruct Hg as [->| ->]; [reflexivity|apply orb_true_r]. }
    auto.
  Qed.

  (** C04: the finalizer is removed, or Archived=True reported, only when every object listed in the
      phases is absent or no longer controlled by the ObjectSet (or excluded by the teardown preflight);
      orphan deletion excepted (C05). *)
  Theorem C04_finalizer_held_until_done sw k ns n mem0 sw' evs r :
    find_set (sw_sets sw) k ns n = Some mem0 -> is_going mem0 -> desired_keys_nodup mem0 ->
    os_fin mem0 = true -> os_orphan mem0 = false ->
    objectset_pass force sw k ns n = (sw', evs, r) ->
    ((exists ok, In (SMeta (MFinalizer false ok)) evs) \/
     (exists rev0 conds ctrlof rem fph ok, In (SMeta (MStatus rev0 conds ctrlof rem fph ok)) evs /\ cond_true conds CArchived = true)) ->
    forall q p, In q (local_phases mem0) -> In p (ph_objects q) -> td_obj_done (sw_w sw') (as_owner mem0) p.
  Proof.
    intros Hfind Hgo Hnd Hfin Horph H Hev q p Hq Hp.
    pose proof (objectset_pass_going _ _ _ _ _ _ _ _ Hfind Hgo H) as Hd.
    destruct (deletion_pass_inv force _ _ _ _ _ Hd) as (w1 & tevs & td & Htd & _ & Hst & Hf & Hs & _).
    assert (Htdok : td = TdOk true).
    { destruct Hev as [(ok & Hi)|(rev0 & conds & ctrlof & rem & fph & ok & Hi & Ha)].
      - now destruct (Hf _ Hi).
      - destruct (Hs _ _ _ _ _ _ Hi) as (_ & _ & _ & Hx). now destruct (Hx Ha). }
    subst td. unfold teardown_of in Htd. rewrite Hfin, Horph in Htd.
    assert (Hq' : In q (rev (local_phases mem0))) by now apply in_rev in Hq.
    pose proof (tp_done force _ _ _ _ _ Htd (nodup_flat_map_rev _ _ Hnd) q p Hq' Hp) as Hdone.
    unfold td_obj_done in *. now rewrite Hst.
  Qed.

  (** C04: within a teardown pass a request names an object of a phase only if every object of every
      LATER phase is already absent / no longer controlled. *)
  Theorem C04_reverse_order sw k ns n mem0 sw' evs r :
    find_set (sw_sets sw) k ns n = Some mem0 -> is_going mem0 -> desired_keys_nodup mem0 ->
    objectset_pass force sw k ns n = (sw', evs, r) ->
    forall pre ph post, local_phases mem0 = pre ++ ph :: post ->
      Exists (fun e => In (ev_key e) (phase_keys (as_owner mem0) ph)) (member_evs evs) ->
      forall q p, In q post -> In p (ph_objects q) -> td_obj_done (sw_w sw') (as_owner mem0) p.
  Proof.
    intros Hfind Hgo Hnd H pre ph post Hsplit Hex q p Hq Hp.
    pose proof (objectset_pass_going _ _ _ _ _ _ _ _ Hfind Hgo H) as Hd.
    destruct (deletion_pass_inv force _ _ _ _ _ Hd) as (w1 & tevs & td & Htd & Hmem & Hst & _).
    rewrite Hmem in Hex. unfold teardown_of in Htd.
    destruct (os_fin mem0); [|injection Htd as _ <- _; inversion Hex].
    destruct (os_orphan mem0); [injection Htd as _ <- _; inversion Hex|].
    assert (Hrev : rev (local_phases mem0) = rev post ++ ph :: rev pre).
    { rewrite Hsplit, rev_app_distr. cbn. now rewrite <- app_assoc. }
    pose proof (tp_order force _ _ _ _ _ _ Htd (nodup_flat_map_rev _ _ Hnd) (rev post) ph (rev pre) Hrev Hex q p) as Hdone.
    unfold td_obj_done in *. rewrite Hst. apply Hdone; [now apply in_rev in Hq|assumption].
  Qed.

  (** C05, last clause: an ObjectSet deleted with orphan propagation sends no request for any member. *)
  Theorem C05_orphan_deletes_nothing sw k ns n mem0 sw' evs r :
    find_set (sw_sets sw) k ns n = Some mem0 -> is_going mem0 -> os_orphan mem0 = true ->
    objectset_pass force sw k ns n = (sw', evs, r) ->
    member_evs evs = [] /\ w_store (sw_w sw') = w_store (sw_w sw).
  Proof.
    intros Hfind Hgo Ho H.
    pose proof (objectset_pass_going _ _ _ _ _ _ _ _ Hfind Hgo H) as Hd.
    destruct (deletion_pass_inv force _ _ _ _ _ Hd) as (w1 & tevs & td & Htd & Hmem & Hst & _).
    unfold teardown_of in Htd. rewrite Ho in Htd.
    destruct (os_fin mem0); injection Htd as <- <- _; auto.
  Qed.

  (** C06: once Archived=True is recorded the ObjectSet is not reconciled again: no request at all. *)
  Theorem C06_archived_not_reconciled sw k ns n mem0 :
    find_set (sw_sets sw) k ns n = Some mem0 -> cond_true (os_conds mem0) CArchived = true ->
    objectset_pass force sw k ns n = (sw, [], SNothing).
  Proof. intros Hf Ha. unfold objectset_pass. now rewrite Hf, Ha. Qed.

  (** C06: status written while deleting/archiving never carries an Available condition; the request that
      reports Archived=True carries an empty controllerOf. *)
  Theorem C06_archival_status sw k ns n mem0 sw' evs r rev0 conds ctrlof rem fph ok :
    find_set (sw_sets sw) k ns n = Some mem0 -> is_going mem0 ->
    objectset_pass force sw k ns n = (sw', evs, r) ->
    In (SMeta (MStatus rev0 conds ctrlof rem fph ok)) evs ->
    find_cond conds CAvailable = None /\ (cond_true conds CArchived = true -> ctrlof = []).
  Proof.
    intros Hfind Hgo H Hi.
    pose proof (objectset_pass_going _ _ _ _ _ _ _ _ Hfind Hgo H) as Hd.
    destruct (deletion_pass_inv force _ _ _ _ _ Hd) as (w1 & tevs & td & _ & _ & _ & _ & Hs & _).
    destruct (Hs _ _ _ _ _ _ Hi) as (Ha & _ & _ & Hx). split; [assumption|]. intros Hc. now destruct (Hx Hc).
  Qed.
End SetDeletion.

(** * Succeeded is never withdrawn (C06, history clause) *)
Section Succeeded.
  Variable force : bool.
  Variables k ns n : N.        (* the ObjectSet under consideration *)
  Variable sw0 : sworld.       (* the world before the pass *)

  Definition succ (m : oset) : Prop := cond_true (os_conds m) CSucceeded = true.
  Definition has_key (m : oset) : Prop := oi_kind (os_id m) = k /\ oi_ns (os_id m) = ns /\ oi_name (os_id m) = n.
  (** every stored copy of the ObjectSet has Succeeded=True *)
  Definition all_succ (sw : sworld) : Prop := forall st, In st (sw_sets sw) -> has_key st -> succ st.

  Definition okm (m : oset) : Prop := has_key m /\ (all_succ sw0 -> succ m).
  Definition okw (sw : sworld) : Prop := forall x, In x (sw_sets sw) -> In x (sw_sets sw0) \/ okm x.

  Lemma okw_stored sw st : okw sw -> In st (sw_sets sw) -> has_key st -> okm st.
  Proof. intros Hw Hin Hk. destruct (Hw _ Hin) as [H0|H0]; [|assumption]. split; [assumption|]. intros G. now apply G. Qed.

  Lemma in_put_set sets s x : In x (put_set sets s) -> x = s \/ In x sets.
  Proof.
    induction sets as [|y ys IH]; cbn; [intros [<-|[]]; now left|].
    destruct (oid_eqb (os_id y) (os_id s)); cbn.
    - intros [<-|H]; [now left|right; now right].
    - intros [<-|H]; [right; now left|]. destruct (IH H) as [->|H']; [now left|right; now right].
  Qed.

  Lemma in_del_set sets id x : In x (del_set sets id) -> In x sets.
  Proof. unfold del_set. intros H. apply filter_In in H. tauto. Qed.

  Lemma find_set_in sets k0 ns0 n0 st : find_set sets k0 ns0 n0 = Some st -> In st sets.
  Proof. unfold find_set. intros H. apply find_some in H. tauto. Qed.

  Lemma succ_same_conds a b : os_conds a = os_conds b -> succ b -> succ a.
  Proof. unfold succ. now intros ->. Qed.

  Lemma update_status_ok sw m sw' m' ok :
    okw sw -> okm m -> update_status sw m = (sw', m', ok) -> okw sw' /\ okm m'.
  Proof.
    intros Hw Hm. unfold update_status.
    destruct (find_set _ _ _ _) as [st|] eqn:Ef; [|intros H; injection H as <- <- _; auto].
    destruct (negb _); [intros H; injection H as <- <- _; auto|].
    destruct (status_eqb st m); intros H; injection H as <- <- _; [auto|].
    pose proof (find_set_id _ _ _ _ _ Ef) as Hid. destruct Hm as [(Hk1 & Hk2 & Hk3) Hs].
    assert (Hnew : okm (with_status st m (w_rv (sw_w sw)))).
    { split; [|intros G; eapply succ_same_conds; [|exact (Hs G)]; reflexivity].
      unfold has_key. cbn. destruct Hid as (-> & -> & ->). auto. }
    split; [|exact Hnew]. intros x Hin. cbn in Hin. apply in_put_set in Hin. destruct Hin as [->|Hin]; [now right|now apply Hw].
  Qed.

  Lemma update_status_okw sw m sw' m' ok :
    update_status sw m = (sw', m', ok) -> okw sw -> okm m -> okw sw'.
  Proof. intros E Hw Hm. now destruct (update_status_ok _ _ _ _ _ Hw Hm E). Qed.

  Lemma patch_finalizer_ok sw m fin sw' r :
    okw sw -> okm m -> patch_finalizer sw m fin = (sw', r) ->
    okw sw' /\ match r with Some m' => okm m' | None => True end.
  Proof.
    intros Hw Hm. unfold patch_finalizer.
    destruct (find_set _ _ _ _) as [st|] eqn:Ef; [|intros H; injection H as <- <-; auto].
    destruct (negb (os_rv st =? os_rv m)); [intros H; injection H as <- <-; auto|].
    pose proof (find_set_id _ _ _ _ _ Ef) as Hid. pose proof (find_set_in _ _ _ _ _ Ef) as Hin.
    assert (Hst : okm st).
    { apply (okw_stored sw); auto. destruct Hm as [(Hk1 & Hk2 & Hk3) _]. unfold has_key. destruct Hid as (-> & -> & ->). auto. }
    assert (Hnew : okm (set_fin st fin (w_rv (sw_w sw)))).
    { destruct Hst as [Hk Hs]. split; [exact Hk|]. intros G. eapply succ_same_conds; [|exact (Hs G)]. reflexivity. }
    destruct (negb fin && os_deleting st && negb (os_orphan st)); intros H; injection H as <- <-; (split; [|exact Hnew]).
    - intros x Hx. cbn in Hx. apply in_del_set in Hx. now apply Hw.
    - intros x Hx. cbn in Hx. apply in_put_set in Hx. destruct Hx as [->|Hx]; [now right|now apply Hw].
  Qed.

  Lemma okm_conds m m' : okm m -> os_id m' = os_id m ->
    find_cond (os_conds m') CSucceeded = find_cond (os_conds m) CSucceeded -> okm m'.
  Proof.
    intros [(H1 & H2 & H3) Hs] Hid Hc. split; [unfold has_key; now rewrite Hid|].
    intros G. specialize (Hs G). unfold succ, cond_true in *. now rewrite Hc.
  Qed.

  Lemma okw_with_w sw w : okw sw -> okw (with_w sw w).
  Proof. auto. Qed.

  Lemma revision_pass_ok sw mem sw1 evs1 mem1 rr :
    okw sw -> okm mem -> revision_pass sw mem = (sw1, evs1, mem1, rr) -> okw sw1 /\ okm mem1.
  Proof.
    intros Hw Hm. unfold revision_pass.
    destruct (negb (Z.eqb (os_revision mem) 0)); [intros H; injection H as <- _ <- _; auto|].
    destruct (os_prev mem); [intros H; injection H as <- _ <- _; split; [auto|eapply okm_conds; [exact Hm|reflexivity|reflexivity]]|].
    destruct (scan_prev _ _ _ _) as [[latest|]|].
    - destruct (update_status sw (set_revision mem (latest + 1))) as [[sw2 m2] ok] eqn:Eu.
      intros H; injection H as <- _ <- _. eapply update_status_ok; [exact Hw| |exact Eu]. eapply okm_conds; [exact Hm|reflexivity|reflexivity].
    - intros H; injection H as <- _ <- _; auto.
    - intros H; injection H as <- _ <- _; auto.
  Qed.

  Lemma active_body_ok sw evs0 mem sw' evs r :
    okw sw -> okm mem -> active_body force sw evs0 mem = (sw', evs, r) -> okw sw'.
  Proof.
    intros Hw Hm. unfold active_body.
    destruct (revision_pass sw mem) as [[[sw1 evs1] mem1] rr] eqn:Erev.
    destruct (revision_pass_ok _ _ _ _ _ _ Hw Hm Erev) as [Hw1 Hm1].
    assert (Hfail : forall sw2 evsx rs swf evsf rf, okw sw2 ->
              (let m' := set_conds mem1 (set_cond (os_conds mem1) (mk_cond mem1 CAvailable SFalse rs)) in
               let '(sw'', _, ok) := update_status sw2 m' in
               (sw'', evsx ++ [status_ev m' ok], if ok then SDone true else SError)) = (swf, evsf, rf) -> okw swf).
    { intros sw2 evsx rs swf evsf rf Hw2. cbv zeta. destruct (update_status sw2 _) as [[sw3 m3] ok] eqn:Eu.
      intros H. injection H as <- _ _. eapply update_status_okw; [exact Eu|exact Hw2|].
      eapply okm_conds; [exact Hm1|reflexivity|]. cbn [os_conds set_conds]. apply find_set_cond_other. cbn. discriminate. }
    destruct rr.
    - destruct (Nat.ltb 0 (dup_count [] (map (spec_key mem1) (all_objects mem1)))); [intros H; eapply Hfail; eauto|].
      destruct (reconcile_phases force (sw_w sw1) (as_owner mem1) _ _ []) as [[w2 pevs] pr].
      destruct pr as [e| |ctrlof failed].
      + destruct e; try (intros H; eapply Hfail; [|exact H]; (apply okw_with_w; assumption));
          intros H; injection H as <- _ _; (apply okw_with_w; assumption).
      + intros H; eapply Hfail; [|exact H]; (apply okw_with_w; assumption).
      + destruct (update_status (with_w sw1 w2) (final_status mem1 ctrlof failed)) as [[sw3 m3] ok] eqn:Eu.
        intros H. injection H as <- _ _. eapply update_status_okw; [exact Eu|(apply okw_with_w; assumption)|].
        destruct Hm1 as [Hk Hs]. split; [exact Hk|]. intros G. now apply final_status_succeeded, Hs.
    - destruct (update_status sw1 _) as [[sw2 m2] ok] eqn:Eu. intros H. injection H as <- _ _.
      eapply update_status_okw; [exact Eu|exact Hw1|].
      eapply okm_conds; [exact Hm1|reflexivity|]. cbn [os_conds set_conds]. apply paused_cond_other. discriminate.
    - intros H. injection H as <- _ _. exact Hw1.
  Qed.

  Lemma deletion_pass_ok sw mem sw' evs r :
    okw sw -> okm mem -> deletion_pass force sw mem = (sw', evs, r) -> okw sw'.
  Proof.
    intros Hw Hm. unfold deletion_pass.
    set (archived := lifecycle_eqb (os_life mem) LArchived).
    change (if os_fin mem then if os_orphan mem then (sw_w sw, [], TdOk true)
            else teardown_phases force (sw_w sw) (as_owner mem) (rev (filter (fun ph => negb (ph_class ph)) (os_phases mem)))
            else (sw_w sw, [], TdOk true)) with (teardown_of force sw mem).
    destruct (teardown_of force sw mem) as [[w1 tevs] td].
    assert (Hfinish : forall sw1 evs1 mem1 swf evsf rf,
       (if negb archived then (sw1, evs1, SDone false)
        else let '(sw'', _, ok) := update_status sw1 (set_conds mem1 (remove_cond (os_conds mem1) CAvailable)) in
             (sw'', evs1 ++ [status_ev (set_conds mem1 (remove_cond (os_conds mem1) CAvailable)) ok], if ok then SDone false else SError)) = (swf, evsf, rf) ->
       okw sw1 -> okm mem1 -> okw swf).
    { intros sw1 evs1 mem1 swf evsf rf. destruct (negb archived); [intros H Hw1 Hm1; injection H as <- _ _; exact Hw1|].
      destruct (update_status sw1 _) as [[sw2 m2] ok] eqn:Eu. intros H Hw1 Hm1. injection H as <- _ _.
      eapply update_status_okw; [exact Eu|exact Hw1|].
      eapply okm_conds; [exact Hm1|reflexivity|]. cbn [os_conds set_conds]. apply find_remove_cond_other. discriminate. }
    assert (Harch_ok : forall m0, okm m0 -> okm (if archived then set_ctrlof (set_conds m0 (set_cond (os_conds m0) (mk_cond m0 CArchived STrue RArchived))) [] else m0)).
    { intros m0 H0. destruct archived; [|exact H0]. eapply okm_conds; [exact H0|reflexivity|].
      cbn [os_conds set_conds set_ctrlof]. apply find_set_cond_other. cbn. discriminate. }
    destruct td as [|[|]].
    - intros H. injection H as <- _ _. (apply okw_with_w; assumption).
    - destruct (os_fin mem).
      + destruct (patch_finalizer (with_w sw w1) mem false) as [sw2 [mem2|]] eqn:Ep;
          destruct (patch_finalizer_ok _ _ _ _ _ (okw_with_w _ w1 Hw) Hm Ep) as [Hw2 Hm2].
        * intros H. eapply Hfinish; [exact H|exact Hw2|]. now apply Harch_ok.
        * intros H. injection H as <- _ _. exact Hw2.
      + intros H. eapply Hfinish; [exact H|apply okw_with_w; assumption|]. now apply Harch_ok.
    - intros H. eapply Hfinish; [exact H|apply okw_with_w; assumption|].
      destruct archived; [|exact Hm]. eapply okm_conds; [exact Hm|reflexivity|].
      cbn [os_conds set_conds]. apply find_set_cond_other. cbn. discriminate.
  Qed.

  (** One Reconcile of the ObjectSet never withdraws Succeeded: if every stored copy had it before, every
      stored copy has it afterwards. *)
  Theorem C06_succeeded_never_withdrawn sw' evs r :
    all_succ sw0 -> objectset_pass force sw0 k ns n = (sw', evs, r) -> all_succ sw'.
  Proof.
    intros G H.
    assert (Hw0 : okw sw0) by (intros x Hx; now left).
    assert (Hfin : okw sw' -> all_succ sw').
    { intros Hw st Hin Hk. destruct (Hw _ Hin) as [H0|[_ H0]]; [now apply G|now apply H0]. }
    apply Hfin. unfold objectset_pass in H.
    destruct (find_set (sw_sets sw0) k ns n) as [mem|] eqn:Ef; [|now injection H as <- _ _].
    destruct (cond_true (os_conds mem) CArchived); [now injection H as <- _ _|].
    assert (Hm : okm mem).
    { split; [exact (find_set_id _ _ _ _ _ Ef)|]. intros _. apply G; [eapply find_set_in; eauto|exact (find_set_id _ _ _ _ _ Ef)]. }
    destruct (os_deleting mem || lifecycle_eqb (os_life mem) LArchived).
    - eapply deletion_pass_ok; eauto.
    - unfold active_pass in H. destruct (os_fin mem); [eapply active_body_ok; eauto|].
      destruct (patch_finalizer sw0 mem true) as [sw1 [m|]] eqn:Ep;
        destruct (patch_finalizer_ok _ _ _ _ _ Hw0 Hm Ep) as [Hw1 Hm1].
      + eapply active_body_ok; eauto.
      + now injection H as <- _ _.
  Qed.
End Succeeded.

(** * The duplicate check makes the NoDup hypotheses of the theorems above redundant *)
Section DupFree.
  Variable force : bool.

  Lemma dup_count_zero ks : forall seen,
    dup_count seen ks = O -> NoDup ks /\ forall k, In k ks -> ~ In k seen.
  Proof.
    induction ks as [|k r IH]; intros seen H; cbn in H.
    - split; [constructor|]. intros k [].
    - destruct (existsb (okey_eqb k) seen) eqn:E; [discriminate|].
      destruct (IH _ H) as [Hnd Hdis]. split.
      + constructor; [|exact Hnd]. intros Hin. apply (Hdis k Hin). now left.
      + intros k0 [<-|Hin] Hs.
        * assert (existsb (okey_eqb k) seen = true) by (apply existsb_exists; exists k; split; [assumption|apply okey_eqb_refl]). congruence.
        * apply (Hdis k0 Hin). now right.
  Qed.

  Lemma nodup_flat_map_filter {A B} (f : A -> list B) (g : A -> bool) l :
    NoDup (flat_map f l) -> NoDup (flat_map f (filter g l)).
  Proof.
    induction l as [|x xs IH]; cbn; [auto|]. intros H.
    pose proof (NoDup_app_r _ _ H) as Hr. destruct (g x); cbn; [|now apply IH].
    (* f x ++ flat_map f (filter g xs): sub-sequence of a NoDup list *)
    pose proof (NoDup_app_l _ _ H) as Hl. specialize (IH Hr).
    clear Hr. induction (f x) as [|b bs IHb]; cbn; [exact IH|].
    cbn in H, Hl. inversion H as [|? ? Hnotin Hnd]; subst. inversion Hl; subst.
    constructor; [|apply IHb; assumption].
    intros Hin. apply Hnotin. apply in_app_or in Hin. apply in_or_app. destruct Hin as [Hin|Hin]; [now left|right].
    apply in_flat_map in Hin. destruct Hin as (y & Hy & Hby). apply in_flat_map. exists y. split; [|assumption].
    apply filter_In in Hy. tauto.
  Qed.

  Lemma all_keys_flat m : map (spec_key m) (all_objects m) = flat_map (phase_keys (as_owner m)) (os_phases m).
  Proof.
    unfold all_objects, phase_keys, spec_key, key_of. induction (os_phases m) as [|ph r IH]; cbn; [reflexivity|].
    now rewrite map_app, IH.
  Qed.

  Lemma dup_zero_nodup m : dup_count [] (map (spec_key m) (all_objects m)) = O -> desired_keys_nodup m.
  Proof.
    intros H. destruct (dup_count_zero _ _ H) as [Hnd _]. rewrite all_keys_flat in Hnd.
    unfold desired_keys_nodup, local_phases. now apply nodup_flat_map_filter.
  Qed.

  Lemma desired_keys_nodup_same m1 m0 : same_spec m1 m0 -> desired_keys_nodup m1 -> desired_keys_nodup m0.
  Proof.
    intros Hs. unfold desired_keys_nodup. destruct (as_owner_keys _ _ Hs) as (Hl & _). rewrite Hl.
    intros H. erewrite flat_map_ext; [exact H|]. intros ph. symmetry. now apply phase_keys_same.
  Qed.

  (** C03 without any hypothesis on the spec: the duplicate check of the same pass supplies it. *)
  Theorem C03_rollout_gated_all sw k ns n mem0 sw' evs r :
    find_set (sw_sets sw) k ns n = Some mem0 -> is_active mem0 ->
    objectset_pass force sw k ns n = (sw', evs, r) ->
    forall pre ph post, local_phases mem0 = pre ++ ph :: post ->
      Exists (fun e => In (ev_key e) (phase_keys (as_owner mem0) ph)) (member_evs evs) ->
      forall q, In q pre -> phase_ok (sw_w sw') (as_owner mem0) q.
  Proof.
    intros Hfind Hact H pre ph post Hsplit Hex q Hq.
    destruct (objectset_pass_active force _ _ _ _ _ _ _ _ Hfind Hact H) as [[_ Hkeep]|Hr].
    - rewrite (status_keeps_members _ _ Hkeep) in Hex. inversion Hex.
    - destruct Hr as (mem1 & w0 & sets1 & w2 & pr & pre0 & Hs & _ & Hdup & _).
      eapply C03_rollout_gated; eauto. eapply desired_keys_nodup_same; [exact Hs|]. now apply dup_zero_nodup.
  Qed.

  Theorem C06_available_true_justified_all sw k ns n mem0 sw' evs r rev conds ctrlof rem fph ok cd :
    find_set (sw_sets sw) k ns n = Some mem0 -> is_active mem0 ->
    objectset_pass force sw k ns n = (sw', evs, r) ->
    In (SMeta (MStatus rev conds ctrlof rem fph ok)) evs ->
    find_cond conds CAvailable = Some cd -> cd_status cd = STrue ->
    find_cond (os_conds mem0) CAvailable <> Some cd ->
    cd_gen cd = os_gen mem0 /\ fph = None /\
    (forall q, In q (local_phases mem0) -> phase_ok (sw_w sw') (as_owner mem0) q) /\
    (forall key, In key ctrlof -> seen_controlled (sw_w sw') (as_owner mem0) key) /\
    (forall key, In key (flat_map (phase_keys (as_owner mem0)) (local_phases mem0)) ->
                 seen_controlled (sw_w sw') (as_owner mem0) key -> In key ctrlof).
  Proof.
    intros Hfind Hact H Hin Hfc Hst Hnew.
    destruct (objectset_pass_active force _ _ _ _ _ _ _ _ Hfind Hact H) as [[_ Hkeep]|Hr].
    - exfalso. rewrite Forall_forall in Hkeep. specialize (Hkeep _ Hin). cbn in Hkeep.
      destruct Hkeep as (_ & [Ha|(cd' & Ha & Hf)] & _).
      + apply Hnew. now rewrite <- Ha.
      + rewrite Hfc in Ha. injection Ha as <-. rewrite Hst in Hf. discriminate.
    - destruct Hr as (mem1 & w0 & sets1 & w2 & pr & pre0 & Hs & _ & Hdup & _).
      eapply C06_available_true_justified; eauto. eapply desired_keys_nodup_same; [exact Hs|]. now apply dup_zero_nodup.
  Qed.
End DupFree.
