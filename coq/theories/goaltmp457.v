(** Theorems about Deployment.v: for ANY hash function, over all worlds / histories.
    Part 1: sorting, requests. Part 2: the archive decision (C08 kernel). Part 3: every event of a pass is
    justified (C07 / C08 / C09 pass level). Part 4: histories (C07 invariants). *)
From Coq Require Import List NArith ZArith Bool Lia Permutation.
From PKO Require Import Util Base BaseProofs Owner Api Phase ObjectSet Deployment.
Import ListNotations.
Local Open Scope N_scope.

(** * Part 1: lists, sorting *)
Section SortFacts.
  Context {A : Type} (lt : A -> A -> bool).

  Lemma ins_sorted_perm x l : Permutation (ins_sorted lt x l) (x :: l).
  Proof.
    induction l as [|y r IH]; cbn; [reflexivity|]. destruct (lt y x); [|reflexivity].
    rewrite IH. apply perm_swap.
  Qed.

  Lemma isort_perm l : Permutation (isort lt l) l.
  Proof. induction l as [|x r IH]; cbn; [reflexivity|]. rewrite ins_sorted_perm. now constructor. Qed.

  Lemma isort_in l x : In x (isort lt l) <-> In x l.
  Proof. split; apply Permutation_in; [apply isort_perm|apply Permutation_sym, isort_perm]. Qed.

  Lemma isort_length l : length (isort lt l) = length l.
  Proof. apply Permutation_length, isort_perm. Qed.

  (** greater than everything: goes last *)
  Lemma ins_sorted_last x l : (forall y, In y l -> lt y x = true) -> ins_sorted lt x l = l ++ [x].
  Proof.
    induction l as [|y r IH]; cbn; intros H; [reflexivity|]. rewrite (H y (or_introl eq_refl)). f_equal. apply IH. auto.
  Qed.

  (** not greater than the last element: the last element stays last *)
  Lemma ins_sorted_keep_last x l m : lt m x = false -> ins_sorted lt x (l ++ [m]) = ins_sorted lt x l ++ [m].
  Proof.
    intros Hm. induction l as [|y r IH]; cbn; [now rewrite Hm|]. destruct (lt y x); [now rewrite IH|reflexivity].
  Qed.
End SortFacts.

Lemma map_isort_perm {A B} (lt : A -> A -> bool) (f : A -> B) l : Permutation (map f (isort lt l)) (map f l).
Proof. apply Permutation_map, isort_perm. Qed.

Lemma NoDup_map_isort {A B} (lt : A -> A -> bool) (f : A -> B) l : NoDup (map f l) -> NoDup (map f (isort lt l)).
Proof. intros H. eapply Permutation_NoDup; [apply Permutation_sym, map_isort_perm|exact H]. Qed.

Lemma NoDup_map_filter {A B} (f : A -> B) (g : A -> bool) l : NoDup (map f l) -> NoDup (map f (filter g l)).
Proof.
  induction l as [|x r IH]; cbn; intros H; [constructor|]. inversion H as [|? ? Hn Hr]; subst.
  destruct (g x); cbn; [constructor|]; auto. intros Hin. apply Hn. apply in_map_iff in Hin. destruct Hin as (y & Hy & Hin).
  apply filter_In in Hin. apply in_map_iff. exists y. tauto.
Qed.

(** The strict maximum by revision among uniquely named ObjectSets is the last element after sorting. *)
Lemma isort_rev_max_last (l : list dset) (s : dset) :
  NoDup (map sname l) -> In s l ->
  (forall t, In t l -> sname t <> sname s -> (srev t < srev s)%Z) ->
  exists l0, isort rev_lt l = l0 ++ [s].
Proof.
  induction l as [|x r IH]; cbn [In map isort]; intros Hnd Hin Hmax; [contradiction|].
  inversion Hnd as [|? ? Hn Hr]; subst. destruct Hin as [->|Hin].
  - exists (isort rev_lt r). apply ins_sorted_last. intros y Hy. apply isort_in in Hy. unfold rev_lt. apply Z.ltb_lt.
    apply Hmax; [now right|]. intros E. apply Hn. rewrite <- E. now apply in_map.
  - destruct (IH Hr Hin) as (l0 & E). { intros t Ht. apply Hmax. now right. }
    rewrite E. exists (ins_sorted rev_lt x l0). apply ins_sorted_keep_last. unfold rev_lt. apply Z.ltb_ge.
    assert (srev x < srev s)%Z; [|lia]. apply Hmax; [now left|]. intros E'. apply Hn. rewrite E'. now apply in_map.
Qed.

(** * find / put / del on ObjectSet lists *)
Lemma find_dset_some sets n s : find_dset sets n = Some s -> In s sets /\ sname s = n.
Proof. unfold find_dset. intros H. apply find_some in H. destruct H as [H1 H2]. split; [assumption|now apply N.eqb_eq]. Qed.

Lemma find_dset_none sets n : find_dset sets n = None -> forall s, In s sets -> sname s <> n.
Proof. unfold find_dset. intros H s Hs E. apply (find_none _ _ H) in Hs. apply N.eqb_neq in Hs. contradiction. Qed.

Lemma find_dset_none_names sets n : find_dset sets n = None -> ~ In n (map sname sets).
Proof. intros H Hin. apply in_map_iff in Hin. destruct Hin as (s & E & Hs). exact (find_dset_none _ _ H s Hs E). Qed.

Lemma in_put_dset sets s x : In x (put_dset sets s) -> x = s \/ In x sets.
Proof.
  induction sets as [|y r IH]; cbn; [intros [<-|[]]; now left|].
  destruct (sname y =? sname s); cbn; intros [<-|H]; auto. destruct (IH H); auto.
Qed.

Lemma in_del_dset sets n x : In x (del_dset sets n) <-> In x sets /\ sname x <> n.
Proof. unfold del_dset. rewrite filter_In, negb_true_iff, N.eqb_neq. tauto. Qed.

(** Replacing an ObjectSet by one that agrees on [f] leaves [map f] unchanged. *)
Lemma map_put_dset {B} (f : dset -> B) sets cur s' :
  find_dset sets (sname s') = Some cur -> f s' = f cur -> map f (put_dset sets s') = map f sets.
Proof.
  unfold find_dset. induction sets as [|y r IH]; cbn; [discriminate|].
  destruct (sname y =? sname s') eqn:E; cbn.
  - intros H Hf. injection H as ->. now rewrite Hf.
  - intros H Hf. f_equal. now apply IH.
Qed.

Lemma map_del_dset {B} (f : dset -> B) (g : B -> bool) sets n :
  (forall s, g (f s) = negb (sname s =? n)) -> map f (del_dset sets n) = filter g (map f sets).
Proof.
  intros Hg. unfold del_dset. induction sets as [|y r IH]; cbn; [reflexivity|]. rewrite Hg.
  destruct (negb (sname y =? n)); cbn; now rewrite IH.
Qed.

(** * Part 1b: requests *)
Section Requests.
  Variable hash : N -> option N -> N.
  Variable fault : option (nat * bool).

  Lemma read_req_evs st : p_evs (read_req fault st) = p_evs st.
  Proof. unfold read_req. destruct (p_dead st); [reflexivity|]. destruct (fault_now fault st); cbn; now rewrite app_nil_r. Qed.

  Lemma read_req_w st : p_w (read_req fault st) = p_w st.
  Proof. unfold read_req. destruct (p_dead st); [reflexivity|]. destruct (fault_now fault st); reflexivity. Qed.

  Lemma read_req_dead st : p_dead st = true -> read_req fault st = st.
  Proof. unfold read_req. now intros ->. Qed.

  (** What an Update request does. *)
  Lemma upd_req_spec st s life pbp st' s' :
    upd_req fault st s life pbp = (st', s') ->
    (p_evs st' = p_evs st /\ p_w st' = p_w st /\ s' = s /\ p_dead st = true /\ st' = st) \/
    (p_dead st = false /\ exists r, p_evs st' = p_evs st ++ [DUpdate (sname s) life pbp r] /\
       ((p_w st' = p_w st /\ s' = s /\ p_dead st' = true /\ (r = WErr \/ r = WNotFound \/ r = WConflict)) \/
        (exists cur, find_dset (dw_sets (p_w st)) (sname s) = Some cur /\ os_rv (ds_set cur) = os_rv (ds_set s) /\
           s' = set_life cur life pbp (w_rv (dw_w (p_w st))) /\
           p_w st' = with_sets (p_w st) (put_dset (dw_sets (p_w st)) s') (bump_rv (dw_w (p_w st))) /\
           (r = WOk \/ r = WLost)))).
  Proof.
    unfold upd_req. destruct (p_dead st) eqn:Ed; [intros H; injection H as <- <-; left; auto|].
    intros H. right. split; [reflexivity|].
    destruct (fault_now fault st) eqn:Ef.
    - destruct (find_dset _ _) as [cur|] eqn:Efd.
      + destruct (negb (os_rv (ds_set cur) =? os_rv (ds_set s))) eqn:Erv; injection H as <- <-.
        * exists WConflict. split; [reflexivity|]. left. auto 6.
        * exists WOk. split; [reflexivity|]. right. exists cur. apply negb_false_iff, N.eqb_eq in Erv. auto 6.
      + injection H as <- <-. exists WNotFound. split; [reflexivity|]. left. auto 6.
    - injection H as <- <-. exists WErr. split; [reflexivity|]. left. auto 6.
    - destruct (find_dset _ _) as [cur|] eqn:Efd.
      + destruct (negb (os_rv (ds_set cur) =? os_rv (ds_set s))) eqn:Erv; injection H as <- <-.
        * exists WConflict. split; [reflexivity|]. left. auto 6.
        * exists WLost. split; [reflexivity|]. right. exists cur. apply negb_false_iff, N.eqb_eq in Erv. auto 6.
      + injection H as <- <-. exists WNotFound. split; [reflexivity|]. left. auto 6.
  Qed.

  Lemma del_req_spec st n :
    (del_req fault st n = st /\ p_dead st = true) \/
    (p_dead st = false /\ exists r, p_evs (del_req fault st n) = p_evs st ++ [DDelete n r] /\
       (p_w (del_req fault st n) = p_w st \/
        (exists s, find_dset (dw_sets (p_w st)) n = Some s /\
           (p_w (del_req fault st n) = with_sets (p_w st) (put_dset (dw_sets (p_w st)) (set_deleting s (w_rv (dw_w (p_w st))))) (bump_rv (dw_w (p_w st))) \/
            p_w (del_req fault st n) = with_sets (p_w st) (del_dset (dw_sets (p_w st)) n) (dw_w (p_w st)))))).
  Proof.
    unfold del_req. destruct (p_dead st) eqn:Ed; [left; auto|]. right. split; [reflexivity|].
    destruct (fault_now fault st).
    - destruct (find_dset _ _) as [s|] eqn:Efd.
      + exists DlOk. split; [reflexivity|]. cbn [emit p_w].
        destruct (os_fin (ds_set s) || os_orphan (ds_set s)); [destruct (os_deleting (ds_set s))|]; [now left| |]; right; exists s; auto.
      + exists DlNotFound. split; [reflexivity|]. now left.
    - exists DlErr. split; [reflexivity|]. now left.
    - destruct (find_dset _ _) as [s|] eqn:Efd.
      + exists DlLost. split; [reflexivity|]. cbn [emit p_w].
        destruct (os_fin (ds_set s) || os_orphan (ds_set s)); [destruct (os_deleting (ds_set s))|]; [now left| |]; right; exists s; auto.
      + exists DlNotFound. split; [reflexivity|]. now left.
  Qed.
End Requests.

(** * Part 2: the archive decision (archive_reconciler.go) for every chain of revisions *)

Lemma inter_keys_nil a b : is_nil (inter_keys a b) = true <-> (forall k, In k b -> ~ In k a).
Proof.
  unfold inter_keys. induction b as [|x r IH]; cbn; [tauto|].
  destruct (existsb (okey_eqb x) a) eqn:E; cbn.
  - split; [discriminate|]. intros H. exfalso. apply existsb_exists in E. destruct E as (y & Hy & Exy).
    apply okey_eqb_spec in Exy. subst y. exact (H x (or_introl eq_refl) Hy).
  - rewrite IH. split.
    + intros H k [<-|Hk]; [|now apply H]. intros Hin.
      assert (existsb (okey_eqb x) a = true) by (apply existsb_exists; exists x; split; [assumption|apply okey_eqb_refl]). congruence.
    + intros H k Hk. apply H. now right.
Qed.

(** [n] names a revision [r] of the ascending chain [L] that may be archived: r has confirmed it is paused, is
    not archived yet, is not the newest, and either a newer revision is Available, or r is unavailable, has
    reported what it controls and controls nothing the next newer revision contains. *)
Definition archivable (L : list dset) (n : N) : Prop :=
  exists l1 r l2, L = l1 ++ r :: l2 /\ sname r = n /\ l2 <> [] /\ is_status_paused r = true /\ is_archived r = false /\
    ((exists s, In s l2 /\ is_available s = true /\ (srev r < srev s)%Z) \/
     (is_available r = false /\ exists nx l3 act, l2 = nx :: l3 /\ (srev r < srev nx)%Z /\ active_objects r = Some act /\
        forall k, In k act -> ~ In k (set_objects nx))).

(** The same on the descending list the Go loop walks. *)
Definition cand (rl : list dset) (n : N) : Prop :=
  exists pre r post, rl = pre ++ r :: post /\ pre <> [] /\ sname r = n /\ is_status_paused r = true /\ is_archived r = false /\
    ((exists s, In s pre /\ is_available s = true /\ (srev r < srev s)%Z) \/
     (is_available r = false /\ exists pre' nx act, pre = pre' ++ [nx] /\ (srev r < srev nx)%Z /\ active_objects r = Some act /\
        is_nil (inter_keys (set_objects nx) act) = true)).

Lemma cand_cons c rl n : cand rl n -> cand (c :: rl) n.
Proof.
  intros (pre & r & post & -> & Hne & Hn & Hp & Ha & Hd). exists (c :: pre), r, post. repeat split; auto; [discriminate|].
  destruct Hd as [(s & Hs & H1 & H2)|(Hav & pre' & nx & act & -> & H)].
  - left. exists s. split; [now right|auto].
  - right. split; [assumption|]. exists (c :: pre'), nx, act. split; [reflexivity|exact H].
Qed.

Lemma cand_archivable L n : cand (rev L) n -> archivable L n.
Proof.
  intros (pre & r & post & E & Hne & Hn & Hp & Ha & Hd).
  assert (EL : L = rev post ++ r :: rev pre).
  { rewrite <- (rev_involutive L), E, rev_app_distr. cbn. now rewrite <- app_assoc. }
  exists (rev post), r, (rev pre). repeat split; auto.
  - intros H. apply Hne. rewrite <- (rev_involutive pre), H. reflexivity.
  - destruct Hd as [(s & Hs & H1 & H2)|(Hav & pre' & nx & act & -> & Hr & Hact & Hi)].
    + left. exists s. split; [now apply in_rev in Hs|auto].
    + right. split; [assumption|]. exists nx, (rev pre'), act. rewrite rev_app_distr. cbn. repeat split; auto.
      now apply inter_keys_nil.
Qed.

Section Archive.
  Variable fault : option (nat * bool).

  Lemma ensure_paused_true st mem s st' mem' :
    ensure_paused fault st mem s = (st', mem', true) -> is_status_paused s = true /\ st' = st /\ mem' = mem.
  Proof.
    unfold ensure_paused. destruct (is_status_paused s); [intros H; injection H as <- <-; auto|].
    destruct (is_spec_paused s); [discriminate|]. destruct (upd_req fault st s LPaused (ds_pbp s)). discriminate.
  Qed.

  Lemma archive_all_later_sound cur later : forall st mem st' mem' l,
    archive_all_later fault st mem cur later = (st', mem', l) ->
    forall n, In n l -> exists p, In p later /\ sname p = n /\ is_archived p = false /\ (srev p < srev cur)%Z /\ is_status_paused p = true.
  Proof.
    induction later as [|p r IH]; cbn; intros st mem st' mem' l H n Hn; [injection H as _ _ <-; contradiction|].
    destruct (is_archived p) eqn:Ea; [destruct (IH _ _ _ _ _ H n Hn) as (q & Hq & R); exists q; split; [now right|exact R]|].
    destruct (srev p <? srev cur)%Z eqn:Er; [|destruct (IH _ _ _ _ _ H n Hn) as (q & Hq & R); exists q; split; [now right|exact R]].
    destruct (ensure_paused fault st mem p) as [[st1 mem1] b] eqn:Ee.
    destruct (archive_all_later fault st1 mem1 cur r) as [[st2 mem2] l2] eqn:Er2. injection H as _ _ <-.
    destruct b.
    - destruct Hn as [<-|Hn].
Show.
