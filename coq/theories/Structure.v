(** Model of the package structure rule (C13): which files of a raw package belong to the package
    that gets rendered.
    internal/packages/internal/packageimport/fs.go (walker: dot files and dot folders are skipped),
    internal/packages/internal/packagestructure/structure.go (LoadComponent, rootFiles,
    componentFiles, load: manifest files removed).
    Executable definitions only; proofs are in StructureProofs.v.

    A path is a list of segments (the text between '/'), a segment a list of byte codes. *)
From Coq Require Import List NArith Bool.
From PKO Require Import Util.
Import ListNotations.
Local Open Scope N_scope.

Definition seg := list N.
Definition spath := list seg.

Definition seg_eqb (a b : seg) : bool := list_eqb N.eqb a b.

Definition SLASH : N := 47.
Definition DOT : N := 46.
(** packagetypes/const.go:11: ComponentsFolder = "components" *)
Definition COMPONENTS : seg := [99; 111; 109; 112; 111; 110; 101; 110; 116; 115].
(** packagetypes/const.go:7-9 with both YAML extensions (structure.go:101-104) *)
Definition MANIFEST_NAMES : list seg :=
  [ [109; 97; 110; 105; 102; 101; 115; 116; 46; 121; 97; 109; 108];                          (* manifest.yaml *)
    [109; 97; 110; 105; 102; 101; 115; 116; 46; 121; 109; 108];                              (* manifest.yml *)
    [109; 97; 110; 105; 102; 101; 115; 116; 46; 108; 111; 99; 107; 46; 121; 97; 109; 108];   (* manifest.lock.yaml *)
    [109; 97; 110; 105; 102; 101; 115; 116; 46; 108; 111; 99; 107; 46; 121; 109; 108] ].     (* manifest.lock.yml *)

(** The path as the Go code sees it: segments joined by '/'. *)
Fixpoint flatten (p : spath) : list N :=
  match p with
  | [] => []
  | [s] => s
  | s :: r => s ++ SLASH :: flatten r
  end.

(** strings.HasPrefix *)
Fixpoint starts_with (pre l : list N) : bool :=
  match pre, l with
  | [], _ => true
  | _ :: _, [] => false
  | a :: pre', b :: l' => (a =? b) && starts_with pre' l'
  end.

(** * Import (fs.go:37-48): an entry whose name starts with '.' is skipped, a folder with all below it *)
Definition dot_segment (s : seg) : bool := match s with c :: _ => c =? DOT | [] => false end.
Definition imported (p : spath) : bool := negb (existsb dot_segment p).

(** * Whose file is it (multi-component packages) *)
(** The documented rule: a path belongs to the root package iff it is not under "components/", to
    component c iff it is under "components/c/"; what sits directly in the components folder
    belongs to nobody (Load refuses such packages, structure.go:129-141). *)
Inductive owner := Root | Comp (c : seg) | Stray.

Definition owner_eqb (a b : owner) : bool :=
  match a, b with
  | Root, Root | Stray, Stray => true
  | Comp c, Comp d => seg_eqb c d
  | _, _ => false
  end.

Definition owner_of (p : spath) : owner :=
  match p with
  | s :: c :: _ :: _ => if seg_eqb s COMPONENTS then Comp c else Root
  | [s; _] => if seg_eqb s COMPONENTS then Stray else Root
  | _ => Root
  end.

(** Without spec.components in the root manifest everything is the root's (structure.go:41-44, 106-108). *)
Definition owner_in (multi : bool) (p : spath) : owner := if multi then owner_of p else Root.

(** The path inside the package it belongs to (structure.go:144, 183-190: filepath.Rel). *)
Definition rel_path (o : owner) (p : spath) : spath :=
  match o, p with
  | Comp _, _ :: _ :: r => r
  | _, _ => p
  end.

(** load removes the manifest and the lock file from the package's files (structure.go:99-104). *)
Definition is_manifest_file (p : spath) : bool :=
  match p with [s] => existsb (seg_eqb s) MANIFEST_NAMES | _ => false end.

(** pkg.Files of the package LoadComponent hands to the renderer, as a list of paths. *)
Definition package_files (multi : bool) (o : owner) (raw : list spath) : list spath :=
  filter (fun p => negb (is_manifest_file p))
         (map (rel_path o) (filter (fun p => imported p && owner_eqb (owner_in multi p) o) raw)).

(** The string tests of the Go code. rootFiles (structure.go:167-178): not HasPrefix(path, "components/"). *)
Definition go_root_file (path : list N) : bool := negb (starts_with (COMPONENTS ++ [SLASH]) path).
(** componentFiles (structure.go:180-193) keeps what lies under "components/<c>/". *)
Definition go_component_file (c : seg) (path : list N) : bool :=
  starts_with (COMPONENTS ++ SLASH :: c ++ [SLASH]) path.
