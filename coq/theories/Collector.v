(** Model of the object collection stage of package rendering (C13):
    internal/packages/internal/packagerender/objects.go (filter, path sort, concatenation, labels) and
    internal/packages/internal/packagerender/objectsettemplate.go (phase collector).
    Executable definitions only; proofs are in CollectorProofs.v.

    Strings (annotation/label keys and values, phase names, object identities) are interned as [N];
    0 stands for the empty string, Go's zero value of a missing map entry. Paths are lists of byte
    codes because the sort order of objects.go:105-109 is a byte order. *)
From Coq Require Import List NArith Bool.
Import ListNotations.
Local Open Scope N_scope.

(** * Association lists standing for Go's map[string]string *)
Definition kv := (N * N)%type.

Fixpoint lookup (k : N) (m : list kv) : option N :=
  match m with
  | [] => None
  | (k', v) :: m' => if k' =? k then Some v else lookup k m'
  end.

(** m[k] of a Go map: the zero value "" (= 0) when the key is absent. *)
Definition lookup0 (k : N) (m : list kv) : N := match lookup k m with Some v => v | None => 0 end.

Definition has_key (k : N) (m : list kv) : bool := existsb (fun e => fst e =? k) m.

(** delete(m, k) for every k of ks *)
Definition delete_keys (ks : list N) (m : list kv) : list kv :=
  filter (fun e => negb (existsb (N.eqb (fst e)) ks)) m.

(** labels.Merge(m, extra): entries of [extra] win (k8s.io/apimachinery/pkg/labels/labels.go Merge). *)
Definition merge_labels (m extra : list kv) : list kv :=
  extra ++ filter (fun e => negb (has_key (fst e) extra)) m.

(** * Well-known keys (apis/manifests/v1alpha1/packagemanifest_types.go:12-34) *)
Definition K_PHASE : N := 1.      (* package-operator.run/phase *)
Definition K_CONDMAP : N := 2.    (* package-operator.run/condition-map *)
Definition K_COLLISION : N := 3.  (* package-operator.run/collision-protection *)
Definition K_CEL : N := 4.        (* package-operator.run/condition *)
Definition control_keys : list N := [K_PHASE; K_CONDMAP; K_COLLISION; K_CEL].

Definition L_PACKAGE : N := 1.    (* package-operator.run/package *)
Definition L_INSTANCE : N := 2.   (* package-operator.run/instance *)

(** * Inputs *)
(** A parsed object: only what the collector looks at, plus an identity. [o_keep] is the verdict of
    the CEL condition annotation (objects.go:211-233; true when there is no such annotation). *)
Record object := { o_id : N; o_annos : list kv; o_labels : list kv; o_keep : bool }.

Definition path := list N.
(** One entry of pathObjectMap (objects.go:33-49); [f_excluded] is the verdict of the conditional
    paths of the manifest (objects.go:177-185). *)
Record file := { f_path : path; f_excluded : bool; f_objs : list object }.

(** * Path order (objects.go:103-109) *)
(** strings.ReplaceAll(p, "/", "\x00") *)
Definition path_key (p : path) : list N := map (fun c => if c =? 47 then 0 else c) p.

(** Go's [<] on strings: lexicographic on bytes, a proper prefix is smaller. *)
Fixpoint lex_ltb (a b : list N) : bool :=
  match a, b with
  | _, [] => false
  | [], _ :: _ => true
  | x :: a', y :: b' => if x <? y then true else if y <? x then false else lex_ltb a' b'
  end.

Definition path_ltb (p q : path) : bool := lex_ltb (path_key p) (path_key q).

(** sort.Slice(paths, less): any sorting algorithm returns the same list when the keys are pairwise
    different (CollectorProofs.sorted_perm_unique); insertion sort is the executable stand-in. *)
Fixpoint insert_file (x : file) (l : list file) : list file :=
  match l with
  | [] => [x]
  | y :: l' => if path_ltb (f_path x) (f_path y) then x :: y :: l' else y :: insert_file x l'
  end.

Definition sort_paths (fs : list file) : list file := fold_right insert_file [] fs.

(** * Label stage (objects.go:144-147, 152-157) *)
Definition common_labels (mname pname : N) : list kv := [(L_PACKAGE, mname); (L_INSTANCE, pname)].

Definition label_object (mname pname : N) (o : object) : object :=
  {| o_id := o_id o; o_annos := o_annos o;
     o_labels := merge_labels (o_labels o) (common_labels mname pname); o_keep := o_keep o |}.

(** * Filter stage and concatenation (objects.go:176-195, 111-115) *)
(** An excluded path is deleted from the map, otherwise the objects whose condition is false go. *)
Definition live_of_file (f : file) : list object :=
  if f_excluded f then [] else filter o_keep (f_objs f).

(** RenderObjectsWithFilter: objects in path-then-document order. *)
Definition concat_objects (fs : list file) : list object := flat_map live_of_file (sort_paths fs).

(** * Phase collector (objectsettemplate.go) *)
(** corev1alpha1.ObjectSetObject as far as the collector determines it. [oo_annos = None] is the nil
    map (objectsettemplate.go:58-65), [oo_condmap] says whether condition mappings were attached. *)
Record out_object := {
  oo_id : N; oo_annos : option (list kv); oo_labels : list kv; oo_collision : N; oo_condmap : bool }.

(** Loop body of AddObjects (objectsettemplate.go:50-79). *)
Definition phase_of (o : object) : N := lookup0 K_PHASE (o_annos o).               (* :52 *)

Definition strip_object (o : object) : out_object :=
  let collision := lookup0 K_COLLISION (o_annos o) in                              (* :53 *)
  let annos := delete_keys control_keys (o_annos o) in                             (* :54-57 *)
  {| oo_id := o_id o;
     oo_annos := match annos with [] => None | _ => Some annos end;                 (* :58-65, 73 *)
     oo_labels := o_labels o;
     oo_collision := collision;                                                    (* :78 *)
     oo_condmap := has_key K_CONDMAP (o_annos o) |}.                                (* :68, conditionmap.go:23-26 *)

(** The collector: Go's map name -> entry{Index, Phase}, kept as a list in Index order. *)
Definition collector := list (N * list out_object).

(** newPhaseCollector (objectsettemplate.go:26-40): a later phase of the same name replaces the
    earlier map entry, so only the last occurrence of a name survives (with its own Index). *)
Fixpoint dedup_last (l : list N) : list N :=
  match l with
  | [] => []
  | x :: r => if existsb (N.eqb x) r then dedup_last r else x :: dedup_last r
  end.

Definition new_collector (phases : list N) : collector := map (fun p => (p, [])) (dedup_last phases).

(** addObjects (objectsettemplate.go:85-94): append to the entry of that name, ignore unknown names. *)
Definition add_object (c : collector) (o : object) : collector :=
  map (fun e => if fst e =? phase_of o then (fst e, snd e ++ [strip_object o]) else e) c.

(** Collect (objectsettemplate.go:96-118): empty phases are dropped, the rest ordered by Index. *)
Definition collect_phases (c : collector) : collector :=
  filter (fun e => match snd e with [] => false | _ => true end) c.

(** RenderObjectSetTemplateSpec (objectsettemplate.go:15-24). *)
Definition phase_collector (phases : list N) (objs : list object) : collector :=
  collect_phases (fold_left add_object objs (new_collector phases)).

(** * The whole collection stage: pathObjectMap -> phases of the ObjectSetTemplateSpec *)
Definition collect (phases : list N) (mname pname : N) (fs : list file) : collector :=
  phase_collector phases (map (label_object mname pname) (concat_objects fs)).
