(** TeardownPhase / teardownPhaseObject (C05, C04): which requests a teardown pass may issue, what they
    carry, and when they take effect. All statements hold for an arbitrary third party [between]
    acting between the pass's uncached read and its write. *)
From Coq Require Import List NArith ZArith Bool Lia.
From PKO Require Import Util Base BaseProofs Owner Api ApiProofs Phase PhaseProofs.
Import ListNotations.
Local Open Scope N_scope.

Section Teardown.
  Variable c : cfg.
  Let s := flavor_strat (c_flavor c).

  (** What a teardown write looks like, relative to the version [cu] the pass inspected in world [w]
      and the world [wi] at the instant of the request. *)
  Definition td_ev_ok (ow : owner) (k : okey) (w wi : world) (e : ev) : Prop :=
    exists cu, lookup k (w_store w) = Some cu /\
    match e with
    | EDelete k' rd puid prv pre r =>
        k' = k /\ rd = cu /\ puid = o_uid cu /\ prv = o_rv cu /\ pre = lookup k (w_store wi) /\
        is_controller s (ow_id ow) cu = true /\
        (* the delete takes effect only on exactly the inspected uid and resourceVersion *)
        match r with
        | DOk => exists st, pre = Some st /\ o_uid st = o_uid cu /\ o_rv st = o_rv cu
        | DNotFound => pre = None
        | DConflict => exists st, pre = Some st /\ (o_uid st <> o_uid cu \/ o_rv st <> o_rv cu)
        end
    | ERelease k' rd pre post =>
        k' = k /\ rd = cu /\ pre = lookup k (w_store wi) /\
        is_controller s (ow_id ow) cu = false /\ is_owner s (ow_id ow) cu = true /\
        match post with
        | POk o => exists st, pre = Some st /\
            o_uid o = o_uid st /\ o_gen o = o_gen st /\ o_aowners o = o_aowners st /\ o_rev o = o_rev st /\
            o_cache o = false /\ o_pkg o = o_pkg st /\ o_body o = o_body st /\ o_avail o = o_avail st /\
            o_obsgen o = o_obsgen st /\ o_deleting o = o_deleting st /\ o_fin o = o_fin st /\
            o_owners o = match s with Native => remove_owner_l (ow_id ow) (o_owners cu) | Annot => o_owners cu end
        | PNotFound => pre = None
        | PInvalid => True
        end
    | EApply _ _ _ _ => False
    end.

  Lemma td_obj_events between w ow p w' evs d :
    teardown_object c between w ow p = (w', evs, d) ->
    Forall (td_ev_ok ow (key_of ow p) w (between w)) evs /\ (length evs <= 1)%nat.
  Proof.
    unfold teardown_object. fold s. fold (key_of ow p).
    destruct (preflight_obj (c_flavor c) ow false p); [|intros H; injection H as <- <- <-; split; [constructor|cbn; lia]].
    unfold api_get at 1. destruct (lookup (key_of ow p) (w_store w)) as [cu|] eqn:El;
      [|intros H; injection H as <- <- <-; split; [constructor|cbn; lia]].
    destruct (is_controller s (ow_id ow) cu) eqn:Hc; cbn [negb].
    - destruct (api_delete (between w) (key_of ow p) (o_uid cu) (o_rv cu)) as [w2 r] eqn:Ed.
      intros H; injection H as <- <- <-. split; [|cbn; lia]. constructor; [|constructor].
      exists cu. split; [exact El|]. do 5 (split; [reflexivity|]). split; [exact Hc|].
      pose proof (api_delete_effect _ _ _ _ _ _ Ed) as He. unfold api_get. destruct r.
      + destruct He as (st & -> & ? & ?). eauto.
      + destruct He as [-> _]. reflexivity.
      + destruct He as (_ & st & -> & ?). eauto.
    - destruct (is_owner s (ow_id ow) cu) eqn:Ho; cbn [negb]; [|intros H; injection H as <- <- <-; split; [constructor|cbn; lia]].
      destruct (api_release_patch (between w) (key_of ow p) _) as [[w2 [o|]]|] eqn:Er.
      + intros H; injection H as <- <- <-. split; [|cbn; lia]. constructor; [|constructor].
        exists cu. split; [exact El|]. do 3 (split; [reflexivity|]). split; [exact Hc|]. split; [exact Ho|].
        destruct (api_release_spec _ _ _ _ _ Er) as (st & Hst & _ & ? & ? & ? & ? & ? & ? & ? & ? & ? & ? & ? & ?).
        exists st. unfold api_get. split; [assumption|]. repeat split; assumption.
      + intros H; injection H as <- <- <-. split; [|cbn; lia]. constructor; [|constructor].
        exists cu. split; [exact El|]. do 3 (split; [reflexivity|]). split; [exact Hc|]. split; [exact Ho|]. exact I.
      + intros H; injection H as <- <- <-. split; [|cbn; lia]. constructor; [|constructor].
        exists cu. split; [exact El|]. do 3 (split; [reflexivity|]). split; [exact Hc|]. split; [exact Ho|].
        unfold api_get. unfold api_release_patch in Er. destruct (lookup (key_of ow p) (w_store (between w))); [|reflexivity].
        destruct (negb _); [discriminate|]. match type of Er with context [obj_eqb ?a ?b] => destruct (obj_eqb a b) end; discriminate.
  Qed.

  (** Objects of others are not touched at all; neither are objects excluded by the teardown preflight. *)
  Lemma td_obj_foreign between w ow p cu :
    lookup (key_of ow p) (w_store w) = Some cu ->
    is_owner s (ow_id ow) cu = false -> is_controller s (ow_id ow) cu = false ->
    teardown_object c between w ow p = (w, [], true).
  Proof.
    intros El Ho Hc. unfold teardown_object. fold s. fold (key_of ow p).
    destruct (preflight_obj (c_flavor c) ow false p); [|reflexivity].
    unfold api_get. rewrite El, Hc, Ho. reflexivity.
  Qed.

  Lemma td_obj_frame w ow p w' evs d k' :
    teardown_object c idw w ow p = (w', evs, d) -> k' <> key_of ow p ->
    lookup k' (w_store w') = lookup k' (w_store w).
  Proof.
    unfold teardown_object. fold s. fold (key_of ow p). intros H Hne.
    destruct (preflight_obj (c_flavor c) ow false p); [|injection H as <- <- <-; reflexivity].
    destruct (api_get w (key_of ow p)) as [cu|]; [|injection H as <- <- <-; reflexivity].
    destruct (negb (is_controller s (ow_id ow) cu)).
    - destruct (negb (is_owner s (ow_id ow) cu)); [injection H as <- <- <-; reflexivity|].
      unfold idw in H. destruct (api_release_patch w (key_of ow p) _) as [[w2 [o|]]|] eqn:Er; injection H as <- <- <-.
      + eapply api_release_frame; eauto.
      + eapply api_release_frame; eauto.
      + reflexivity.
    - unfold idw in H. destruct (api_delete w (key_of ow p) (o_uid cu) (o_rv cu)) as [w2 r] eqn:Ed. injection H as <- <- <-.
      replace w2 with (fst (api_delete w (key_of ow p) (o_uid cu) (o_rv cu))) by now rewrite Ed.
      now apply api_delete_frame.
  Qed.
End Teardown.

(** * Content-only reading of a teardown event, and its lift over the object loop *)
Section TeardownPhase.
  Variable c : cfg.
  Let s := flavor_strat (c_flavor c).

  Definition td_ev_local (ow : owner) (ps : list pobj) (e : ev) : Prop :=
    In (ev_key e) (map (key_of ow) ps) /\
    match e with
    | EDelete _ rd puid prv pre r =>
        is_controller s (ow_id ow) rd = true /\ puid = o_uid rd /\ prv = o_rv rd /\
        match r with
        | DOk => exists st, pre = Some st /\ o_uid st = puid /\ o_rv st = prv
        | DNotFound => pre = None
        | DConflict => exists st, pre = Some st /\ (o_uid st <> puid \/ o_rv st <> prv)
        end
    | ERelease _ rd pre post =>
        is_controller s (ow_id ow) rd = false /\ is_owner s (ow_id ow) rd = true /\
        match post with
        | POk o => exists st, pre = Some st /\
            o_uid o = o_uid st /\ o_gen o = o_gen st /\ o_aowners o = o_aowners st /\ o_rev o = o_rev st /\
            o_cache o = false /\ o_pkg o = o_pkg st /\ o_body o = o_body st /\ o_avail o = o_avail st /\
            o_obsgen o = o_obsgen st /\ o_deleting o = o_deleting st /\ o_fin o = o_fin st /\
            o_owners o = match s with Native => remove_owner_l (ow_id ow) (o_owners rd) | Annot => o_owners rd end
        | PNotFound => pre = None
        | PInvalid => True
        end
    | EApply _ _ _ _ => False
    end.

  Lemma td_ev_ok_local ow p ps w wi e : In p ps -> td_ev_ok c ow (key_of ow p) w wi e -> td_ev_local ow ps e.
  Proof.
    intros Hin (cu & El & H). destruct e as [| k rd pre post | k rd puid prv pre r]; [contradiction| |].
    - destruct H as (-> & -> & -> & Hc & Ho & Hp). split; [cbn; now apply in_map|]. split; [assumption|]. split; [assumption|]. exact Hp.
    - destruct H as (-> & -> & -> & -> & -> & Hc & Hr). split; [cbn; now apply in_map|]. split; [assumption|]. split; [reflexivity|]. split; [reflexivity|]. exact Hr.
  Qed.

  (** C05: every request of a teardown pass is a delete of an object the owner controlled in the
      version it inspected, carrying exactly that version's UID and resourceVersion and taking effect
      only on it, or the release patch of a co-owned object; whatever third parties do in between. *)
  Lemma td_objs_events between ow ps : forall w alldone w' evs r,
    teardown_objects c between w ow ps alldone = (w', evs, r) -> Forall (td_ev_local ow ps) evs.
  Proof.
    induction ps as [|p ps IH]; intros w alldone w' evs r H; cbn in H.
    - injection H as <- <- <-. constructor.
    - destruct (teardown_object c between w ow p) as [[w1 e1] d] eqn:E1.
      destruct (td_obj_events c _ _ _ _ _ _ _ E1) as [H1 _].
      assert (H1' : Forall (td_ev_local ow (p :: ps)) e1).
      { eapply Forall_impl; [|exact H1]. intros e He. eapply td_ev_ok_local; [now left|exact He]. }
      assert (Hweak : forall l, Forall (td_ev_local ow ps) l -> Forall (td_ev_local ow (p :: ps)) l).
      { intros l Hl. eapply Forall_impl; [|exact Hl]. intros e [Hk He]. split; [now right|exact He]. }
      destruct (teardown_err e1); [injection H as <- <- <-; exact H1'|].
      destruct (teardown_objects c between w1 ow ps (alldone && d)) as [[w2 e2] r2] eqn:E2. injection H as <- <- <-.
      apply Forall_app. split; [exact H1'|]. apply Hweak. eapply IH; eauto.
  Qed.

  (** Keys the phase does not name are untouched by a teardown pass. *)
  Lemma td_objs_frame ow k ps : forall w alldone w' evs r,
    teardown_objects c idw w ow ps alldone = (w', evs, r) ->
    (forall p, In p ps -> key_of ow p <> k) -> lookup k (w_store w') = lookup k (w_store w).
  Proof.
    induction ps as [|p ps IH]; intros w alldone w' evs r H Hk; cbn in H.
    - injection H as <- <- <-. reflexivity.
    - destruct (teardown_object c idw w ow p) as [[w1 e1] d] eqn:E1.
      assert (Hf : lookup k (w_store w1) = lookup k (w_store w)).
      { eapply td_obj_frame; eauto. intros Heq. eapply Hk; [now left|]. now symmetry. }
      destruct (teardown_err e1); [injection H as <- <- <-; exact Hf|].
      destruct (teardown_objects c idw w1 ow ps (alldone && d)) as [[w2 e2] r2] eqn:E2. injection H as <- <- <-.
      rewrite <- Hf. eapply IH; eauto. intros p0 Hin. apply Hk. now right.
  Qed.

  (** An object the owner neither owns nor controls survives a teardown pass unchanged and unnamed. *)
  Lemma td_objs_foreign ow k o ps : forall w alldone w' evs r,
    teardown_objects c idw w ow ps alldone = (w', evs, r) ->
    lookup k (w_store w) = Some o -> is_owner s (ow_id ow) o = false -> is_controller s (ow_id ow) o = false ->
    lookup k (w_store w') = Some o /\ Forall (fun e => ev_key e <> k) evs.
  Proof.
    induction ps as [|p ps IH]; intros w alldone w' evs r H El Ho Hc; cbn in H.
    - injection H as <- <- <-. split; [assumption|constructor].
    - destruct (okey_dec (key_of ow p) k) as [Hk|Hk].
      + assert (El' : lookup (key_of ow p) (w_store w) = Some o) by now rewrite Hk.
        rewrite (td_obj_foreign c idw w ow p o El' Ho Hc) in H. cbn in H.
        destruct (teardown_objects c idw w ow ps (alldone && true)) as [[w2 e2] r2] eqn:E2. injection H as <- <- <-.
        cbn. eapply IH; eauto.
      + destruct (teardown_object c idw w ow p) as [[w1 e1] d] eqn:E1.
        assert (Hf : lookup k (w_store w1) = Some o).
        { rewrite <- El. eapply td_obj_frame; eauto. }
        assert (He1 : Forall (fun e => ev_key e <> k) e1).
        { destruct (td_obj_events c _ _ _ _ _ _ _ E1) as [H1 _]. eapply Forall_impl; [|exact H1].
          intros e (cu & _ & He). destruct e; [contradiction| |]; cbn.
          - destruct He as (-> & _). exact Hk.
          - destruct He as (-> & _). exact Hk. }
        destruct (teardown_err e1); [injection H as <- <- <-; auto|].
        destruct (teardown_objects c idw w1 ow ps (alldone && d)) as [[w2 e2] r2] eqn:E2. injection H as <- <- <-.
        destruct (IH _ _ _ _ _ E2 Hf Ho Hc) as [? ?]. split; [assumption|]. apply Forall_app. auto.
  Qed.
End TeardownPhase.
