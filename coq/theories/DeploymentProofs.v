(** Theorems about Deployment.v: for ANY hash function, over all worlds / histories.
    Part 1: sorting, requests. Part 2: the archive decision (C08 kernel). Part 3: every event of a pass is
    justified (C07 / C08 / C09 pass level). Part 4: histories (C07 invariants). *)
From Coq Require Import List NArith ZArith Bool Lia Permutation.
From PKO Require Import Util Base BaseProofs Owner Api Phase ObjectSet ObjectSetProofs Deployment.
Import ListNotations.
Local Open Scope N_scope.

(** * Part 1: lists, sorting *)
Section SortFacts.
  Context {A : Type} (lt : A -> A -> bool).

  Lemma ins_sorted_perm x l : Permutation (ins_sorted lt x l) (x :: l).
  Proof.
    induction l as [|y r IH]; cbn; [reflexivity|]. destruct (lt y x); [|reflexivity].
    rewrite IH. apply perm_swap.
  Qed.

  Lemma isort_perm l : Permutation (isort lt l) l.
  Proof. induction l as [|x r IH]; cbn; [reflexivity|]. rewrite ins_sorted_perm. now constructor. Qed.

  Lemma isort_in l x : In x (isort lt l) <-> In x l.
  Proof. split; apply Permutation_in; [apply isort_perm|apply Permutation_sym, isort_perm]. Qed.

  Lemma isort_length l : length (isort lt l) = length l.
  Proof. apply Permutation_length, isort_perm. Qed.

  (** greater than everything: goes last *)
  Lemma ins_sorted_last x l : (forall y, In y l -> lt y x = true) -> ins_sorted lt x l = l ++ [x].
  Proof.
    induction l as [|y r IH]; cbn; intros H; [reflexivity|]. rewrite (H y (or_introl eq_refl)). f_equal. apply IH. auto.
  Qed.

  (** not greater than the last element: the last element stays last *)
  Lemma ins_sorted_keep_last x l m : lt m x = false -> ins_sorted lt x (l ++ [m]) = ins_sorted lt x l ++ [m].
  Proof.
    intros Hm. induction l as [|y r IH]; cbn; [now rewrite Hm|]. destruct (lt y x); [now rewrite IH|reflexivity].
  Qed.
End SortFacts.

Lemma map_isort_perm {A B} (lt : A -> A -> bool) (f : A -> B) l : Permutation (map f (isort lt l)) (map f l).
Proof. apply Permutation_map, isort_perm. Qed.

Lemma NoDup_map_isort {A B} (lt : A -> A -> bool) (f : A -> B) l : NoDup (map f l) -> NoDup (map f (isort lt l)).
Proof. intros H. eapply Permutation_NoDup; [apply Permutation_sym, map_isort_perm|exact H]. Qed.

Lemma NoDup_map_filter {A B} (f : A -> B) (g : A -> bool) l : NoDup (map f l) -> NoDup (map f (filter g l)).
Proof.
  induction l as [|x r IH]; cbn; intros H; [constructor|]. inversion H as [|? ? Hn Hr]; subst.
  destruct (g x); cbn; [constructor|]; auto. intros Hin. apply Hn. apply in_map_iff in Hin. destruct Hin as (y & Hy & Hin).
  apply filter_In in Hin. apply in_map_iff. exists y. tauto.
Qed.

(** The strict maximum by revision among uniquely named ObjectSets is the last element after sorting. *)
Lemma isort_rev_max_last (l : list dset) (s : dset) :
  NoDup (map sname l) -> In s l ->
  (forall t, In t l -> sname t <> sname s -> (srev t < srev s)%Z) ->
  exists l0, isort rev_lt l = l0 ++ [s].
Proof.
  induction l as [|x r IH]; cbn [In map isort]; intros Hnd Hin Hmax; [contradiction|].
  inversion Hnd as [|? ? Hn Hr]; subst. destruct Hin as [->|Hin].
  - exists (isort rev_lt r). apply ins_sorted_last. intros y Hy. apply isort_in in Hy. unfold rev_lt. apply Z.ltb_lt.
    apply Hmax; [now right|]. intros E. apply Hn. rewrite <- E. now apply in_map.
  - destruct (IH Hr Hin) as (l0 & E). { intros t Ht. apply Hmax. now right. }
    rewrite E. exists (ins_sorted rev_lt x l0). apply ins_sorted_keep_last. unfold rev_lt. apply Z.ltb_ge.
    assert (srev x < srev s)%Z; [|lia]. apply Hmax; [now left|]. intros E'. apply Hn. rewrite E'. now apply in_map.
Qed.

Lemma NoDup_app_single {A} (l : list A) x : NoDup l -> ~ In x l -> NoDup (l ++ [x]).
Proof.
  induction l as [|y r IH]; cbn; intros Hn Hx; [constructor; [tauto|constructor]|].
  inversion Hn as [|? ? Hy Hr]; subst. constructor.
  - intros Hin. apply in_app_or in Hin. destruct Hin as [Hin|[->|[]]]; [contradiction|]. apply Hx. now left.
  - apply IH; [assumption|]. intros Hin. apply Hx. now right.
Qed.

(** * find / put / del on ObjectSet lists *)
Lemma find_dset_some sets n s : find_dset sets n = Some s -> In s sets /\ sname s = n.
Proof. unfold find_dset. intros H. apply find_some in H. destruct H as [H1 H2]. split; [assumption|now apply N.eqb_eq]. Qed.

Lemma find_dset_none sets n : find_dset sets n = None -> forall s, In s sets -> sname s <> n.
Proof. unfold find_dset. intros H s Hs E. apply (find_none _ _ H) in Hs. apply N.eqb_neq in Hs. contradiction. Qed.

Lemma find_dset_none_names sets n : find_dset sets n = None -> ~ In n (map sname sets).
Proof. intros H Hin. apply in_map_iff in Hin. destruct Hin as (s & E & Hs). exact (find_dset_none _ _ H s Hs E). Qed.

Lemma in_put_dset sets s x : In x (put_dset sets s) -> x = s \/ In x sets.
Proof.
  induction sets as [|y r IH]; cbn; [intros [<-|[]]; now left|].
  destruct (sname y =? sname s); cbn; intros [<-|H]; auto. destruct (IH H); auto.
Qed.

Lemma in_del_dset sets n x : In x (del_dset sets n) <-> In x sets /\ sname x <> n.
Proof. unfold del_dset. rewrite filter_In, negb_true_iff, N.eqb_neq. tauto. Qed.

(** Replacing an ObjectSet by one that agrees on [f] leaves [map f] unchanged. *)
Lemma map_put_dset {B} (f : dset -> B) sets cur s' :
  find_dset sets (sname s') = Some cur -> f s' = f cur -> map f (put_dset sets s') = map f sets.
Proof.
  unfold find_dset. induction sets as [|y r IH]; cbn; [discriminate|].
  destruct (sname y =? sname s') eqn:E; cbn.
  - intros H Hf. injection H as ->. now rewrite Hf.
  - intros H Hf. f_equal. now apply IH.
Qed.

Lemma map_del_dset {B} (f : dset -> B) (g : B -> bool) sets n :
  (forall s, g (f s) = negb (sname s =? n)) -> map f (del_dset sets n) = filter g (map f sets).
Proof.
  intros Hg. unfold del_dset. induction sets as [|y r IH]; cbn; [reflexivity|]. rewrite Hg.
  destruct (negb (sname y =? n)); cbn; now rewrite IH.
Qed.

(** * Part 1b: requests *)
Section Requests.
  Variable hash : N -> option N -> N.
  Variable fault : option (nat * bool).

  Lemma read_req_evs st : p_evs (read_req fault st) = p_evs st.
  Proof. unfold read_req. destruct (p_dead st); [reflexivity|]. destruct (fault_now fault st); cbn; now rewrite app_nil_r. Qed.

  Lemma read_req_w st : p_w (read_req fault st) = p_w st.
  Proof. unfold read_req. destruct (p_dead st); [reflexivity|]. destruct (fault_now fault st); reflexivity. Qed.

  Lemma read_req_dead st : p_dead st = true -> read_req fault st = st.
  Proof. unfold read_req. now intros ->. Qed.

  Lemma get_req_evs st b : p_evs (get_req fault st b) = p_evs st.
  Proof. unfold get_req. destruct (p_dead st); [reflexivity|]. destruct (fault_now fault st); cbn; now rewrite app_nil_r. Qed.

  Lemma get_req_w st b : p_w (get_req fault st b) = p_w st.
  Proof. unfold get_req. destruct (p_dead st); [reflexivity|]. destruct (fault_now fault st); reflexivity. Qed.

  Lemma load_slices_req_same (slices : N -> option (list pobj)) s st :
    p_evs (load_slices_req fault slices st s) = p_evs st /\ p_w (load_slices_req fault slices st s) = p_w st.
  Proof.
    unfold load_slices_req. generalize (slice_refs s). intros l. revert st.
    induction l as [|n r IH]; intros st; cbn; [auto|]. destruct (IH (get_req fault st (match slices n with Some _ => true | None => false end))) as [-> ->].
    now rewrite get_req_evs, get_req_w.
  Qed.

  (** What an Update request does. *)
  Lemma upd_req_spec st s life pbp st' s' :
    upd_req fault st s life pbp = (st', s') ->
    (p_evs st' = p_evs st /\ p_w st' = p_w st /\ s' = s /\ p_dead st = true /\ st' = st) \/
    (p_dead st = false /\ exists r, p_evs st' = p_evs st ++ [DUpdate (sname s) life pbp r] /\
       ((p_w st' = p_w st /\ s' = s /\ p_dead st' = true /\ (r = WErr \/ r = WNotFound \/ r = WConflict)) \/
        (exists cur, find_dset (dw_sets (p_w st)) (sname s) = Some cur /\ os_rv (ds_set cur) = os_rv (ds_set s) /\
           s' = set_life cur life pbp (w_rv (dw_w (p_w st))) /\
           p_w st' = with_sets (p_w st) (put_dset (dw_sets (p_w st)) s') (bump_rv (dw_w (p_w st))) /\
           (r = WOk \/ r = WLost)))).
  Proof.
    unfold upd_req. destruct (p_dead st) eqn:Ed; [intros H; injection H as <- <-; left; auto|].
    intros H. right. split; [reflexivity|].
    destruct (fault_now fault st) eqn:Ef.
    - destruct (find_dset _ _) as [cur|] eqn:Efd.
      + destruct (negb (os_rv (ds_set cur) =? os_rv (ds_set s))) eqn:Erv; injection H as <- <-.
        * exists WConflict. split; [reflexivity|]. left. auto 6.
        * exists WOk. split; [reflexivity|]. right. exists cur. apply negb_false_iff, N.eqb_eq in Erv. auto 6.
      + injection H as <- <-. exists WNotFound. split; [reflexivity|]. left. auto 6.
    - injection H as <- <-. exists WErr. split; [reflexivity|]. left. auto 6.
    - destruct (find_dset _ _) as [cur|] eqn:Efd.
      + destruct (negb (os_rv (ds_set cur) =? os_rv (ds_set s))) eqn:Erv; injection H as <- <-.
        * exists WConflict. split; [reflexivity|]. left. auto 6.
        * exists WLost. split; [reflexivity|]. right. exists cur. apply negb_false_iff, N.eqb_eq in Erv. auto 6.
      + injection H as <- <-. exists WNotFound. split; [reflexivity|]. left. auto 6.
  Qed.

  Lemma del_req_spec st n :
    (del_req fault st n = st /\ p_dead st = true) \/
    (p_dead st = false /\ exists r, p_evs (del_req fault st n) = p_evs st ++ [DDelete n r] /\
       (p_w (del_req fault st n) = p_w st \/
        (exists s, find_dset (dw_sets (p_w st)) n = Some s /\
           (p_w (del_req fault st n) = with_sets (p_w st) (put_dset (dw_sets (p_w st)) (set_deleting s (w_rv (dw_w (p_w st))))) (bump_rv (dw_w (p_w st))) \/
            p_w (del_req fault st n) = with_sets (p_w st) (del_dset (dw_sets (p_w st)) n) (dw_w (p_w st)))))).
  Proof.
    unfold del_req. destruct (p_dead st) eqn:Ed; [left; auto|]. right. split; [reflexivity|].
    destruct (fault_now fault st).
    - destruct (find_dset _ _) as [s|] eqn:Efd.
      + exists DlOk. split; [reflexivity|]. cbn [emit p_w].
        destruct (os_fin (ds_set s) || os_orphan (ds_set s)); [destruct (os_deleting (ds_set s))|]; [now left| |]; right; exists s; auto.
      + exists DlNotFound. split; [reflexivity|]. now left.
    - exists DlErr. split; [reflexivity|]. now left.
    - destruct (find_dset _ _) as [s|] eqn:Efd.
      + exists DlLost. split; [reflexivity|]. cbn [emit p_w].
        destruct (os_fin (ds_set s) || os_orphan (ds_set s)); [destruct (os_deleting (ds_set s))|]; [now left| |]; right; exists s; auto.
      + exists DlNotFound. split; [reflexivity|]. now left.
  Qed.
End Requests.

(** * Part 2: the archive decision (archive_reconciler.go) for every chain of revisions *)

Lemma inter_keys_nil a b : is_nil (inter_keys a b) = true <-> (forall k, In k b -> ~ In k a).
Proof.
  unfold inter_keys. induction b as [|x r IH]; cbn; [tauto|].
  destruct (existsb (okey_eqb x) a) eqn:E; cbn.
  - split; [discriminate|]. intros H. exfalso. apply existsb_exists in E. destruct E as (y & Hy & Exy).
    apply okey_eqb_spec in Exy. subst y. exact (H x (or_introl eq_refl) Hy).
  - rewrite IH. split.
    + intros H k [<-|Hk]; [|now apply H]. intros Hin.
      assert (existsb (okey_eqb x) a = true) by (apply existsb_exists; exists x; split; [assumption|apply okey_eqb_refl]). congruence.
    + intros H k Hk. apply H. now right.
Qed.

(** [n] names a revision [r] of the ascending chain [L] that may be archived: r has confirmed it is paused, is
    not archived yet, is not the newest, and either a newer revision is Available, or r is unavailable, has
    reported what it controls and controls nothing the next newer revision contains ([objs]), where the contents of
    the next newer revision are known ([okn]: every ObjectSlice it references could be read). *)
Definition archivable (objs : dset -> list okey) (okn : dset -> Prop) (L : list dset) (n : N) : Prop :=
  exists l1 r l2, L = l1 ++ r :: l2 /\ sname r = n /\ l2 <> [] /\ is_status_paused r = true /\ is_archived r = false /\
    ((exists s, In s l2 /\ is_available s = true /\ (srev r < srev s)%Z) \/
     (is_available r = false /\ exists nx l3 act, l2 = nx :: l3 /\ (srev r < srev nx)%Z /\ active_objects r = Some act /\
        okn nx /\ forall k, In k act -> ~ In k (objs nx))).

(** The same on the descending list the Go loop walks. *)
Definition cand (objs : dset -> list okey) (okn : dset -> Prop) (rl : list dset) (n : N) : Prop :=
  exists pre r post, rl = pre ++ r :: post /\ pre <> [] /\ sname r = n /\ is_status_paused r = true /\ is_archived r = false /\
    ((exists s, In s pre /\ is_available s = true /\ (srev r < srev s)%Z) \/
     (is_available r = false /\ exists pre' nx act, pre = pre' ++ [nx] /\ (srev r < srev nx)%Z /\ active_objects r = Some act /\
        okn nx /\ is_nil (inter_keys (objs nx) act) = true)).

Lemma cand_cons objs okn c rl n : cand objs okn rl n -> cand objs okn (c :: rl) n.
Proof.
  intros (pre & r & post & -> & Hne & Hn & Hp & Ha & Hd). exists (c :: pre), r, post. repeat split; auto; [discriminate|].
  destruct Hd as [(s & Hs & H1 & H2)|(Hav & pre' & nx & act & -> & H)].
  - left. exists s. split; [now right|auto].
  - right. split; [assumption|]. exists (c :: pre'), nx, act. split; [reflexivity|exact H].
Qed.

Lemma cand_archivable objs okn L n : cand objs okn (rev L) n -> archivable objs okn L n.
Proof.
  intros (pre & r & post & E & Hne & Hn & Hp & Ha & Hd).
  assert (EL : L = rev post ++ r :: rev pre).
  { rewrite <- (rev_involutive L), E, rev_app_distr. cbn. now rewrite <- app_assoc. }
  exists (rev post), r, (rev pre). repeat split; auto.
  - intros H. apply Hne. rewrite <- (rev_involutive pre), H. reflexivity.
  - destruct Hd as [(s & Hs & H1 & H2)|(Hav & pre' & nx & act & -> & Hr & Hact & Hk & Hi)].
    + left. exists s. split; [now apply in_rev in Hs|auto].
    + right. split; [assumption|]. exists nx, (rev pre'), act. rewrite rev_app_distr. cbn. repeat split; auto.
      now apply inter_keys_nil.
Qed.

(** every ObjectSlice the revision references can be read *)
Definition refs_known (slices : N -> option (list pobj)) (s : dset) : Prop := forall n, In n (slice_refs s) -> slices n <> None.
(** what the archive decision knows about the next newer revision: everything, once it reads the slices *)
Definition okn_sh (slices : N -> option (list pobj)) (sliceaware : bool) (s : dset) : Prop := sliceaware = true -> refs_known slices s.

Section Archive.
  Variable fault : option (nat * bool).
  Variable slices : N -> option (list pobj).
  Variable sliceaware : bool.
  Variable rev0ok : bool.
  Let objs := seen_objects_sh slices sliceaware.
  Let okn := okn_sh slices sliceaware.

  Lemma ensure_paused_true st mem s st' mem' :
    ensure_paused fault st mem s = (st', mem', true) -> is_status_paused s = true /\ st' = st /\ mem' = mem.
  Proof.
    unfold ensure_paused. destruct (is_status_paused s); [intros H; injection H as <- <-; auto|].
    destruct (is_spec_paused s); [discriminate|]. destruct (upd_req fault st s LPaused (ds_pbp s)). discriminate.
  Qed.

  Lemma archive_all_later_sound cur later : forall st mem st' mem' l,
    archive_all_later fault st mem cur later = (st', mem', l) ->
    forall n, In n l -> exists p, In p later /\ sname p = n /\ is_archived p = false /\ (srev p < srev cur)%Z /\ is_status_paused p = true.
  Proof.
    induction later as [|p r IH]; cbn; intros st mem st' mem' l H n Hn; [injection H as _ _ <-; contradiction|].
    destruct (is_archived p) eqn:Ea; [destruct (IH _ _ _ _ _ H n Hn) as (q & Hq & R); exists q; split; [now right|exact R]|].
    destruct (srev p <? srev cur)%Z eqn:Er; [|destruct (IH _ _ _ _ _ H n Hn) as (q & Hq & R); exists q; split; [now right|exact R]].
    destruct (ensure_paused fault st mem p) as [[st1 mem1] b] eqn:Ee.
    destruct (archive_all_later fault st1 mem1 cur r) as [[st2 mem2] l2] eqn:Er2. injection H as _ _ <-.
    destruct b.
    - destruct Hn as [<-|Hn].
      + exists p. apply ensure_paused_true in Ee. apply Z.ltb_lt in Er. repeat split; try tauto.
      + destruct (IH _ _ _ _ _ Er2 n Hn) as (q & Hq & R). exists q. split; [now right|exact R].
    - destruct (IH _ _ _ _ _ Er2 n Hn) as (q & Hq & R). exists q. split; [now right|exact R].
  Qed.

  (** Once a request has failed nothing else happens in the pass. *)
  Lemma upd_req_dead st s life pbp : p_dead st = true -> upd_req fault st s life pbp = (st, s).
  Proof. unfold upd_req. now intros ->. Qed.

  Lemma get_req_dead st b : p_dead st = true -> get_req fault st b = st.
  Proof. unfold get_req. now intros ->. Qed.

  Lemma ensure_paused_dead st mem s st' mem' b :
    ensure_paused fault st mem s = (st', mem', b) -> p_dead st = true -> p_dead st' = true.
  Proof.
    unfold ensure_paused. intros H Hd. destruct (is_status_paused s); [now injection H as <- _ _|].
    destruct (is_spec_paused s); [now injection H as <- _ _|]. rewrite (upd_req_dead _ _ _ _ Hd) in H. now injection H as <- _ _.
  Qed.

  Lemma load_slices_req_dead s : forall st, p_dead st = true -> p_dead (load_slices_req fault slices st s) = true.
  Proof.
    unfold load_slices_req. generalize (slice_refs s). intros l. induction l as [|n r IH]; intros st Hd; cbn; [assumption|].
    apply IH. now rewrite (get_req_dead _ _ Hd).
  Qed.

  (** ... and if the pass is still alive after the slice reads, every referenced slice was there. *)
  Lemma load_slices_req_alive s : forall st, p_dead (load_slices_req fault slices st s) = false -> refs_known slices s.
  Proof.
    unfold load_slices_req, refs_known. generalize (slice_refs s). intros l. induction l as [|n r IH]; intros st Ha m Hm; [contradiction|].
    cbn in Ha. destruct Hm as [<-|Hm]; [|eapply IH; eauto].
    destruct (p_dead (get_req fault st (match slices n with Some _ => true | None => false end))) eqn:Eg.
    - assert (Hd : p_dead (fold_left (fun st0 n0 => get_req fault st0 (match slices n0 with Some _ => true | None => false end)) r
                             (get_req fault st (match slices n with Some _ => true | None => false end))) = true).
      { clear - Eg. revert Eg. generalize (get_req fault st (match slices n with Some _ => true | None => false end)).
        induction r as [|x r IH]; intros st0 Hd; cbn; [assumption|]. apply IH. now rewrite (get_req_dead _ _ Hd). }
      congruence.
    - unfold get_req in Eg. destruct (p_dead st) eqn:Ed; [congruence|]. destruct (fault_now fault st); cbn in Eg; try discriminate.
      destruct (slices n); [discriminate|cbn in Eg; discriminate].
  Qed.

  Lemma archive_all_later_dead cur later : forall st mem st' mem' l,
    archive_all_later fault st mem cur later = (st', mem', l) -> p_dead st = true -> p_dead st' = true.
  Proof.
    induction later as [|p r IH]; cbn; intros st mem st' mem' l H Hd; [now injection H as <- _ _|].
    destruct (is_archived p); [eapply IH; eauto|]. destruct (srev p <? srev cur)%Z; [|eapply IH; eauto].
    destruct (ensure_paused fault st mem p) as [[st1 mem1] b] eqn:Ee.
    destruct (archive_all_later fault st1 mem1 cur r) as [[st2 mem2] l2] eqn:Er2. injection H as <- _ _.
    eapply IH; [exact Er2|]. eapply ensure_paused_dead; eauto.
  Qed.

  Lemma intermediate_dead st mem prev cur st' mem' b :
    intermediate_sh fault slices sliceaware st mem prev cur = (st', mem', b) -> p_dead st = true -> p_dead st' = true.
  Proof.
    unfold intermediate_sh. intros H Hd.
    assert (H0 : p_dead (if sliceaware then load_slices_req fault slices st cur else st) = true)
      by (destruct sliceaware; [now apply load_slices_req_dead|assumption]).
    destruct (active_objects prev); [|now injection H as <- _ _].
    destruct (is_nil _ && negb _); [eapply ensure_paused_dead; eauto|now injection H as <- _ _].
  Qed.

  Lemma to_archive_dead : forall rl st mem st' mem' l,
    to_archive_sh fault slices sliceaware st mem rl = (st', mem', l) -> p_dead st = true -> p_dead st' = true.
  Proof.
    induction rl as [|cur rest IH]; intros st mem st' mem' l H Hd; [cbn in H; now injection H as <- _ _|].
    cbn [to_archive_sh] in H. destruct (is_available cur); [eapply archive_all_later_dead; eauto|].
    destruct rest as [|prev rest']; [now injection H as <- _ _|].
    destruct (is_archived prev); [eapply IH; eauto|]. destruct (srev cur <=? srev prev)%Z; [eapply IH; eauto|].
    destruct (intermediate_sh fault slices sliceaware st mem prev cur) as [[st1 mem1] b] eqn:Ei.
    destruct (to_archive_sh fault slices sliceaware st1 mem1 (prev :: rest')) as [[st2 mem2] l2] eqn:Et. injection H as <- _ _.
    eapply IH; [exact Et|]. eapply intermediate_dead; eauto.
  Qed.

  Lemma intermediate_true st mem prev cur st' mem' :
    intermediate_sh fault slices sliceaware st mem prev cur = (st', mem', true) ->
    is_status_paused prev = true /\ is_available prev = false /\ (p_dead st' = false -> okn cur) /\
    exists act, active_objects prev = Some act /\ is_nil (inter_keys (objs cur) act) = true.
  Proof.
    unfold intermediate_sh. destruct (active_objects prev) as [act|]; [|discriminate].
    fold objs. destruct (is_nil (inter_keys (objs cur) act)) eqn:Ei; cbn [andb]; [|discriminate].
    destruct (is_available prev); cbn [negb]; [discriminate|]. intros H. apply ensure_paused_true in H. destruct H as (Hsp & -> & _).
    split; [assumption|]. split; [reflexivity|]. split; [|exists act; auto].
    unfold okn, okn_sh. intros Ha ->. now apply load_slices_req_alive in Ha.
  Qed.

  (** objectSetsToBeArchived only names archivable revisions: for every chain, any length, any flags
      (as long as no request of the walk failed: otherwise the pass ends with an error and archives nothing). *)
  Lemma to_archive_sound : forall rl st mem st' mem' l,
    to_archive_sh fault slices sliceaware st mem rl = (st', mem', l) -> p_dead st' = false ->
    forall n, In n l -> cand objs okn rl n.
  Proof.
    induction rl as [|cur rest IH]; intros st mem st' mem' l H Hal n Hn; [cbn in H; injection H as _ _ <-; contradiction|].
    cbn [to_archive_sh] in H. destruct (is_available cur) eqn:Eav.
    - destruct (archive_all_later_sound _ _ _ _ _ _ _ H n Hn) as (p & Hp & Hnm & Ha & Hr & Hsp).
      apply in_rev in Hp. apply in_split in Hp. destruct Hp as (a & b & ->).
      exists (cur :: a), p, b. repeat split; auto; [discriminate|]. left. exists cur. split; [now left|auto].
    - destruct rest as [|prev rest']; [injection H as _ _ <-; contradiction|].
      destruct (is_archived prev) eqn:Ea; [apply cand_cons; eapply IH; eauto|].
      destruct (srev cur <=? srev prev)%Z eqn:Er; [apply cand_cons; eapply IH; eauto|].
      destruct (intermediate_sh fault slices sliceaware st mem prev cur) as [[st1 mem1] b] eqn:Ei.
      destruct (to_archive_sh fault slices sliceaware st1 mem1 (prev :: rest')) as [[st2 mem2] l2] eqn:Et. injection H as <- _ <-.
      assert (Hin : (b = true /\ n = sname prev) \/ In n l2).
      { destruct b; [destruct Hn as [<-|Hn]; [left; auto|now right]|now right]. }
      destruct Hin as [[-> ->]|Hin]; [|apply cand_cons; eapply IH; eauto].
      assert (Hal1 : p_dead st1 = false).
      { destruct (p_dead st1) eqn:E1; [|reflexivity]. rewrite (to_archive_dead _ _ _ _ _ _ Et E1) in Hal. discriminate. }
      apply intermediate_true in Ei. destruct Ei as (Hsp & Hav & Hk & act & Hact & Hi).
      exists [cur], prev, rest'. repeat split; auto; [discriminate|]. right. split; [assumption|].
      exists [], cur, act. apply Z.leb_gt in Er. repeat split; auto.
  Qed.

  Theorem archive_kernel_sound L st mem st' mem' l :
    to_archive_sh fault slices sliceaware st mem (rev L) = (st', mem', l) -> p_dead st' = false ->
    forall n, In n l -> archivable objs okn L n.
  Proof. intros H Hal n Hn. apply cand_archivable. eapply to_archive_sound; eauto. Qed.
End Archive.

(** The newest revision of a chain is never archivable (names unique). *)
Lemma archivable_not_newest objs okn L n : NoDup (map sname L) -> archivable objs okn L n ->
  exists l0 newest, L = l0 ++ [newest] /\ sname newest <> n.
Proof.
  intros Hnd (l1 & r & l2 & -> & Hn & Hne & _).
  destruct (exists_last Hne) as (l2' & x & ->). exists (l1 ++ r :: l2'), x. split; [now rewrite <- app_assoc|].
  intros E. rewrite map_app in Hnd. cbn in Hnd. apply NoDup_remove_2 in Hnd. apply Hnd.
  apply in_or_app. right. rewrite map_app. apply in_or_app. right. cbn. left. congruence.
Qed.

(** The decision only reads fields that the pause propagation of the same pass does not change. *)
Definition same_core (a b : dset) : Prop :=
  os_id (ds_set a) = os_id (ds_set b) /\ srev a = srev b /\ sconds a = sconds b /\ is_archived a = is_archived b /\
  os_ctrlof (ds_set a) = os_ctrlof (ds_set b) /\ ds_ctrlset a = ds_ctrlset b /\ os_phases (ds_set a) = os_phases (ds_set b) /\
  ds_hash a = ds_hash b.

Lemma same_core_refl a : same_core a a.
Proof. repeat split. Qed.

Lemma same_core_facts a b : same_core a b ->
  sname a = sname b /\ srev a = srev b /\ is_status_paused a = is_status_paused b /\ is_available a = is_available b /\
  is_archived a = is_archived b /\ active_objects a = active_objects b /\ set_objects a = set_objects b /\ ds_hash a = ds_hash b.
Proof.
  intros (Hid & Hr & Hc & Ha & Hco & Hcs & Hph & Hh).
  assert (Eobj : set_objects a = set_objects b).
  { unfold set_objects, all_objects. rewrite Hph. apply map_ext. intros p. unfold spec_key, desired_key, as_owner. cbn. now rewrite Hid. }
  unfold sname, is_status_paused, is_available, active_objects in *. rewrite Hid, Hc, Ha, Hco, Hcs. repeat split; auto.
Qed.

Lemma seen_objects_core slices sliceaware a b : same_core a b -> seen_objects_sh slices sliceaware a = seen_objects_sh slices sliceaware b.
Proof.
  intros (Hid & Hr & Hc & Ha & Hco & Hcs & Hph & Hh).
  assert (Eobj : set_objects a = set_objects b).
  { unfold set_objects, all_objects. rewrite Hph. apply map_ext. intros p. unfold spec_key, desired_key, as_owner. cbn. now rewrite Hid. }
  unfold seen_objects_sh, full_objects, slice_refs, all_objects. destruct sliceaware; [|assumption]. rewrite Eobj, Hph. f_equal.
  apply flat_map_ext. intros n. destruct (slices n); [|reflexivity]. apply map_ext. intros p. unfold spec_key, desired_key, as_owner. cbn. now rewrite Hid.
Qed.

Lemma okn_sh_core slices sliceaware a b : same_core a b -> okn_sh slices sliceaware b -> okn_sh slices sliceaware a.
Proof.
  intros (_ & _ & _ & _ & _ & _ & Hph & _) H Hs. specialize (H Hs). unfold refs_known, slice_refs, all_objects in *. now rewrite Hph.
Qed.

Lemma archivable_okn_impl objs (okn okn' : dset -> Prop) L n : (forall s, okn s -> okn' s) -> archivable objs okn L n -> archivable objs okn' L n.
Proof.
  intros Hi (l1 & r & l2 & EL & Hn & Hne & Hp & Ha & Hd). exists l1, r, l2. repeat split; auto.
  destruct Hd as [H|(Hav & nx & l3 & act & E & Hr & Hact & Hk & Hdis)]; [now left|right].
  split; [assumption|]. exists nx, l3, act. repeat split; auto.
Qed.

Lemma Forall2_in_right {A B} (R : A -> B -> Prop) l l' : Forall2 R l l' -> forall y, In y l' -> exists x, In x l /\ R x y.
Proof.
  induction 1 as [|x y l l' Hxy HF IH]; cbn; [contradiction|]. intros z [<-|Hz]; [exists x; auto|].
  destruct (IH z Hz) as (x' & Hx' & Hr). exists x'. auto.
Qed.

Lemma archivable_core objs (okn : dset -> Prop) L L' n : (forall a b, same_core a b -> objs a = objs b) -> (forall a b, same_core a b -> okn b -> okn a) ->
  Forall2 same_core L L' -> archivable objs okn L' n -> archivable objs okn L n.
Proof.
  intros Hobjs Hokn HF (l1' & r' & l2' & -> & Hn & Hne & Hp & Ha & Hd).
  apply Forall2_app_inv_r in HF. destruct HF as (l1 & x & _ & HF & ->).
  inversion HF as [|r ? l2 ? Hr H2]; subst.
  destruct (same_core_facts _ _ Hr) as (En & Erv & Esp & Eav & Ear & Eact & _ & _).
  exists l1, r, l2. repeat split; try congruence.
  - intros ->. inversion H2. subst. now apply Hne.
  - destruct Hd as [(s' & Hs' & H1 & H2')|(Hav & nx' & l3' & act & -> & Hrv & Hact & Hkn & Hdis)].
    + left. destruct (Forall2_in_right _ _ _ H2 _ Hs') as (s & Hs & Hss).
      destruct (same_core_facts _ _ Hss) as (_ & Erv' & _ & Eav' & _). exists s. repeat split; try congruence.
    + right. split; [congruence|]. inversion H2 as [|nx ? l3 ? Hnx H3]; subst.
      destruct (same_core_facts _ _ Hnx) as (_ & Erv' & _ & _ & _ & _ & Eobj & _).
      exists nx, l3, act. repeat split; try congruence; [eapply Hokn; eauto|]. now rewrite (Hobjs _ _ Hnx).
Qed.

(** * Part 3: one pass of the ObjectDeployment controller *)

Definition news (st st' : pst) (es : list dev) : Prop := p_evs st' = p_evs st ++ es.

Lemma news_refl st : news st st [].
Proof. unfold news. now rewrite app_nil_r. Qed.

Lemma news_trans a b c e1 e2 : news a b e1 -> news b c e2 -> news a c (e1 ++ e2).
Proof. unfold news. intros -> ->. now rewrite app_assoc. Qed.

Lemma nodup_find sets s : NoDup (map sname sets) -> In s sets -> find_dset sets (sname s) = Some s.
Proof.
  unfold find_dset. induction sets as [|x r IH]; cbn; [contradiction|]. intros Hnd Hin. inversion Hnd as [|? ? Hn Hr]; subst.
  destruct Hin as [->|Hin]; [now rewrite N.eqb_refl|].
  destruct (sname x =? sname s) eqn:E; [|now apply IH]. apply N.eqb_eq in E. exfalso. apply Hn. rewrite E. now apply in_map.
Qed.

Lemma find_put_other sets s' n : sname s' <> n -> find_dset (put_dset sets s') n = find_dset sets n.
Proof.
  unfold find_dset. intros Hne. induction sets as [|x r IH]; cbn.
  - destruct (sname s' =? n) eqn:E; [apply N.eqb_eq in E; contradiction|reflexivity].
  - destruct (sname x =? sname s') eqn:E; cbn.
    + apply N.eqb_eq in E. destruct (sname s' =? n) eqn:E1; [apply N.eqb_eq in E1; contradiction|].
      destruct (sname x =? n) eqn:E2; [apply N.eqb_eq in E2; congruence|reflexivity].
    + destruct (sname x =? n); [reflexivity|apply IH].
Qed.

Lemma sname_set_life s life pbp rv : sname (set_life s life pbp rv) = sname s.
Proof. reflexivity. Qed.

Lemma same_core_set_life s life pbp rv :
  is_archived s = false -> life <> LArchived -> same_core s (set_life s life pbp rv).
Proof.
  intros Ha Hl. unfold same_core, srev, sconds, is_archived, slife in *. cbn. repeat split; auto.
  rewrite Ha. destruct life; try reflexivity. contradiction.
Qed.

Section PassEvents.
  Variable hash : N -> option N -> N.
  Variable fault : option (nat * bool).
  Variable slices : N -> option (list pobj).
  Variable sliceaware : bool.
  Variable rev0ok : bool.

  (** ** Pause propagation (objectset_reconciler.go:72-93) *)
  Definition pause_ev (paused : bool) (sets : list dset) (e : dev) : Prop :=
    exists s r, In s sets /\ is_archived s = false /\ paused_by_parent s = negb paused /\
                e = DUpdate (sname s) (if paused then LPaused else LActive) paused r.

  Lemma pause_loop_spec paused : forall sets st st' mem,
    NoDup (map sname sets) ->
    (forall s, In s sets -> find_dset (dw_sets (p_w st)) (sname s) = Some s) ->
    pause_loop fault st paused sets = (st', mem) ->
    Forall2 same_core sets mem /\ exists es, news st st' es /\ Forall (pause_ev paused sets) es.
  Proof.
    induction sets as [|s r IH]; cbn [pause_loop]; intros st st' mem Hnd Hst H.
    - injection H as <- <-. split; [constructor|]. exists []. split; [apply news_refl|constructor].
    - inversion Hnd as [|? ? Hn Hr]; subst.
      destruct (if is_archived s then (st, s) else if Bool.eqb paused (paused_by_parent s) then (st, s)
                else if paused then upd_req fault st s LPaused true else upd_req fault st s LActive false) as [st1 s1] eqn:E1.
      destruct (pause_loop fault st1 paused r) as [st2 r2] eqn:E2. injection H as <- <-.
      assert (Hweak : forall es, Forall (pause_ev paused r) es -> Forall (pause_ev paused (s :: r)) es).
      { intros es. apply Forall_impl. intros e (x & rr & Hx & R). exists x, rr. split; [now right|exact R]. }
      assert (Hcase : (st1 = st /\ s1 = s) \/
                      (is_archived s = false /\ paused_by_parent s = negb paused /\
                       upd_req fault st s (if paused then LPaused else LActive) paused = (st1, s1))).
      { destruct (is_archived s) eqn:Ea; [injection E1 as <- <-; now left|].
        destruct (Bool.eqb paused (paused_by_parent s)) eqn:Eb; [injection E1 as <- <-; now left|].
        right. split; [reflexivity|]. split; [apply eqb_false_iff in Eb; destruct paused, (paused_by_parent s); cbn; congruence|].
        destruct paused; exact E1. }
      destruct Hcase as [[-> ->]|(Ha & Hpb & Hu)].
      + destruct (IH _ _ _ Hr (fun x Hx => Hst x (or_intror Hx)) E2) as (HF & es & Hn2 & Hes).
        split; [constructor; [apply same_core_refl|assumption]|]. exists es. split; [assumption|now apply Hweak].
      + destruct (upd_req_spec _ _ _ _ _ _ _ Hu) as [(He & Hw & -> & Hd & ->)|(Hd & rr & He & Hres)].
        * destruct (IH _ _ _ Hr (fun x Hx => Hst x (or_intror Hx)) E2) as (HF & es & Hn2 & Hes).
          split; [constructor; [apply same_core_refl|assumption]|]. exists es. split; [assumption|now apply Hweak].
        * assert (Hev : pause_ev paused (s :: r) (DUpdate (sname s) (if paused then LPaused else LActive) paused rr)).
          { exists s, rr. split; [now left|auto]. }
          destruct Hres as [(Hw & -> & _)|(cur & Hf & _ & -> & Hw & _)].
          -- assert (Hst1 : forall x, In x r -> find_dset (dw_sets (p_w st1)) (sname x) = Some x) by (intros x Hx; rewrite Hw; apply Hst; now right).
             destruct (IH _ _ _ Hr Hst1 E2) as (HF & es & Hn2 & Hes).
             split; [constructor; [apply same_core_refl|assumption]|].
             exists ([DUpdate (sname s) (if paused then LPaused else LActive) paused rr] ++ es).
             split; [eapply news_trans; [exact He|exact Hn2]|]. constructor; [assumption|now apply Hweak].
          -- rewrite (Hst s (or_introl eq_refl)) in Hf. injection Hf as <-.
             assert (Hst1 : forall x, In x r -> find_dset (dw_sets (p_w st1)) (sname x) = Some x).
             { intros x Hx. rewrite Hw. cbn [with_sets dw_sets]. rewrite find_put_other; [apply Hst; now right|].
               rewrite sname_set_life. intros E. apply Hn. rewrite E. now apply in_map. }
             destruct (IH _ _ _ Hr Hst1 E2) as (HF & es & Hn2 & Hes).
             split; [constructor; [apply same_core_set_life; [assumption|destruct paused; discriminate]|assumption]|].
             exists ([DUpdate (sname s) (if paused then LPaused else LActive) paused rr] ++ es).
             split; [eapply news_trans; [exact He|exact Hn2]|]. constructor; [assumption|now apply Hweak].
  Qed.

  (** ** Archival (archive_reconciler.go) *)
  Definition ens_ev (e : dev) : Prop := exists n pbp r, e = DUpdate n LPaused pbp r.

  Lemma ensure_paused_news st mem s st' mem' b :
    ensure_paused fault st mem s = (st', mem', b) -> exists es, news st st' es /\ Forall ens_ev es.
  Proof.
    unfold ensure_paused. destruct (is_status_paused s); [intros H; injection H as <- _ _; exists []; split; [apply news_refl|constructor]|].
    destruct (is_spec_paused s); [intros H; injection H as <- _ _; exists []; split; [apply news_refl|constructor]|].
    destruct (upd_req fault st s LPaused (ds_pbp s)) as [st1 s1] eqn:Eu. intros H. injection H as <- _ _.
    destruct (upd_req_spec _ _ _ _ _ _ _ Eu) as [(He & _)|(_ & rr & He & _)].
    - exists []. split; [unfold news; now rewrite app_nil_r|constructor].
    - eexists. split; [exact He|]. constructor; [|constructor]. now exists (sname s), (ds_pbp s), rr.
  Qed.

  Lemma archive_all_later_news cur later : forall st mem st' mem' l,
    archive_all_later fault st mem cur later = (st', mem', l) -> exists es, news st st' es /\ Forall ens_ev es.
  Proof.
    induction later as [|p r IH]; cbn; intros st mem st' mem' l H; [injection H as <- _ _; exists []; split; [apply news_refl|constructor]|].
    destruct (is_archived p); [eapply IH; eauto|]. destruct (srev p <? srev cur)%Z; [|eapply IH; eauto].
    destruct (ensure_paused fault st mem p) as [[st1 mem1] b] eqn:Ee.
    destruct (archive_all_later fault st1 mem1 cur r) as [[st2 mem2] l2] eqn:Er2. injection H as <- _ _.
    destruct (ensure_paused_news _ _ _ _ _ _ Ee) as (e1 & H1 & F1). destruct (IH _ _ _ _ _ Er2) as (e2 & H2 & F2).
    exists (e1 ++ e2). split; [eapply news_trans; eauto|apply Forall_app; auto].
  Qed.

  Lemma to_archive_news : forall rl st mem st' mem' l,
    to_archive_sh fault slices sliceaware st mem rl = (st', mem', l) -> exists es, news st st' es /\ Forall ens_ev es.
  Proof.
    induction rl as [|cur rest IH]; intros st mem st' mem' l H; [cbn in H; injection H as <- _ _; exists []; split; [apply news_refl|constructor]|].
    cbn [to_archive_sh] in H. destruct (is_available cur); [eapply archive_all_later_news; eauto|].
    destruct rest as [|prev rest']; [injection H as <- _ _; exists []; split; [apply news_refl|constructor]|].
    destruct (is_archived prev); [eapply IH; eauto|]. destruct (srev cur <=? srev prev)%Z; [eapply IH; eauto|].
    destruct (intermediate_sh fault slices sliceaware st mem prev cur) as [[st1 mem1] b] eqn:Ei.
    destruct (to_archive_sh fault slices sliceaware st1 mem1 (prev :: rest')) as [[st2 mem2] l2] eqn:Et. injection H as <- _ _.
    assert (H1 : exists es, news st st1 es /\ Forall ens_ev es).
    { unfold intermediate_sh in Ei.
      set (st0 := if sliceaware then load_slices_req fault slices st cur else st) in Ei.
      assert (H0 : p_evs st0 = p_evs st) by (unfold st0; destruct sliceaware; [apply load_slices_req_same|reflexivity]).
      assert (Hnil : exists es, news st st0 es /\ Forall ens_ev es) by (exists []; split; [unfold news; now rewrite H0, app_nil_r|constructor]).
      destruct (active_objects prev); [|injection Ei as <- _ _; exact Hnil].
      destruct (is_nil _ && negb _); [|injection Ei as <- _ _; exact Hnil].
      destruct (ensure_paused_news _ _ _ _ _ _ Ei) as (es & Hn & F). exists es. split; [unfold news in *; now rewrite Hn, H0|assumption]. }
    destruct H1 as (e1 & H1 & F1). destruct (IH _ _ _ _ _ Et) as (e2 & H2 & F2).
    exists (e1 ++ e2). split; [eapply news_trans; eauto|apply Forall_app; auto].
  Qed.

  Definition gc_ev (d : depl) (prevnames : list N) (e : dev) : Prop :=
    exists n r, e = DDelete n r /\ In n (firstn (gc_count d (length prevnames)) prevnames).

  Lemma fold_del_news (P : N -> Prop) : forall names st, (forall n, In n names -> P n) ->
    exists es, news st (fold_left (del_req fault) names st) es /\ Forall (fun e => exists n r, e = DDelete n r /\ P n) es.
  Proof.
    induction names as [|n r IH]; cbn; intros st HP; [exists []; split; [apply news_refl|constructor]|].
    destruct (IH (del_req fault st n) (fun x Hx => HP x (or_intror Hx))) as (e2 & H2 & F2).
    destruct (del_req_spec fault st n) as [[E _]|(_ & rr & He & _)].
    - rewrite E in *. exists e2. auto.
    - exists ([DDelete n rr] ++ e2). split; [eapply news_trans; [exact He|exact H2]|].
      constructor; [exists n, rr; split; [reflexivity|apply HP; now left]|assumption].
  Qed.

  Lemma gc_news st d prevnames : exists es, news st (gc fault st d prevnames) es /\ Forall (gc_ev d prevnames) es.
  Proof. unfold gc. destruct (fold_del_news (fun n => In n (firstn (gc_count d (length prevnames)) prevnames)) (firstn (gc_count d (length prevnames)) prevnames) st (fun n H => H)) as (es & H & F). exists es. split; [exact H|exact F]. Qed.

  Definition mark_ev (d : depl) (prevnames : list N) (cands : list dset) (e : dev) : Prop :=
    (exists c r, In c cands /\ e = DUpdate (sname c) LArchived (ds_pbp c) r) \/ gc_ev d prevnames e.

  Lemma mark_news d prevnames : forall cands st mem st' mem',
    mark fault st mem d prevnames cands = (st', mem') -> exists es, news st st' es /\ Forall (mark_ev d prevnames cands) es.
  Proof.
    induction cands as [|c r IH]; cbn [mark]; intros st mem st' mem' H; [injection H as <- _; exists []; split; [apply news_refl|constructor]|].
    destruct (if negb (is_archived c) && is_status_paused c
              then let '(st'0, c') := upd_req fault st c LArchived (ds_pbp c) in (st'0, put_dset mem c') else (st, mem)) as [st1 mem1] eqn:E1.
    assert (H1 : exists es, news st st1 es /\ Forall (mark_ev d prevnames (c :: r)) es).
    { destruct (negb (is_archived c) && is_status_paused c).
      - destruct (upd_req fault st c LArchived (ds_pbp c)) as [st0 c'] eqn:Eu. injection E1 as <- _.
        destruct (upd_req_spec _ _ _ _ _ _ _ Eu) as [(He & _)|(_ & rr & He & _)].
        + exists []. split; [unfold news; now rewrite app_nil_r|constructor].
        + eexists. split; [exact He|]. constructor; [|constructor]. left. exists c, rr. split; [now left|reflexivity].
      - injection E1 as <- _. exists []. split; [apply news_refl|constructor]. }
    destruct H1 as (e1 & H1 & F1). destruct (gc_news st1 d prevnames) as (e2 & H2 & F2).
    destruct (IH _ _ _ _ H) as (e3 & H3 & F3).
    exists (e1 ++ e2 ++ e3). split; [eapply news_trans; [exact H1|eapply news_trans; eauto]|].
    apply Forall_app. split; [assumption|]. apply Forall_app. split.
    - eapply Forall_impl; [|exact F2]. intros e He. now right.
    - eapply Forall_impl; [|exact F3]. intros e [(x & rr & Hx & ->)|He]; [left; exists x, rr; split; [now right|reflexivity]|now right].
  Qed.

  Lemma lookup_all_names mem names c : In c (lookup_all mem names) -> In (sname c) names.
  Proof.
    unfold lookup_all. intros H. apply in_flat_map in H. destruct H as (n & Hn & Hc).
    destruct (find_dset mem n) as [s|] eqn:E; [|contradiction]. destruct Hc as [<-|[]].
    apply find_dset_some in E. destruct E as [_ ->]. assumption.
  Qed.

  (** Every event of the archive reconciler: a pause request, the archival of an archivable revision, or a
      garbage-collection delete of one of the oldest revisions beyond the limit. *)
  Definition archive_ev (d : depl) (mem : list dset) (e : dev) : Prop :=
    ens_ev e \/ (exists n pbp r, e = DUpdate n LArchived pbp r /\ archivable (seen_objects_sh slices sliceaware) (okn_sh slices sliceaware) mem n) \/ gc_ev d (map sname (removelast mem)) e.

  Lemma fold_del_dead : forall names st, p_dead st = true -> fold_left (del_req fault) names st = st.
  Proof. induction names as [|n r IH]; cbn; intros st Hd; [reflexivity|]. unfold del_req at 2. rewrite Hd. now apply IH. Qed.

  Lemma mark_dead d prevnames : forall cands st mem st' mem',
    p_dead st = true -> mark fault st mem d prevnames cands = (st', mem') -> st' = st.
  Proof.
    induction cands as [|c r IH]; cbn [mark]; intros st mem st' mem' Hd H; [now injection H as <- _|].
    rewrite (upd_req_dead fault _ _ _ _ Hd) in H.
    destruct (negb (is_archived c) && is_status_paused c); unfold gc in H; rewrite (fold_del_dead _ _ Hd) in H; eapply IH; eauto.
  Qed.

  Lemma archive_news st d has_cur mem st' mem' :
    archive_sh fault slices sliceaware st d has_cur mem = (st', mem') ->
    exists es, news st st' es /\ (has_cur = false -> es = []) /\ Forall (archive_ev d mem) es.
  Proof.
    unfold archive_sh. destruct has_cur; cbn [negb].
    - destruct (to_archive_sh fault slices sliceaware st mem (rev mem)) as [[st1 mem1] names] eqn:Et. intros Hm.
      destruct (to_archive_news _ _ _ _ _ _ Et) as (e1 & H1 & F1).
      destruct (p_dead st1) eqn:Ed1.
      + (* a request of the walk failed: nothing else is sent *)
        rewrite (mark_dead _ _ _ _ _ _ _ Ed1 Hm). exists e1. split; [assumption|]. split; [discriminate|].
        eapply Forall_impl; [|exact F1]. intros e He. now left.
      + destruct (mark_news _ _ _ _ _ _ _ Hm) as (e2 & H2 & F2).
        exists (e1 ++ e2). split; [eapply news_trans; eauto|]. split; [discriminate|]. apply Forall_app. split.
        * eapply Forall_impl; [|exact F1]. intros e He. now left.
        * eapply Forall_impl; [|exact F2]. intros e [(c & rr & Hc & ->)|He]; [|right; now right].
          right. left. exists (sname c), (ds_pbp c), rr. split; [reflexivity|].
          apply (archive_kernel_sound fault slices sliceaware _ _ _ _ _ _ Et Ed1). apply isort_in in Hc. eapply lookup_all_names; eauto.
    - intros H. injection H as <- _. exists []. split; [apply news_refl|]. split; [reflexivity|constructor].
  Qed.

  (** ** New revision (new_revision_reconciler.go) *)
  Lemma create_req_spec st s st' r :
    create_req fault st s = (st', r) ->
    (st' = st /\ p_dead st = true /\ r = CrErr) \/
    (p_dead st = false /\
     news st st' [DCreate (sname s) (os_phases (ds_set s)) (os_prev (ds_set s)) (match ds_hash s with Some h => h | None => 0 end) r] /\
     match r with
     | CrErr => p_w st' = p_w st /\ p_dead st' = true
     | CrExists => p_w st' = p_w st /\ p_dead st' = false /\ exists c, find_dset (dw_sets (p_w st)) (sname s) = Some c
     | _ => find_dset (dw_sets (p_w st)) (sname s) = None /\ p_dead st' = (match r with CrLost => true | _ => false end) /\
            exists s', dw_sets (p_w st') = dw_sets (p_w st) ++ [s'] /\ dw_dep (p_w st') = dw_dep (p_w st) /\
              sname s' = sname s /\ srev s' = 0%Z /\ os_prev (ds_set s') = os_prev (ds_set s) /\ ds_sel s' = ds_sel s /\
              ds_hash s' = ds_hash s /\ os_phases (ds_set s') = os_phases (ds_set s) /\ os_deleting (ds_set s') = false /\
              w_store (dw_w (p_w st')) = w_store (dw_w (p_w st))
     end).
  Proof.
    unfold create_req. destruct (p_dead st) eqn:Ed; [intros H; injection H as <- <-; now left|]. right. split; [reflexivity|].
    destruct (fault_now fault st).
    - destruct (find_dset _ _) as [c|] eqn:Ef; injection H as <- <-.
      + split; [reflexivity|]. cbn. repeat split; auto. now exists c.
      + split; [reflexivity|]. cbn. repeat split; auto. eexists. repeat split.
    - injection H as <- <-. split; [reflexivity|]. cbn. auto.
    - destruct (find_dset _ _) as [c|] eqn:Ef; injection H as <- <-.
      + split; [reflexivity|]. cbn. repeat split; auto. now exists c.
      + split; [reflexivity|]. cbn. repeat split; auto. eexists. repeat split.
  Qed.
End PassEvents.

Lemma map_removelast {A B} (f : A -> B) l : map f (removelast l) = removelast (map f l).
Proof. induction l as [|x [|y r] IH]; cbn; [reflexivity|reflexivity|]. cbn in IH. now rewrite IH. Qed.

Lemma Forall2_same_core_names L mem : Forall2 same_core L mem -> map sname L = map sname mem.
Proof. induction 1 as [|a b l l' Hab _ IH]; cbn; [reflexivity|]. destruct (same_core_facts _ _ Hab) as (-> & _). now rewrite IH. Qed.

Ltac destr_if :=
  repeat match goal with
         | |- context [if ?b then _ else _] => destruct b
         | |- context [match ?x with Some _ => _ | None => _ end] => destruct x
         | |- context [match ?x with [] => _ | _ :: _ => _ end] => destruct x
         end; cbn.

(** The status computation touches conditions, revision and controllerOf only. *)
Lemma set_status_keeps d cur prev :
  d_hash (set_status d cur prev) = d_hash d /\ d_cc (set_status d cur prev) = d_cc d /\
  d_digest (set_status d cur prev) = d_digest d /\ d_phases (set_status d cur prev) = d_phases d /\
  d_paused (set_status d cur prev) = d_paused d /\ d_id (set_status d cur prev) = d_id d /\
  d_limit (set_status d cur prev) = d_limit d /\ d_gen (set_status d cur prev) = d_gen d.
Proof.
  unfold set_status, cond_from_prev, add_dcond. destruct cur as [c|]; cbn.
  - destr_if; repeat split; reflexivity.
  - destr_if; repeat split; reflexivity.
Qed.

Section PassTheorems.
  Variable hash : N -> option N -> N.
  Variable fault : option (nat * bool).
  Variable slices : N -> option (list pobj).
  Variable sliceaware : bool.
  Variable rev0ok : bool.

  Definition st_init (w : dworld) : pst := {| p_w := w; p_evs := []; p_n := O; p_dead := false |}.
  Definition st_listed (w : dworld) : pst := read_req fault (read_req fault (st_init w)).
  Definition dep_hashed (w : dworld) : depl := set_hash (dw_dep w) (hash (d_digest (dw_dep w)) (d_cc (dw_dep w))).

  Lemma st_listed_w w : p_w (st_listed w) = w.
  Proof. unfold st_listed. now rewrite !read_req_w. Qed.
  Lemma st_listed_evs w : p_evs (st_listed w) = [].
  Proof. unfold st_listed. now rewrite !read_req_evs. Qed.

  Definition has_rev0 (L : list dset) : bool := existsb (fun s => Z.eqb (srev s) 0) L.

  Lemma dep_pass_unfold stale w w' evs r :
    dep_pass_sh hash fault slices sliceaware rev0ok stale w = (w', evs, r) ->
    let L := listed stale w in let d1 := dep_hashed w in let hc := has_current d1 L in
    exists st3 d2,
      evs = p_evs (status_req fault st3 d2) /\
      w' = with_fresh (p_w (status_req fault st3 d2)) (created_name evs) /\
      r = (if p_dead (status_req fault st3 d2) then DpError else DpDone) /\
      ((has_rev0 L = true /\ st3 = st_listed w /\ d2 = d1) \/
       (has_rev0 L = false /\
        exists stp mem, pause_loop fault (st_listed w) (d_paused d1) L = (stp, mem) /\
          ((d_paused d1 = true /\ st3 = stp /\ d2 = set_status d1 (fst (split_current hc mem)) (snd (split_current hc mem))) \/
           (d_paused d1 = false /\ exists sta d3 mem',
              new_revision_sh fault rev0ok stp d1 (fst (split_current hc mem)) (snd (split_current hc mem)) = (sta, d3) /\
              archive_sh fault slices sliceaware sta d3 hc mem = (st3, mem') /\
              d2 = set_status d3 (fst (split_current hc mem')) (snd (split_current hc mem')))))).
  Proof.
    unfold dep_pass_sh. fold (st_init w). fold (st_listed w). fold (dep_hashed w). fold (has_rev0 (listed stale w)). cbv zeta.
    destruct (has_rev0 (listed stale w)) eqn:E0.
    - intros H. injection H as <- <- <-. exists (st_listed w), (dep_hashed w). repeat split. now left.
    - destruct (pause_loop fault (st_listed w) (d_paused (dep_hashed w)) (listed stale w)) as [stp mem] eqn:Ep.
      destruct (d_paused (dep_hashed w)) eqn:Epa.
      + destruct (split_current _ mem) as [cur prev] eqn:Es. intros H. injection H as <- <- <-.
        eexists stp, _. repeat split. right. split; [reflexivity|]. exists stp, mem. split; [reflexivity|]. left.
        rewrite Es. auto.
      + destruct (split_current _ mem) as [cur prev] eqn:Es.
        destruct (new_revision_sh fault rev0ok stp (dep_hashed w) cur prev) as [sta d3] eqn:En.
        destruct (archive_sh fault slices sliceaware sta d3 _ mem) as [stb mem'] eqn:Ea.
        destruct (split_current _ mem') as [cur' prev'] eqn:Es'. intros H. injection H as <- <- <-.
        eexists stb, _. repeat split. right. split; [reflexivity|]. exists stp, mem. split; [reflexivity|]. right.
        split; [reflexivity|]. exists sta, d3, mem'. rewrite Es, Es'. cbn [fst snd]. auto.
  Qed.

  Lemma status_req_news st d :
    exists es, news st (status_req fault st d) es /\
      (es = [] \/ exists r, es = [DStatus (d_hash d) (d_cc d) (d_conds d) (d_revision d) (d_ctrlof d) r]).
  Proof.
    unfold status_req. destruct (p_dead st); [exists []; split; [apply news_refl|now left]|].
    destruct (fault_now fault st); (eexists; split; [reflexivity|right; eexists; reflexivity]).
  Qed.

  Lemma new_revision_spec st d cur prev st' d' :
    new_revision_sh fault rev0ok st d cur prev = (st', d') ->
    exists es, news st st' es /\
      (es = [] \/ exists r, es = [DCreate (d_hash d) (d_phases d) (map sname prev) (d_hash d) r] /\ cur = None /\ d_phases d <> []) /\
      (d' = d \/ (d' = set_cc d (bump_cc (d_cc d)) /\ cur = None /\
                  es = [DCreate (d_hash d) (d_phases d) (map sname prev) (d_hash d) CrExists])).
  Proof.
    unfold new_revision_sh. destruct cur as [c|]; [intros H; injection H as <- <-; exists []; split; [apply news_refl|]; split; now left|].
    destruct (d_phases d) as [|ph phs] eqn:Eph; cbn [is_nil]; [intros H; injection H as <- <-; exists []; split; [apply news_refl|]; split; now left|].
    destruct (create_req fault st (new_set d prev)) as [st1 r] eqn:Ec.
    assert (Hne : d_phases d <> []) by (rewrite Eph; discriminate). rewrite <- Eph.
    destruct (create_req_spec _ _ _ _ _ Ec) as [(-> & _ & ->)|(_ & Hn & _)].
    - intros H; injection H as <- <-. exists []. split; [apply news_refl|]. split; now left.
    - cbn [new_set sname ds_set os_id oi_name os_phases os_prev ds_hash] in Hn.
      assert (Hes : [DCreate (d_hash d) (d_phases d) (map sname prev) (d_hash d) r] = [] \/
                    exists r0, [DCreate (d_hash d) (d_phases d) (map sname prev) (d_hash d) r] = [DCreate (d_hash d) (d_phases d) (map sname prev) (d_hash d) r0] /\ @None dset = None /\ d_phases d <> [])
        by (right; exists r; auto).
      destruct r; try (intros H; injection H as <- <-; eexists; split; [exact Hn|]; split; [exact Hes|now left]).
      destruct (find_dset (dw_sets (p_w (read_req fault st1))) (d_hash d)) as [c|].
      + destruct (adoptable_sh rev0ok d prev c); intros H; injection H as <- <-; eexists;
          (split; [unfold news in *; rewrite read_req_evs; exact Hn|]); (split; [exact Hes|]); [now left|right; auto].
      + intros H; injection H as <- <-. eexists. split; [unfold news in *; rewrite read_req_evs; exact Hn|]. split; [exact Hes|now left].
  Qed.

  (** What justifies each request of a pass, in terms of the world before the pass. *)
  Definition justified (stale : bool) (w : dworld) (e : dev) : Prop :=
    let d := dw_dep w in let d1 := dep_hashed w in let L := listed stale w in
    let norev0 := forall s, In s L -> srev s <> 0%Z in
    match e with
    | DCreate n phs prev h r =>
        d_paused d = false /\ norev0 /\ has_current d1 L = false /\ d_phases d <> [] /\
        n = d_hash d1 /\ h = d_hash d1 /\ phs = d_phases d /\ prev = map sname L
    | DUpdate n life pbp r =>
        norev0 /\
        match life with
        | LArchived => d_paused d = false /\ has_current d1 L = true /\ archivable (seen_objects_sh slices sliceaware) (okn_sh slices sliceaware) L n
        | LActive => d_paused d = false /\ pbp = false /\
                     exists s, In s L /\ sname s = n /\ is_archived s = false /\ paused_by_parent s = true
        | LPaused => if d_paused d
                     then pbp = true /\ exists s, In s L /\ sname s = n /\ is_archived s = false /\ paused_by_parent s = false
                     else has_current d1 L = true
        end
    | DDelete n r =>
        d_paused d = false /\ norev0 /\ has_current d1 L = true /\
        In n (firstn (gc_count d (length (removelast L))) (map sname (removelast L)))
    | DStatus h cc _ _ _ _ =>
        h = d_hash d1 /\ (cc = d_cc d \/ (cc = bump_cc (d_cc d) /\ d_paused d = false /\ has_current d1 L = false /\ norev0))
    end.

  Lemma listed_in stale w s : In s (listed stale w) -> In s (dw_sets w) /\ ds_sel s = true /\ hidden stale w s = false.
  Proof.
    unfold listed. intros H. apply isort_in, isort_in, filter_In in H. destruct H as [H1 H2].
    apply andb_true_iff in H2. destruct H2 as [H2 H3]. apply negb_true_iff in H3. auto.
  Qed.

  Lemma listed_nodup stale w : NoDup (map sname (dw_sets w)) -> NoDup (map sname (listed stale w)).
  Proof. intros H. unfold listed. now apply NoDup_map_isort, NoDup_map_isort, NoDup_map_filter. Qed.

  Lemma has_current_nonempty d L : has_current d L = true -> L <> [].
  Proof. intros H ->. discriminate. Qed.

  Lemma split_current_none hc mem : mem <> [] -> fst (split_current hc mem) = None -> hc = false.
  Proof.
    unfold split_current. destruct hc; [|reflexivity]. cbn. destruct (rev mem) eqn:E; [|discriminate].
    intros Hne _. exfalso. apply Hne. rewrite <- (rev_involutive mem), E. reflexivity.
  Qed.

  Theorem dep_pass_justified stale w w' evs r :
    NoDup (map sname (dw_sets w)) ->
    dep_pass_sh hash fault slices sliceaware rev0ok stale w = (w', evs, r) -> Forall (justified stale w) evs.
  Proof.
    intros Hnd Hp. destruct (dep_pass_unfold _ _ _ _ _ Hp) as (st3 & d2 & -> & _ & _ & Hc).
    destruct (status_req_news st3 d2) as (es & Hn & Hes). rewrite Hn.
    set (L := listed stale w) in *. set (d1 := dep_hashed w) in *.
    assert (Hd1 : d_paused d1 = d_paused (dw_dep w) /\ d_cc d1 = d_cc (dw_dep w) /\ d_phases d1 = d_phases (dw_dep w) /\ d_limit d1 = d_limit (dw_dep w)) by (repeat split).
    destruct Hd1 as (Hpa & Hcc & Hph & Hli).
    assert (Hstatus : d_hash d2 = d_hash d1 ->
                      (d_cc d2 = d_cc (dw_dep w) \/ (d_cc d2 = bump_cc (d_cc (dw_dep w)) /\ d_paused (dw_dep w) = false /\ has_current d1 L = false /\ (forall s, In s L -> srev s <> 0%Z))) ->
                      Forall (justified stale w) es).
    { intros H1 H2. destruct Hes as [->|(rr & ->)]; [constructor|]. constructor; [|constructor]. cbn. fold d1 L. auto. }
    destruct Hc as [(E0 & -> & ->)|(E0 & stp & mem & Epl & Hc)].
    - rewrite st_listed_evs. cbn. apply Hstatus; [reflexivity|now left].
    - assert (Hnorev : forall s, In s L -> srev s <> 0%Z).
      { intros s Hs E. unfold has_rev0 in E0. assert (existsb (fun s => (srev s =? 0)%Z) L = true); [|congruence].
        apply existsb_exists. exists s. split; [assumption|now apply Z.eqb_eq]. }
      assert (HndL : NoDup (map sname L)) by now apply listed_nodup.
      assert (Hstored : forall s, In s L -> find_dset (dw_sets (p_w (st_listed w))) (sname s) = Some s).
      { intros s Hs. rewrite st_listed_w. apply nodup_find; [assumption|]. now apply listed_in in Hs. }
      destruct (pause_loop_spec fault _ _ _ _ _ HndL Hstored Epl) as (HF & esp & Hnp & Hesp).
      unfold news in Hnp. rewrite st_listed_evs in Hnp. cbn in Hnp.
      assert (Hpause : Forall (justified stale w) esp).
      { eapply Forall_impl; [|exact Hesp]. intros e (s & rr & Hs & Ha & Hpb & ->). cbn. fold L d1. split; [assumption|].
        rewrite Hpa in *. destruct (d_paused (dw_dep w)); cbn in *.
        - split; [reflexivity|]. exists s. auto.
        - repeat split; auto. exists s. auto. }
      destruct Hc as [(Epa & -> & ->)|(Epa & sta & d3 & mem' & Enr & Ear & ->)].
      + rewrite Hnp. apply Forall_app. split; [assumption|].
        destruct (set_status_keeps d1 (fst (split_current (has_current d1 L) mem)) (snd (split_current (has_current d1 L) mem))) as (H1 & H2 & _).
        apply Hstatus; [assumption|left; congruence].
      + destruct (new_revision_spec _ _ _ _ _ _ Enr) as (esn & Hnn & Hesn & Hd3).
        destruct (archive_news fault slices sliceaware _ _ _ _ _ _ Ear) as (esa & Hna & Hnil & Hesa).
        unfold news in Hnn, Hna. rewrite Hna, Hnn, Hnp.
        assert (Hnames : map sname L = map sname mem) by now apply Forall2_same_core_names.
        assert (Hcur : fst (split_current (has_current d1 L) mem) = None -> has_current d1 L = false).
        { intros Hcn. destruct (has_current d1 L) eqn:Ehc; [|reflexivity]. apply split_current_none in Hcn; [assumption|].
          intros ->. apply has_current_nonempty in Ehc. destruct L; [now apply Ehc|discriminate]. }
        assert (Hlim : d_limit d3 = d_limit (dw_dep w) /\ d_hash d3 = d_hash d1) by (destruct Hd3 as [->|[-> _]]; split; reflexivity).
        destruct Hlim as [Hlim Hh3].
        repeat (apply Forall_app; split); try assumption.
        * destruct Hesn as [->|(rr & -> & Hcn & Hne)]; [constructor|]. constructor; [|constructor]. cbn. fold d1 L.
          pose proof (Hcur Hcn) as Ehc. rewrite <- Hpa. repeat split; auto; try congruence.
          rewrite Ehc. cbn. symmetry. exact Hnames.
        * destruct (has_current d1 L) eqn:Ehc; [|rewrite (Hnil eq_refl); constructor].
          eapply Forall_impl; [|exact Hesa]. intros e [(n & pbp & rr & ->)|[(n & pbp & rr & -> & Harch)|(n & rr & -> & Hin)]].
          -- cbn. fold d1 L. split; [assumption|]. rewrite <- Hpa, Epa. exact Ehc.
          -- cbn. fold d1 L. split; [assumption|]. rewrite <- Hpa. repeat split; auto. eapply archivable_core; eauto; [apply seen_objects_core|apply okn_sh_core].
          -- cbn. fold d1 L. rewrite <- Hpa. repeat split; auto.
             rewrite map_removelast, <- Hnames, <- map_removelast, map_length in Hin.
             unfold gc_count in *. now rewrite <- Hlim.
        * destruct (set_status_keeps d3 (fst (split_current (has_current d1 L) mem')) (snd (split_current (has_current d1 L) mem'))) as (H1 & H2 & _).
          apply Hstatus; [congruence|]. rewrite H2. destruct Hd3 as [->|(-> & Hcn & _)]; [left; exact Hcc|].
          right. cbn. rewrite <- Hpa. auto.
  Qed.

  (** ** C07, pass level *)
  Theorem create_justified stale w w' evs r n phs prev h cr :
    NoDup (map sname (dw_sets w)) -> dep_pass_sh hash fault slices sliceaware rev0ok stale w = (w', evs, r) -> In (DCreate n phs prev h cr) evs ->
    d_paused (dw_dep w) = false /\ d_phases (dw_dep w) <> [] /\ (forall s, In s (listed stale w) -> srev s <> 0%Z) /\
    has_current (dep_hashed w) (listed stale w) = false /\
    n = hash (d_digest (dw_dep w)) (d_cc (dw_dep w)) /\ h = n /\ phs = d_phases (dw_dep w) /\ prev = map sname (listed stale w).
  Proof.
    intros Hnd Hp Hin. pose proof (dep_pass_justified _ _ _ _ _ Hnd Hp) as HF. rewrite Forall_forall in HF.
    specialize (HF _ Hin). cbn in HF. destruct HF as (H1 & H2 & H3 & H4 & -> & -> & -> & ->). repeat split; auto.
  Qed.

  (** ** C08, pass level *)
  Theorem archive_sound stale w w' evs r n pbp ur :
    NoDup (map sname (dw_sets w)) -> dep_pass_sh hash fault slices sliceaware rev0ok stale w = (w', evs, r) -> In (DUpdate n LArchived pbp ur) evs ->
    d_paused (dw_dep w) = false /\ archivable (seen_objects_sh slices sliceaware) (okn_sh slices sliceaware) (listed stale w) n.
  Proof.
    intros Hnd Hp Hin. pose proof (dep_pass_justified _ _ _ _ _ Hnd Hp) as HF. rewrite Forall_forall in HF.
    specialize (HF _ Hin). cbn in HF. tauto.
  Qed.

  Theorem newest_never_archived stale w w' evs r n pbp ur :
    NoDup (map sname (dw_sets w)) -> dep_pass_sh hash fault slices sliceaware rev0ok stale w = (w', evs, r) -> In (DUpdate n LArchived pbp ur) evs ->
    exists l0 newest, listed stale w = l0 ++ [newest] /\ sname newest <> n.
  Proof.
    intros Hnd Hp Hin. apply (archivable_not_newest (seen_objects_sh slices sliceaware) (okn_sh slices sliceaware)); [now apply listed_nodup|]. eapply archive_sound; eauto.
  Qed.

  Lemma firstn_in {A} (l : list A) : forall k x, In x (firstn k l) -> In x l.
  Proof. induction l as [|y r IH]; intros [|k] x; cbn; try contradiction. intros [->|H]; [now left|right; eapply IH; eauto]. Qed.

  Lemma removelast_app_last {A} (l : list A) x : removelast (l ++ [x]) = l.
  Proof. now rewrite removelast_app, app_nil_r by discriminate. Qed.

  Theorem gc_sound stale w w' evs r n dr :
    NoDup (map sname (dw_sets w)) -> dep_pass_sh hash fault slices sliceaware rev0ok stale w = (w', evs, r) -> In (DDelete n dr) evs ->
    exists l0 newest, listed stale w = l0 ++ [newest] /\
      In n (firstn (Z.to_nat (Z.of_nat (length l0) - match d_limit (dw_dep w) with Some l => l | None => 10 end)) (map sname l0)) /\
      sname newest <> n.
  Proof.
    intros Hnd Hp Hin. pose proof (dep_pass_justified _ _ _ _ _ Hnd Hp) as HF. rewrite Forall_forall in HF.
    specialize (HF _ Hin). cbn in HF. destruct HF as (_ & _ & Hc & Hn).
    pose proof (has_current_nonempty _ _ Hc) as Hne. destruct (exists_last Hne) as (l0 & x & E). rewrite E in *.
    rewrite removelast_app_last in Hn. exists l0, x. split; [reflexivity|]. split; [exact Hn|].
    intros Ex. pose proof (listed_nodup stale w Hnd) as HndL. rewrite E, map_app in HndL. cbn in HndL.
    apply NoDup_remove_2 in HndL. apply HndL. rewrite app_nil_r. apply firstn_in in Hn. congruence.
  Qed.

  (** ** C09, deployment level *)
  Theorem paused_hands_off stale w w' evs r e :
    NoDup (map sname (dw_sets w)) -> dep_pass_sh hash fault slices sliceaware rev0ok stale w = (w', evs, r) -> d_paused (dw_dep w) = true -> In e evs ->
    (exists n ur s, e = DUpdate n LPaused true ur /\ In s (listed stale w) /\ sname s = n /\ is_archived s = false /\ paused_by_parent s = false) \/
    (exists h cc cs rv co sr, e = DStatus h cc cs rv co sr /\ cc = d_cc (dw_dep w)).
  Proof.
    intros Hnd Hp Hpa Hin. pose proof (dep_pass_justified _ _ _ _ _ Hnd Hp) as HF. rewrite Forall_forall in HF.
    specialize (HF _ Hin). destruct e as [n phs prev h cr|n life pbp ur|n dr|h cc cs rv co sr]; cbn in HF.
    - destruct HF as (H & _). congruence.
    - destruct HF as (_ & HF). rewrite Hpa in HF. destruct life; try (destruct HF as (H & _); congruence).
      destruct HF as (-> & s & Hs). left. exists n, ur, s. tauto.
    - destruct HF as (H & _). congruence.
    - right. exists h, cc, cs, rv, co, sr. split; [reflexivity|]. destruct HF as (_ & [->|(_ & H & _)]); [reflexivity|congruence].
  Qed.

  Theorem unpause_releases_annotated stale w w' evs r n pbp ur :
    NoDup (map sname (dw_sets w)) -> dep_pass_sh hash fault slices sliceaware rev0ok stale w = (w', evs, r) -> In (DUpdate n LActive pbp ur) evs ->
    d_paused (dw_dep w) = false /\ pbp = false /\
    exists s, In s (listed stale w) /\ sname s = n /\ is_archived s = false /\ is_spec_paused s = true /\ ds_pbp s = true.
  Proof.
    intros Hnd Hp Hin. pose proof (dep_pass_justified _ _ _ _ _ Hnd Hp) as HF. rewrite Forall_forall in HF.
    specialize (HF _ Hin). cbn in HF. destruct HF as (_ & H1 & H2 & s & Hs & Hn & Ha & Hpb).
    unfold paused_by_parent in Hpb. apply andb_true_iff in Hpb. repeat split; auto. exists s. tauto.
  Qed.
End PassTheorems.

(** * Part 4: what a pass does to the ObjectSets. Every state of a pass is reached through the five requests. *)

(** The fields of an ObjectSet no request of the deployment controller changes. *)
Definition sid (s : dset) := (sname s, srev s, os_prev (ds_set s), ds_sel s, ds_hash s, ds_ctrl s, os_phases (ds_set s)).

Lemma sid_set_life s life pbp rv : sid (set_life s life pbp rv) = sid s.
Proof. reflexivity. Qed.
Lemma sid_set_deleting s rv : sid (set_deleting s rv) = sid s.
Proof. reflexivity. Qed.

Section Reach.
  Variable fault : option (nat * bool).
  Variable slices : N -> option (list pobj).
  Variable sliceaware : bool.
  Variable rev0ok : bool.

  Inductive reach (st0 : pst) : pst -> Prop :=
  | r_refl : reach st0 st0
  | r_read st : reach st0 st -> reach st0 (read_req fault st)
  | r_get st b : reach st0 st -> reach st0 (get_req fault st b)
  | r_upd st s life pbp : reach st0 st -> reach st0 (fst (upd_req fault st s life pbp))
  | r_del st n : reach st0 st -> reach st0 (del_req fault st n)
  | r_create st d prev : reach st0 st -> reach st0 (fst (create_req fault st (new_set d prev)))
  | r_status st d : reach st0 st -> reach st0 (status_req fault st d).

  Lemma upd_reach st0 st s life pbp st' s' : reach st0 st -> upd_req fault st s life pbp = (st', s') -> reach st0 st'.
  Proof. intros H E. replace st' with (fst (upd_req fault st s life pbp)) by now rewrite E. now constructor. Qed.

  Lemma pause_loop_reach st0 paused : forall sets st st' mem,
    reach st0 st -> pause_loop fault st paused sets = (st', mem) -> reach st0 st'.
  Proof.
    induction sets as [|s r IH]; cbn [pause_loop]; intros st st' mem Hr H; [now injection H as <- _|].
    destruct (if is_archived s then (st, s) else if Bool.eqb paused (paused_by_parent s) then (st, s)
              else if paused then upd_req fault st s LPaused true else upd_req fault st s LActive false) as [st1 s1] eqn:E1.
    destruct (pause_loop fault st1 paused r) as [st2 r2] eqn:E2. injection H as <- _.
    eapply IH; [|exact E2]. destruct (is_archived s); [now injection E1 as <- _|].
    destruct (Bool.eqb paused (paused_by_parent s)); [now injection E1 as <- _|].
    destruct paused; eapply upd_reach; eauto.
  Qed.

  Lemma ensure_paused_reach st0 st mem s st' mem' b :
    reach st0 st -> ensure_paused fault st mem s = (st', mem', b) -> reach st0 st'.
  Proof.
    unfold ensure_paused. intros Hr. destruct (is_status_paused s); [intros H; now injection H as <- _ _|].
    destruct (is_spec_paused s); [intros H; now injection H as <- _ _|].
    destruct (upd_req fault st s LPaused (ds_pbp s)) as [st1 s1] eqn:Eu. intros H. injection H as <- _ _. eapply upd_reach; eauto.
  Qed.

  Lemma archive_all_later_reach st0 cur later : forall st mem st' mem' l,
    reach st0 st -> archive_all_later fault st mem cur later = (st', mem', l) -> reach st0 st'.
  Proof.
    induction later as [|p r IH]; cbn; intros st mem st' mem' l Hr H; [now injection H as <- _ _|].
    destruct (is_archived p); [eapply IH; eauto|]. destruct (srev p <? srev cur)%Z; [|eapply IH; eauto].
    destruct (ensure_paused fault st mem p) as [[st1 mem1] b] eqn:Ee.
    destruct (archive_all_later fault st1 mem1 cur r) as [[st2 mem2] l2] eqn:Er2. injection H as <- _ _.
    eapply IH; [|exact Er2]. eapply ensure_paused_reach; eauto.
  Qed.

  Lemma to_archive_reach st0' : forall rl st mem st' mem' l,
    reach st0' st -> to_archive_sh fault slices sliceaware st mem rl = (st', mem', l) -> reach st0' st'.
  Proof.
    induction rl as [|cur rest IH]; intros st mem st' mem' l Hr H; [cbn in H; now injection H as <- _ _|].
    cbn [to_archive_sh] in H. destruct (is_available cur); [eapply archive_all_later_reach; eauto|].
    destruct rest as [|prev rest']; [now injection H as <- _ _|].
    destruct (is_archived prev); [eapply IH; eauto|]. destruct (srev cur <=? srev prev)%Z; [eapply IH; eauto|].
    destruct (intermediate_sh fault slices sliceaware st mem prev cur) as [[st1 mem1] b] eqn:Ei.
    destruct (to_archive_sh fault slices sliceaware st1 mem1 (prev :: rest')) as [[st2 mem2] l2] eqn:Et. injection H as <- _ _.
    eapply IH; [|exact Et]. unfold intermediate_sh in Ei.
    set (st0 := if sliceaware then load_slices_req fault slices st cur else st) in Ei.
    assert (H0 : reach st0' st0).
    { unfold st0. destruct sliceaware; [|assumption]. unfold load_slices_req. clear Ei st0. generalize (slice_refs cur). intros refs. revert st Hr.
      induction refs as [|n r IHl]; intros st Hr; cbn; [assumption|]. apply IHl. now constructor. }
    destruct (active_objects prev); [|now injection Ei as <- _ _].
    destruct (is_nil _ && negb _); [eapply ensure_paused_reach; eauto|now injection Ei as <- _ _].
  Qed.

  Lemma fold_del_reach st0 : forall names st, reach st0 st -> reach st0 (fold_left (del_req fault) names st).
  Proof. induction names as [|n r IH]; cbn; intros st Hr; [assumption|]. apply IH. now constructor. Qed.

  Lemma mark_reach st0 d prevnames : forall cands st mem st' mem',
    reach st0 st -> mark fault st mem d prevnames cands = (st', mem') -> reach st0 st'.
  Proof.
    induction cands as [|c r IH]; cbn [mark]; intros st mem st' mem' Hr H; [now injection H as <- _|].
    destruct (if negb (is_archived c) && is_status_paused c
              then let '(st'0, c') := upd_req fault st c LArchived (ds_pbp c) in (st'0, put_dset mem c') else (st, mem)) as [st1 mem1] eqn:E1.
    eapply IH; [|exact H]. unfold gc. apply fold_del_reach.
    destruct (negb (is_archived c) && is_status_paused c); [|now injection E1 as <- _].
    destruct (upd_req fault st c LArchived (ds_pbp c)) as [st0' c'] eqn:Eu. injection E1 as <- _. eapply upd_reach; eauto.
  Qed.

  Lemma archive_reach st0 st d has_cur mem st' mem' :
    reach st0 st -> archive_sh fault slices sliceaware st d has_cur mem = (st', mem') -> reach st0 st'.
  Proof.
    unfold archive_sh. intros Hr. destruct has_cur; cbn [negb]; [|intros H; now injection H as <- _].
    destruct (to_archive_sh fault slices sliceaware st mem (rev mem)) as [[st1 mem1] names] eqn:Et. intros Hm.
    eapply mark_reach; [|exact Hm]. eapply to_archive_reach; eauto.
  Qed.

  Lemma new_revision_reach st0 st d cur prev st' d' :
    reach st0 st -> new_revision_sh fault rev0ok st d cur prev = (st', d') -> reach st0 st'.
  Proof.
    unfold new_revision_sh. intros Hr. destruct cur; [intros H; now injection H as <- _|].
    destruct (is_nil (d_phases d)); [intros H; now injection H as <- _|].
    destruct (create_req fault st (new_set d prev)) as [st1 r] eqn:Ec.
    assert (H1 : reach st0 st1) by (replace st1 with (fst (create_req fault st (new_set d prev))) by (now rewrite Ec); now constructor).
    destruct r; try (intros H; now injection H as <- _).
    destruct (find_dset _ _); [destruct (adoptable_sh rev0ok d prev d0)|]; intros H; injection H as <- _; now constructor.
  Qed.

  (** ** The frame of a pass: [es] are the events emitted between the two states *)
  Definition created (es : list dev) (x : dset) : Prop :=
    exists r, In (DCreate (sname x) (os_phases (ds_set x)) (os_prev (ds_set x)) (match ds_hash x with Some h => h | None => 0 end) r) es /\
              (r = CrOk \/ r = CrLost) /\ srev x = 0%Z /\ ds_sel x = true /\ (exists h, ds_hash x = Some h).

  Lemma created_sid es x y : sid x = sid y -> created es x -> created es y.
  Proof.
    unfold sid, created. intros E. injection E as E1 E2 E3 E4 E5 E6 E7. rewrite E1, E2, E3, E4, E5, E7. auto.
  Qed.

  Lemma created_mono es es' x : (forall e, In e es -> In e es') -> created es x -> created es' x.
  Proof. intros H (r & Hi & R). exists r. split; [now apply H|exact R]. Qed.

  Definition sets_of (st : pst) : list dset := dw_sets (p_w st).

  Record frame (st0 st : pst) (es : list dev) : Prop := {
    f_evs : p_evs st = p_evs st0 ++ es;
    f_nodup : NoDup (map sname (sets_of st0)) -> NoDup (map sname (sets_of st));
    f_old : forall x', In x' (sets_of st) -> (exists x, In x (sets_of st0) /\ sid x' = sid x) \/ created es x';
    f_keep : forall x, In x (sets_of st0) -> (forall r, ~ In (DDelete (sname x) r) es) ->
                       exists x', In x' (sets_of st) /\ sid x' = sid x /\ os_deleting (ds_set x') = os_deleting (ds_set x);
    f_same : forall x, In x (sets_of st0) -> (forall life pbp r, ~ In (DUpdate (sname x) life pbp r) es) ->
                       (forall r, ~ In (DDelete (sname x) r) es) -> In x (sets_of st);
    f_new : forall n phs prev h r, In (DCreate n phs prev h r) es -> (r = CrOk \/ r = CrLost) -> (forall r', ~ In (DDelete n r') es) ->
                       exists x', In x' (sets_of st) /\ sname x' = n /\ created es x' /\ os_deleting (ds_set x') = false;
    f_store : w_store (dw_w (p_w st)) = w_store (dw_w (p_w st0));
    f_dep : d_id (dw_dep (p_w st)) = d_id (dw_dep (p_w st0)) /\ d_gen (dw_dep (p_w st)) = d_gen (dw_dep (p_w st0)) /\
            d_paused (dw_dep (p_w st)) = d_paused (dw_dep (p_w st0)) /\ d_digest (dw_dep (p_w st)) = d_digest (dw_dep (p_w st0)) /\
            d_phases (dw_dep (p_w st)) = d_phases (dw_dep (p_w st0)) /\ d_limit (dw_dep (p_w st)) = d_limit (dw_dep (p_w st0)) /\
            (d_cc (dw_dep (p_w st)) = d_cc (dw_dep (p_w st0)) \/
             exists h cs rv co r, In (DStatus h (d_cc (dw_dep (p_w st))) cs rv co r) es)
  }.

  Lemma frame_same st st' : p_w st' = p_w st -> forall es, p_evs st' = p_evs st ++ es ->
    (forall n phs prev h r, In (DCreate n phs prev h r) es -> r <> CrOk /\ r <> CrLost) -> frame st st' es.
  Proof.
    intros Hw es He Hnc. unfold sets_of. constructor; unfold sets_of; rewrite ?Hw; auto.
    - intros x' Hx. left. exists x'. auto.
    - intros x Hx _. exists x. auto.
    - intros n phs prev h r Hi [-> | ->]; destruct (Hnc _ _ _ _ _ Hi); congruence.
    - repeat split; auto.
  Qed.

  Lemma frame_trans a b c e1 e2 : frame a b e1 -> frame b c e2 -> frame a c (e1 ++ e2).
  Proof.
    intros F1 F2. constructor.
    - rewrite (f_evs _ _ _ F2), (f_evs _ _ _ F1). now rewrite app_assoc.
    - intros H. apply (f_nodup _ _ _ F2), (f_nodup _ _ _ F1), H.
    - intros x' Hx. destruct (f_old _ _ _ F2 x' Hx) as [(x & Hx1 & E)|Hc].
      + destruct (f_old _ _ _ F1 x Hx1) as [(x0 & Hx0 & E0)|Hc]; [left; exists x0; split; [assumption|congruence]|].
        right. apply (created_sid _ x); [congruence|]. eapply created_mono; [|exact Hc]. intros e He. apply in_or_app. now left.
      + right. eapply created_mono; [|exact Hc]. intros e He. apply in_or_app. now right.
    - intros x Hx Hnd. destruct (f_keep _ _ _ F1 x Hx) as (x1 & Hx1 & E1 & D1).
      { intros r Hr. apply (Hnd r). apply in_or_app. now left. }
      assert (En : sname x1 = sname x) by (unfold sid in E1; congruence).
      destruct (f_keep _ _ _ F2 x1 Hx1) as (x2 & Hx2 & E2 & D2).
      { intros r Hr. apply (Hnd r). apply in_or_app. right. now rewrite <- En. }
      exists x2. repeat split; congruence.
    - intros x Hx Hnu Hnd. apply (f_same _ _ _ F2).
      + apply (f_same _ _ _ F1); [assumption| |]; intros; intro Hi; [eapply Hnu|eapply Hnd]; apply in_or_app; left; exact Hi.
      + intros life pbp r Hi. eapply Hnu. apply in_or_app. right. exact Hi.
      + intros r Hi. eapply Hnd. apply in_or_app. right. exact Hi.
    - intros n phs prev h r Hi Hr Hnd. apply in_app_or in Hi. destruct Hi as [Hi|Hi].
      + destruct (f_new _ _ _ F1 n phs prev h r Hi Hr) as (x1 & Hx1 & En & Hc & D1).
        { intros r' Hr'. apply (Hnd r'). apply in_or_app. now left. }
        destruct (f_keep _ _ _ F2 x1 Hx1) as (x2 & Hx2 & E2 & D2).
        { intros r' Hr'. apply (Hnd r'). apply in_or_app. right. now rewrite <- En. }
        exists x2. split; [assumption|]. split; [unfold sid in E2; congruence|]. split; [|congruence].
        apply (created_sid _ x1); [congruence|]. eapply created_mono; [|exact Hc]. intros e He. apply in_or_app. now left.
      + destruct (f_new _ _ _ F2 n phs prev h r Hi Hr) as (x2 & Hx2 & En & Hc & D2).
        { intros r' Hr'. apply (Hnd r'). apply in_or_app. now right. }
        exists x2. repeat split; auto. eapply created_mono; [|exact Hc]. intros e He. apply in_or_app. now right.
    - rewrite (f_store _ _ _ F2). apply (f_store _ _ _ F1).
    - destruct (f_dep _ _ _ F1) as (A1 & A2 & A3 & A4 & A5 & A6 & A7). destruct (f_dep _ _ _ F2) as (B1 & B2 & B3 & B4 & B5 & B6 & B7).
      repeat split; try congruence.
      destruct B7 as [B7|(h & cs & rv & co & r & Hi)].
      + rewrite B7. destruct A7 as [A7|(h & cs & rv & co & r & Hi)]; [now left|]. right. exists h, cs, rv, co, r. apply in_or_app. now left.
      + right. exists h, cs, rv, co, r. apply in_or_app. now right.
  Qed.

  Lemma put_dset_in sets s' cur x :
    find_dset sets (sname s') = Some cur -> In x sets -> x = cur \/ In x (put_dset sets s').
  Proof.
    unfold find_dset. induction sets as [|y r IH]; cbn; [contradiction|].
    destruct (sname y =? sname s') eqn:E; cbn.
    - intros H [->|Hx]; [left; congruence|right; now right].
    - intros H [->|Hx]; [right; now left|]. destruct (IH H Hx); [now left|right; now right].
  Qed.

  Lemma put_dset_self sets s' cur : find_dset sets (sname s') = Some cur -> In s' (put_dset sets s').
  Proof.
    unfold find_dset. induction sets as [|y r IH]; cbn; [discriminate|].
    destruct (sname y =? sname s'); cbn; [now left|]. intros H. right. now apply IH.
  Qed.

  (** Replacing a stored ObjectSet by a variant with the same [sid]. *)
  Lemma frame_put st st' es cur s' :
    find_dset (sets_of st) (sname s') = Some cur -> sid s' = sid cur ->
    dw_sets (p_w st') = put_dset (sets_of st) s' -> dw_dep (p_w st') = dw_dep (p_w st) ->
    w_store (dw_w (p_w st')) = w_store (dw_w (p_w st)) -> p_evs st' = p_evs st ++ es ->
    (forall n phs prev h r, ~ In (DCreate n phs prev h r) es) ->
    (os_deleting (ds_set s') = os_deleting (ds_set cur) \/ exists r, In (DDelete (sname cur) r) es) ->
    ((exists life pbp r, In (DUpdate (sname cur) life pbp r) es) \/ exists r, In (DDelete (sname cur) r) es) ->
    frame st st' es.
  Proof.
    intros Hf Hsid Hs Hd Hst He Hnc Hdel Hnamed. pose proof (find_dset_some _ _ _ Hf) as [Hcin Hcn].
    constructor; unfold sets_of in *; rewrite ?Hs, ?Hd; auto.
    - intros H. now rewrite (map_put_dset sname _ cur s') by (auto; unfold sid in Hsid; congruence).
    - intros x' Hx. left. apply in_put_dset in Hx. destruct Hx as [->|Hx]; [exists cur; auto|exists x'; auto].
    - intros x Hx Hnd. destruct (put_dset_in _ _ _ _ Hf Hx) as [->|Hx'].
      + exists s'. split; [eapply put_dset_self; eauto|]. split; [assumption|].
        destruct Hdel as [Hdel|(r & Hr)]; [assumption|]. exfalso. exact (Hnd r Hr).
      + exists x. auto.
    - intros x Hx Hnu Hnd. destruct (put_dset_in _ _ _ _ Hf Hx) as [->|Hx']; [|assumption]. exfalso.
      destruct Hnamed as [(life & pbp & r & Hi)|(r & Hi)]; [exact (Hnu _ _ _ Hi)|exact (Hnd _ Hi)].
    - intros n phs prev h r Hi. exfalso. exact (Hnc _ _ _ _ _ Hi).
    - repeat split; auto.
  Qed.

  Lemma frame_upd st s life pbp : exists es, frame st (fst (upd_req fault st s life pbp)) es.
  Proof.
    destruct (upd_req fault st s life pbp) as [st' s'] eqn:Eu. cbn [fst].
    destruct (upd_req_spec _ _ _ _ _ _ _ Eu) as [(He & Hw & _ & _ & ->)|(_ & r & He & Hres)].
    - exists []. apply frame_same; [reflexivity|now rewrite app_nil_r|contradiction].
    - exists [DUpdate (sname s) life pbp r]. destruct Hres as [(Hw & _)|(cur & Hf & _ & -> & Hw & _)].
      + apply frame_same; auto. intros n phs prev h r0 [H|[]]. discriminate.
      + apply (frame_put st st' _ cur (set_life cur life pbp (w_rv (dw_w (p_w st))))); unfold sets_of; try (rewrite Hw; reflexivity); auto.
        * rewrite sname_set_life. pose proof (find_dset_some _ _ _ Hf) as [_ ->]. exact Hf.
        * intros n phs prev h r0 [H|[]]. discriminate.
        * left. exists life, pbp, r. left. pose proof (find_dset_some _ _ _ Hf) as [_ ->]. reflexivity.
  Qed.

  Lemma frame_del st n : exists es, frame st (del_req fault st n) es.
  Proof.
    destruct (del_req_spec fault st n) as [[-> _]|(_ & r & He & Hres)].
    - exists []. apply frame_same; [reflexivity|now rewrite app_nil_r|contradiction].
    - exists [DDelete n r]. destruct Hres as [Hw|(s & Hf & [Hw|Hw])].
      + apply frame_same; auto. intros n0 phs prev h r0 [H|[]]. discriminate.
      + pose proof (find_dset_some _ _ _ Hf) as [_ Hn].
        apply (frame_put st _ _ s (set_deleting s (w_rv (dw_w (p_w st))))); unfold sets_of; try (rewrite Hw; reflexivity); auto.
        * change (sname (set_deleting s (w_rv (dw_w (p_w st))))) with (sname s). now rewrite Hn.
        * intros n0 phs prev h r0 [H|[]]. discriminate.
        * right. exists r. left. now rewrite Hn.
        * right. exists r. left. now rewrite Hn.
      + constructor; unfold sets_of; rewrite ?Hw; cbn [with_sets dw_sets dw_dep dw_w]; auto.
        * intros H. unfold del_dset. now apply NoDup_map_filter.
        * intros x' Hx. apply in_del_dset in Hx. left. exists x'. tauto.
        * intros x Hx Hnd. exists x. split; [|auto]. apply in_del_dset. split; [assumption|]. intros E. apply (Hnd r). left. now rewrite E.
        * intros x Hx _ Hnd. apply in_del_dset. split; [assumption|]. intros E. apply (Hnd r). left. now rewrite E.
        * intros n0 phs prev h r0 [H|[]]. discriminate.
        * repeat split; auto.
  Qed.

  Lemma frame_create st d prev : exists es, frame st (fst (create_req fault st (new_set d prev))) es.
  Proof.
    destruct (create_req fault st (new_set d prev)) as [st' r] eqn:Ec. cbn [fst].
    destruct (create_req_spec _ _ _ _ _ Ec) as [[-> _]|(_ & He & Hres)].
    - exists []. apply frame_same; [reflexivity|now rewrite app_nil_r|contradiction].
    - exists [DCreate (sname (new_set d prev)) (os_phases (ds_set (new_set d prev))) (os_prev (ds_set (new_set d prev)))
                       match ds_hash (new_set d prev) with Some h => h | None => 0 end r].
      destruct r.
      + destruct Hres as (Hnone & _ & s' & Hs & Hd & Hn & Hr & Hp & Hsel & Hh & Hph & Hdel & Hst).
        assert (Hcr : created [DCreate (sname (new_set d prev)) (os_phases (ds_set (new_set d prev))) (os_prev (ds_set (new_set d prev)))
                                 match ds_hash (new_set d prev) with Some h => h | None => 0 end CrOk] s').
        { exists CrOk. rewrite Hn, Hph, Hp, Hh. split; [now left|]. split; [now left|]. split; [assumption|]. split; [now rewrite Hsel|]. eexists; reflexivity. }
        constructor; unfold sets_of; rewrite ?Hs, ?Hd; auto; try exact He.
        * intros H. rewrite map_app. cbn. apply NoDup_app_single; [assumption|]. rewrite Hn. now apply find_dset_none_names.
        * intros x' Hx. apply in_app_or in Hx. destruct Hx as [Hx|[<-|[]]]; [left; exists x'; auto|now right].
        * intros x Hx _. exists x. split; [apply in_or_app; now left|auto].
        * intros x Hx _ _. apply in_or_app; now left.
        * intros n phs pv h r Hi _ _. destruct Hi as [Hi|[]]. injection Hi as <- <- <- <- <-.
          exists s'. split; [apply in_or_app; right; now left|]. auto.
        * repeat split; auto.
      + destruct Hres as (Hw & _). apply frame_same; auto. intros n phs pv h r [H|[]]. injection H as _ _ _ _ <-. split; discriminate.
      + destruct Hres as (Hw & _). apply frame_same; auto. intros n phs pv h r [H|[]]. injection H as _ _ _ _ <-. split; discriminate.
      + destruct Hres as (Hnone & _ & s' & Hs & Hd & Hn & Hr & Hp & Hsel & Hh & Hph & Hdel & Hst).
        assert (Hcr : created [DCreate (sname (new_set d prev)) (os_phases (ds_set (new_set d prev))) (os_prev (ds_set (new_set d prev)))
                                 match ds_hash (new_set d prev) with Some h => h | None => 0 end CrLost] s').
        { exists CrLost. rewrite Hn, Hph, Hp, Hh. split; [now left|]. split; [now right|]. split; [assumption|]. split; [now rewrite Hsel|]. eexists; reflexivity. }
        constructor; unfold sets_of; rewrite ?Hs, ?Hd; auto; try exact He.
        * intros H. rewrite map_app. cbn. apply NoDup_app_single; [assumption|]. rewrite Hn. now apply find_dset_none_names.
        * intros x' Hx. apply in_app_or in Hx. destruct Hx as [Hx|[<-|[]]]; [left; exists x'; auto|now right].
        * intros x Hx _. exists x. split; [apply in_or_app; now left|auto].
        * intros x Hx _ _. apply in_or_app; now left.
        * intros n phs pv h r Hi _ _. destruct Hi as [Hi|[]]. injection Hi as <- <- <- <- <-.
          exists s'. split; [apply in_or_app; right; now left|]. auto.
        * repeat split; auto.
  Qed.

  Lemma frame_read st : frame st (read_req fault st) [].
  Proof. apply frame_same; [apply read_req_w|now rewrite read_req_evs, app_nil_r|contradiction]. Qed.

  Lemma frame_get st b : frame st (get_req fault st b) [].
  Proof. apply frame_same; [apply get_req_w|now rewrite get_req_evs, app_nil_r|contradiction]. Qed.

  Lemma frame_status st d : exists es, frame st (status_req fault st d) es.
  Proof.
    unfold status_req. destruct (p_dead st); [exists []; apply frame_same; [reflexivity|now rewrite app_nil_r|contradiction]|].
    assert (Hnc : forall r n phs prev h r0, In (DCreate n phs prev h r0) [DStatus (d_hash d) (d_cc d) (d_conds d) (d_revision d) (d_ctrlof d) r] -> r0 <> CrOk /\ r0 <> CrLost)
      by (intros r n phs prev h r0 [H|[]]; discriminate).
    assert (Hgo : forall lost : bool, frame st (emit st (if status_eqb_d (dw_dep (p_w st)) d then p_w st
                     else with_dep (p_w st) (with_status_d (dw_dep (p_w st)) d (w_rv (dw_w (p_w st)))) (bump_rv (dw_w (p_w st))))
                     [DStatus (d_hash d) (d_cc d) (d_conds d) (d_revision d) (d_ctrlof d) (if lost then WLost else WOk)] lost)
                     [DStatus (d_hash d) (d_cc d) (d_conds d) (d_revision d) (d_ctrlof d) (if lost then WLost else WOk)]).
    { intros lost. destruct (status_eqb_d (dw_dep (p_w st)) d); [apply frame_same; [reflexivity|reflexivity|apply Hnc]|].
      constructor; unfold sets_of; cbn; auto.
      - intros x' Hx. left. exists x'. auto.
      - intros x Hx _. exists x. auto.
      - intros n phs prev h r [H|[]]. discriminate.
      - repeat split; auto. right. exists (d_hash d), (d_conds d), (d_revision d), (d_ctrlof d), (if lost then WLost else WOk). now left. }
    destruct (fault_now fault st).
    - eexists. apply (Hgo false).
    - eexists. apply frame_same; [reflexivity|reflexivity|apply Hnc].
    - eexists. apply (Hgo true).
  Qed.

  Lemma reach_frame st0 st : reach st0 st -> exists es, frame st0 st es.
  Proof.
    induction 1 as [|st H (es & IH)|st b H (es & IH)|st s life pbp H (es & IH)|st n H (es & IH)|st d prev H (es & IH)|st d H (es & IH)].
    - exists []. apply frame_same; [reflexivity|now rewrite app_nil_r|contradiction].
    - exists (es ++ []). eapply frame_trans; [exact IH|apply frame_read].
    - exists (es ++ []). eapply frame_trans; [exact IH|apply frame_get].
    - destruct (frame_upd st s life pbp) as (e2 & F). exists (es ++ e2). eapply frame_trans; eauto.
    - destruct (frame_del st n) as (e2 & F). exists (es ++ e2). eapply frame_trans; eauto.
    - destruct (frame_create st d prev) as (e2 & F). exists (es ++ e2). eapply frame_trans; eauto.
    - destruct (frame_status st d) as (e2 & F). exists (es ++ e2). eapply frame_trans; eauto.
  Qed.
End Reach.

Section PassFrame.
  Variable hash : N -> option N -> N.
  Variable fault : option (nat * bool).
  Variable slices : N -> option (list pobj).
  Variable sliceaware : bool.
  Variable rev0ok : bool.

  (** What one pass does to the world: ObjectSets keep their identity fields, only garbage-collected ones
      disappear, at most the ObjectSet of a successful create appears; member objects are never touched. *)
  Theorem dep_pass_frame stale w w' evs r :
    dep_pass_sh hash fault slices sliceaware rev0ok stale w = (w', evs, r) ->
    (NoDup (map sname (dw_sets w)) -> NoDup (map sname (dw_sets w'))) /\
    (forall x', In x' (dw_sets w') -> (exists x, In x (dw_sets w) /\ sid x' = sid x) \/ created evs x') /\
    (forall x, In x (dw_sets w) -> (forall dr, ~ In (DDelete (sname x) dr) evs) ->
               exists x', In x' (dw_sets w') /\ sid x' = sid x /\ os_deleting (ds_set x') = os_deleting (ds_set x)) /\
    (forall n phs prev h cr, In (DCreate n phs prev h cr) evs -> (cr = CrOk \/ cr = CrLost) -> (forall dr, ~ In (DDelete n dr) evs) ->
               exists x', In x' (dw_sets w') /\ sname x' = n /\ created evs x' /\ os_deleting (ds_set x') = false) /\
    w_store (dw_w w') = w_store (dw_w w) /\
    (d_id (dw_dep w') = d_id (dw_dep w) /\ d_gen (dw_dep w') = d_gen (dw_dep w) /\ d_paused (dw_dep w') = d_paused (dw_dep w) /\
     d_digest (dw_dep w') = d_digest (dw_dep w) /\ d_phases (dw_dep w') = d_phases (dw_dep w) /\ d_limit (dw_dep w') = d_limit (dw_dep w) /\
     (d_cc (dw_dep w') = d_cc (dw_dep w) \/ exists h cs rv co sr, In (DStatus h (d_cc (dw_dep w')) cs rv co sr) evs)).
  Proof.
    intros Hp. destruct (dep_pass_unfold _ _ _ _ _ _ _ _ _ _ Hp) as (st3 & d2 & -> & -> & _ & Hc).
    assert (Hr : reach fault (st_init w) (status_req fault st3 d2)).
    { constructor. assert (H0 : reach fault (st_init w) (st_listed fault w)) by (unfold st_listed; repeat constructor).
      destruct Hc as [(_ & -> & _)|(_ & stp & mem & Epl & Hc)]; [assumption|].
      pose proof (pause_loop_reach _ _ _ _ _ _ _ H0 Epl) as H1.
      destruct Hc as [(_ & -> & _)|(_ & sta & d3 & mem' & Enr & Ear & _)]; [assumption|].
      eapply archive_reach; [|exact Ear]. eapply new_revision_reach; eauto. }
    destruct (reach_frame fault slices _ _ Hr) as (es & F). pose proof (f_evs _ _ _ F) as He. cbn in He. subst es.
    destruct F as [_ F2 F3 F4 F5 F6 F7]. unfold sets_of in *. cbn [st_init p_w with_fresh dw_sets dw_dep dw_w] in *. repeat split; try tauto.
    all: try (destruct F7 as (A1 & A2 & A3 & A4 & A5 & A6 & A7); assumption).
  Qed.
End PassFrame.

(** * Part 5: histories *)

(** The invariant of C07 on the ObjectSets the deployment selects ("its" ObjectSets):
    unique names (they are the content of a store), pairwise different non-zero revisions, and an ObjectSet
    that has not reported its revision yet names every other one, all of which have reported theirs. *)
Record Inv (w : dworld) : Prop := {
  i_nodup : NoDup (map sname (dw_sets w));
  i_uniq : forall a b, In a (dw_sets w) -> In b (dw_sets w) -> ds_sel a = true -> ds_sel b = true ->
                       sname a <> sname b -> srev a <> 0%Z -> srev a <> srev b;
  i_zero : forall a b, In a (dw_sets w) -> In b (dw_sets w) -> ds_sel a = true -> ds_sel b = true ->
                       sname a <> sname b -> srev a = 0%Z -> srev b <> 0%Z /\ In (sname b) (os_prev (ds_set a))
}.

(** One action of the ObjectSet side on the list of ObjectSets: names, previous lists, labels, annotations and
    deletion marks stay; a revision number changes only from 0 to a non-zero number greater than the revisions of
    all the ObjectSets named in the previous list; only an ObjectSet marked for deletion disappears. *)
Definition srel (S : list dset) (x x' : dset) : Prop :=
  sname x' = sname x /\ os_prev (ds_set x') = os_prev (ds_set x) /\ ds_sel x' = ds_sel x /\ ds_hash x' = ds_hash x /\
  os_deleting (ds_set x') = os_deleting (ds_set x) /\
  (srev x' = srev x \/
   (srev x = 0%Z /\ srev x' <> 0%Z /\ forall b, In b S -> In (sname b) (os_prev (ds_set x)) -> (srev b < srev x')%Z)).

Definition oset_step (S S' : list dset) : Prop :=
  (NoDup (map sname S) -> NoDup (map sname S')) /\
  (forall x', In x' S' -> exists x, In x S /\ srel S x x') /\
  (forall x, In x S -> (exists x', In x' S' /\ srel S x x') \/ os_deleting (ds_set x) = true).

Lemma srel_refl S x : srel S x x.
Proof. repeat split; auto. Qed.

Lemma oset_step_refl S : oset_step S S.
Proof. split; [auto|]. split; intros x Hx; [|left]; exists x; split; auto using srel_refl. Qed.

Lemma NoDup_map_eq {A B} (f : A -> B) l x y : NoDup (map f l) -> In x l -> In y l -> f x = f y -> x = y.
Proof.
  induction l as [|z r IH]; cbn; [contradiction|]. intros Hnd Hx Hy E. inversion Hnd as [|? ? Hn Hr]; subst.
  destruct Hx as [->|Hx], Hy as [->|Hy]; auto.
  - exfalso. apply Hn. rewrite E. now apply in_map.
  - exfalso. apply Hn. rewrite <- E. now apply in_map.
Qed.

Lemma inv_oset_step w w' :
  Inv w -> oset_step (dw_sets w) (dw_sets w') -> Inv w'.
Proof.
  intros [U1 U2 U3] (Hnd & Hold & _). constructor; [auto|..].
  - intros a' b' Ha' Hb' Sa Sb Hne Hra.
    destruct (Hold a' Ha') as (a & Ha & Na & Pa & Sela & _ & _ & Ra). destruct (Hold b' Hb') as (b & Hb & Nb & Pb & Selb & _ & _ & Rb).
    assert (Hnab : sname a <> sname b) by congruence. rewrite Sela in Sa. rewrite Selb in Sb.
    destruct Ra as [Ra|(Ra0 & Ran & Rab)], Rb as [Rb|(Rb0 & Rbn & Rbb)].
    + rewrite Ra, Rb. apply U2; auto; congruence.
    + destruct (U3 b a Hb Ha Sb Sa (not_eq_sym Hnab) Rb0) as (Hran & Hin). specialize (Rbb a Ha Hin). rewrite Ra. lia.
    + destruct (U3 a b Ha Hb Sa Sb Hnab Ra0) as (Hrbn & Hin). specialize (Rab b Hb Hin). rewrite Rb. lia.
    + destruct (U3 a b Ha Hb Sa Sb Hnab Ra0) as (Hrbn & _). contradiction.
  - intros a' b' Ha' Hb' Sa Sb Hne Hra.
    destruct (Hold a' Ha') as (a & Ha & Na & Pa & Sela & _ & _ & Ra). destruct (Hold b' Hb') as (b & Hb & Nb & Pb & Selb & _ & _ & Rb).
    assert (Hnab : sname a <> sname b) by congruence. rewrite Sela in Sa. rewrite Selb in Sb.
    assert (Ra0 : srev a = 0%Z) by (destruct Ra as [Ra|(_ & Ran & _)]; [congruence|contradiction]).
    destruct (U3 a b Ha Hb Sa Sb Hnab Ra0) as (Hrbn & Hin). rewrite Pa, Nb. split; [|assumption].
    destruct Rb as [Rb|(Rb0 & _)]; congruence.
Qed.

(** ** The steps of the ObjectSet side *)
Lemma scan_prev_bound sets s : forall names latest m,
  scan_prev sets s names latest = Some (Some m) ->
  (latest <= m)%Z /\ forall nm, In nm names -> exists p, find_set sets (oi_kind (os_id s)) (oi_ns (os_id s)) nm = Some p /\
                                                       os_revision p <> 0%Z /\ (os_revision p <= m)%Z.
Proof.
  induction names as [|n r IH]; cbn; intros latest m H; [injection H as <-; split; [lia|contradiction]|].
  destruct (find_set sets _ _ n) as [p|] eqn:Ef; [|discriminate].
  destruct (os_revision p =? 0)%Z eqn:E0; [discriminate|]. apply Z.eqb_neq in E0.
  destruct (IH _ _ H) as (Hle & Hall). split; [lia|]. intros nm [<-|Hnm]; [|now apply Hall].
  exists p. repeat split; auto. lia.
Qed.

Lemma rewrap_id sets x : find_dset sets (sname x) = Some x -> rewrap sets (ds_set x) = x.
Proof. unfold rewrap. fold (sname x). intros ->. now destruct x. Qed.

Lemma map_rewrap_id sets : NoDup (map sname sets) -> map (rewrap sets) (map ds_set sets) = sets.
Proof.
  intros Hnd. rewrite map_map. transitivity (map (fun x => x) sets); [|apply map_id]. apply map_ext_in. intros x Hx. apply rewrap_id. now apply nodup_find.
Qed.

Lemma of_to_sworld w : NoDup (map sname (dw_sets w)) -> of_sworld w (to_sworld w) = w.
Proof. intros H. unfold of_sworld, to_sworld. cbn. rewrite (map_rewrap_id _ H). now destruct w. Qed.

Lemma list_eqb_refl {A} (eqb : A -> A -> bool) : (forall x, eqb x x = true) -> forall l, list_eqb eqb l l = true.
Proof. intros H. induction l as [|x r IH]; cbn; [reflexivity|]. now rewrite H, IH. Qed.

Lemma cond_eqb_refl c : cond_eqb c c = true.
Proof. unfold cond_eqb. destruct c as [t s r g]; cbn. rewrite Z.eqb_refl. destruct t, s, r; reflexivity. Qed.

Lemma status_eqb_refl a : status_eqb a a = true.
Proof.
  unfold status_eqb. rewrite Z.eqb_refl, (list_eqb_refl _ cond_eqb_refl), (list_eqb_refl _ okey_eqb_refl). cbn.
  apply list_eqb_refl. intros [x y]. cbn. now rewrite !N.eqb_refl.
Qed.

Lemma update_status_shape sw m sw' m' ok :
  update_status sw m = (sw', m', ok) ->
  (sw' = sw /\ m' = m) \/
  (exists stored, find_set (sw_sets sw) (oi_kind (os_id m)) (oi_ns (os_id m)) (oi_name (os_id m)) = Some stored /\
     os_rv stored = os_rv m /\ status_eqb stored m = false /\
     sw' = {| sw_w := bump_rv (sw_w sw); sw_sets := put_set (sw_sets sw) (with_status stored m (w_rv (sw_w sw)));
              sw_phases := sw_phases sw; sw_nss := sw_nss sw |} /\
     m' = with_status stored m (w_rv (sw_w sw)) /\ ok = true).
Proof.
  unfold update_status. destruct (find_set _ _ _ _) as [stored|]; [|intros H; injection H as <- <- _; now left].
  destruct (negb (os_rv stored =? os_rv m)) eqn:Erv; [intros H; injection H as <- <- _; now left|].
  destruct (status_eqb stored m) eqn:Es; intros H; injection H as <- <- <-; [now left|].
  right. exists stored. apply negb_false_iff, N.eqb_eq in Erv. auto 7.
Qed.

Lemma put_set_in sets s' st y :
  find_set sets (oi_kind (os_id s')) (oi_ns (os_id s')) (oi_name (os_id s')) = Some st -> In y sets -> y = st \/ In y (put_set sets s').
Proof.
  unfold find_set. induction sets as [|z r IH]; cbn; [contradiction|]. unfold oid_eqb.
  destruct ((oi_kind (os_id z) =? oi_kind (os_id s')) && (oi_ns (os_id z) =? oi_ns (os_id s')) && (oi_name (os_id z) =? oi_name (os_id s'))) eqn:E; cbn.
  - intros H [->|Hy]; [left; congruence|right; now right].
  - intros H [->|Hy]; [right; now left|]. destruct (IH H Hy); [now left|right; now right].
Qed.

Lemma put_set_self sets s' st :
  find_set sets (oi_kind (os_id s')) (oi_ns (os_id s')) (oi_name (os_id s')) = Some st -> In s' (put_set sets s').
Proof.
  unfold find_set. induction sets as [|z r IH]; cbn; [discriminate|]. unfold oid_eqb.
  destruct ((oi_kind (os_id z) =? oi_kind (os_id s')) && (oi_ns (os_id z) =? oi_ns (os_id s')) && (oi_name (os_id z) =? oi_name (os_id s'))); cbn; [now left|].
  intros H. right. now apply IH.
Qed.

Lemma put_set_names sets s' st :
  find_set sets (oi_kind (os_id s')) (oi_ns (os_id s')) (oi_name (os_id s')) = Some st ->
  map (fun y => oi_name (os_id y)) (put_set sets s') = map (fun y => oi_name (os_id y)) sets.
Proof.
  unfold find_set. induction sets as [|z r IH]; cbn; [discriminate|]. unfold oid_eqb.
  destruct ((oi_kind (os_id z) =? oi_kind (os_id s')) && (oi_ns (os_id z) =? oi_ns (os_id s')) && (oi_name (os_id z) =? oi_name (os_id s'))) eqn:E; cbn.
  - intros _. f_equal. apply andb_true_iff in E. destruct E as [_ E]. apply N.eqb_eq in E. congruence.
  - intros H. f_equal. now apply IH.
Qed.

Lemma sname_rewrap sets o : sname (rewrap sets o) = oi_name (os_id o).
Proof. unfold rewrap. destruct (find_dset sets _); reflexivity. Qed.

(** Writing a new version [o'] of the stored ObjectSet of [x0] back into the deployment-level world. *)
Lemma put_back_step sets x0 o' k ns :
  NoDup (map sname sets) -> In x0 sets ->
  find_set (map ds_set sets) k ns (sname x0) = Some (ds_set x0) ->
  os_id o' = os_id (ds_set x0) -> os_prev o' = os_prev (ds_set x0) -> os_deleting o' = os_deleting (ds_set x0) ->
  (os_revision o' = srev x0 \/
   (srev x0 = 0%Z /\ os_revision o' <> 0%Z /\ forall b, In b sets -> In (sname b) (os_prev (ds_set x0)) -> (srev b < os_revision o')%Z)) ->
  oset_step sets (map (rewrap sets) (put_set (map ds_set sets) o')).
Proof.
  intros Hnd Hx0 Hf Hid Hprev Hdel Hrev.
  pose proof (find_set_id _ _ _ _ _ Hf) as (Hk & Hns & _).
  assert (Hf' : find_set (map ds_set sets) (oi_kind (os_id o')) (oi_ns (os_id o')) (oi_name (os_id o')) = Some (ds_set x0)).
  { rewrite Hid, Hk, Hns. exact Hf. }
  assert (Hrw : rewrap sets o' = {| ds_set := o'; ds_hash := ds_hash x0; ds_pbp := ds_pbp x0; ds_sel := ds_sel x0; ds_ctrl := ds_ctrl x0; ds_ctrlset := ds_ctrlset x0 |}).
  { unfold rewrap. rewrite Hid. fold (sname x0). now rewrite (nodup_find _ _ Hnd Hx0). }
  assert (Hsrel : srel sets x0 (rewrap sets o')).
  { rewrite Hrw. unfold srel, sname, srev. cbn. rewrite Hid, Hprev, Hdel. repeat split; auto. }
  split; [|split].
  - intros _. rewrite map_map. erewrite map_ext by (intros; apply sname_rewrap).
    rewrite (put_set_names _ _ _ Hf'). now rewrite map_map.
  - intros x' Hx'. apply in_map_iff in Hx'. destruct Hx' as (z & <- & Hz). apply in_put_set in Hz.
    destruct Hz as [->|Hz]; [exists x0; auto|]. apply in_map_iff in Hz. destruct Hz as (x & <- & Hx).
    exists x. split; [assumption|]. rewrite (rewrap_id _ _ (nodup_find _ _ Hnd Hx)). apply srel_refl.
  - intros x Hx. left. destruct (put_set_in _ _ _ _ Hf' (in_map ds_set _ _ Hx)) as [E|Hin].
    + assert (x = x0) by (apply (NoDup_map_eq sname sets); auto; unfold sname; now rewrite E). subst x.
      exists (rewrap sets o'). split; [|assumption]. apply in_map. eapply put_set_self; eauto.
    + exists x. split; [|apply srel_refl]. rewrite <- (rewrap_id sets x (nodup_find _ _ Hnd Hx)). now apply in_map.
Qed.

Lemma find_set_map_ds sets k ns n mem : find_set (map ds_set sets) k ns n = Some mem -> exists x0, In x0 sets /\ ds_set x0 = mem /\ sname x0 = n.
Proof.
  intros H. pose proof (find_set_in _ _ _ _ _ H) as Hin. apply in_map_iff in Hin. destruct Hin as (x0 & E & Hx0).
  exists x0. repeat split; auto. unfold sname. rewrite E. now apply (find_set_id _ _ _ _ _ H).
Qed.

Lemma rev_step_oset w n :
  NoDup (map sname (dw_sets w)) ->
  oset_step (dw_sets w) (dw_sets (rev_step w n)) /\ dw_dep (rev_step w n) = dw_dep w /\
  w_store (dw_w (rev_step w n)) = w_store (dw_w w).
Proof.
  intros Hnd. unfold rev_step. set (sw := to_sworld w).
  destruct (find_set (sw_sets sw) (set_kind w) (oi_ns (d_id (dw_dep w))) n) as [mem|] eqn:Ef; [|split; [apply oset_step_refl|auto]].
  destruct (find_set_map_ds _ _ _ _ _ Ef) as (x0 & Hx0 & Emem & En). subst mem n.
  pose proof (find_set_id _ _ _ _ _ Ef) as (Hk & Hns & Hnm).
  assert (Hfid : find_set (sw_sets sw) (oi_kind (os_id (ds_set x0))) (oi_ns (os_id (ds_set x0))) (oi_name (os_id (ds_set x0))) = Some (ds_set x0)).
  { rewrite Hk, Hns. exact Ef. }
  (* the outcome of writing a status whose revision is justified *)
  assert (Hwrite : forall m sw' m' ok,
            os_id m = os_id (ds_set x0) ->
            (os_revision m = srev x0 \/ (srev x0 = 0%Z /\ os_revision m <> 0%Z /\
               forall b, In b (dw_sets w) -> In (sname b) (os_prev (ds_set x0)) -> (srev b < os_revision m)%Z)) ->
            update_status sw m = (sw', m', ok) ->
            oset_step (dw_sets w) (dw_sets (of_sworld w sw')) /\ dw_dep (of_sworld w sw') = dw_dep w /\
            w_store (dw_w (of_sworld w sw')) = w_store (dw_w w)).
  { intros m sw' m' ok Hid Hrev Hu. destruct (update_status_shape _ _ _ _ _ Hu) as [[-> _]|(stored & Hfs & _ & _ & -> & _ & _)].
    - unfold sw. rewrite (of_to_sworld _ Hnd). split; [apply oset_step_refl|auto].
    - rewrite Hid, Hfid in Hfs. injection Hfs as <-. split; [|split; reflexivity]. cbn [of_sworld dw_sets sw_sets].
      eapply put_back_step; eauto. }
  unfold revision_pass. destruct (negb (os_revision (ds_set x0) =? 0)%Z) eqn:E0.
  - destruct (update_status sw (ds_set x0)) as [[sw2 m2] ok2] eqn:Eu. eapply (Hwrite (ds_set x0)); [reflexivity|now left|exact Eu].
  - apply negb_false_iff, Z.eqb_eq in E0. destruct (os_prev (ds_set x0)) as [|p ps] eqn:Eprev.
    + destruct (update_status sw (set_revision (ds_set x0) 1)) as [[sw2 m2] ok2] eqn:Eu.
      eapply (Hwrite (set_revision (ds_set x0) 1)); [reflexivity| |exact Eu]. right. cbn. split; [exact E0|]. split; [discriminate|]. intros b _ [].
    + destruct (scan_prev (sw_sets sw) (ds_set x0) (p :: ps) 0) as [[latest|]|] eqn:Esc.
      * destruct (update_status sw (set_revision (ds_set x0) (latest + 1))) as [[sw1 mem2] ok] eqn:Eu.
        destruct (scan_prev_bound _ _ _ _ _ Esc) as (Hle & Hall).
        assert (Hrev : os_revision (set_revision (ds_set x0) (latest + 1)) = srev x0 \/
                       (srev x0 = 0%Z /\ os_revision (set_revision (ds_set x0) (latest + 1)) <> 0%Z /\
                        forall b, In b (dw_sets w) -> In (sname b) (p :: ps) -> (srev b < os_revision (set_revision (ds_set x0) (latest + 1)))%Z)).
        { right. cbn [os_revision set_revision]. split; [exact E0|]. split; [lia|]. intros b Hb Hin. destruct (Hall _ Hin) as (q & Hq & _ & Hql).
          destruct (find_set_map_ds _ _ _ _ _ Hq) as (b' & Hb' & <- & Hn').
          assert (b' = b) by (apply (NoDup_map_eq sname (dw_sets w)); auto). subst b'. unfold srev. lia. }
        destruct ok.
        -- destruct (update_status sw1 mem2) as [[sw2 m3] ok3] eqn:Eu2.
           destruct (update_status_shape _ _ _ _ _ Eu) as [[-> ->]|(stored & Hfs & _ & _ & -> & -> & _)].
           ++ eapply (Hwrite (set_revision (ds_set x0) (latest + 1))); [reflexivity|exact Hrev|exact Eu2].
           ++ (* the second write finds what the first one stored: nothing changes *)
              cbn [set_revision os_id] in Hfs. rewrite Hfid in Hfs. injection Hfs as <-.
              unfold update_status in Eu2. cbn [sw_sets with_status os_id] in Eu2.
              rewrite (find_put_set _ (with_status (ds_set x0) (set_revision (ds_set x0) (latest + 1)) (w_rv (sw_w sw))) (ds_set x0)) in Eu2 by exact Hfid.
              rewrite N.eqb_refl, status_eqb_refl in Eu2. cbn in Eu2. injection Eu2 as <- _ _.
              split; [|split; reflexivity]. cbn [of_sworld dw_sets sw_sets].
              eapply put_back_step; eauto. rewrite Eprev. exact Hrev.
        -- eapply (Hwrite (set_revision (ds_set x0) (latest + 1))); [reflexivity|exact Hrev|exact Eu].
      * unfold sw. rewrite (of_to_sworld _ Hnd). split; [apply oset_step_refl|auto].
      * unfold sw. rewrite (of_to_sworld _ Hnd). split; [apply oset_step_refl|auto].
Qed.

Section PassBump.
  Variable hash : N -> option N -> N.
  Variable fault : option (nat * bool).
  Variable slices : N -> option (list pobj).
  Variable sliceaware : bool.
  Variable rev0ok : bool.

  Definition is_update (e : dev) : Prop := match e with DUpdate _ _ _ _ => True | _ => False end.
  Definition not_create_status (e : dev) : Prop := match e with DCreate _ _ _ _ _ | DStatus _ _ _ _ _ _ => False | _ => True end.

  Lemma pause_loop_updates paused : forall sets st st' mem,
    pause_loop fault st paused sets = (st', mem) -> exists es, news st st' es /\ Forall is_update es.
  Proof.
    induction sets as [|s r IH]; cbn [pause_loop]; intros st st' mem H; [injection H as <- _; exists []; split; [apply news_refl|constructor]|].
    destruct (if is_archived s then (st, s) else if Bool.eqb paused (paused_by_parent s) then (st, s)
              else if paused then upd_req fault st s LPaused true else upd_req fault st s LActive false) as [st1 s1] eqn:E1.
    destruct (pause_loop fault st1 paused r) as [st2 r2] eqn:E2. injection H as <- _.
    destruct (IH _ _ _ E2) as (e2 & H2 & F2).
    assert (H1 : exists es, news st st1 es /\ Forall is_update es).
    { assert (Hu : forall life pbp, upd_req fault st s life pbp = (st1, s1) -> exists es, news st st1 es /\ Forall is_update es).
      { intros life pbp Hu. destruct (upd_req_spec _ _ _ _ _ _ _ Hu) as [(He & _)|(_ & rr & He & _)].
        - exists []. split; [unfold news; now rewrite app_nil_r|constructor].
        - eexists. split; [exact He|]. constructor; [exact I|constructor]. }
      destruct (is_archived s); [injection E1 as <- _; exists []; split; [apply news_refl|constructor]|].
      destruct (Bool.eqb paused (paused_by_parent s)); [injection E1 as <- _; exists []; split; [apply news_refl|constructor]|].
      destruct paused; eapply Hu; eauto. }
    destruct H1 as (e1 & H1 & F1). exists (e1 ++ e2). split; [eapply news_trans; eauto|apply Forall_app; auto].
  Qed.

  (** The collision counter changes only in a pass whose Create was answered AlreadyExists. *)
  Lemma dep_pass_bump stale w w' evs r h cc cs rv co sr :
    dep_pass_sh hash fault slices sliceaware rev0ok stale w = (w', evs, r) -> In (DStatus h cc cs rv co sr) evs ->
    cc = d_cc (dw_dep w) \/
    (cc = bump_cc (d_cc (dw_dep w)) /\ forall n phs prev hh cr, In (DCreate n phs prev hh cr) evs -> cr = CrExists).
  Proof.
    intros Hp Hin. destruct (dep_pass_unfold _ _ _ _ _ _ _ _ _ _ Hp) as (st3 & d2 & -> & _ & _ & Hc).
    destruct (status_req_news fault st3 d2) as (ess & Hn & Hess). rewrite Hn in *.
    assert (Hfin : forall es3, p_evs st3 = es3 -> Forall (fun e => match e with DStatus _ _ _ _ _ _ => False | _ => True end) es3 ->
              (d_cc d2 = d_cc (dw_dep w) \/ (d_cc d2 = bump_cc (d_cc (dw_dep w)) /\ forall n phs prev hh cr, In (DCreate n phs prev hh cr) es3 -> cr = CrExists)) ->
              cc = d_cc (dw_dep w) \/ (cc = bump_cc (d_cc (dw_dep w)) /\ forall n phs prev hh cr, In (DCreate n phs prev hh cr) (p_evs st3 ++ ess) -> cr = CrExists)).
    { intros es3 E3 Hns Hd. rewrite E3 in *. apply in_app_or in Hin. destruct Hin as [Hin|Hin].
      - rewrite Forall_forall in Hns. destruct (Hns _ Hin).
      - destruct Hess as [->|(rr & ->)]; [contradiction|]. destruct Hin as [Hin|[]]. injection Hin as _ <- _ _ _ _.
        destruct Hd as [Hd|[Hd Hall]]; [now left|right]. split; [assumption|]. intros n phs prev hh cr Hi.
        apply in_app_or in Hi. destruct Hi as [Hi|[Hi|[]]]; [eauto|discriminate]. }
    destruct Hc as [(_ & -> & ->)|(_ & stp & mem & Epl & Hc)].
    - rewrite st_listed_evs in *. apply (Hfin [] eq_refl); [constructor|now left].
    - destruct (pause_loop_updates _ _ _ _ _ Epl) as (esp & Hnp & Hesp). unfold news in Hnp. rewrite st_listed_evs in Hnp. cbn in Hnp.
      assert (Hesp' : Forall (fun e => match e with DStatus _ _ _ _ _ _ => False | DCreate _ _ _ _ _ => False | _ => True end) esp).
      { eapply Forall_impl; [|exact Hesp]. intros [] He; try exact I; destruct He. }
      destruct Hc as [(_ & -> & ->)|(_ & sta & d3 & mem' & Enr & Ear & ->)].
      + apply (Hfin esp Hnp).
        * eapply Forall_impl; [|exact Hesp']. intros []; auto.
        * left. now destruct (set_status_keeps (dep_hashed hash w) (fst (split_current (has_current (dep_hashed hash w) (listed stale w)) mem)) (snd (split_current (has_current (dep_hashed hash w) (listed stale w)) mem))) as (_ & -> & _).
      + destruct (new_revision_spec _ _ _ _ _ _ _ _ Enr) as (esn & Hnn & Hesn & Hd3).
        destruct (archive_news fault slices sliceaware _ _ _ _ _ _ Ear) as (esa & Hna & _ & Hesa).
        unfold news in Hnn, Hna.
        assert (Hesa' : Forall (fun e => match e with DStatus _ _ _ _ _ _ => False | DCreate _ _ _ _ _ => False | _ => True end) esa).
        { eapply Forall_impl; [|exact Hesa]. intros e [(n & pbp & rr & ->)|[(n & pbp & rr & -> & _)|(n & rr & -> & _)]]; exact I. }
        apply (Hfin ((esp ++ esn) ++ esa)); [now rewrite Hna, Hnn, Hnp| |].
        * repeat (apply Forall_app; split).
          -- eapply Forall_impl; [|exact Hesp']. intros []; auto.
          -- destruct Hesn as [->|(rr & -> & _)]; [constructor|constructor; [exact I|constructor]].
          -- eapply Forall_impl; [|exact Hesa']. intros []; auto.
        * destruct (set_status_keeps d3 (fst (split_current (has_current (dep_hashed hash w) (listed stale w)) mem')) (snd (split_current (has_current (dep_hashed hash w) (listed stale w)) mem'))) as (_ & -> & _).
          destruct Hd3 as [->|(-> & _ & ->)]; [now left|right]. split; [reflexivity|]. intros n phs prev hh cr Hi.
          apply in_app_or in Hi. destruct Hi as [Hi|Hi].
          -- apply in_app_or in Hi. destruct Hi as [Hi|[Hi|[]]]; [|now injection Hi as _ _ _ _ <-].
             rewrite Forall_forall in Hesp'. destruct (Hesp' _ Hi).
          -- rewrite Forall_forall in Hesa'. destruct (Hesa' _ Hi).
  Qed.
End PassBump.

(** * What one pass of the ObjectSet controller does to the list of stored ObjectSets *)
Section SetFrame.
  Variable force : bool.
  Variables k ns n : N.
  Variable sw0 : sworld.
  Variable mem0 : oset.
  Hypothesis Hfind0 : find_set (sw_sets sw0) k ns n = Some mem0.
  Hypothesis Hnd0 : NoDup (map (fun y => oi_name (os_id y)) (sw_sets sw0)).

  Definition oname (y : oset) : N := oi_name (os_id y).

  Definition revok (x : oset) : Prop :=
    os_revision x = os_revision mem0 \/
    (os_revision mem0 = 0%Z /\ os_revision x <> 0%Z /\
     forall nm, In nm (os_prev mem0) -> exists q, In q (sw_sets sw0) /\ oname q = nm /\ (os_revision q < os_revision x)%Z).
  Definition okm (x : oset) : Prop :=
    os_id x = os_id mem0 /\ os_prev x = os_prev mem0 /\ os_deleting x = os_deleting mem0 /\ revok x.

  Record fr (sw : sworld) : Prop := {
    fr_old : forall x, In x (sw_sets sw) -> In x (sw_sets sw0) \/ okm x;
    fr_keep : forall x, In x (sw_sets sw0) -> In x (sw_sets sw) \/ os_id x = os_id mem0;
    fr_nodup : NoDup (map oname (sw_sets sw));
    fr_present : (exists x, In x (sw_sets sw) /\ okm x) \/ os_deleting mem0 = true
  }.

  Lemma mem0_in : In mem0 (sw_sets sw0).
  Proof. eapply find_set_in; eauto. Qed.
  Lemma mem0_key : oi_kind (os_id mem0) = k /\ oi_ns (os_id mem0) = ns /\ oi_name (os_id mem0) = n.
  Proof. eapply find_set_id; eauto. Qed.

  Lemma okm_mem0 : okm mem0.
  Proof. repeat split; auto. now left. Qed.

  Lemma fr_init : fr sw0.
  Proof.
    constructor; auto.
    left. exists mem0. split; [apply mem0_in|apply okm_mem0].
  Qed.

  (** the stored copy of the target *)
  Lemma stored_okm sw st : fr sw -> find_set (sw_sets sw) k ns n = Some st -> okm st.
  Proof.
    intros F Hf. pose proof (find_set_in _ _ _ _ _ Hf) as Hin. pose proof (find_set_id _ _ _ _ _ Hf) as (_ & _ & Hn).
    destruct (fr_old _ F st Hin) as [H0|H0]; [|assumption].
    assert (st = mem0); [|subst; apply okm_mem0].
    apply (NoDup_map_eq (fun y => oi_name (os_id y)) (sw_sets sw0)); auto; [apply mem0_in|]. destruct mem0_key as (_ & _ & ->). exact Hn.
  Qed.

  Lemma okm_key m : okm m -> oi_kind (os_id m) = k /\ oi_ns (os_id m) = ns /\ oi_name (os_id m) = n.
  Proof. intros (-> & _). apply mem0_key. Qed.

  Lemma okm_same m m' : okm m -> os_id m' = os_id m -> os_prev m' = os_prev m -> os_deleting m' = os_deleting m ->
    os_revision m' = os_revision m -> okm m'.
  Proof. intros (H1 & H2 & H3 & H4) E1 E2 E3 E4. unfold okm, revok in *. rewrite E1, E2, E3, E4. auto. Qed.

  Lemma fr_put sw st x' :
    fr sw -> find_set (sw_sets sw) k ns n = Some st -> okm x' ->
    fr {| sw_w := bump_rv (sw_w sw); sw_sets := put_set (sw_sets sw) x'; sw_phases := sw_phases sw; sw_nss := sw_nss sw |}.
  Proof.
    intros F Hf Hx. pose proof (stored_okm _ _ F Hf) as Hst. destruct (okm_key _ Hx) as (K1 & K2 & K3).
    assert (Hf' : find_set (sw_sets sw) (oi_kind (os_id x')) (oi_ns (os_id x')) (oi_name (os_id x')) = Some st) by now rewrite K1, K2, K3.
    constructor; cbn [sw_sets].
    - intros x Hin. apply in_put_set in Hin. destruct Hin as [->|Hin]; [now right|now apply (fr_old _ F)].
    - intros x Hin. destruct (fr_keep _ F x Hin) as [H|H]; [|now right].
      destruct (put_set_in _ _ _ _ Hf' H) as [->|H']; [right; apply Hst|now left].
    - unfold oname. rewrite (put_set_names _ _ _ Hf'). apply (fr_nodup _ F).
    - left. exists x'. split; [eapply put_set_self; eauto|assumption].
  Qed.

  Lemma update_status_fr sw m sw' m' ok :
    fr sw -> okm m -> update_status sw m = (sw', m', ok) -> fr sw' /\ okm m'.
  Proof.
    intros F Hm Hu. destruct (update_status_shape _ _ _ _ _ Hu) as [[-> ->]|(st & Hf & _ & _ & -> & -> & _)]; [auto|].
    destruct (okm_key _ Hm) as (K1 & K2 & K3). rewrite K1, K2, K3 in Hf.
    pose proof (stored_okm _ _ F Hf) as Hst.
    assert (Hx : okm (with_status st m (w_rv (sw_w sw)))).
    { destruct Hst as (S1 & S2 & S3 & _). destruct Hm as (_ & _ & _ & M4). unfold okm, revok. cbn. auto. }
    split; [eapply fr_put; eauto|assumption].
  Qed.

  Lemma in_del_set_iff sets id x : In x (del_set sets id) <-> In x sets /\ oid_eqb (os_id x) id = false.
  Proof. unfold del_set. rewrite filter_In, negb_true_iff. tauto. Qed.

  Lemma oid_eqb_refl i : oid_eqb i i = true.
  Proof. unfold oid_eqb. now rewrite !N.eqb_refl. Qed.

  Lemma patch_finalizer_fr sw m fin sw' r :
    fr sw -> okm m -> patch_finalizer sw m fin = (sw', r) ->
    fr sw' /\ match r with Some m' => okm m' | None => True end.
  Proof.
    intros F Hm. unfold patch_finalizer. destruct (okm_key _ Hm) as (K1 & K2 & K3). rewrite K1, K2, K3.
    destruct (find_set (sw_sets sw) k ns n) as [st|] eqn:Hf; [|intros H; injection H as <- <-; auto].
    destruct (negb (os_rv st =? os_rv m)); [intros H; injection H as <- <-; auto|].
    pose proof (stored_okm _ _ F Hf) as Hst.
    assert (Hx : okm (set_fin st fin (w_rv (sw_w sw)))) by (eapply okm_same; [exact Hst|reflexivity..]).
    destruct (negb fin && os_deleting st && negb (os_orphan st)) eqn:Ed; intros H; injection H as <- <-; (split; [|exact Hx]).
    - apply andb_true_iff in Ed. destruct Ed as [Ed _]. apply andb_true_iff in Ed. destruct Ed as [_ Ed].
      constructor; cbn [sw_sets].
      + intros x Hin. apply in_del_set_iff in Hin. apply (fr_old _ F). tauto.
      + intros x Hin. destruct (fr_keep _ F x Hin) as [H|H]; [|now right].
        destruct (oid_eqb (os_id x) (os_id st)) eqn:E; [|left; apply in_del_set_iff; auto].
        right. assert (x = mem0); [|now subst].
        apply (NoDup_map_eq (fun y => oi_name (os_id y)) (sw_sets sw0)); auto; [apply mem0_in|].
        unfold oid_eqb in E. apply andb_true_iff in E. destruct E as [_ E]. apply N.eqb_eq in E. rewrite E.
        destruct Hst as (-> & _). reflexivity.
      + unfold del_set. apply NoDup_map_filter. apply (fr_nodup _ F).
      + right. destruct Hst as (_ & _ & <- & _). exact Ed.
    - eapply fr_put; eauto.
  Qed.

  Lemma fr_sets sw sw' : sw_sets sw' = sw_sets sw -> fr sw -> fr sw'.
  Proof. intros E [A B C D]. constructor; rewrite ?E; auto. Qed.

  Lemma revision_pass_fr sw mem sw1 evs1 mem1 rr :
    fr sw -> okm mem -> revision_pass sw mem = (sw1, evs1, mem1, rr) -> fr sw1 /\ okm mem1.
  Proof.
    intros F Hm. unfold revision_pass.
    destruct (negb (Z.eqb (os_revision mem) 0)) eqn:E0; [intros H; injection H as <- _ <- _; auto|].
    apply negb_false_iff, Z.eqb_eq in E0.
    assert (Hr0 : os_revision mem0 = 0%Z).
    { destruct Hm as (_ & _ & _ & [R|(R & Rn & _)]); [congruence|assumption]. }
    destruct (os_prev mem) eqn:Eprev.
    - intros H; injection H as <- _ <- _. split; [assumption|].
      destruct Hm as (M1 & M2 & M3 & _). unfold okm, revok. cbn. rewrite <- M2, Eprev. repeat split; auto.
      right. repeat split; auto; [discriminate|]. intros nm [].
    - destruct (scan_prev _ _ _ _) as [[latest|]|] eqn:Esc.
      + destruct (update_status sw (set_revision mem (latest + 1))) as [[sw2 m2] ok] eqn:Eu.
        intros H; injection H as <- _ <- _. eapply update_status_fr; [exact F| |exact Eu].
        destruct (scan_prev_bound _ _ _ _ _ Esc) as (Hle & Hall).
        destruct Hm as (M1 & M2 & M3 & _). unfold okm, revok. cbn [set_revision os_id os_prev os_deleting os_revision].
        repeat split; auto. right. repeat split; auto; [lia|].
        intros nm Hnm. rewrite <- M2, Eprev in Hnm. destruct (Hall _ Hnm) as (q & Hq & _ & Hql).
        pose proof (find_set_in _ _ _ _ _ Hq) as Hqin. pose proof (find_set_id _ _ _ _ _ Hq) as (_ & _ & Hqn).
        destruct (fr_old _ F q Hqin) as [Hq0|Hqm].
        * exists q. repeat split; auto. lia.
        * exists mem0. split; [apply mem0_in|]. split; [|lia]. destruct Hqm as (Eid & _). unfold oname. now rewrite <- Eid.
      + intros H; injection H as <- _ <- _; auto.
      + intros H; injection H as <- _ <- _; auto.
  Qed.

  Lemma active_body_fr sw evs0 mem sw' evs r :
    fr sw -> okm mem -> active_body force sw evs0 mem = (sw', evs, r) -> fr sw'.
  Proof.
    intros F Hm. unfold active_body.
    destruct (revision_pass sw mem) as [[[sw1 evs1] mem1] rr] eqn:Erev.
    destruct (revision_pass_fr _ _ _ _ _ _ F Hm Erev) as [F1 Hm1].
    assert (Hfail : forall (mx : oset) sw2 evsx rs swf evsf rf, fr sw2 -> okm mx ->
              (let m' := set_conds mx (set_cond (os_conds mx) (mk_cond mx CAvailable SFalse rs)) in
               let '(sw'', _, ok) := update_status sw2 m' in
               (sw'', evsx ++ [status_ev m' ok], if ok then SDone true else SError)) = (swf, evsf, rf) -> fr swf).
    { intros mx sw2 evsx rs swf evsf rf F2 Hmx. cbv zeta. destruct (update_status sw2 _) as [[sw3 m3] ok] eqn:Eu.
      intros H. injection H as <- _ _. eapply update_status_fr; [exact F2| |exact Eu]. eapply okm_same; [exact Hmx|reflexivity..]. }
    destruct rr.
    - destruct (Nat.ltb 0 (dup_count [] (map (spec_key mem1) (all_objects mem1)))); [intros H; eapply Hfail; eauto|].
      destruct (reconcile_phases_m force sw1 mem1 (as_owner mem1) _ _ [] (os_remotes mem1)) as [[[sw2 pevs] rem] pr] eqn:Erp.
      destruct (rpm_inv force _ _ _ _ _ _ _ _ _ _ _ Erp) as (Hsets & _).
      pose proof (fr_sets _ _ Hsets F1) as F2.
      assert (Hm2 : okm (set_remotes mem1 rem)) by (eapply okm_same; [exact Hm1|reflexivity..]).
      destruct pr as [e| | |ctrlof failed].
      + destruct e; try (intros H; eapply Hfail; [exact F2|exact Hm2|exact H]); intros H; injection H as <- _ _; exact F2.
      + intros H. injection H as <- _ _. exact F2.
      + intros H; eapply Hfail; [exact F2|exact Hm2|exact H].
      + destruct (update_status sw2 (final_status (sw_phases sw2) (set_remotes mem1 rem) ctrlof failed)) as [[sw3 m3] ok] eqn:Eu.
        intros H. injection H as <- _ _. eapply update_status_fr; [exact F2| |exact Eu].
        eapply okm_same; [exact Hm2|reflexivity..].
    - destruct (update_status sw1 _) as [[sw2 m2] ok] eqn:Eu. intros H. injection H as <- _ _.
      eapply update_status_fr; [exact F1| |exact Eu]. eapply okm_same; [exact Hm1|reflexivity..].
    - intros H. injection H as <- _ _. exact F1.
  Qed.

  Lemma deletion_pass_fr sw mem sw' evs r :
    fr sw -> okm mem -> deletion_pass force sw mem = (sw', evs, r) -> fr sw'.
  Proof.
    intros F Hm. unfold deletion_pass.
    set (archived := lifecycle_eqb (os_life mem) LArchived).
    change (if os_fin mem then if os_orphan mem then (sw, [], TdOk true)
            else teardown_phases_m force sw mem (as_owner mem) (rev (os_phases mem))
            else (sw, [], TdOk true)) with (teardown_of force sw mem).
    destruct (teardown_of force sw mem) as [[sw1 tevs] td] eqn:Etd.
    assert (F1 : fr sw1).
    { unfold teardown_of in Etd. destruct (os_fin mem); [|injection Etd as <- _ _; exact F].
      destruct (os_orphan mem); [injection Etd as <- _ _; exact F|].
      destruct (tpm_inv force _ _ _ _ _ _ _ Etd) as (Hsets & _). exact (fr_sets _ _ Hsets F). }
    assert (Hfinish : forall swx evs1 mem1 swf evsf rf,
       (if negb archived then (swx, evs1, SDone false)
        else let '(sw'', _, ok) := update_status swx (set_conds mem1 (remove_cond (os_conds mem1) CAvailable)) in
             (sw'', evs1 ++ [status_ev (set_conds mem1 (remove_cond (os_conds mem1) CAvailable)) ok], if ok then SDone false else SError)) = (swf, evsf, rf) ->
       fr swx -> okm mem1 -> fr swf).
    { intros swx evs1 mem1 swf evsf rf. destruct (negb archived); [intros H Fx Hm1; injection H as <- _ _; exact Fx|].
      destruct (update_status swx _) as [[sw2 m2] ok] eqn:Eu. intros H Fx Hm1. injection H as <- _ _.
      eapply update_status_fr; [exact Fx| |exact Eu]. eapply okm_same; [exact Hm1|reflexivity..]. }
    assert (Harch_ok : forall m0, okm m0 -> okm (if archived then set_ctrlof (set_conds m0 (set_cond (os_conds m0) (mk_cond m0 CArchived STrue RArchived))) [] else m0)).
    { intros m0 H0. destruct archived; [|exact H0]. eapply okm_same; [exact H0|reflexivity..]. }
    destruct td as [|[|]].
    - intros H. injection H as <- _ _. exact F1.
    - destruct (os_fin mem).
      + destruct (patch_finalizer sw1 mem false) as [sw2 [mem2|]] eqn:Ep;
          destruct (patch_finalizer_fr _ _ _ _ _ F1 Hm Ep) as [F2 Hm2].
        * intros H. eapply Hfinish; [exact H|exact F2|]. now apply Harch_ok.
        * intros H. injection H as <- _ _. exact F2.
      + intros H. eapply Hfinish; [exact H|exact F1|]. now apply Harch_ok.
    - intros H. eapply Hfinish; [exact H|exact F1|].
      destruct archived; [|exact Hm]. eapply okm_same; [exact Hm|reflexivity..].
  Qed.

  Theorem objectset_pass_fr sw' evs r : objectset_pass force sw0 k ns n = (sw', evs, r) -> fr sw'.
  Proof.
    intros H. unfold objectset_pass in H. rewrite Hfind0 in H.
    destruct (cond_true (os_conds mem0) CArchived); [injection H as <- _ _; apply fr_init|].
    destruct (os_deleting mem0 || lifecycle_eqb (os_life mem0) LArchived).
    - eapply deletion_pass_fr; [apply fr_init|apply okm_mem0|exact H].
    - unfold active_pass in H. destruct (os_fin mem0); [eapply active_body_fr; [apply fr_init|apply okm_mem0|exact H]|].
      destruct (patch_finalizer sw0 mem0 true) as [sw1 [m|]] eqn:Ep;
        destruct (patch_finalizer_fr _ _ _ _ _ fr_init okm_mem0 Ep) as [F1 Hm1].
      + eapply active_body_fr; eauto.
      + now injection H as <- _ _.
  Qed.
End SetFrame.

(** ... and to the ObjectSets of the deployment-level world. *)
Lemma setpass_oset force w n :
  NoDup (map sname (dw_sets w)) ->
  let '(sw', _, _) := objectset_pass force (to_sworld w) (set_kind w) (oi_ns (d_id (dw_dep w))) n in
  oset_step (dw_sets w) (dw_sets (of_sworld w sw')).
Proof.
  intros Hnd. destruct (objectset_pass force (to_sworld w) (set_kind w) (oi_ns (d_id (dw_dep w))) n) as [[sw' evs] r] eqn:Ep.
  destruct (find_set (sw_sets (to_sworld w)) (set_kind w) (oi_ns (d_id (dw_dep w))) n) as [mem0|] eqn:Ef.
  2: { unfold objectset_pass in Ep. rewrite Ef in Ep. injection Ep as <- _ _. rewrite (of_to_sworld _ Hnd). apply oset_step_refl. }
  destruct (find_set_map_ds _ _ _ _ _ Ef) as (x0 & Hx0 & Emem & En).
  assert (Hnd0 : NoDup (map (fun y => oi_name (os_id y)) (sw_sets (to_sworld w)))) by (cbn; now rewrite map_map).
  pose proof (objectset_pass_fr force _ _ _ _ mem0 Ef Hnd0 _ _ _ Ep) as [Fold Fkeep Fnd Fpres].
  cbn [of_sworld dw_sets]. set (S := dw_sets w) in *.
  (* the image of the target *)
  assert (Himg : forall o', okm (to_sworld w) mem0 o' -> srel S x0 (rewrap S o')).
  { intros o' (Eid & Eprev & Edel & Erev).
    assert (Hrw : rewrap S o' = {| ds_set := o'; ds_hash := ds_hash x0; ds_pbp := ds_pbp x0; ds_sel := ds_sel x0; ds_ctrl := ds_ctrl x0; ds_ctrlset := ds_ctrlset x0 |}).
    { unfold rewrap. rewrite Eid, <- Emem. fold (sname x0). now rewrite (nodup_find _ _ Hnd Hx0). }
    rewrite Hrw. unfold srel, sname, srev. cbn [ds_set ds_sel ds_hash]. rewrite Eid, Eprev, Edel, <- Emem. repeat split; auto.
    destruct Erev as [Er|(Er0 & Ern & Erb)]; [left; now rewrite Er, <- Emem|right].
    rewrite <- Emem in Er0. split; [assumption|]. split; [assumption|]. intros b Hb Hin.
    rewrite <- Emem in Erb. destruct (Erb _ Hin) as (q & Hq & Hqn & Hql). cbn in Hq. apply in_map_iff in Hq. destruct Hq as (b' & <- & Hb').
    assert (b' = b) by (apply (NoDup_map_eq sname S); auto). subst b'. exact Hql. }
  split; [|split].
  - intros _. rewrite map_map. erewrite map_ext by (intros; apply sname_rewrap). exact Fnd.
  - intros x' Hx'. apply in_map_iff in Hx'. destruct Hx' as (o' & <- & Ho'). destruct (Fold o' Ho') as [H0|Hm].
    + cbn in H0. apply in_map_iff in H0. destruct H0 as (x & <- & Hx). exists x. split; [assumption|].
      rewrite (rewrap_id _ _ (nodup_find _ _ Hnd Hx)). apply srel_refl.
    + exists x0. auto.
  - intros x Hx. destruct (Fkeep (ds_set x) (in_map ds_set _ _ Hx)) as [Hin|Hid].
    + left. exists x. split; [|apply srel_refl]. rewrite <- (rewrap_id S x (nodup_find _ _ Hnd Hx)). now apply in_map.
    + assert (x = x0) by (apply (NoDup_map_eq sname S); auto; unfold sname; now rewrite Hid, <- Emem). subst x.
      destruct Fpres as [(o' & Ho' & Hm)|Hd]; [left; exists (rewrap S o'); split; [now apply in_map|auto]|right; now rewrite Emem].
Qed.

(** ** Histories *)
Section Histories.
  Variable hash : N -> option N -> N.
  Variable slices : N -> option (list pobj).
  Variable sliceaware : bool.
  Variable rev0ok : bool.

  (** The steps the history theorems quantify over: everything (including full passes of the ObjectSet controller)
      except a deployment pass with a stale List. *)
  Definition ok_step (s : step) : Prop :=
    match s with SDep stale _ => stale = false | _ => True end.

  Lemma listed_fresh_iff w s : In s (listed false w) <-> In s (dw_sets w) /\ ds_sel s = true.
  Proof.
    unfold listed. rewrite !isort_in, filter_In. unfold hidden. cbn. rewrite andb_true_r. tauto.
  Qed.

  Lemma edit_dep_sets w f c : dw_sets (edit_dep w f c) = dw_sets w.
  Proof. unfold edit_dep. now destruct c. Qed.

  Lemma created_event evs x : created evs x -> exists r, In (DCreate (sname x) (os_phases (ds_set x)) (os_prev (ds_set x)) (match ds_hash x with Some h => h | None => 0 end) r) evs.
  Proof. intros (r & H & _). now exists r. Qed.

  Lemma inv_dep_pass fault w w' evs r :
    Inv w -> dep_pass_sh hash fault slices sliceaware rev0ok false w = (w', evs, r) -> Inv w'.
  Proof.
    intros [U1 U2 U3] Hp. destruct (dep_pass_frame _ _ _ _ _ _ _ _ _ _ Hp) as (Hnd & Hold & _).
    assert (Hcr : forall x', created evs x' -> srev x' = 0%Z /\ ds_sel x' = true /\
                   (forall s, In s (dw_sets w) -> ds_sel s = true -> srev s <> 0%Z /\ In (sname s) (os_prev (ds_set x'))) /\
                   sname x' = hash (d_digest (dw_dep w)) (d_cc (dw_dep w))).
    { intros x' Hc. pose proof Hc as (rr & Hi & _ & H0 & Hs & _).
      destruct (create_justified _ _ _ _ _ _ _ _ _ _ _ _ _ _ _ U1 Hp Hi) as (_ & _ & Hn0 & _ & Hn & _ & _ & Hprev).
      repeat split; auto.
      - apply Hn0. now apply listed_fresh_iff.
      - rewrite Hprev. apply in_map. now apply listed_fresh_iff. }
    constructor; [auto|..].
    - intros a' b' Ha' Hb' Sa Sb Hne Hra.
      destruct (Hold a' Ha') as [(a & Ha & Ea)|Hca]; [|destruct (Hcr _ Hca) as (H0 & _); contradiction].
      assert (Ea' : sname a' = sname a /\ srev a' = srev a /\ ds_sel a' = ds_sel a) by (unfold sid in Ea; injection Ea; auto).
      destruct Ea' as (Na & Ra & Sla).
      destruct (Hold b' Hb') as [(b & Hb & Eb)|Hcb].
      + assert (Eb' : sname b' = sname b /\ srev b' = srev b /\ ds_sel b' = ds_sel b) by (unfold sid in Eb; injection Eb; auto).
        destruct Eb' as (Nb & Rb & Slb). rewrite Ra, Rb. apply U2; auto; congruence.
      + destruct (Hcr _ Hcb) as (H0 & _). congruence.
    - intros a' b' Ha' Hb' Sa Sb Hne Hra.
      destruct (Hold a' Ha') as [(a & Ha & Ea)|Hca], (Hold b' Hb') as [(b & Hb & Eb)|Hcb].
      + assert (Ea' : sname a' = sname a /\ srev a' = srev a /\ ds_sel a' = ds_sel a /\ os_prev (ds_set a') = os_prev (ds_set a)) by (unfold sid in Ea; injection Ea; auto).
        assert (Eb' : sname b' = sname b /\ srev b' = srev b /\ ds_sel b' = ds_sel b) by (unfold sid in Eb; injection Eb; auto).
        destruct Ea' as (Na & Ra & Sla & Pa), Eb' as (Nb & Rb & Slb). rewrite Rb, Pa, Nb. apply U3; auto; congruence.
      + assert (Ea' : srev a' = srev a /\ ds_sel a' = ds_sel a) by (unfold sid in Ea; injection Ea; auto). destruct Ea' as (Ra & Sla).
        destruct (Hcr _ Hcb) as (_ & _ & Hall & _). destruct (Hall a Ha) as (Hn0 & _); congruence.
      + assert (Eb' : sname b' = sname b /\ srev b' = srev b /\ ds_sel b' = ds_sel b) by (unfold sid in Eb; injection Eb; auto).
        destruct Eb' as (Nb & Rb & Slb). destruct (Hcr _ Hca) as (_ & _ & Hall & _). rewrite Rb, Nb. apply Hall; congruence.
      + destruct (Hcr _ Hca) as (_ & _ & _ & Na). destruct (Hcr _ Hcb) as (_ & _ & _ & Nb). congruence.
  Qed.

  Lemma oset_step_put sets cur s' :
    find_dset sets (sname s') = Some cur -> srel sets cur s' -> oset_step sets (put_dset sets s').
  Proof.
    intros Hf Hs. pose proof (find_dset_some _ _ _ Hf) as [Hin Hn]. split; [|split].
    - intros H. now rewrite (map_put_dset sname _ cur s') by (auto; destruct Hs; congruence).
    - intros x' Hx. apply in_put_dset in Hx. destruct Hx as [->|Hx]; [exists cur; auto|exists x'; split; [assumption|apply srel_refl]].
    - intros x Hx. left. destruct (put_dset_in _ _ _ _ Hf Hx) as [->|Hx'].
      + exists s'. split; [eapply put_dset_self; eauto|assumption].
      + exists x. split; [assumption|apply srel_refl].
  Qed.

  Lemma do_step_oset w s :
    Inv w -> ok_step s -> (forall st f, s <> SDep st f) ->
    oset_step (dw_sets w) (dw_sets (do_step_sh hash slices sliceaware rev0ok w s)) /\
    ((forall dg phs, s <> SEdit dg phs) -> d_digest (dw_dep (do_step_sh hash slices sliceaware rev0ok w s)) = d_digest (dw_dep w)) /\
    d_cc (dw_dep (do_step_sh hash slices sliceaware rev0ok w s)) = d_cc (dw_dep w).
  Proof.
    intros HI Hok Hnd. pose proof (i_nodup _ HI) as U1. destruct s; cbn [do_step_sh].
    - rewrite edit_dep_sets. split; [apply oset_step_refl|]. split; [intros H; now elim (H dg phs)|]. unfold edit_dep. destruct (negb _ || negb _); reflexivity.
    - rewrite edit_dep_sets. split; [apply oset_step_refl|]. split; intros; unfold edit_dep; destruct (negb _); reflexivity.
    - rewrite edit_dep_sets. split; [apply oset_step_refl|]. split; intros; unfold edit_dep; destruct (negb _); reflexivity.
    - exfalso. eapply Hnd; reflexivity.
    - pose proof (setpass_oset force w n U1) as Hs.
      destruct (objectset_pass force (to_sworld w) (set_kind w) (oi_ns (d_id (dw_dep w))) n) as [[sw' evs] r]. auto.
    - destruct (rev_step_oset w n U1) as (H1 & -> & _). auto.
    - destruct (find_dset (dw_sets w) n) as [s|] eqn:Ef; [|split; [apply oset_step_refl|auto]].
      destruct (_ && _ && _); [split; [apply oset_step_refl|auto]|]. cbn [with_sets dw_sets dw_dep].
      split; [|auto]. pose proof (find_dset_some _ _ _ Ef) as [_ Hn]. eapply (oset_step_put _ s); [change (sname (set_set_status s cs co coset (w_rv (dw_w w)))) with (sname s); now rewrite Hn|]. repeat split; auto.
    - destruct (find_dset (dw_sets w) n) as [s|] eqn:Ef; [|split; [apply oset_step_refl|auto]].
      destruct (os_deleting (ds_set s)) eqn:Ed; [|split; [apply oset_step_refl|auto]]. cbn [with_sets dw_sets dw_dep].
      split; [|auto]. split; [|split].
      + intros H. unfold del_dset. now apply NoDup_map_filter.
      + intros x' Hx. apply in_del_dset in Hx. exists x'. split; [tauto|apply srel_refl].
      + intros x Hx. destruct (N.eq_dec (sname x) n) as [E|E].
        * right. pose proof (find_dset_some _ _ _ Ef) as [Hs Hn]. assert (x = s) by (apply (NoDup_map_eq sname (dw_sets w)); auto; congruence). now subst.
        * left. exists x. split; [apply in_del_dset; auto|apply srel_refl].
    - destruct (lookup k (w_store (dw_w w))); [|split; [apply oset_step_refl|auto]].
      destruct (o_avail o =? avail); split; try apply oset_step_refl; auto.
  Qed.

  Theorem inv_step w s : Inv w -> ok_step s -> Inv (do_step_sh hash slices sliceaware rev0ok w s).
  Proof.
    intros HI Hok. destruct s as [dg phs|b|l|stale fault|force n|n|n cs co coset|n|k a];
      try (eapply inv_oset_step; [exact HI|]; apply do_step_oset; auto; intros st f; discriminate).
    - cbn in Hok. subst stale. cbn [do_step_sh]. destruct (dep_pass_sh hash fault slices sliceaware rev0ok false w) as [[w' evs] r] eqn:Ep. eapply inv_dep_pass; eauto.
  Qed.

  (** Revision numbers: never changed by the deployment controller; by the ObjectSet side only from 0 to a number
      greater than the revision of every other ObjectSet of the deployment. *)
  Theorem revisions_of_step w s x x' :
    Inv w -> ok_step s -> In x (dw_sets w) -> In x' (dw_sets (do_step_sh hash slices sliceaware rev0ok w s)) -> sname x' = sname x ->
    srev x' = srev x \/
    (srev x = 0%Z /\ srev x' <> 0%Z /\
     (ds_sel x = true -> forall b, In b (dw_sets w) -> ds_sel b = true -> sname b <> sname x -> (srev b < srev x')%Z)) \/
    (exists stale f, s = SDep stale f /\ srev x' = 0%Z).
  Proof.
    intros HI Hok Hx Hx' Hn. pose proof (i_nodup _ HI) as U1.
    destruct s as [dg phs|b|l|stale fault|force n|n|n cs co coset|n|k a];
      try (destruct (do_step_oset w _ HI Hok) as ((_ & Hold & _) & _); [intros; discriminate|];
           destruct (Hold x' Hx') as (x0 & Hx0 & N0 & _ & _ & _ & _ & R0);
           assert (x0 = x) by (apply (NoDup_map_eq sname (dw_sets w)); auto; congruence); subst x0;
           destruct R0 as [R0|(R00 & R0n & R0b)]; [left; exact R0|right; left; split; [assumption|]; split; [assumption|];
             intros Hsel bb Hb Hsb Hne; apply R0b; [assumption|]; apply (i_zero _ HI x bb); auto]).
    - cbn in Hok. subst stale. cbn [do_step_sh] in Hx'. destruct (dep_pass_sh hash fault slices sliceaware rev0ok false w) as [[w' evs] r] eqn:Ep.
      destruct (dep_pass_frame _ _ _ _ _ _ _ _ _ _ Ep) as (_ & Hold & _).
      destruct (Hold x' Hx') as [(x0 & Hx0 & E0)|(rr & _ & _ & R0 & _)].
      + assert (E' : sname x' = sname x0 /\ srev x' = srev x0) by (unfold sid in E0; injection E0; auto). destruct E' as (N0 & R0).
        assert (x0 = x) by (apply (NoDup_map_eq sname (dw_sets w)); auto; congruence). subst x0. left. exact R0.
      + right. right. exists false, fault. auto.
  Qed.

  Theorem inv_run h : forall w, Inv w -> Forall ok_step h -> Inv (run_sh hash slices sliceaware rev0ok w h).
  Proof.
    induction h as [|s r IH]; cbn; intros w HI HF; [assumption|]. inversion HF; subst. apply IH; [now apply inv_step|assumption].
  Qed.
End Histories.

(** ** Exactly one ObjectSet per template (fresh lists) *)
Section ExactlyOne.
  Variable hash : N -> option N -> N.
  Variable slices : N -> option (list pobj).
  Variable sliceaware : bool.
  Variable rev0ok : bool.

  Definition cur_hash (w : dworld) : N := hash (d_digest (dw_dep w)) (d_cc (dw_dep w)).

  (** "The deployment's newest ObjectSet carries the hash of the current template": [s] is selected, annotated with
      the current hash, not being deleted, and newest: it has no revision yet, or the greatest one. *)
  Definition matched (w : dworld) : Prop :=
    exists s, In s (dw_sets w) /\ ds_sel s = true /\ ds_hash s = Some (cur_hash w) /\ os_deleting (ds_set s) = false /\
      forall t, In t (dw_sets w) -> ds_sel t = true -> sname t <> sname s -> srev t <> 0%Z /\ (srev s = 0%Z \/ (srev t < srev s)%Z).

  Lemma matched_listed w s :
    NoDup (map sname (dw_sets w)) -> In s (dw_sets w) -> ds_sel s = true -> ds_hash s = Some (cur_hash w) ->
    (forall t, In t (dw_sets w) -> ds_sel t = true -> sname t <> sname s -> srev t <> 0%Z /\ (srev s = 0%Z \/ (srev t < srev s)%Z)) ->
    (srev s = 0%Z /\ In s (listed false w)) \/
    ((forall t, In t (listed false w) -> srev t <> 0%Z) /\ (exists l0, listed false w = l0 ++ [s]) /\
     has_current (dep_hashed hash w) (listed false w) = true).
  Proof.
    intros Hnd Hs Hsel Hh Hmax. assert (HsL : In s (listed false w)) by now apply listed_fresh_iff.
    destruct (Z.eq_dec (srev s) 0) as [E0|E0]; [left; auto|right].
    assert (Hlast : exists l0, listed false w = l0 ++ [s]).
    { unfold listed. apply isort_rev_max_last.
      - now apply NoDup_map_isort, NoDup_map_filter.
      - unfold listed in HsL. apply isort_in in HsL. exact HsL.
      - intros t Ht Hne. apply isort_in, filter_In in Ht. destruct Ht as [Ht Hst]. apply andb_true_iff in Hst. destruct Hst as [Hst _].
        destruct (Hmax t Ht Hst Hne) as (_ & [H|H]); [contradiction|assumption]. }
    split; [|split; [assumption|]].
    - intros t Ht. apply listed_fresh_iff in Ht. destruct Ht as [Ht Hst].
      destruct (N.eq_dec (sname t) (sname s)) as [E|E]; [|now apply (Hmax t Ht Hst E)].
      assert (t = s) by (apply (NoDup_map_eq sname (dw_sets w)); auto). now subst.
    - destruct Hlast as (l0 & ->). unfold has_current. rewrite rev_app_distr. cbn. rewrite Hh. apply N.eqb_refl.
  Qed.

  (** While the template is matched, a pass neither creates an ObjectSet nor touches the collision counter,
      and the template stays matched. *)
  Lemma matched_dep_pass fault w w' evs r :
    Inv w -> matched w -> dep_pass_sh hash fault slices sliceaware rev0ok false w = (w', evs, r) ->
    (forall n phs prev h cr, ~ In (DCreate n phs prev h cr) evs) /\ matched w'.
  Proof.
    intros HI (s & Hs & Hsel & Hh & Hdel & Hmax) Hp. pose proof (i_nodup _ HI) as U1.
    pose proof (matched_listed w s U1 Hs Hsel Hh Hmax) as Hcase.
    assert (Hnc : forall n phs prev h cr, ~ In (DCreate n phs prev h cr) evs).
    { intros n phs prev h cr Hi. destruct (create_justified _ _ _ _ _ _ _ _ _ _ _ _ _ _ _ U1 Hp Hi) as (_ & _ & Hn0 & Hhc & _).
      destruct Hcase as [(E0 & HsL)|(_ & _ & Hc)]; [exact (Hn0 s HsL E0)|congruence]. }
    split; [exact Hnc|].
    destruct (dep_pass_frame _ _ _ _ _ _ _ _ _ _ Hp) as (_ & Hold & Hkeep & _ & _ & (_ & _ & _ & Hdg & _ & _ & Hcc)).
    assert (Hcc' : d_cc (dw_dep w') = d_cc (dw_dep w)).
    { destruct Hcc as [Hcc|(h & cs & rv & co & sr & Hi)]; [assumption|].
      pose proof (dep_pass_justified _ _ _ _ _ _ _ _ _ _ U1 Hp) as HF. rewrite Forall_forall in HF. specialize (HF _ Hi). cbn in HF.
      destruct HF as (_ & [Hc|(_ & _ & Hhc & Hn0)]); [assumption|].
      destruct Hcase as [(E0 & HsL)|(_ & _ & Hc)]; [elim (Hn0 s HsL E0)|congruence]. }
    destruct (Hkeep s Hs) as (s' & Hs' & Es & Ds).
    { intros dr Hi. destruct (gc_sound _ _ _ _ _ _ _ _ _ _ _ _ U1 Hp Hi) as (l0 & newest & EL & _ & Hne).
      pose proof (dep_pass_justified _ _ _ _ _ _ _ _ _ _ U1 Hp) as HF. rewrite Forall_forall in HF. specialize (HF _ Hi). cbn in HF.
      destruct HF as (_ & Hn0 & _). destruct Hcase as [(E0 & HsL)|(_ & (l1 & EL1) & _)]; [exact (Hn0 s HsL E0)|].
      rewrite EL in EL1. apply app_inj_tail in EL1. destruct EL1 as [_ ->]. now apply Hne. }
    assert (Es' : sname s' = sname s /\ srev s' = srev s /\ ds_sel s' = ds_sel s /\ ds_hash s' = ds_hash s) by (unfold sid in Es; injection Es; auto).
    destruct Es' as (Ns & Rs & Ss & Hs2).
    exists s'. unfold cur_hash in *. rewrite Hdg, Hcc'. split; [assumption|]. split; [congruence|]. split; [congruence|]. split; [congruence|].
    intros t Ht Hst Hne.
    destruct (Hold t Ht) as [(t0 & Ht0 & Et)|Hc]; [|destruct (created_event _ _ Hc) as (rr & Hi); elim (Hnc _ _ _ _ _ Hi)].
    assert (Et' : sname t = sname t0 /\ srev t = srev t0 /\ ds_sel t = ds_sel t0) by (unfold sid in Et; injection Et; auto).
    destruct Et' as (Nt & Rt & St). rewrite Rt, Rs. apply (Hmax t0 Ht0); congruence.
  Qed.

  Lemma created_name_fold : forall evs acc n,
    fold_left (fun acc e => match e with
                            | DCreate n _ _ _ CrOk | DCreate n _ _ _ CrLost => Some n
                            | _ => acc end) evs acc = Some n ->
    acc = Some n \/ exists phs prev h cr, In (DCreate n phs prev h cr) evs /\ (cr = CrOk \/ cr = CrLost).
  Proof.
    induction evs as [|e r IH]; cbn [fold_left]; intros acc n H; [now left|].
    destruct (IH _ _ H) as [Hacc|(a & b & c & d & Hi & Hr)]; [|right; exists a, b, c, d; split; [now right|assumption]].
    destruct e as [n0 phs prev h cr| | |]; try (now left).
    destruct cr; try (now left); injection Hacc as <-; right; exists phs, prev, h; eexists; (split; [now left|]); auto.
  Qed.

  Lemma created_name_some evs n : created_name evs = Some n ->
    exists phs prev h cr, In (DCreate n phs prev h cr) evs /\ (cr = CrOk \/ cr = CrLost).
  Proof. intros H. destruct (created_name_fold _ _ _ H) as [H0|H0]; [discriminate|exact H0]. Qed.

  (** A pass that creates an ObjectSet leaves the template matched. *)
  Lemma creating_pass_matches fault w w' evs r n :
    Inv w -> dep_pass_sh hash fault slices sliceaware rev0ok false w = (w', evs, r) -> created_name evs = Some n -> matched w'.
  Proof.
    intros HI Hp Hcn. pose proof (i_nodup _ HI) as U1.
    destruct (created_name_some _ _ Hcn) as (phs & prev & h & cr & Hi & Hcr).
    destruct (create_justified _ _ _ _ _ _ _ _ _ _ _ _ _ _ _ U1 Hp Hi) as (_ & _ & Hn0 & Hhc & Hn & Hh & _ & _).
    pose proof (dep_pass_justified _ _ _ _ _ _ _ _ _ _ U1 Hp) as HF. rewrite Forall_forall in HF.
    destruct (dep_pass_frame _ _ _ _ _ _ _ _ _ _ Hp) as (_ & Hold & _ & Hnew & _ & (_ & _ & _ & Hdg & _ & _ & Hcc)).
    destruct (Hnew _ _ _ _ _ Hi Hcr) as (x' & Hx' & Nx & Hc & Dx).
    { intros dr Hd. specialize (HF _ Hd). cbn in HF. destruct HF as (_ & _ & Hc & _). congruence. }
    assert (Hcc' : d_cc (dw_dep w') = d_cc (dw_dep w)).
    { destruct Hcc as [Hcc|(h0 & cs & rv & co & sr & His)]; [assumption|].
      destruct (dep_pass_bump _ _ _ _ _ _ _ _ _ _ _ _ _ _ _ _ Hp His) as [Hc0|(_ & Hall)]; [assumption|].
      specialize (Hall _ _ _ _ _ Hi). destruct Hcr; congruence. }
    pose proof Hc as (rr & Hix & _ & R0 & Sx & (hx & Hhx)).
    destruct (create_justified _ _ _ _ _ _ _ _ _ _ _ _ _ _ _ U1 Hp Hix) as (_ & _ & _ & _ & _ & Hh' & _ & _). rewrite Hhx in Hh'.
    exists x'. unfold cur_hash in *. rewrite Hdg, Hcc'. split; [assumption|]. split; [assumption|]. split; [congruence|]. split; [assumption|].
    intros t Ht Hst Hne. split; [|now left].
    destruct (Hold t Ht) as [(t0 & Ht0 & Et)|Hct].
    - assert (Et' : srev t = srev t0 /\ ds_sel t = ds_sel t0) by (unfold sid in Et; injection Et; auto). destruct Et' as (Rt & St).
      rewrite Rt. apply Hn0. apply listed_fresh_iff. split; [assumption|congruence].
    - exfalso. destruct (created_event _ _ Hct) as (r2 & Hi2).
      destruct (create_justified _ _ _ _ _ _ _ _ _ _ _ _ _ _ _ U1 Hp Hi2) as (_ & _ & _ & _ & Hn2 & _). congruence.
  Qed.

  (** Matched-ness survives every step of the ObjectSet side and every deployment edit that keeps the template. *)
  Lemma matched_oset_step w w' :
    Inv w -> matched w -> oset_step (dw_sets w) (dw_sets w') ->
    d_digest (dw_dep w') = d_digest (dw_dep w) -> d_cc (dw_dep w') = d_cc (dw_dep w) -> matched w'.
  Proof.
    intros HI (s & Hs & Hsel & Hh & Hdel & Hmax) (_ & Hold & Hkeep) Hdg Hcc.
    destruct (Hkeep s Hs) as [(s' & Hs' & Ns & Ps & Ss & Hs2 & Ds & Rs)|Hd]; [|congruence].
    exists s'. unfold cur_hash in *. rewrite Hdg, Hcc. split; [assumption|]. split; [congruence|]. split; [congruence|]. split; [congruence|].
    intros t Ht Hst Hnet.
    destruct (Hold t Ht) as (t0 & Ht0 & Nt & Pt & St & _ & _ & Rt).
    assert (Hne : sname t0 <> sname s) by congruence. assert (Hst0 : ds_sel t0 = true) by congruence.
    destruct (Hmax t0 Ht0 Hst0 Hne) as (Hm & Hlt).
    assert (Rt' : srev t = srev t0) by (destruct Rt as [Rt|(Rt0 & _)]; congruence). rewrite Rt'. split; [assumption|].
    destruct Rs as [Rs|(Rs0 & Rsn & Rsb)]; [rewrite Rs; exact Hlt|right].
    apply Rsb; [assumption|]. destruct (i_zero _ HI s t0 Hs Ht0 Hsel Hst0 (not_eq_sym Hne) Rs0) as (_ & Hin). exact Hin.
  Qed.

  (** *** Counting creations and template changes along a history *)
  Definition creates_b_sh (w : dworld) (s : step) : bool :=
    match s with
    | SDep stale fault => let '(_, evs, _) := dep_pass_sh hash fault slices sliceaware rev0ok stale w in match created_name evs with Some _ => true | None => false end
    | _ => false
    end.
  Definition changes_b_sh (w : dworld) (s : step) : bool :=
    match s with
    | SEdit dg phs => negb (dg =? d_digest (dw_dep w)) || negb (phases_eqb phs (d_phases (dw_dep w)))
    | _ => false
    end.
  Fixpoint count_creates_sh (w : dworld) (h : list step) : nat :=
    match h with [] => O | s :: r => ((if creates_b_sh w s then 1 else 0) + count_creates_sh (do_step_sh hash slices sliceaware rev0ok w s) r)%nat end.
  Fixpoint count_changes_sh (w : dworld) (h : list step) : nat :=
    match h with [] => O | s :: r => ((if changes_b_sh w s then 1 else 0) + count_changes_sh (do_step_sh hash slices sliceaware rev0ok w s) r)%nat end.

  Lemma matched_step w s : Inv w -> matched w -> ok_step s -> changes_b_sh w s = false ->
    creates_b_sh w s = false /\ matched (do_step_sh hash slices sliceaware rev0ok w s).
  Proof.
    intros HI HM Hok Hch. destruct s as [dg phs|b|l|stale fault|force n|n|n cs co coset|n|k a].
    - split; [reflexivity|]. cbn in Hch. cbn [do_step_sh]. rewrite Hch. exact HM.
    - split; [reflexivity|]. eapply matched_oset_step; eauto; apply (do_step_oset hash slices sliceaware rev0ok w (SPause b)); auto; intros; discriminate.
    - split; [reflexivity|]. eapply matched_oset_step; eauto; apply (do_step_oset hash slices sliceaware rev0ok w (SLimit l)); auto; intros; discriminate.
    - cbn in Hok. subst stale. cbn [creates_b_sh do_step_sh]. destruct (dep_pass_sh hash fault slices sliceaware rev0ok false w) as [[w' evs] r] eqn:Ep.
      destruct (matched_dep_pass _ _ _ _ _ HI HM Ep) as (Hnc & HM'). split; [|exact HM'].
      destruct (created_name evs) as [n|] eqn:Ec; [|reflexivity].
      destruct (created_name_some _ _ Ec) as (a & b & c & d & Hi & _). elim (Hnc _ _ _ _ _ Hi).
    - split; [reflexivity|]. eapply matched_oset_step; eauto; apply (do_step_oset hash slices sliceaware rev0ok w (SSet force n)); auto; intros; discriminate.
    - split; [reflexivity|]. eapply matched_oset_step; eauto; apply (do_step_oset hash slices sliceaware rev0ok w (SRev n)); auto; intros; discriminate.
    - split; [reflexivity|]. eapply matched_oset_step; eauto; apply (do_step_oset hash slices sliceaware rev0ok w (SStat n cs co coset)); auto; intros; discriminate.
    - split; [reflexivity|]. eapply matched_oset_step; eauto; apply (do_step_oset hash slices sliceaware rev0ok w (SVanish n)); auto; intros; discriminate.
    - split; [reflexivity|]. eapply matched_oset_step; eauto; apply (do_step_oset hash slices sliceaware rev0ok w (SMember k a)); auto; intros; discriminate.
  Qed.

  Lemma creating_step_matches w s : Inv w -> ok_step s -> creates_b_sh w s = true -> matched (do_step_sh hash slices sliceaware rev0ok w s).
  Proof.
    intros HI Hok Hc. destruct s; try discriminate. cbn in Hok. subst stale. cbn [creates_b_sh do_step_sh] in *.
    destruct (dep_pass_sh hash fault slices sliceaware rev0ok false w) as [[w' evs] r] eqn:Ep. destruct (created_name evs) as [n|] eqn:Ec; [|discriminate].
    eapply creating_pass_matches; eauto.
  Qed.

  Lemma creates_bounded h : forall w, Inv w -> Forall ok_step h ->
    (matched w -> (count_creates_sh w h <= count_changes_sh w h)%nat) /\ (count_creates_sh w h <= 1 + count_changes_sh w h)%nat.
  Proof.
    induction h as [|s r IH]; intros w HI HF; [cbn; split; intros; lia|]. inversion HF as [|? ? Hok HFr]; subst.
    pose proof (inv_step hash slices sliceaware rev0ok w s HI Hok) as HI'. destruct (IH _ HI' HFr) as (IHm & IHb). cbn [count_creates_sh count_changes_sh].
    destruct (changes_b_sh w s) eqn:Ech.
    - assert (Hnc : creates_b_sh w s = false) by (destruct s; try reflexivity; discriminate). rewrite Hnc. split; intros; lia.
    - split.
      + intros HM. destruct (matched_step w s HI HM Hok Ech) as (-> & HM'). specialize (IHm HM'). lia.
      + destruct (creates_b_sh w s) eqn:Ecr; [|lia]. pose proof (creating_step_matches w s HI Hok Ecr) as HM'. specialize (IHm HM'). lia.
  Qed.
End ExactlyOne.

Definition count_creates hash slices := count_creates_sh hash slices true true.
Definition count_changes hash slices := count_changes_sh hash slices true true.
Definition count_creates_v0 hash slices := count_creates_sh hash slices false false.
Definition count_changes_v0 hash slices := count_changes_sh hash slices false false.

(** * Part 6: fault-free passes (existence / exactness statements) *)
Section NoFault.
  Variable hash : N -> option N -> N.
  Variable slices : N -> option (list pobj).
  Variable sliceaware : bool.
  Variable rev0ok : bool.
  Let fault : option (nat * bool) := None.

  Lemma read_req_alive st : p_dead st = false -> p_dead (read_req fault st) = false.
  Proof. unfold read_req. now intros ->. Qed.

  Lemma upd_req_ok st s life pbp :
    p_dead st = false -> find_dset (dw_sets (p_w st)) (sname s) = Some s ->
    upd_req fault st s life pbp =
      (emit st (with_sets (p_w st) (put_dset (dw_sets (p_w st)) (set_life s life pbp (w_rv (dw_w (p_w st))))) (bump_rv (dw_w (p_w st))))
            [DUpdate (sname s) life pbp WOk] false, set_life s life pbp (w_rv (dw_w (p_w st)))).
  Proof. unfold upd_req. intros -> ->. cbn. now rewrite N.eqb_refl. Qed.

  Definition needs_pause_update (paused : bool) (s : dset) : bool :=
    negb (is_archived s) && negb (Bool.eqb paused (paused_by_parent s)).
  Definition pause_update (paused : bool) (s : dset) : dev :=
    DUpdate (sname s) (if paused then LPaused else LActive) paused WOk.

  (** Without faults the pause propagation updates exactly the non-archived ObjectSets whose paused-by-parent
      state differs from the deployment's, in list order, and the pass goes on. *)
  Lemma pause_loop_exact paused : forall sets st st' mem,
    p_dead st = false -> NoDup (map sname sets) ->
    (forall s, In s sets -> find_dset (dw_sets (p_w st)) (sname s) = Some s) ->
    pause_loop fault st paused sets = (st', mem) ->
    p_dead st' = false /\ p_evs st' = p_evs st ++ map (pause_update paused) (filter (needs_pause_update paused) sets).
  Proof.
    induction sets as [|s r IH]; cbn [pause_loop filter map]; intros st st' mem Hal Hnd Hst H.
    - injection H as <- _. split; [assumption|now rewrite app_nil_r].
    - inversion Hnd as [|? ? Hn Hr]; subst. unfold needs_pause_update at 1.
      destruct (is_archived s) eqn:Ea; cbn [negb andb].
      + destruct (pause_loop fault st paused r) as [st2 r2] eqn:E2. injection H as <- _.
        eapply IH; eauto. intros x Hx. apply Hst. now right.
      + destruct (Bool.eqb paused (paused_by_parent s)) eqn:Eb; cbn [negb].
        * destruct (pause_loop fault st paused r) as [st2 r2] eqn:E2. injection H as <- _.
          eapply IH; eauto. intros x Hx. apply Hst. now right.
        * assert (Hu : (if paused then upd_req fault st s LPaused true else upd_req fault st s LActive false) =
                       upd_req fault st s (if paused then LPaused else LActive) paused) by (now destruct paused).
          rewrite Hu, (upd_req_ok st s _ _ Hal (Hst s (or_introl eq_refl))) in H.
          match type of H with (let '(_, _) := pause_loop _ ?st1 _ _ in _) = _ => destruct (pause_loop fault st1 paused r) as [st2 r2] eqn:E2 end.
          injection H as <- _.
          assert (Hst1 : forall x, In x r -> find_dset (dw_sets (p_w (emit st
                    (with_sets (p_w st) (put_dset (dw_sets (p_w st)) (set_life s (if paused then LPaused else LActive) paused (w_rv (dw_w (p_w st))))) (bump_rv (dw_w (p_w st))))
                    [DUpdate (sname s) (if paused then LPaused else LActive) paused WOk] false))) (sname x) = Some x).
          { intros x Hx. cbn [emit p_w with_sets dw_sets]. rewrite find_put_other; [apply Hst; now right|].
            rewrite sname_set_life. intros E. apply Hn. rewrite E. now apply in_map. }
          destruct (IH _ _ _ (eq_refl : p_dead (emit _ _ _ false) = false) Hr Hst1 E2) as (Hal2 & He2).
          split; [assumption|]. rewrite He2. cbn [emit p_evs map]. rewrite <- app_assoc. reflexivity.
  Qed.

  Lemma status_req_ok st d : p_dead st = false ->
    p_dead (status_req fault st d) = false /\
    p_evs (status_req fault st d) = p_evs st ++ [DStatus (d_hash d) (d_cc d) (d_conds d) (d_revision d) (d_ctrlof d) WOk] /\
    (status_eqb_d (dw_dep (p_w st)) d = false -> dw_dep (p_w (status_req fault st d)) = with_status_d (dw_dep (p_w st)) d (w_rv (dw_w (p_w st)))) /\
    dw_sets (p_w (status_req fault st d)) = dw_sets (p_w st).
  Proof.
    unfold status_req. intros ->. cbn. repeat split.
    - intros ->. reflexivity.
    - destruct (status_eqb_d _ _); reflexivity.
  Qed.

  (** C09: a pass of a paused deployment, all revisions reported: exactly the pause updates and the status. *)
  Theorem paused_pass_exact stale w w' evs r :
    NoDup (map sname (dw_sets w)) -> d_paused (dw_dep w) = true -> has_rev0 (listed stale w) = false ->
    dep_pass_sh hash fault slices sliceaware rev0ok stale w = (w', evs, r) ->
    r = DpDone /\ exists h cc cs rv co,
      evs = map (pause_update true) (filter (needs_pause_update true) (listed stale w)) ++ [DStatus h cc cs rv co WOk].
  Proof.
    intros Hnd Hpa H0 Hp. destruct (dep_pass_unfold _ _ _ _ _ _ _ _ _ _ Hp) as (st3 & d2 & -> & _ & -> & Hc).
    destruct Hc as [(E0 & _)|(_ & stp & mem & Epl & Hc)]; [congruence|].
    destruct Hc as [(_ & -> & ->)|(Epa & _)]; [|cbn in Epa; congruence].
    assert (Hal : p_dead (st_listed fault w) = false) by (unfold st_listed; now rewrite !read_req_alive).
    assert (Hst : forall s, In s (listed stale w) -> find_dset (dw_sets (p_w (st_listed fault w))) (sname s) = Some s).
    { intros s Hs. rewrite st_listed_w. apply nodup_find; [assumption|]. now apply listed_in in Hs. }
    destruct (pause_loop_exact _ _ _ _ _ Hal (listed_nodup _ _ Hnd) Hst Epl) as (Hal' & He).
    rewrite st_listed_evs in He. cbn [app] in He. change (d_paused (dep_hashed hash w)) with (d_paused (dw_dep w)) in He. rewrite Hpa in He.
    destruct (status_req_ok stp (set_status (dep_hashed hash w) (fst (split_current (has_current (dep_hashed hash w) (listed stale w)) mem))
                                             (snd (split_current (has_current (dep_hashed hash w) (listed stale w)) mem))) Hal') as (-> & -> & _).
    split; [reflexivity|]. rewrite He. eauto 7.
  Qed.

  (** C09: unpausing releases exactly the non-archived revisions carrying the paused-by-parent state. *)
  Theorem unpause_exact stale w w' evs r :
    NoDup (map sname (dw_sets w)) -> d_paused (dw_dep w) = false -> has_rev0 (listed stale w) = false ->
    dep_pass_sh hash fault slices sliceaware rev0ok stale w = (w', evs, r) ->
    exists rest, evs = map (pause_update false) (filter (needs_pause_update false) (listed stale w)) ++ rest /\
                 forall n life pbp ur, In (DUpdate n life pbp ur) rest -> life <> LActive.
  Proof.
    intros Hnd Hpa H0 Hp. pose proof (dep_pass_justified _ _ _ _ _ _ _ _ _ _ Hnd Hp) as HJ.
    destruct (dep_pass_unfold _ _ _ _ _ _ _ _ _ _ Hp) as (st3 & d2 & -> & _ & _ & Hc).
    destruct Hc as [(E0 & _)|(_ & stp & mem & Epl & Hc)]; [congruence|].
    destruct Hc as [(Epa & _)|(_ & sta & d3 & mem' & Enr & Ear & ->)]; [cbn in Epa; congruence|].
    assert (Hal : p_dead (st_listed fault w) = false) by (unfold st_listed; now rewrite !read_req_alive).
    assert (Hst : forall s, In s (listed stale w) -> find_dset (dw_sets (p_w (st_listed fault w))) (sname s) = Some s).
    { intros s Hs. rewrite st_listed_w. apply nodup_find; [assumption|]. now apply listed_in in Hs. }
    destruct (pause_loop_exact _ _ _ _ _ Hal (listed_nodup _ _ Hnd) Hst Epl) as (Hal' & He).
    rewrite st_listed_evs in He. cbn [app] in He. change (d_paused (dep_hashed hash w)) with (d_paused (dw_dep w)) in He. rewrite Hpa in He.
    destruct (new_revision_spec _ _ _ _ _ _ _ _ Enr) as (esn & Hnn & Hesn & _).
    destruct (archive_news fault slices sliceaware _ _ _ _ _ _ Ear) as (esa & Hna & _ & Hesa).
    destruct (status_req_news fault st3 (set_status d3 (fst (split_current (has_current (dep_hashed hash w) (listed stale w)) mem'))
                                                       (snd (split_current (has_current (dep_hashed hash w) (listed stale w)) mem')))) as (ess & Hns & Hess).
    unfold news in *. rewrite Hns, Hna, Hnn, He. rewrite <- !app_assoc. eexists. split; [reflexivity|].
    intros n life pbp ur Hin. apply in_app_or in Hin. destruct Hin as [Hin|Hin].
    - destruct Hesn as [->|(rr & -> & _)]; [contradiction|]. destruct Hin as [Hin|[]]. discriminate.
    - apply in_app_or in Hin. destruct Hin as [Hin|Hin].
      + rewrite Forall_forall in Hesa. destruct (Hesa _ Hin) as [(n0 & p0 & r0 & E)|[(n0 & p0 & r0 & E & _)|(n0 & r0 & E & _)]]; [injection E as _ -> _ _; discriminate|injection E as _ -> _ _; discriminate|discriminate].
      + destruct Hess as [->|(rr & ->)]; [contradiction|]. destruct Hin as [Hin|[]]. discriminate.
  Qed.

  Lemma find_dset_none_iff sets n : (forall s, In s sets -> sname s <> n) -> find_dset sets n = None.
  Proof.
    unfold find_dset. induction sets as [|x r IH]; cbn; intros H; [reflexivity|].
    destruct (sname x =? n) eqn:E; [apply N.eqb_eq in E; elim (H x (or_introl eq_refl) E)|]. apply IH. intros s Hs. apply H. now right.
  Qed.

  (** The state after the pause propagation of a fault-free pass. *)
  Lemma after_pause stale w stp mem :
    NoDup (map sname (dw_sets w)) ->
    pause_loop fault (st_listed fault w) (d_paused (dw_dep w)) (listed stale w) = (stp, mem) ->
    p_dead stp = false /\ Forall2 same_core (listed stale w) mem /\ NoDup (map sname (dw_sets (p_w stp))) /\
    (forall x', In x' (dw_sets (p_w stp)) -> exists x, In x (dw_sets w) /\ sid x' = sid x) /\
    (forall x, In x (dw_sets w) -> exists x', In x' (dw_sets (p_w stp)) /\ sid x' = sid x) /\
    (forall x, In x (dw_sets w) -> is_archived x = true -> In x (dw_sets (p_w stp))) /\
    dw_dep (p_w stp) = dw_dep w /\
    exists esp, p_evs stp = esp /\ Forall (fun e => exists s r, In s (listed stale w) /\ is_archived s = false /\ e = DUpdate (sname s) (if d_paused (dw_dep w) then LPaused else LActive) (d_paused (dw_dep w)) r) esp.
  Proof.
    intros Hnd Epl.
    assert (Hal : p_dead (st_listed fault w) = false) by (unfold st_listed; now rewrite !read_req_alive).
    assert (Hst : forall s, In s (listed stale w) -> find_dset (dw_sets (p_w (st_listed fault w))) (sname s) = Some s).
    { intros s Hs. rewrite st_listed_w. apply nodup_find; [assumption|]. now apply listed_in in Hs. }
    destruct (pause_loop_exact _ _ _ _ _ Hal (listed_nodup _ _ Hnd) Hst Epl) as (Hal' & _).
    destruct (pause_loop_spec fault _ _ _ _ _ (listed_nodup _ _ Hnd) Hst Epl) as (HF & esp & Hnp & Hesp).
    unfold news in Hnp. rewrite st_listed_evs in Hnp. cbn in Hnp.
    assert (Hr : reach fault (st_listed fault w) stp).
    { eapply pause_loop_reach; [constructor|exact Epl]. }
    destruct (reach_frame fault slices _ _ Hr) as (es & F). pose proof (f_evs _ _ _ F) as He. rewrite st_listed_evs in He. cbn in He.
    assert (Hesp' : Forall (fun e => exists s r, In s (listed stale w) /\ is_archived s = false /\ e = DUpdate (sname s) (if d_paused (dw_dep w) then LPaused else LActive) (d_paused (dw_dep w)) r) es).
    { rewrite <- He, Hnp. eapply Forall_impl; [|exact Hesp]. intros e (s & rr & Hs & Ha & _ & ->). exists s, rr. auto. }
    rewrite Forall_forall in Hesp'.
    destruct F as [_ F2 F3 F4 F4' F5 F6 F7]. unfold sets_of in *. rewrite st_listed_w in *.
    split; [assumption|]. split; [assumption|]. split; [auto|]. split.
    { intros x' Hx'. destruct (F3 x' Hx') as [H|(rr & Hi & _)]; [assumption|]. destruct (Hesp' _ Hi) as (s0 & r0 & _ & _ & E). discriminate. }
    split.
    { intros x Hx. destruct (F4 x Hx) as (x' & Hx' & E & _); [|exists x'; auto]. intros dr Hi. destruct (Hesp' _ Hi) as (s0 & r0 & _ & _ & E). discriminate. }
    split.
    { intros x Hx Ha. apply F4'; [assumption| |].
      - intros life pbp rr Hi. destruct (Hesp' _ Hi) as (s0 & r0 & Hs0 & Ha0 & E). injection E as En _ _ _.
        assert (s0 = x); [|congruence]. apply (NoDup_map_eq sname (dw_sets w)); auto. now apply listed_in in Hs0.
      - intros dr Hi. destruct (Hesp' _ Hi) as (s0 & r0 & _ & _ & E). discriminate. }
    split.
    { transitivity (dw_dep (p_w (st_listed fault w))); [|now rewrite st_listed_w]. clear - Epl. revert Epl. generalize (st_listed fault w) as st. revert stp mem.
      induction (listed stale w) as [|s r IH]; cbn [pause_loop]; intros stp mem st H; [now injection H as <- _|].
      destruct (if is_archived s then (st, s) else if Bool.eqb (d_paused (dw_dep w)) (paused_by_parent s) then (st, s)
                else if d_paused (dw_dep w) then upd_req fault st s LPaused true else upd_req fault st s LActive false) as [st1 s1] eqn:E1.
      destruct (pause_loop fault st1 (d_paused (dw_dep w)) r) as [st2 r2] eqn:E2. injection H as <- _.
      rewrite (IH _ _ _ E2).
      assert (Hu : forall life pbp, upd_req fault st s life pbp = (st1, s1) -> dw_dep (p_w st1) = dw_dep (p_w st)).
      { intros life pbp Hu. destruct (upd_req_spec _ _ _ _ _ _ _ Hu) as [(_ & -> & _)|(_ & rr & _ & [(-> & _)|(cur & _ & _ & _ & -> & _)])]; reflexivity. }
      destruct (is_archived s); [now injection E1 as <- _|]. destruct (Bool.eqb _ _); [now injection E1 as <- _|].
      destruct (d_paused (dw_dep w)); eapply Hu; eauto. }
    exists es. split; [assumption|]. now apply Forall_forall.
  Qed.

  Lemma status_req_mono st d e : In e (p_evs st) -> In e (p_evs (status_req fault st d)).
  Proof. intros H. destruct (status_req_news fault st d) as (es & Hn & _). unfold news in Hn. rewrite Hn. apply in_or_app. now left. Qed.

  Lemma split_current_false mem : split_current false mem = (None, mem).
  Proof. reflexivity. Qed.

  (** C07: if the newest ObjectSet does not carry the template hash, the deployment is not paused, the template
      has phases, every ObjectSet has reported its revision and the name is free, the pass creates the ObjectSet:
      spec = template, previous = every listed ObjectSet. *)
  Theorem create_when stale w w' evs r :
    NoDup (map sname (dw_sets w)) -> d_paused (dw_dep w) = false -> d_phases (dw_dep w) <> [] ->
    has_rev0 (listed stale w) = false -> has_current (dep_hashed hash w) (listed stale w) = false ->
    find_dset (dw_sets w) (hash (d_digest (dw_dep w)) (d_cc (dw_dep w))) = None ->
    dep_pass_sh hash fault slices sliceaware rev0ok stale w = (w', evs, r) ->
    In (DCreate (hash (d_digest (dw_dep w)) (d_cc (dw_dep w))) (d_phases (dw_dep w)) (map sname (listed stale w))
                (hash (d_digest (dw_dep w)) (d_cc (dw_dep w))) CrOk) evs.
  Proof.
    intros Hnd Hpa Hph H0 Hhc Hfree Hp.
    destruct (dep_pass_unfold _ _ _ _ _ _ _ _ _ _ Hp) as (st3 & d2 & -> & _ & _ & Hc).
    destruct Hc as [(E0 & _)|(_ & stp & mem & Epl & Hc)]; [congruence|].
    destruct Hc as [(Epa & _)|(_ & sta & d3 & mem' & Enr & Ear & ->)]; [cbn in Epa; congruence|].
    change (d_paused (dep_hashed hash w)) with (d_paused (dw_dep w)) in Epl.
    destruct (after_pause _ _ _ _ Hnd Epl) as (Hal & HF & _ & Hold & _ & _ & _ & _).
    rewrite Hhc, split_current_false in Enr. cbn [fst snd] in Enr.
    assert (Hfree' : find_dset (dw_sets (p_w stp)) (hash (d_digest (dw_dep w)) (d_cc (dw_dep w))) = None).
    { apply find_dset_none_iff. intros x' Hx'. destruct (Hold x' Hx') as (x & Hx & E).
      assert (sname x' = sname x) by (unfold sid in E; congruence). rewrite H. now apply (find_dset_none _ _ Hfree). }
    assert (Hnn : is_nil (d_phases (dep_hashed hash w)) = false).
    { change (d_phases (dep_hashed hash w)) with (d_phases (dw_dep w)). destruct (d_phases (dw_dep w)); [now elim Hph|reflexivity]. }
    unfold new_revision_sh in Enr. rewrite Hnn in Enr.
    unfold create_req in Enr. rewrite Hal in Enr. cbn [fault_now fault] in Enr.
    change (sname (new_set (dep_hashed hash w) mem)) with (hash (d_digest (dw_dep w)) (d_cc (dw_dep w))) in Enr. rewrite Hfree' in Enr.
    cbn [new_set ds_set os_phases os_prev ds_hash] in Enr. injection Enr as <- <-.
    rewrite Hhc in Ear. unfold archive_sh in Ear. cbn [negb] in Ear. injection Ear as <- <-.
    apply status_req_mono. cbn [emit p_evs]. apply in_or_app. right. left.
    rewrite (Forall2_same_core_names _ _ HF). reflexivity.
  Qed.

  Lemma Forall2_rev {A B} (R : A -> B -> Prop) l l' : Forall2 R l l' -> Forall2 R (rev l) (rev l').
  Proof. induction 1; cbn; [constructor|]. apply Forall2_app; [assumption|]. constructor; [assumption|constructor]. Qed.

  Lemma latest_revision_core L mem : Forall2 same_core L mem -> latest_revision L = latest_revision mem.
  Proof.
    intros HF. apply Forall2_rev in HF. unfold latest_revision. inversion HF as [|a b l l' Hab _]; [reflexivity|].
    now destruct (same_core_facts _ _ Hab) as (_ & -> & _).
  Qed.

  Lemma bump_cc_neq c : option_eqb N.eqb c (bump_cc c) = false.
  Proof. destruct c as [n|]; cbn; [|reflexivity]. apply N.eqb_neq. lia. Qed.

  (** C07: a name clash with an ObjectSet that is archived, has a different spec, is not controlled by this
      deployment or is an older revision is not resolved by reusing it: nothing is created, the ObjectSet keeps all
      its identity fields, and the collision counter is bumped (so that the next pass uses a fresh name: [create_when]). *)
  Theorem no_reuse stale w w' evs r c :
    NoDup (map sname (dw_sets w)) -> d_paused (dw_dep w) = false -> d_phases (dw_dep w) <> [] ->
    has_rev0 (listed stale w) = false -> has_current (dep_hashed hash w) (listed stale w) = false ->
    In c (dw_sets w) -> sname c = hash (d_digest (dw_dep w)) (d_cc (dw_dep w)) ->
    (is_archived c = true \/ phases_eqb (d_phases (dw_dep w)) (os_phases (ds_set c)) = false \/
     ds_ctrl c <> oi_uid (d_id (dw_dep w)) \/
     ((srev c < latest_revision (listed stale w))%Z /\ (rev0ok = false \/ srev c <> 0%Z))) ->
    dep_pass_sh hash fault slices sliceaware rev0ok stale w = (w', evs, r) ->
    r = DpDone /\ created_name evs = None /\
    In (DCreate (sname c) (d_phases (dw_dep w)) (map sname (listed stale w)) (sname c) CrExists) evs /\
    d_cc (dw_dep w') = bump_cc (d_cc (dw_dep w)) /\
    exists c', In c' (dw_sets w') /\ sid c' = sid c.
  Proof.
    intros Hnd Hpa Hph H0 Hhc Hc Hn Hwhy Hp.
    destruct (dep_pass_unfold _ _ _ _ _ _ _ _ _ _ Hp) as (st3 & d2 & -> & -> & -> & Hcs).
    destruct Hcs as [(E0 & _)|(_ & stp & mem & Epl & Hcs)]; [congruence|].
    destruct Hcs as [(Epa & _)|(_ & sta & d3 & mem' & Enr & Ear & ->)]; [cbn in Epa; congruence|].
    change (d_paused (dep_hashed hash w)) with (d_paused (dw_dep w)) in Epl.
    destruct (after_pause _ _ _ _ Hnd Epl) as (Hal & HF & Hnd' & Hold & Hkeep & Harch & Hdep & esp & Hesp & HespF).
    rewrite Hhc, split_current_false in Enr. cbn [fst snd] in Enr.
    set (d1 := dep_hashed hash w) in *. set (h := hash (d_digest (dw_dep w)) (d_cc (dw_dep w))) in *.
    (* the holder after the pause propagation *)
    assert (Hc1 : exists c1, find_dset (dw_sets (p_w stp)) h = Some c1 /\ sid c1 = sid c /\ adoptable_sh rev0ok d1 mem c1 = false).
    { destruct (Hkeep c Hc) as (c' & Hc' & Ec').
      assert (En' : sname c' = h) by (unfold sid in Ec'; injection Ec'; intros; congruence).
      assert (Efields : srev c' = srev c /\ ds_ctrl c' = ds_ctrl c /\ os_phases (ds_set c') = os_phases (ds_set c)) by (unfold sid in Ec'; injection Ec'; auto).
      destruct Efields as (Er & Ect & Eph).
      destruct Hwhy as [Ha|[Hs|[Hct|(Hr & Hr0)]]].
      - pose proof (Harch c Hc Ha) as Hin. exists c. split; [rewrite <- Hn; now apply nodup_find|]. split; [reflexivity|].
        unfold adoptable_sh. now rewrite Ha.
      - exists c'. split; [rewrite <- En'; now apply nodup_find|]. split; [assumption|].
        unfold adoptable_sh. rewrite Eph. change (d_phases d1) with (d_phases (dw_dep w)). rewrite Hs. now rewrite !andb_false_r.
      - exists c'. split; [rewrite <- En'; now apply nodup_find|]. split; [assumption|].
        unfold adoptable_sh. rewrite Ect. change (d_id d1) with (d_id (dw_dep w)).
        assert ((ds_ctrl c =? oi_uid (d_id (dw_dep w))) = false) by now apply N.eqb_neq. rewrite H. now rewrite !andb_false_r.
      - exists c'. split; [rewrite <- En'; now apply nodup_find|]. split; [assumption|].
        unfold adoptable_sh. rewrite Er, <- (latest_revision_core _ _ HF).
        assert ((latest_revision (listed stale w) <=? srev c)%Z = false) by (apply Z.leb_gt; lia). rewrite H.
        assert ((rev0ok && (srev c =? 0)%Z) = false) by (destruct Hr0 as [-> |Hr0]; [reflexivity|apply Z.eqb_neq in Hr0; rewrite Hr0; apply andb_false_r]).
        rewrite H1. cbn. now rewrite andb_false_r. }
    destruct Hc1 as (c1 & Hf1 & Es1 & Had).
    assert (Hnn : is_nil (d_phases d1) = false).
    { change (d_phases d1) with (d_phases (dw_dep w)). destruct (d_phases (dw_dep w)); [now elim Hph|reflexivity]. }
    unfold new_revision_sh in Enr. rewrite Hnn in Enr. unfold create_req in Enr. rewrite Hal in Enr. cbn [fault_now fault] in Enr.
    change (sname (new_set d1 mem)) with h in Enr. rewrite Hf1 in Enr.
    cbn [new_set ds_set os_phases os_prev ds_hash] in Enr.
    unfold read_req in Enr. cbn [emit p_dead fault_now fault p_w] in Enr. change (d_hash d1) with h in Enr. rewrite Hf1, Had in Enr.
    injection Enr as <- <-.
    rewrite Hhc in Ear. unfold archive_sh in Ear. cbn [negb] in Ear. injection Ear as <- <-.
    match goal with |- context [status_req fault ?st ?d] => destruct (status_req_ok st d eq_refl) as (Hal4 & He4 & Hd4 & Hs4) end.
    rewrite Hal4, He4. cbn [emit p_evs p_w] in *. rewrite app_nil_r in *.
    split; [reflexivity|]. split.
    { unfold created_name. rewrite !fold_left_app. cbn.
      assert (Hpl : fold_left (fun acc e => match e with DCreate n _ _ _ CrOk | DCreate n _ _ _ CrLost => Some n | _ => acc end) (p_evs stp) None = None).
      { rewrite Hesp. clear - HespF. induction HespF as [|e l (s0 & r0 & _ & _ & ->) _ IH]; cbn; [reflexivity|exact IH]. }
      now rewrite Hpl. }
    split.
    { apply in_or_app. left. apply in_or_app. right. left. rewrite Hn. fold h. change (d_phases d1) with (d_phases (dw_dep w)).
      now rewrite (Forall2_same_core_names _ _ HF). }
    split.
    { cbn [with_fresh dw_dep].
      match type of Hd4 with context [set_status ?a ?b ?c] => destruct (set_status_keeps a b c) as (_ & Hcc & _) end.
      rewrite Hd4.
      - cbn [with_status_d d_cc]. rewrite Hcc. reflexivity.
      - rewrite Hdep. unfold status_eqb_d. rewrite Hcc. cbn [set_cc d_cc].
        rewrite bump_cc_neq. now rewrite !andb_false_r. }
    exists c1. split; [|assumption]. cbn [with_fresh dw_sets]. rewrite Hs4. now apply find_dset_some in Hf1.
  Qed.

  (** C08: one round of history pruning deletes exactly the first max(0, |previous| - limit) previous revisions,
      oldest first. *)
  Lemma fold_del_exact : forall names st, p_dead st = false ->
    p_dead (fold_left (del_req fault) names st) = false /\
    exists es, p_evs (fold_left (del_req fault) names st) = p_evs st ++ es /\
               Forall2 (fun n e => exists dr, e = DDelete n dr /\ (dr = DlOk \/ dr = DlNotFound)) names es.
  Proof.
    induction names as [|n r IH]; cbn; intros st Hal; [split; [assumption|]; exists []; split; [now rewrite app_nil_r|constructor]|].
    assert (H1 : p_dead (del_req fault st n) = false /\ exists dr, p_evs (del_req fault st n) = p_evs st ++ [DDelete n dr] /\ (dr = DlOk \/ dr = DlNotFound)).
    { unfold del_req. rewrite Hal. cbn [fault_now fault]. destruct (find_dset _ _); cbn; split; auto; eexists; split; eauto. }
    destruct H1 as (Hal1 & dr & He1 & Hdr). destruct (IH _ Hal1) as (Hal2 & es & He2 & HF).
    split; [assumption|]. exists (DDelete n dr :: es). split; [rewrite He2, He1, <- app_assoc; reflexivity|].
    constructor; [exists dr; auto|assumption].
  Qed.

  Theorem gc_exact st d prevnames : p_dead st = false ->
    exists es, p_evs (gc fault st d prevnames) = p_evs st ++ es /\
      Forall2 (fun n e => exists dr, e = DDelete n dr /\ (dr = DlOk \/ dr = DlNotFound))
              (firstn (Z.to_nat (Z.of_nat (length prevnames) - match d_limit d with Some l => l | None => 10 end)) prevnames) es.
  Proof. intros Hal. unfold gc. destruct (fold_del_exact (firstn (gc_count d (length prevnames)) prevnames) st Hal) as (_ & es & He & HF). exists es. auto. Qed.
End NoFault.

(** * Part 7: witnesses (concrete worlds, evaluated by the kernel) *)
Section Witness.
  Definition wit_hash (d : N) (c : option N) : N := d * 100 + match c with None => 0 | Some n => n end.
  Definition no_slices : N -> option (list pobj) := fun _ => None.

  Definition wit_pobj (gk name : N) : pobj :=
    {| po_gk := gk; po_ns := 0; po_name := name; po_body := 1; po_cp := CPPrevent; po_ownerrefs := false; po_dryreject := false |}.
  Definition wit_phase (objs : list pobj) : phase := {| ph_name := 1; ph_class := false; ph_objects := objs |}.
  Definition wit_key (name : N) : okey := {| k_gk := 1; k_ns := 1; k_name := name |}.

  Definition wit_dep (dg : N) (phs : list phase) (limit : option Z) : depl :=
    {| d_id := {| oi_kind := KObjectDeployment; oi_ns := 1; oi_name := 5; oi_uid := 500 |}; d_rv := 3; d_gen := 1; d_paused := false;
       d_digest := dg; d_phases := phs; d_limit := limit; d_hash := 0; d_cc := None; d_conds := []; d_revision := 0; d_ctrlof := [] |}.

  Definition wit_set (name uid : N) (rev : Z) (phs : list phase) (prev : list N) (life : lifecycle) (conds : list cond) (ctrlof : list okey) : dset :=
    {| ds_set := {| os_id := {| oi_kind := KObjectSet; oi_ns := 1; oi_name := name; oi_uid := uid |}; os_rv := 5; os_gen := 1;
                    os_deleting := false; os_fin := true; os_orphan := false; os_pkg := 0; os_life := life; os_phases := phs;
                    os_prev := prev; os_revision := rev; os_conds := conds; os_ctrlof := ctrlof; os_remotes := [] |};
       ds_hash := Some name; ds_pbp := false; ds_sel := true; ds_ctrl := 500; ds_ctrlset := false |}.

  Definition wit_world (d : depl) (sets : list dset) : dworld :=
    {| dw_dep := d; dw_sets := sets; dw_w := {| w_store := []; w_rv := 50; w_uid := 60 |}; dw_fresh := None |}.

  Definition c_avail : cond := {| cd_type := CAvailable; cd_status := STrue; cd_reason := RAvailable; cd_gen := 1 |}.
  Definition c_paused : cond := {| cd_type := CPaused; cd_status := STrue; cd_reason := RPaused; cd_gen := 1 |}.

  (** template 1 = {ConfigMap n1}, template 3 = {ConfigMap n3}; an earlier revision for template 2 exists. *)
  Definition tmpl1 : list phase := [wit_phase [wit_pobj 1 1]].
  Definition tmpl3 : list phase := [wit_phase [wit_pobj 1 3]].
  Definition wit_old : dset := wit_set 200 101 1 [wit_phase [wit_pobj 1 2]] [] LActive [c_avail] [wit_key 2].
  Definition wit_w0 : dworld := wit_world (wit_dep 1 tmpl1 None) [wit_old].

  Lemma wit_w0_inv : Inv wit_w0.
  Proof.
    constructor; cbn.
    - constructor; [intros []|constructor].
    - intros a b [<-|[]] [<-|[]] _ _ H. now elim H.
    - intros a b [<-|[]] [<-|[]] _ _ H. now elim H.
  Qed.

  (** F-C07 (before 0384cff): the create is not yet listed, the ObjectSet has not reported its revision, the Get sees it:
      treated as a hash collision; after the ObjectSet reported its revision a second ObjectSet is created for
      the unchanged template. *)
  Definition wit_stale_history : list step :=
    [SDep false None; SDep true None; SRev 100; SDep false None].

  Lemma wit_two_creates :
    count_creates_v0 wit_hash no_slices wit_w0 wit_stale_history = 2%nat /\
    count_changes_v0 wit_hash no_slices wit_w0 wit_stale_history = 0%nat /\
    map (fun s => (sname s, srev s, phases_eqb (os_phases (ds_set s)) tmpl1)) (dw_sets (run_v0 wit_hash no_slices wit_w0 wit_stale_history)) =
      [(200, 1%Z, false); (100, 2%Z, true); (101, 0%Z, true)].
  Proof. vm_compute. repeat split. Qed.

  (** Without the stale List the same schedule creates one ObjectSet. *)
  Lemma wit_fresh_one_create :
    count_creates wit_hash no_slices wit_w0 [SDep false None; SDep false None; SRev 100; SDep false None] = 1%nat.
  Proof. vm_compute. reflexivity. Qed.

  (** The code as it is (0384cff) creates one ObjectSet on the same schedule and bumps nothing. *)
  Lemma wit_stale_repaired :
    count_creates wit_hash no_slices wit_w0 wit_stale_history = 1%nat /\
    d_cc (dw_dep (run wit_hash no_slices wit_w0 wit_stale_history)) = None.
  Proof. vm_compute. split; reflexivity. Qed.

  (** The template is edited while the created ObjectSet is not yet listed: two ObjectSets with the same
      previous list, hence the same revision number. *)
  Definition wit_edit_history : list step :=
    [SDep false None; SEdit 3 tmpl3; SDep true None; SRev 100; SRev 300].

  Lemma wit_same_revision :
    map (fun s => (sname s, srev s, os_prev (ds_set s))) (dw_sets (run wit_hash no_slices wit_w0 wit_edit_history)) =
      [(200, 1%Z, []); (100, 2%Z, [200]); (300, 2%Z, [200])].
  Proof. vm_compute. reflexivity. Qed.

  (** Rollback 1 -> 2 -> 1: the old revision for template 1 holds the name; collision bump; a new revision. *)
  Definition wit_rollback_world : dworld :=
    wit_world (wit_dep 1 tmpl1 None)
      [wit_set 100 101 1 tmpl1 [] LActive [c_avail] [wit_key 1]; wit_set 200 102 2 [wit_phase [wit_pobj 1 2]] [100] LActive [c_avail] [wit_key 2]].

  Lemma wit_rollback :
    map (fun s => (sname s, srev s, phases_eqb (os_phases (ds_set s)) tmpl1, os_prev (ds_set s)))
        (dw_sets (run wit_hash no_slices wit_rollback_world [SDep false None; SDep false None; SRev 101])) =
      [(100, 1%Z, true, []); (200, 2%Z, false, [100]); (101, 3%Z, true, [100; 200])] /\
    d_cc (dw_dep (run wit_hash no_slices wit_rollback_world [SDep false None])) = Some 1.
  Proof. vm_compute. split; reflexivity. Qed.

  (** C08 with ObjectSlices (second half of F-C14, before f07b836): revision 1 (unavailable, confirmed paused) controls ConfigMap
      n1; revision 2 keeps ConfigMap n1 in ObjectSlice 7. The getter as it is sees no objects in revision 2. *)
  Definition wit_slices : N -> option (list pobj) := fun n => if n =? 7 then Some [wit_pobj 1 1] else None.
  Definition wit_r1 : dset := wit_set 300 101 1 tmpl1 [] LPaused [c_paused] [wit_key 1].
  Definition wit_r2 : dset := wit_set 100 102 2 [wit_phase [wit_pobj KSliceRef 7]] [300] LActive [] [].
  Definition wit_sliced_world : dworld := wit_world (wit_dep 1 [wit_phase [wit_pobj KSliceRef 7]] None) [wit_r1; wit_r2].

  Lemma wit_sliced_archive :
    let '(_, evs, _) := dep_pass_v0 wit_hash None wit_slices false wit_sliced_world in
    existsb (fun e => match e with DUpdate 300 LArchived _ WOk => true | _ => false end) evs = true /\
    listed false wit_sliced_world = [wit_r1; wit_r2] /\
    existsb (okey_eqb (wit_key 1)) (os_ctrlof (ds_set wit_r1)) = true /\
    existsb (okey_eqb (wit_key 1)) (full_objects wit_slices wit_r2) = true /\
    set_objects wit_r2 = [] /\ is_available wit_r2 = false.
  Proof. vm_compute. repeat split. Qed.

  Lemma wit_sliced_archive_repaired :
    let '(_, evs, _) := dep_pass wit_hash None wit_slices false wit_sliced_world in
    existsb (fun e => match e with DUpdate _ LArchived _ _ => true | _ => false end) evs = false.
  Proof. vm_compute. reflexivity. Qed.

  (** Observation: history pruning counts all previous revisions, archived or not, and deletes the oldest ones:
      with limit 1, archiving the broken revision 2 deletes revision 1, which is Available and not archived. *)
  Definition wit_gc_world : dworld :=
    wit_world (wit_dep 3 tmpl3 (Some 1%Z))
      [wit_set 100 101 1 tmpl1 [] LActive [c_avail] [wit_key 1];
       wit_set 200 102 2 [wit_phase [wit_pobj 1 2]] [100] LPaused [c_paused] [wit_key 2];
       wit_set 300 103 3 tmpl3 [100; 200] LActive [] []].

  Lemma wit_gc_deletes_available :
    let '(_, evs, _) := dep_pass wit_hash None no_slices false wit_gc_world in
    existsb (fun e => match e with DDelete 100 DlOk => true | _ => false end) evs = true /\
    existsb (fun e => match e with DUpdate 200 LArchived _ WOk => true | _ => false end) evs = true.
  Proof. vm_compute. split; reflexivity. Qed.
End Witness.

(** * Part 8: statements for props/C07.v and props/C08.v: the code as it is, and the shapes before the fixes *)
Theorem revisions_unique hash slices w0 h :
  Inv w0 -> Forall ok_step h ->
  forall a b, In a (dw_sets (run hash slices w0 h)) -> In b (dw_sets (run hash slices w0 h)) ->
    ds_sel a = true -> ds_sel b = true -> sname a <> sname b -> srev a <> 0%Z -> srev a <> srev b.
Proof. intros HI HF. exact (i_uniq _ (inv_run hash slices true true h w0 HI HF)). Qed.

(** F-C07b (open): the template is edited inside the create-not-yet-listed window. *)
Theorem revisions_unique_stale_refuted :
  exists w0 h a b, Inv w0 /\ In a (dw_sets (run wit_hash no_slices w0 h)) /\ In b (dw_sets (run wit_hash no_slices w0 h)) /\
    ds_sel a = true /\ ds_sel b = true /\ sname a <> sname b /\ srev a <> 0%Z /\ srev a = srev b /\
    os_prev (ds_set a) = os_prev (ds_set b).
Proof.
  exists wit_w0, wit_edit_history.
  set (S := dw_sets (run wit_hash no_slices wit_w0 wit_edit_history)).
  exists (nth 1 S wit_old), (nth 2 S wit_old). split; [exact wit_w0_inv|]. vm_compute. repeat split; auto; discriminate.
Qed.

(** F-C07, the slow-cache test before 0384cff: two ObjectSets for one unchanged template. *)
Theorem exactly_one_v0_refuted :
  exists w0 h, Inv w0 /\ count_changes_v0 wit_hash no_slices w0 h = 0%nat /\ count_creates_v0 wit_hash no_slices w0 h = 2%nat.
Proof. exists wit_w0, wit_stale_history. split; [exact wit_w0_inv|]. destruct wit_two_creates as (H1 & H2 & _). auto. Qed.

(** The archive rule: the next newer revision's objects include those of its ObjectSlices. *)
Theorem archive_sound_now hash fault slices stale w w' evs r n pbp ur :
  NoDup (map sname (dw_sets w)) -> dep_pass hash fault slices stale w = (w', evs, r) ->
  In (DUpdate n LArchived pbp ur) evs -> archivable (full_objects slices) (refs_known slices) (listed stale w) n.
Proof.
  intros Hnd Hp Hi. pose proof (proj2 (archive_sound hash fault slices true true stale w w' evs r n pbp ur Hnd Hp Hi)) as H.
  eapply archivable_okn_impl; [|exact H]. intros s Hs. now apply Hs.
Qed.

Theorem archive_kernel_now fault slices L st mem st' mem' l :
  to_archive fault slices st mem (rev L) = (st', mem', l) -> p_dead st' = false ->
  forall n, In n l -> archivable (full_objects slices) (refs_known slices) L n.
Proof.
  intros H Hal n Hn. pose proof (archive_kernel_sound fault slices true L st mem st' mem' l H Hal n Hn) as H0.
  eapply archivable_okn_impl; [|exact H0]. intros s Hs. now apply Hs.
Qed.

(** A referenced ObjectSlice that cannot be read (NotFound or any other error) fails the walk: the pass ends with an
    error and archives nothing. *)
Theorem unreadable_slice_fails fault slices st cur :
  ~ refs_known slices cur -> p_dead (load_slices_req fault slices st cur) = true.
Proof.
  intros H. destruct (p_dead (load_slices_req fault slices st cur)) eqn:E; [reflexivity|].
  elim H. eapply load_slices_req_alive; eauto.
Qed.

(** ... the getter before f07b836 looked at the inline objects of the next newer revision only. *)
Theorem archive_sound_v0_inline hash fault slices stale w w' evs r n pbp ur :
  NoDup (map sname (dw_sets w)) -> dep_pass_v0 hash fault slices stale w = (w', evs, r) ->
  In (DUpdate n LArchived pbp ur) evs -> archivable set_objects (fun _ => True) (listed stale w) n.
Proof.
  intros Hnd Hp Hi. pose proof (proj2 (archive_sound hash fault slices false false stale w w' evs r n pbp ur Hnd Hp Hi)) as H.
  eapply archivable_okn_impl; [|exact H]. auto.
Qed.

Theorem archive_sound_v0_refuted :
  exists w slices evs w' r n pbp r1 r2 k,
    dep_pass_v0 wit_hash None slices false w = (w', evs, r) /\ In (DUpdate n LArchived pbp WOk) evs /\
    listed false w = [r1; r2] /\ sname r1 = n /\ In k (os_ctrlof (ds_set r1)) /\ In k (full_objects slices r2) /\
    is_available r2 = false /\ ~ archivable (full_objects slices) (fun _ => True) (listed false w) n.
Proof.
  destruct (dep_pass_v0 wit_hash None wit_slices false wit_sliced_world) as [[w' evs] r] eqn:Ep.
  exists wit_sliced_world, wit_slices, evs, w', r, 300, false, wit_r1, wit_r2, (wit_key 1).
  split; [exact Ep|]. vm_compute in Ep. injection Ep as <- <- <-.
  split; [cbn; auto|]. split; [reflexivity|]. split; [reflexivity|]. split; [now left|]. split; [now left|]. split; [reflexivity|].
  intros (l1 & x & l2 & EL & En & Hne & _ & _ & Hd).
  assert (E : listed false wit_sliced_world = [wit_r1; wit_r2]) by reflexivity. rewrite E in EL.
  destruct l1 as [|y l1]; cbn in EL.
  - injection EL as <- <-. destruct Hd as [(s & Hs & Ha & _)|(_ & nx & l3 & act & Enx & _ & Hact & _ & Hdis)].
    + destruct Hs as [<-|[]]. discriminate.
    + injection Enx as <- <-. injection Hact as <-. apply (Hdis (wit_key 1)); now left.
  - injection EL as <- EL. destruct l1 as [|z l1]; cbn in EL; [injection EL as <- <-; now apply Hne|].
    injection EL as _ EL. destruct l1; discriminate.
Qed.

Theorem no_reuse_now hash slices stale w w' evs r c :
  NoDup (map sname (dw_sets w)) -> d_paused (dw_dep w) = false -> d_phases (dw_dep w) <> [] ->
  has_rev0 (listed stale w) = false -> has_current (dep_hashed hash w) (listed stale w) = false ->
  In c (dw_sets w) -> sname c = hash (d_digest (dw_dep w)) (d_cc (dw_dep w)) ->
  (is_archived c = true \/ phases_eqb (d_phases (dw_dep w)) (os_phases (ds_set c)) = false \/
   ds_ctrl c <> oi_uid (d_id (dw_dep w)) \/
   ((srev c < latest_revision (listed stale w))%Z /\ srev c <> 0%Z)) ->
  dep_pass hash None slices stale w = (w', evs, r) ->
  r = DpDone /\ created_name evs = None /\
  In (DCreate (sname c) (d_phases (dw_dep w)) (map sname (listed stale w)) (sname c) CrExists) evs /\
  d_cc (dw_dep w') = bump_cc (d_cc (dw_dep w)) /\
  exists c', In c' (dw_sets w') /\ sid c' = sid c.
Proof.
  intros H1 H2 H3 H4 H5 H6 H7 H8 H9. apply (no_reuse hash slices true true stale w w' evs r c H1 H2 H3 H4 H5 H6 H7); [|exact H9].
  destruct H8 as [H|[H|[H|[Ha Hb]]]]; auto. right. right. right. auto.
Qed.

(** Bounded progress after a clash: the bumped counter is stored by the pass that met the clash, so the next pass asks
    for the name that belongs to the bumped counter. *)
Theorem clash_then_next_name hash slices stale w w' evs r c fault2 stale2 w'' evs2 r2 n phs prev h cr :
  NoDup (map sname (dw_sets w)) -> d_paused (dw_dep w) = false -> d_phases (dw_dep w) <> [] ->
  has_rev0 (listed stale w) = false -> has_current (dep_hashed hash w) (listed stale w) = false ->
  In c (dw_sets w) -> sname c = hash (d_digest (dw_dep w)) (d_cc (dw_dep w)) ->
  (is_archived c = true \/ phases_eqb (d_phases (dw_dep w)) (os_phases (ds_set c)) = false \/
   ds_ctrl c <> oi_uid (d_id (dw_dep w)) \/
   ((srev c < latest_revision (listed stale w))%Z /\ srev c <> 0%Z)) ->
  dep_pass hash None slices stale w = (w', evs, r) ->
  dep_pass hash fault2 slices stale2 w' = (w'', evs2, r2) -> In (DCreate n phs prev h cr) evs2 ->
  d_cc (dw_dep w') = bump_cc (d_cc (dw_dep w)) /\ n = hash (d_digest (dw_dep w)) (bump_cc (d_cc (dw_dep w))).
Proof.
  intros H1 H2 H3 H4 H5 H6 H7 H8 Hp Hp2 Hi.
  destruct (no_reuse_now hash slices stale w w' evs r c H1 H2 H3 H4 H5 H6 H7 H8 Hp) as (_ & _ & _ & Hcc & _).
  destruct (dep_pass_frame hash None slices true true stale w w' evs r Hp) as (Hnd & _ & _ & _ & _ & (_ & _ & _ & Hdg & _)).
  destruct (create_justified hash fault2 slices true true stale2 w' w'' evs2 r2 n phs prev h cr (Hnd H1) Hp2 Hi) as (_ & _ & _ & _ & -> & _).
  now rewrite Hdg, Hcc.
Qed.

(** ** The two shapes agree outside the repaired cases *)

(** slow-cache test: only a name holder without a revision is judged differently *)
Lemma adoptable_v0_agrees d prev c : srev c <> 0%Z -> adoptable d prev c = adoptable_v0 d prev c.
Proof. intros H. unfold adoptable, adoptable_v0, adoptable_sh. apply Z.eqb_neq in H. now rewrite H. Qed.

(** archive decision: only a revision that references ObjectSlices is judged differently *)
Lemma seen_objects_v0_agrees slices s : slice_refs s = [] -> seen_objects slices s = seen_objects_v0 slices s.
Proof. intros H. unfold seen_objects, seen_objects_v0, seen_objects_sh, full_objects. rewrite H. cbn. apply app_nil_r. Qed.

Lemma intermediate_v0_agrees fault slices st mem prev cur :
  slice_refs cur = [] -> intermediate_sh fault slices true st mem prev cur = intermediate_sh fault slices false st mem prev cur.
Proof.
  intros H. unfold intermediate_sh, load_slices_req. rewrite H. cbn [fold_left].
  change (seen_objects_sh slices true cur) with (seen_objects slices cur). change (seen_objects_sh slices false cur) with (seen_objects_v0 slices cur).
  now rewrite (seen_objects_v0_agrees slices cur H).
Qed.

Theorem to_archive_v0_agrees fault slices : forall rl st mem,
  (forall s, In s rl -> slice_refs s = []) -> to_archive fault slices st mem rl = to_archive_v0 fault slices st mem rl.
Proof.
  unfold to_archive, to_archive_v0. induction rl as [|cur rest IH]; intros st mem H; [reflexivity|].
  cbn [to_archive_sh]. destruct (is_available cur); [reflexivity|]. destruct rest as [|prev rest']; [reflexivity|].
  assert (Hrest : forall s, In s (prev :: rest') -> slice_refs s = []) by (intros s Hs; apply H; now right).
  destruct (is_archived prev); [now apply IH|]. destruct (srev cur <=? srev prev)%Z; [now apply IH|].
  rewrite (intermediate_v0_agrees fault slices st mem prev cur (H cur (or_introl eq_refl))).
  destruct (intermediate_sh fault slices false st mem prev cur) as [[st1 mem1] b]. now rewrite (IH st1 mem1 Hrest).
Qed.

(** * Part 9: the handover (system level, partial) *)
Section Handover.
  Variable force : bool.
  Let c : cfg := {| c_flavor := FObjectSet; c_force := force |}.

  (** Tearing a revision down (local phases; delegated phases only touch their phase objects) leaves every member
      object alone that the revision neither controls nor owns. *)
  Lemma tpm_foreign s ow k o rphs : forall sw sw' evs r,
    teardown_phases_m force sw s ow rphs = (sw', evs, r) ->
    lookup k (w_store (sw_w sw)) = Some o -> is_owner Native (ow_id ow) o = false -> is_controller Native (ow_id ow) o = false ->
    lookup k (w_store (sw_w sw')) = Some o.
  Proof.
    induction rphs as [|x xs IH]; intros sw sw' evs r H El Ho Hc.
    - cbn in H. now injection H as <- _ _.
    - rewrite tpm_cons in H. destruct (td_step force sw s ow x) as [[sw1 e1] r1] eqn:E1.
      assert (Hf : lookup k (w_store (sw_w sw1)) = Some o).
      { unfold td_step in E1. destruct (ph_class x).
        - destruct (remote_teardown_inv _ _ _ _ _ _ E1) as (-> & _). exact El.
        - destruct (teardown_phase _ _ (sw_w sw) ow (ph_objects x)) as [[w1 e'] r'] eqn:Et. injection E1 as <- _ _. cbn [with_w sw_w].
          unfold teardown_phase in Et. exact (proj1 (TeardownProofs.td_objs_foreign _ _ _ _ _ _ _ _ _ _ Et El Ho Hc)). }
      destruct r1 as [|[|]]; try (injection H as <- _ _; exact Hf).
      destruct (teardown_phases_m force sw1 s ow xs) as [[sw2 e2] r2] eqn:E2. injection H as <- _ _. eapply IH; eauto.
  Qed.

  (** A pass of the ObjectSet controller for a revision that is being archived or deleted removes or changes
      no member object that the revision does not control or own. *)
  Theorem going_pass_foreign hash slices sliceaware rev0ok w n mem k o :
    find_set (sw_sets (to_sworld w)) (set_kind w) (oi_ns (d_id (dw_dep w))) n = Some mem ->
    (os_deleting mem = true \/ os_life mem = LArchived) ->
    lookup k (w_store (dw_w w)) = Some o ->
    is_owner Native (os_id mem) o = false -> is_controller Native (os_id mem) o = false ->
    lookup k (w_store (dw_w (do_step_sh hash slices sliceaware rev0ok w (SSet force n)))) = Some o.
  Proof.
    intros Hf Hg El Ho Hc. cbn [do_step_sh].
    destruct (objectset_pass force (to_sworld w) (set_kind w) (oi_ns (d_id (dw_dep w))) n) as [[sw' evs] r] eqn:Ep. cbn [of_sworld dw_w].
    destruct (cond_true (os_conds mem) CArchived) eqn:Ea.
    - unfold objectset_pass in Ep. rewrite Hf, Ea in Ep. injection Ep as <- _ _. exact El.
    - pose proof (objectset_pass_going force _ _ _ _ _ _ _ _ Hf (conj Ea Hg) Ep) as Hd.
      destruct (deletion_pass_inv force _ _ _ _ _ Hd) as (sw1 & tevs & td & Etd & _ & Hst & _). rewrite Hst.
      unfold teardown_of in Etd. destruct (os_fin mem); [|injection Etd as <- _ _; exact El].
      destruct (os_orphan mem); [injection Etd as <- _ _; exact El|]. eapply tpm_foreign; eauto.
  Qed.
End Handover.
