(** Reflection lemmas for the boolean equalities of Base.v and the store algebra. *)
From Coq Require Import List NArith ZArith Bool Lia.
From PKO Require Import Util Base.
Import ListNotations.
Local Open Scope N_scope.

Lemma oref_eqb_spec a b : oref_eqb a b = true <-> a = b.
Proof.
  destruct a, b; unfold oref_eqb; cbn. rewrite !andb_true_iff, !N.eqb_eq, eqb_true_iff.
  split; [intros [[[-> ->] ->] ->]; reflexivity | intros H; injection H; auto].
Qed.

Lemma revann_eqb_spec a b : revann_eqb a b = true <-> a = b.
Proof.
  destruct a, b; cbn; try (split; [discriminate|congruence]); try tauto.
  rewrite Z.eqb_eq. split; congruence.
Qed.

Lemma obj_eqb_spec a b : obj_eqb a b = true <-> a = b.
Proof.
  destruct a, b; unfold obj_eqb; cbn.
  rewrite !andb_true_iff, !N.eqb_eq, !Z.eqb_eq, !eqb_true_iff, revann_eqb_spec,
    !(list_eqb_spec oref_eqb oref_eqb_spec), (option_eqb_spec Z.eqb Z.eqb_eq).
  split.
  - intros H. repeat match goal with H : _ /\ _ |- _ => destruct H end. subst. reflexivity.
  - intros H. injection H. intros. subst. repeat split; reflexivity.
Qed.

Lemma okey_eqb_spec a b : okey_eqb a b = true <-> a = b.
Proof.
  destruct a, b; unfold okey_eqb; cbn. rewrite !andb_true_iff, !N.eqb_eq.
  split; [intros [[-> ->] ->]; reflexivity | intros H; injection H; auto].
Qed.

Lemma okey_eqb_refl a : okey_eqb a a = true.
Proof. now apply okey_eqb_spec. Qed.

Lemma okey_eqb_neq a b : a <> b -> okey_eqb a b = false.
Proof. intros H. destruct (okey_eqb a b) eqn:E; [apply okey_eqb_spec in E; contradiction|reflexivity]. Qed.

Lemma okey_eqb_sym a b : okey_eqb a b = okey_eqb b a.
Proof.
  destruct (okey_eqb a b) eqn:E.
  - apply okey_eqb_spec in E. subst. now rewrite okey_eqb_refl.
  - destruct (okey_eqb b a) eqn:E2; [|reflexivity]. apply okey_eqb_spec in E2. subst. now rewrite okey_eqb_refl in E.
Qed.

Lemma okey_dec (a b : okey) : {a = b} + {a <> b}.
Proof. destruct (okey_eqb a b) eqn:E; [left; now apply okey_eqb_spec|right; intros H; apply okey_eqb_spec in H; congruence]. Qed.

Lemma lookup_remove_same k s : lookup k (remove_key k s) = None.
Proof.
  induction s as [|[k' o] s IH]; cbn; [reflexivity|].
  destruct (okey_eqb k k') eqn:E; [exact IH|]. cbn. now rewrite E.
Qed.

Lemma lookup_remove_other k k' s : k' <> k -> lookup k' (remove_key k s) = lookup k' s.
Proof.
  intros Hne. induction s as [|[k0 o] s IH]; cbn; [reflexivity|].
  destruct (okey_eqb k k0) eqn:E.
  - apply okey_eqb_spec in E. subst k0. rewrite (okey_eqb_neq k' k Hne). exact IH.
  - cbn. destruct (okey_eqb k' k0); [reflexivity|exact IH].
Qed.

Lemma lookup_upsert_same k o s : lookup k (upsert k o s) = Some o.
Proof. unfold upsert. cbn. now rewrite okey_eqb_refl. Qed.

Lemma lookup_upsert_other k k' o s : k' <> k -> lookup k' (upsert k o s) = lookup k' s.
Proof. intros H. unfold upsert. cbn. rewrite (okey_eqb_neq k' k H). now apply lookup_remove_other. Qed.
