(** F-C09 (open finding): the paused state of an ObjectSet reaches a delegated phase only when the phase loop
    reaches that phase; behind a phase whose probes fail, the phase object stays unpaused and the
    ObjectSetPhase controller keeps writing objects listed in the paused ObjectSet. Witness evaluated on the
    model; the same history is replayed on the real controllers (checks/C09.py, corpus/C09). *)
From Coq Require Import List NArith ZArith Bool.
From PKO Require Import Util Base Owner Api Phase PhaseProofs ObjectSet ObjectSetProofs PhaseController.
Import ListNotations.
Local Open Scope N_scope.

Definition pf_id : oid := {| oi_kind := KObjectSet; oi_ns := 1; oi_name := 10; oi_uid := 100 |}.
Definition pf_po (gk name : N) : pobj :=
  {| po_gk := gk; po_ns := 0; po_name := name; po_body := 1; po_cp := CPPrevent; po_ownerrefs := false; po_dryreject := false |}.
Definition pf_pname : N := join_name 10 2.
(** paused ObjectSet: phase 1 in-process (a probed Widget), phase 2 delegated (a ConfigMap) *)
Definition pf_set : oset :=
  {| os_id := pf_id; os_rv := 5; os_gen := 2; os_deleting := false; os_fin := true; os_orphan := false; os_pkg := 0;
     os_life := LPaused;
     os_phases := [ {| ph_name := 1; ph_class := false; ph_objects := [pf_po 2 1] |};
                    {| ph_name := 2; ph_class := true; ph_objects := [pf_po 1 2] |} ];
     os_prev := []; os_revision := 1; os_conds := []; os_ctrlof := []; os_remotes := [(pf_pname, 301)] |}.
Definition pf_ref : oref := {| r_kind := KObjectSet; r_name := 10; r_uid := 100; r_ctrl := true |}.
(** the Widget of phase 1 exists, controlled by the ObjectSet, and reports Available=False *)
Definition pf_widget : obj :=
  {| o_uid := 7; o_rv := 8; o_gen := 1; o_owners := [pf_ref]; o_aowners := []; o_rev := RevNum 1; o_cache := true;
     o_pkg := 0; o_body := 1; o_avail := 2; o_obsgen := Some 1%Z; o_deleting := false; o_fin := false |}.
(** the phase object of phase 2: controlled by the ObjectSet, NOT paused; its ConfigMap was deleted by a third party *)
Definition pf_phase : osphase :=
  {| op_id := {| oi_kind := KObjectSetPhase; oi_ns := 1; oi_name := pf_pname; oi_uid := 301 |};
     op_rv := 20; op_gen := 1; op_owners := [pf_ref]; op_deleting := false; op_fin := true; op_orphan := false;
     op_pkg := 0; op_class := 1; op_paused := false; op_revision := 1; op_prev := []; op_objects := [pf_po 1 2];
     op_conds := [{| cd_type := CAvailable; cd_status := STrue; cd_reason := RAvailable; cd_gen := 1 |}]; op_ctrlof := [] |}.
Definition pf_world : sworld :=
  {| sw_w := {| w_store := [({| k_gk := 2; k_ns := 1; k_name := 1 |}, pf_widget)]; w_rv := 50; w_uid := 400 |};
     sw_sets := [pf_set]; sw_phases := [pf_phase]; sw_nss := [(1, false)] |}.

Definition pf_after_set : sworld := fst (fst (objectset_pass false pf_world KObjectSet 1 10)).
Definition pf_set_events : list sev := snd (fst (objectset_pass false pf_world KObjectSet 1 10)).
Definition pf_phase_events : list sev :=
  snd (fst (objectsetphase_pass FSamePhase false 1 pf_after_set KObjectSetPhase 1 pf_pname)).

Definition is_pause_patch (e : sev) : bool := match e with SPhase (PPause _ _ _) => true | _ => false end.
Definition member_writes (evs : list sev) : list okey :=
  flat_map (fun e => match e with SMember x => [ev_key x] | _ => [] end) evs.

(** The pass of the paused ObjectSet sends no pause patch and leaves the phase object unpaused; the
    ObjectSetPhase controller then creates the ConfigMap listed in the paused ObjectSet. *)
Lemma pause_behind_gate_witness :
  os_life pf_set = LPaused /\
  existsb is_pause_patch pf_set_events = false /\
  option_map op_paused (find_phase (sw_phases pf_after_set) KObjectSetPhase 1 pf_pname) = Some false /\
  member_writes pf_phase_events = [{| k_gk := 1; k_ns := 1; k_name := 2 |}].
Proof. vm_compute. repeat split; reflexivity. Qed.

(** The clause "a paused ObjectSet's objects are written by nobody in Package Operator" is false for delegated
    phases behind a phase the pass stops at. *)
Theorem pause_behind_gate_refuted :
  exists sw kind ns name s pname k,
    find_set (sw_sets sw) kind ns name = Some s /\ os_life s = LPaused /\ is_active s /\
    In k (map (spec_key s) (all_objects s)) /\
    In k (member_writes (snd (fst (objectsetphase_pass FSamePhase false 1
                                     (fst (fst (objectset_pass false sw kind ns name))) KObjectSetPhase ns pname)))).
Proof.
  exists pf_world, KObjectSet, 1, 10, pf_set, pf_pname, {| k_gk := 1; k_ns := 1; k_name := 2 |}.
  split; [reflexivity|]. split; [reflexivity|]. split; [repeat split; discriminate|].
  split; [vm_compute; right; left; reflexivity|].
  change (In {| k_gk := 1; k_ns := 1; k_name := 2 |} (member_writes pf_phase_events)).
  destruct pause_behind_gate_witness as (_ & _ & _ & ->). left. reflexivity.
Qed.
