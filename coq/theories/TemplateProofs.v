(** Proofs about Template.v (C18). Everything is generic in the render function, the kind table and
    the retry intervals; per-pass statements hold for an arbitrary pre-state and are lifted to histories
    at the end. *)
From Coq Require Import List NArith Bool Lia Permutation.
From PKO Require Import Util Template.
Import ListNotations.
Local Open Scope N_scope.

(** * Keys, stores, watch lists *)

Lemma key_eqb_spec a b : key_eqb a b = true <-> a = b.
Proof.
  destruct a as [[a1 a2] a3], b as [[b1 b2] b3]. unfold key_eqb, k_kind, k_ns, k_name; cbn.
  rewrite !andb_true_iff, !N.eqb_eq. split; [intros [[-> ->] ->]; reflexivity|intros H; injection H; auto].
Qed.
Lemma key_eqb_refl k : key_eqb k k = true.
Proof. now apply key_eqb_spec. Qed.
Lemma key_eqb_neq a b : key_eqb a b = false <-> a <> b.
Proof. split; intros H. - intros E. apply key_eqb_spec in E. congruence. - destruct (key_eqb a b) eqn:E; [apply key_eqb_spec in E; contradiction|reflexivity]. Qed.
Lemma key_eqb_sym a b : key_eqb a b = key_eqb b a.
Proof.
  destruct (key_eqb a b) eqn:E.
  - apply key_eqb_spec in E. subst. symmetry. apply key_eqb_refl.
  - symmetry. apply key_eqb_neq. apply key_eqb_neq in E. congruence.
Qed.

Lemma pair_eqb_spec a b : pair_eqb a b = true <-> a = b.
Proof. destruct a, b. unfold pair_eqb; cbn. rewrite andb_true_iff, !N.eqb_eq. split; [intros [-> ->]; reflexivity|intros H; injection H; auto]. Qed.
Lemma data_eqb_spec a b : data_eqb a b = true <-> a = b.
Proof.
  revert b. induction a as [|x a IH]; intros [|y b]; cbn; try (split; [discriminate|congruence]); [tauto|].
  rewrite andb_true_iff, pair_eqb_spec, IH. split; [intros [-> ->]; reflexivity|intros H; injection H; auto].
Qed.
Lemma data_eqb_refl a : data_eqb a a = true.
Proof. now apply data_eqb_spec. Qed.

(** maps and the label / annotation merge *)
Lemma dlookup_dset_same k v d : dlookup k (dset k v d) = Some v.
Proof.
  induction d as [|[k' v'] r IH]; cbn [dlookup dset fst snd]; [now rewrite N.eqb_refl|].
  destruct (k <? k') eqn:E1; cbn [dlookup dset fst snd]; [now rewrite N.eqb_refl|].
  destruct (k =? k') eqn:E2; cbn [dlookup dset fst snd]; [now rewrite N.eqb_refl|]. rewrite N.eqb_sym, E2. exact IH.
Qed.
Lemma dlookup_dset_other k k' v d : k' <> k -> dlookup k' (dset k v d) = dlookup k' d.
Proof.
  intros Hne. apply N.eqb_neq in Hne. induction d as [|[k2 v2] r IH]; cbn [dlookup dset fst snd]; [now rewrite N.eqb_sym, Hne|].
  destruct (k <? k2) eqn:E1; cbn [dlookup dset fst snd]; [now rewrite N.eqb_sym, Hne|].
  destruct (k =? k2) eqn:E2; cbn [dlookup dset fst snd].
  - apply N.eqb_eq in E2. subst k2. now rewrite N.eqb_sym, Hne.
  - destruct (k2 =? k'); auto.
Qed.
Lemma in_dset kv k v d : In kv (dset k v d) -> kv = (k, v) \/ In kv d.
Proof.
  induction d as [|[k2 v2] r IH]; cbn [dset]; [intros [H|[]]; auto|].
  destruct (k <? k2); [intros [H|H]; [auto|now right]|]. destruct (k =? k2); [intros [H|H]; [auto|right; now right]|].
  intros [H|H]; [right; now left|]. destruct (IH H) as [H1|H1]; [auto|right; now right].
Qed.
Lemma in_has_key kv d : In kv d -> has_key (fst kv) d = true.
Proof.
  destruct kv as [k v]. cbn [fst]. unfold has_key. induction d as [|[k2 v2] r IH]; [contradiction|].
  intros [E|H]; cbn [dlookup]; [injection E as -> ->; now rewrite N.eqb_refl|].
  destruct (k2 =? k); [reflexivity|]. now apply IH.
Qed.

Lemma merge_meta_body ex body k : has_key k body = true -> dlookup k (merge_meta ex body) = dlookup k body.
Proof.
  intros Hk. unfold merge_meta.
  assert (H : forall acc, dlookup k (fold_left (fun acc kv => if is_meta (fst kv) && negb (has_key (fst kv) body)
                                                            then dset (fst kv) (snd kv) acc else acc) ex acc) = dlookup k acc).
  { induction ex as [|[k' v'] r IH]; intros acc; cbn [fold_left fst snd]; [reflexivity|].
    destruct (is_meta k' && negb (has_key k' body)) eqn:E; [|apply IH].
    rewrite IH. apply dlookup_dset_other. intros ->. apply andb_true_iff in E. destruct E as [_ E]. rewrite Hk in E. discriminate. }
  apply H.
Qed.
Lemma merge_meta_keys ex body kv : In kv (merge_meta ex body) -> is_meta (fst kv) || has_key (fst kv) body = true.
Proof.
  unfold merge_meta.
  assert (H : forall acc, (forall x, In x acc -> is_meta (fst x) || has_key (fst x) body = true) ->
            In kv (fold_left (fun acc kv => if is_meta (fst kv) && negb (has_key (fst kv) body) then dset (fst kv) (snd kv) acc else acc) ex acc) ->
            is_meta (fst kv) || has_key (fst kv) body = true).
  { induction ex as [|[k' v'] r IH]; intros acc Hacc; cbn [fold_left fst snd]; [apply Hacc|].
    destruct (is_meta k' && negb (has_key k' body)) eqn:E; [|now apply IH].
    apply IH. intros x Hx. destruct (in_dset _ _ _ _ Hx) as [->|Hx']; [|now apply Hacc].
    cbn. apply andb_true_iff in E. destruct E as [-> _]. reflexivity. }
  apply H. intros x Hx. rewrite (in_has_key _ _ Hx). apply orb_true_r.
Qed.

Lemma follows_refl body : follows body body = true.
Proof.
  unfold follows. apply andb_true_iff. split; apply forallb_forall; intros kv Hin.
  - destruct (dlookup (fst kv) body); [apply N.eqb_refl|reflexivity].
  - rewrite (in_has_key _ _ Hin). apply orb_true_r.
Qed.
Lemma follows_merge ex body : follows (merge_meta ex body) body = true.
Proof.
  unfold follows. apply andb_true_iff. split; apply forallb_forall; intros kv Hin.
  - rewrite (merge_meta_body _ _ _ (in_has_key _ _ Hin)). destruct (dlookup (fst kv) body); [apply N.eqb_refl|reflexivity].
  - now apply (merge_meta_keys ex).
Qed.

Lemma lookup_upsert_same k o st : lookup k (upsert k o st) = Some o.
Proof. induction st as [|[k' o'] st IH]; cbn; [now rewrite key_eqb_refl|]. destruct (key_eqb k k') eqn:E; cbn; rewrite ?key_eqb_refl, ?E; auto. Qed.
Lemma lookup_upsert_other k k' o st : k' <> k -> lookup k' (upsert k o st) = lookup k' st.
Proof.
  intros Hne. induction st as [|[k2 o2] st IH]; cbn.
  - apply key_eqb_neq in Hne. now rewrite Hne.
  - destruct (key_eqb k k2) eqn:E; cbn.
    + apply key_eqb_spec in E. subst k2. apply key_eqb_neq in Hne. now rewrite Hne.
    + destruct (key_eqb k' k2); auto.
Qed.
Lemma lookup_upsert k k' o st : lookup k' (upsert k o st) = if key_eqb k' k then Some o else lookup k' st.
Proof.
  destruct (key_eqb k' k) eqn:E.
  - apply key_eqb_spec in E. subst. apply lookup_upsert_same.
  - apply lookup_upsert_other. now apply key_eqb_neq.
Qed.
Lemma lookup_remove k k' st : lookup k' (remove k st) = if key_eqb k' k then None else lookup k' st.
Proof.
  unfold remove. induction st as [|[k2 o2] st IH]; cbn; [now destruct (key_eqb k' k)|].
  destruct (key_eqb k k2) eqn:E; cbn.
  - rewrite IH. apply key_eqb_spec in E. subst k2. destruct (key_eqb k' k); reflexivity.
  - rewrite IH. destruct (key_eqb k' k2) eqn:E2; [|reflexivity].
    apply key_eqb_spec in E2. subst k2. rewrite key_eqb_sym in E. now rewrite E.
Qed.

Lemma watched_app kd o a b : watched kd o (a ++ b) = watched kd o a || watched kd o b.
Proof. unfold watched. apply existsb_app. Qed.
Lemma watched_add_same kd o wl : watched kd o (add_watch kd o wl) = true.
Proof.
  unfold add_watch. destruct (watched kd o wl) eqn:E; [assumption|].
  rewrite watched_app. cbn. rewrite !N.eqb_refl. cbn. apply orb_true_r.
Qed.
Lemma watched_add_mono kd o kd' o' wl : watched kd o wl = true -> watched kd o (add_watch kd' o' wl) = true.
Proof. intros H. unfold add_watch. destruct (watched kd' o' wl); [assumption|]. rewrite watched_app, H. reflexivity. Qed.
Lemma watched_add kd o kd' o' wl :
  watched kd o (add_watch kd' o' wl) = watched kd o wl || ((kd' =? kd) && (o' =? o)).
Proof.
  unfold add_watch. destruct (watched kd' o' wl) eqn:E.
  - destruct ((kd' =? kd) && (o' =? o)) eqn:E2; [|now rewrite orb_false_r].
    apply andb_true_iff in E2. destruct E2 as [E2 E3]. apply N.eqb_eq in E2, E3. subst. rewrite E. reflexivity.
  - rewrite watched_app. cbn. now rewrite orb_false_r.
Qed.
Lemma watched_free_same kd o wl : watched kd o (free_owner o wl) = false.
Proof.
  unfold watched, free_owner. induction wl as [|[a b] wl IH]; cbn; [reflexivity|].
  destruct (b =? o) eqn:E; cbn; [assumption|]. rewrite E, andb_false_r. assumption.
Qed.
Lemma watched_free_other kd o o' wl : o' <> o -> watched kd o' (free_owner o wl) = watched kd o' wl.
Proof.
  intros Hne. unfold watched, free_owner. induction wl as [|[a b] wl IH]; cbn; [reflexivity|].
  destruct (b =? o) eqn:E; cbn.
  - apply N.eqb_eq in E. subst b. apply N.eqb_neq in Hne. rewrite N.eqb_sym in Hne. rewrite Hne, andb_false_r. assumption.
  - now rewrite IH.
Qed.

(** * Event lists *)
Lemma target_writes_app a b : target_writes (a ++ b) = target_writes a ++ target_writes b.
Proof. unfold target_writes. apply flat_map_app. Qed.
Lemma label_patches_app a b : label_patches (a ++ b) = label_patches a ++ label_patches b.
Proof. unfold label_patches. apply flat_map_app. Qed.

Arguments watched : simpl never.
Arguments add_watch : simpl never.
Arguments free_owner : simpl never.
Arguments lookup : simpl never.
Arguments upsert : simpl never.
Arguments remove : simpl never.

Section Proofs.
  Context {code : Type}.
  Variable render : code -> data -> N -> rres.
  Variable scope_of : N -> option bool.
  Variable iv_res iv_opt : N.

  Notation tmpl := (tmpl code).
  Notation world := (world code).
  Notation nkey := (nkey scope_of).
  Notation pf_violation := (pf_violation scope_of ns_escalation).
  Notation cache_get := (cache_get scope_of).
  Notation get_source := (@get_source code scope_of ns_escalation).
  Notation get_values := (@get_values code scope_of ns_escalation).
  Notation template_object := (template_object render scope_of ns_escalation).
  Notation reconcile_tmpl := (reconcile_tmpl render scope_of ns_escalation iv_res iv_opt).
  Notation get_sourcex := (@get_sourcex code scope_of ns_escalation).
  Notation get_valuesx := (@get_valuesx code scope_of ns_escalation).
  Notation reconcilex := (reconcilex render scope_of ns_escalation iv_res iv_opt).
  Notation passx := (passx render scope_of ns_escalation iv_res iv_opt).
  Notation pass := (pass render scope_of ns_escalation iv_res iv_opt).
  Notation do_step := (do_step render scope_of ns_escalation iv_res iv_opt).
  Notation run := (run render scope_of ns_escalation iv_res iv_opt).
  Notation final := (final render scope_of ns_escalation iv_res iv_opt).
  Notation scan := (scan scope_of).
  Notation src_bad := (src_bad scope_of).
  Notation tgt_bad := (tgt_bad scope_of).
  Notation oob := (oob scope_of).
  Notation malformed := (malformed scope_of).
  Notation rootown := (rootown scope_of).
  Notation src_rootown := (src_rootown scope_of).
  Notation in_bounds := (in_bounds scope_of).
  Notation expected := (expected render scope_of).
  Notation create_res := (create_res scope_of).
  Notation update_res := (update_res scope_of).

  (** The admission check the implementation applies to a source reference. *)
  Definition pfbad (tns : N) (s : source) : bool := pf_violation tns (s_kind s, s_ns s, s_name s) false.

  (** ** The implementation's check IS the property's notion of "outside the namespace" (since aa47ee3) *)

  Lemma bad_pf tns k orefs : tgt_bad tns k orefs = pf_violation tns k orefs.
  Proof.
    unfold Template.tgt_bad, Template.pf_violation, Template.oob, Template.malformed, ns_escalation, is_namespaced.
    destruct (scope_of (k_kind k)) as [[|]|]; destruct orefs; cbn; try reflexivity;
      destruct (tns =? 0) eqn:E0; cbn; try reflexivity;
      destruct (k_ns k =? 0) eqn:E1; cbn; try reflexivity;
      destruct (k_ns k =? tns) eqn:E2; cbn; try reflexivity.
    all: apply N.eqb_eq in E1, E2; apply N.eqb_neq in E0; congruence.
  Qed.

  Lemma src_bad_pf tns s : src_bad tns s = pfbad tns s.
  Proof.
    pose proof (bad_pf tns (s_kind s, s_ns s, s_name s) false) as H.
    unfold Template.tgt_bad in H. cbn [orb] in H. exact H.
  Qed.

  Lemma nkey_kind k : k_kind (nkey k) = k_kind k.
  Proof. unfold Template.nkey. destruct (scope_of (k_kind k)) as [[|]|]; reflexivity. Qed.
  Lemma nkey_idem k : nkey (nkey k) = nkey k.
  Proof.
    unfold Template.nkey at 1. rewrite nkey_kind. unfold Template.nkey.
    destruct (scope_of (k_kind k)) as [[|]|] eqn:E; cbn; rewrite ?E; reflexivity.
  Qed.
  Lemma nkey_namespaced k : is_namespaced scope_of (k_kind k) = true -> nkey k = k.
  Proof. unfold is_namespaced, Template.nkey. destruct (scope_of (k_kind k)) as [[|]|]; congruence. Qed.

  (** A reference the property admits denotes a key inside the bounds. *)
  Lemma not_bad_in_bounds tns s : src_bad tns s = false -> in_bounds tns (nkey (src_key tns s)) = true.
  Proof.
    unfold Template.src_bad, Template.oob, Template.malformed, Template.in_bounds, is_namespaced. cbn [k_kind k_ns fst snd].
    rewrite nkey_kind. unfold src_key at 1 2. cbn [k_kind fst snd]. intros H.
    apply orb_false_iff in H. destruct H as [H1 H2].
    destruct (scope_of (s_kind s)) as [nsd|] eqn:Es; [|discriminate].
    destruct (tns =? 0) eqn:E0; [reflexivity|]. cbn in H1.
    destruct nsd; cbn in H1; [|now rewrite orb_true_r in H1]. rewrite orb_false_r in H1. apply negb_false_iff in H1.
    cbn. unfold Template.nkey, src_key. cbn [k_kind fst snd]. rewrite Es. unfold k_ns. cbn [fst snd].
    destruct (s_ns s =? 0); [apply N.eqb_refl|]. cbn in H1. assumption.
  Qed.

  (** ** Stores that differ only by cache labels gained *)
  Definition store_le (a b : store) : Prop :=
    forall k, match lookup k a, lookup k b with
              | Some x, Some y => o_data x = o_data y /\ o_conds x = o_conds y /\ (o_label x = true -> o_label y = true)
              | None, None => True
              | _, _ => False
              end.
  Lemma store_le_refl a : store_le a a.
  Proof. intros k. destruct (lookup k a); auto. Qed.
  Lemma store_le_trans a b c : store_le a b -> store_le b c -> store_le a c.
  Proof.
    intros H1 H2 k. specialize (H1 k). specialize (H2 k).
    destruct (lookup k a), (lookup k b), (lookup k c); try tauto.
    destruct H1 as (E1 & C1 & L1), H2 as (E2 & C2 & L2). split; [congruence|split; [congruence|auto]].
  Qed.
  Lemma store_le_label k o st : lookup k st = Some o -> store_le st (upsert k (set_label o) st).
  Proof.
    intros H k'. rewrite lookup_upsert. destruct (key_eqb k' k) eqn:E.
    - apply key_eqb_spec in E. subst. rewrite H. cbn. auto.
    - destruct (lookup k' st); auto.
  Qed.

  Lemma copy_items_data items o o' cfg : o_data o = o_data o' -> copy_items items o cfg = copy_items items o' cfg.
  Proof.
    intros E. revert cfg. induction items as [|[k d] r IH]; intros cfg; cbn; [reflexivity|].
    rewrite E. destruct (dlookup k (o_data o')); auto. destruct (d =? 0); auto.
  Qed.

  Lemma scan_store_le bad a b tns srcs : store_le a b -> forall cfg retry, scan bad a tns srcs cfg retry = scan bad b tns srcs cfg retry.
  Proof.
    intros H. induction srcs as [|s r IH]; intros cfg retry; cbn; [reflexivity|].
    destruct (bad s); [reflexivity|]. specialize (H (nkey (src_key tns s))).
    destruct (lookup (nkey (src_key tns s)) a) as [x|], (lookup (nkey (src_key tns s)) b) as [y|]; try contradiction.
    - destruct H as [E _]. rewrite (copy_items_data _ x y cfg E). destruct (copy_items (s_items s) y cfg); auto.
    - destruct (s_opt s); auto.
  Qed.

  Lemma scan_ext bad1 bad2 st tns srcs : (forall s, In s srcs -> bad1 s = bad2 s) ->
    forall cfg retry, scan bad1 st tns srcs cfg retry = scan bad2 st tns srcs cfg retry.
  Proof.
    induction srcs as [|s r IH]; intros H cfg retry; cbn; [reflexivity|].
    rewrite (H s (or_introl eq_refl)). destruct (bad2 s); [reflexivity|].
    destruct (lookup (nkey (src_key tns s)) st).
    - destruct (copy_items (s_items s) o cfg); [|reflexivity]. apply IH. intros; apply H; now right.
    - destruct (s_opt s); [|reflexivity]. apply IH. intros; apply H; now right.
  Qed.

  (** ** getSourceObject *)
  Definition mono_watch (a b : list (N * N)) : Prop := forall kd o, watched kd o a = true -> watched kd o b = true.

  Lemma get_source_spec w tns s w' evs r :
    get_source w tns s = (w', evs, r) ->
    w_tmpl w' = w_tmpl w /\ w_env w' = w_env w /\ store_le (w_store w) (w_store w') /\ mono_watch (w_watch w) (w_watch w') /\
    (forall kd o, o <> me -> watched kd o (w_watch w') = watched kd o (w_watch w)) /\
    if pfbad tns s then r = SrcErr false /\ w' = w /\ evs = []
    else
      watched (s_kind s) me (w_watch w') = true /\
      match lookup (nkey (src_key tns s)) (w_store w) with
      | None => evs = [EWatch (s_kind s)] /\ r = (if s_opt s then SrcSkip else SrcErr true) /\ w_store w' = w_store w
      | Some o => exists o', r = SrcFound o' /\ o_data o' = o_data o /\ o_label o' = true /\
                             lookup (nkey (src_key tns s)) (w_store w') = Some o' /\
                             (evs = [EWatch (s_kind s); ECacheHit (nkey (src_key tns s)) (o_data o')] \/
                              evs = [EWatch (s_kind s); EPatchLabel (nkey (src_key tns s)) (o_data o')])
      end.
  Proof.
    unfold Template.get_source, pfbad. fold (src_key tns s). intros H.
    destruct (pf_violation tns (s_kind s, s_ns s, s_name s) false).
    - injection H as <- <- <-. repeat split; auto using store_le_refl. intros kd o Hw; exact Hw.
    - assert (Hm : mono_watch (w_watch w) (add_watch (s_kind s) me (w_watch w))) by (intros kd o Hw; now apply watched_add_mono).
      assert (Ho : forall kd o, o <> me -> watched kd o (add_watch (s_kind s) me (w_watch w)) = watched kd o (w_watch w)).
      { intros kd o Hne. rewrite watched_add. apply N.eqb_neq in Hne. rewrite (N.eqb_sym me o), Hne, andb_false_r, orb_false_r. reflexivity. }
      unfold Template.cache_get in H. cbn [w_store with_watch] in H.
      destruct (lookup (nkey (src_key tns s)) (w_store w)) as [o|] eqn:El.
      + destruct (o_label o) eqn:Elab.
        * injection H as <- <- <-. cbn. repeat split; auto using store_le_refl, watched_add_same.
          exists o. repeat split; auto.
        * injection H as <- <- <-. cbn. repeat split; auto using watched_add_same.
          -- now apply store_le_label.
          -- exists (set_label o). repeat split; auto. apply lookup_upsert_same.
      + destruct (s_opt s); injection H as <- <- <-; cbn; repeat split; auto using store_le_refl, watched_add_same.
  Qed.

  (** ** getValuesFromSources against the pure collection [scan] *)
  Definition src_event (tns : N) (srcs : list source) (e : ev) : Prop :=
    exists s, In s srcs /\ pfbad tns s = false /\
      (e = EWatch (s_kind s) \/ (exists d, e = ECacheHit (nkey (src_key tns s)) d) \/ (exists d, e = EPatchLabel (nkey (src_key tns s)) d)).

  Definition tracked (tns : N) (w : world) (s : source) : Prop :=
    watched (s_kind s) me (w_watch w) = true /\
    match lookup (nkey (src_key tns s)) (w_store w) with Some o => o_label o = true | None => True end.

  Lemma tracked_mono tns w w' s :
    store_le (w_store w) (w_store w') -> mono_watch (w_watch w) (w_watch w') -> tracked tns w s -> tracked tns w' s.
  Proof.
    intros Hs Hw [H1 H2]. split; [now apply Hw|]. specialize (Hs (nkey (src_key tns s))).
    destruct (lookup (nkey (src_key tns s)) (w_store w)), (lookup (nkey (src_key tns s)) (w_store w')); try tauto.
  Qed.

  Lemma src_event_mono tns s srcs e : src_event tns srcs e -> src_event tns (s :: srcs) e.
  Proof. intros (s' & Hin & Hb & He). exists s'; repeat split; auto; now right. Qed.

  Lemma get_values_spec tns srcs : forall w cfg retry w' evs r,
    get_values w tns srcs cfg retry = (w', evs, r) ->
    w_tmpl w' = w_tmpl w /\ w_env w' = w_env w /\ store_le (w_store w) (w_store w') /\ mono_watch (w_watch w) (w_watch w') /\
    (forall kd o, o <> me -> watched kd o (w_watch w') = watched kd o (w_watch w)) /\
    Forall (src_event tns srcs) evs /\
    match scan (pfbad tns) (w_store w) tns srcs cfg retry with
    | ScBad | ScKey => r = VErr false
    | ScMissing => r = VErr true
    | ScOk c rt => r = VOk c rt /\ Forall (tracked tns w') srcs
    end.
  Proof.
    induction srcs as [|s rest IH]; intros w cfg retry w' evs r H; cbn in H.
    - injection H as <- <- <-. cbn. repeat split; auto using store_le_refl. intros kd o Hw; exact Hw.
    - destruct (get_source w tns s) as [[w1 e1] sr] eqn:Es.
      destruct (get_source_spec _ _ _ _ _ _ Es) as (Ht & He & Hst & Hw & Hoth & Hcase).
      assert (Hev1 : pfbad tns s = false -> Forall (src_event tns (s :: rest)) e1 /\
                (lookup (nkey (src_key tns s)) (w_store w) = None -> e1 = [EWatch (s_kind s)])).
      { intros Hb. rewrite Hb in Hcase. destruct Hcase as [_ Hc].
        destruct (lookup (nkey (src_key tns s)) (w_store w)).
        - destruct Hc as (o' & _ & _ & _ & _ & [-> | ->]); split; try discriminate.
          + constructor; [exists s; repeat split; auto; now left|]. constructor; [|constructor].
            exists s. split; [now left|]. split; [assumption|]. right; left. eauto.
          + constructor; [exists s; repeat split; auto; now left|]. constructor; [|constructor].
            exists s. split; [now left|]. split; [assumption|]. right; right. eauto.
        - destruct Hc as (-> & _). split; auto. constructor; [exists s; repeat split; auto; now left|constructor]. }
      cbn [Template.scan]. destruct (pfbad tns s) eqn:Eb.
      + destruct Hcase as (-> & -> & ->). injection H as <- <- <-. repeat split; auto using store_le_refl; try (intros kd o Hw'; exact Hw').
      + destruct (Hev1 eq_refl) as [Hev _]. destruct Hcase as [Hwat Hc].
        destruct (lookup (nkey (src_key tns s)) (w_store w)) as [o|] eqn:El.
        * destruct Hc as (o' & -> & Ed & Elab & El' & _).
          rewrite (copy_items_data _ o' o cfg Ed) in H.
          destruct (copy_items (s_items s) o cfg) as [cfg'|].
          -- destruct (get_values w1 tns rest cfg' retry) as [[w2 e2] res] eqn:E2. injection H as <- <- <-.
             destruct (IH _ _ _ _ _ _ E2) as (Ht2 & He2 & Hst2 & Hw2 & Hoth2 & Hev2 & Hsc).
             rewrite <- (scan_store_le _ _ _ _ _ Hst) in Hsc.
             repeat split; try congruence.
             ++ eapply store_le_trans; eauto.
             ++ intros kd o0 Hx. auto.
             ++ intros kd o0 Hne. rewrite Hoth2, Hoth; auto.
             ++ apply Forall_app. split; [assumption|]. eapply Forall_impl; [|exact Hev2]. intros e. apply src_event_mono.
             ++ destruct (scan (pfbad tns) (w_store w) tns rest cfg' retry); auto. destruct Hsc as [-> Htr]. split; [reflexivity|].
                constructor; [|assumption]. apply (tracked_mono tns w1); auto. split; [assumption|]. now rewrite El'.
          -- injection H as <- <- <-. repeat split; auto.
        * destruct Hc as (-> & -> & Est). destruct (s_opt s).
          -- destruct (get_values w1 tns rest cfg true) as [[w2 e2] res] eqn:E2. injection H as <- <- <-.
             destruct (IH _ _ _ _ _ _ E2) as (Ht2 & He2 & Hst2 & Hw2 & Hoth2 & Hev2 & Hsc).
             rewrite <- (scan_store_le _ _ _ _ _ Hst) in Hsc.
             repeat split; try congruence.
             ++ eapply store_le_trans; eauto.
             ++ intros kd o0 Hx. auto.
             ++ intros kd o0 Hne. rewrite Hoth2, Hoth; auto.
             ++ apply (proj2 (Forall_app _ [EWatch (s_kind s)] e2)). split; [assumption|]. eapply Forall_impl; [|exact Hev2]. intros e. apply src_event_mono.
             ++ destruct (scan (pfbad tns) (w_store w) tns rest cfg true); auto. destruct Hsc as [-> Htr]. split; [reflexivity|].
                constructor; [|assumption]. apply (tracked_mono tns w1); auto. split; [assumption|]. rewrite Est, El. exact I.
          -- injection H as <- <- <-. repeat split; auto.
  Qed.

  (** ** templateReconciler.Reconcile: the complete case table in terms of [scan] *)
  Definition rq_of (retry : bool) : N := if retry then iv_opt else 0.

  Inductive rec_out (w : world) (t : tmpl) (w1 : world) (e1 : list ev) : world -> list ev -> tmpl -> N -> N -> Prop :=
  | RO_bad :
      scan (pfbad (t_ns t)) (w_store w) (t_ns t) (t_sources t) [] false = ScBad \/
      scan (pfbad (t_ns t)) (w_store w) (t_ns t) (t_sources t) [] false = ScKey ->
      rec_out w t w1 e1 w1 e1 (set_invalid t 1) 0 0
  | RO_missing :
      scan (pfbad (t_ns t)) (w_store w) (t_ns t) (t_sources t) [] false = ScMissing ->
      rec_out w t w1 e1 w1 e1 (set_invalid t 1) iv_res 0
  | RO_tmplerr cfg retry :
      scan (pfbad (t_ns t)) (w_store w) (t_ns t) (t_sources t) [] false = ScOk cfg retry ->
      Forall (tracked (t_ns t) w1) (t_sources t) ->
      template_object t cfg (w_env w) = TTmplErr ->
      rec_out w t w1 e1 w1 e1 (set_invalid t 2) (rq_of retry) 0
  | RO_yamlerr cfg retry :
      scan (pfbad (t_ns t)) (w_store w) (t_ns t) (t_sources t) [] false = ScOk cfg retry ->
      Forall (tracked (t_ns t) w1) (t_sources t) ->
      template_object t cfg (w_env w) = TYamlErr ->
      rec_out w t w1 e1 w1 e1 t (rq_of retry) 1
  | RO_tgterr cfg retry :
      scan (pfbad (t_ns t)) (w_store w) (t_ns t) (t_sources t) [] false = ScOk cfg retry ->
      Forall (tracked (t_ns t) w1) (t_sources t) ->
      template_object t cfg (w_env w) = TSrcErr ->
      rec_out w t w1 e1 w1 e1 (set_invalid t 1) (rq_of retry) 0
  | RO_create cfg retry k body :
      scan (pfbad (t_ns t)) (w_store w) (t_ns t) (t_sources t) [] false = ScOk cfg retry ->
      Forall (tracked (t_ns t) w1) (t_sources t) ->
      template_object t cfg (w_env w) = TObj k body ->
      cache_get (w_store w1) k = None -> create_res (w_store w1) k = WOk ->
      rec_out w t w1 e1
        (with_store (with_watch w1 (add_watch (k_kind k) me (w_watch w1))) (upsert k (new_target body) (w_store w1)))
        (e1 ++ [EWatch (k_kind k); ECreate k body WOk]) (set_invalid t 0) (rq_of retry) 0
  | RO_create_fail cfg retry k body r :
      scan (pfbad (t_ns t)) (w_store w) (t_ns t) (t_sources t) [] false = ScOk cfg retry ->
      Forall (tracked (t_ns t) w1) (t_sources t) ->
      template_object t cfg (w_env w) = TObj k body ->
      cache_get (w_store w1) k = None -> create_res (w_store w1) k = r -> r <> WOk ->
      rec_out w t w1 e1 (with_watch w1 (add_watch (k_kind k) me (w_watch w1)))
        (e1 ++ [EWatch (k_kind k); ECreate k body r]) t (rq_of retry) 2
  | RO_conds_fail cfg retry k body ex :
      scan (pfbad (t_ns t)) (w_store w) (t_ns t) (t_sources t) [] false = ScOk cfg retry ->
      Forall (tracked (t_ns t) w1) (t_sources t) ->
      template_object t cfg (w_env w) = TObj k body ->
      cache_get (w_store w1) k = Some ex -> copy_conds t ex = None ->
      rec_out w t w1 e1 (with_watch w1 (add_watch (k_kind k) me (w_watch w1)))
        (e1 ++ [EWatch (k_kind k); ECacheHit (nkey k) (o_data ex)]) t (rq_of retry) 4
  | RO_update cfg retry k body ex cs :
      scan (pfbad (t_ns t)) (w_store w) (t_ns t) (t_sources t) [] false = ScOk cfg retry ->
      Forall (tracked (t_ns t) w1) (t_sources t) ->
      template_object t cfg (w_env w) = TObj k body ->
      cache_get (w_store w1) k = Some ex -> copy_conds t ex = Some cs -> update_res k = WOk ->
      rec_out w t w1 e1
        (with_store (with_watch w1 (add_watch (k_kind k) me (w_watch w1))) (upsert (nkey k) (updated_target ex body) (w_store w1)))
        (e1 ++ [EWatch (k_kind k); ECacheHit (nkey k) (o_data ex); EUpdate k (merge_meta (o_data ex) body) WOk])
        (set_invalid (set_ctrlof (set_conds t cs) (Some k)) 0) (rq_of retry) 0
  | RO_update_fail cfg retry k body ex cs r :
      scan (pfbad (t_ns t)) (w_store w) (t_ns t) (t_sources t) [] false = ScOk cfg retry ->
      Forall (tracked (t_ns t) w1) (t_sources t) ->
      template_object t cfg (w_env w) = TObj k body ->
      cache_get (w_store w1) k = Some ex -> copy_conds t ex = Some cs -> update_res k = r -> r <> WOk ->
      rec_out w t w1 e1 (with_watch w1 (add_watch (k_kind k) me (w_watch w1)))
        (e1 ++ [EWatch (k_kind k); ECacheHit (nkey k) (o_data ex); EUpdate k (merge_meta (o_data ex) body) r]) t (rq_of retry) 3.

  (** What the source phase leaves behind. *)
  Record src_phase (w : world) (tns : N) (srcs : list source) (w1 : world) (e1 : list ev) : Prop := {
    sp_tmpl : w_tmpl w1 = w_tmpl w;
    sp_env : w_env w1 = w_env w;
    sp_store : store_le (w_store w) (w_store w1);
    sp_watch : mono_watch (w_watch w) (w_watch w1);
    sp_others : forall kd o, o <> me -> watched kd o (w_watch w1) = watched kd o (w_watch w);
    sp_events : Forall (src_event tns srcs) e1
  }.

  Lemma reconcile_cases w t w' evs t' rq err :
    reconcile_tmpl w t = (w', evs, t', rq, err) ->
    exists w1 e1, src_phase w (t_ns t) (t_sources t) w1 e1 /\ rec_out w t w1 e1 w' evs t' rq err.
  Proof.
    unfold Template.reconcile_tmpl. intros H.
    destruct (get_values w (t_ns t) (t_sources t) [] false) as [[w1 e1] vr] eqn:Ev.
    destruct (get_values_spec _ _ _ _ _ _ _ _ Ev) as (Ht & He & Hst & Hw & Hoth & Hev & Hsc).
    exists w1, e1. split; [constructor; assumption|].
    destruct (scan (pfbad (t_ns t)) (w_store w) (t_ns t) (t_sources t) [] false) as [| | |cfg retry] eqn:Esc.
    - subst vr. injection H as <- <- <- <- <-. apply RO_bad. now left.
    - subst vr. injection H as <- <- <- <- <-. now apply RO_missing.
    - subst vr. injection H as <- <- <- <- <-. apply RO_bad. now right.
    - destruct Hsc as [-> Htr]. rewrite He in H. fold (rq_of retry) in H.
      destruct (template_object t cfg (w_env w)) as [| | |k body] eqn:Eto.
      + injection H as <- <- <- <- <-. eapply RO_tmplerr; eauto.
      + injection H as <- <- <- <- <-. eapply RO_yamlerr; eauto.
      + injection H as <- <- <- <- <-. eapply RO_tgterr; eauto.
      + cbn [w_store with_watch] in H. destruct (cache_get (w_store w1) k) as [ex|] eqn:Ec.
        * destruct (copy_conds t ex) as [cs|] eqn:Ecc.
          -- destruct (update_res k) eqn:Eu; injection H as <- <- <- <- <-;
               solve [eapply RO_update; eauto | eapply RO_update_fail; eauto; rewrite ?Eu; discriminate].
          -- injection H as <- <- <- <- <-. eapply RO_conds_fail; eauto.
        * destruct (create_res (w_store w1) k) eqn:Ecr; injection H as <- <- <- <- <-;
            solve [eapply RO_create; eauto | eapply RO_create_fail; eauto; rewrite ?Ecr; discriminate].
  Qed.

  Lemma pass_live w t : w_tmpl w = Some t -> t_del t = false ->
    pass w = let '(w1, e1, t1, rq, err) := reconcile_tmpl (with_tmpl w (Some (set_fin t true))) (set_fin t true) in
             if err =? 0
             then (with_tmpl w1 (Some t1), {| p_evs := (if t_fin t then [] else [EFinAdd]) ++ e1 ++ [EStatus]; p_requeue := rq; p_err := 0 |})
             else (w1, {| p_evs := (if t_fin t then [] else [EFinAdd]) ++ e1; p_requeue := rq; p_err := err |}).
  Proof. intros H Hd. unfold Template.pass. rewrite H, Hd. reflexivity. Qed.

  (** ** Facts about the events of the source phase *)
  Lemma src_events_no_writes tns srcs e1 : Forall (src_event tns srcs) e1 -> target_writes e1 = [].
  Proof.
    induction 1 as [|e l He _ IH]; [reflexivity|]. change (e :: l) with ([e] ++ l). rewrite target_writes_app, IH.
    destruct He as (s & _ & _ & [-> | [(d & ->) | (d & ->)]]); reflexivity.
  Qed.

  Lemma src_events_patches tns srcs e1 : Forall (src_event tns srcs) e1 ->
    forall k, In k (label_patches e1) -> exists s, In s srcs /\ pfbad tns s = false /\ k = nkey (src_key tns s).
  Proof.
    induction 1 as [|e l He _ IH]; intros k Hin; [contradiction|].
    change (e :: l) with ([e] ++ l) in Hin. rewrite label_patches_app in Hin. apply in_app_or in Hin.
    destruct Hin as [Hin|Hin]; [|now apply IH].
    destruct He as (s & Hs & Hb & [-> | [(d & ->) | (d & ->)]]); cbn in Hin; try contradiction.
    destruct Hin as [<-|[]]. eauto.
  Qed.

  Lemma watch_calls_app a b : watch_calls (a ++ b) = watch_calls a ++ watch_calls b.
  Proof. unfold watch_calls. apply flat_map_app. Qed.

  Lemma src_events_watches tns srcs e1 : Forall (src_event tns srcs) e1 ->
    forall kd, In kd (watch_calls e1) -> exists s, In s srcs /\ pfbad tns s = false /\ kd = s_kind s.
  Proof.
    induction 1 as [|e l He _ IH]; intros kd Hin; [contradiction|].
    change (e :: l) with ([e] ++ l) in Hin. rewrite watch_calls_app in Hin. apply in_app_or in Hin.
    destruct Hin as [Hin|Hin]; [|now apply IH].
    destruct He as (s & Hs & Hb & [-> | [(d & ->) | (d & ->)]]); cbn in Hin; try contradiction.
    destruct Hin as [<-|[]]. eauto.
  Qed.

  (** ** One pass of a live (not deleting) ObjectTemplate *)
  Lemma pass_cases w t w' r : w_tmpl w = Some t -> t_del t = false -> pass w = (w', r) ->
    exists w1 e1 w2 e2 t2 rq err,
      src_phase (with_tmpl w (Some (set_fin t true))) (t_ns t) (t_sources t) w1 e1 /\
      rec_out (with_tmpl w (Some (set_fin t true))) (set_fin t true) w1 e1 w2 e2 t2 rq err /\
      ((err = 0 /\ w' = with_tmpl w2 (Some t2) /\
        r = {| p_evs := (if t_fin t then [] else [EFinAdd]) ++ e2 ++ [EStatus]; p_requeue := rq; p_err := 0 |}) \/
       (err <> 0 /\ w' = w2 /\
        r = {| p_evs := (if t_fin t then [] else [EFinAdd]) ++ e2; p_requeue := rq; p_err := err |})).
  Proof.
    intros Ht Hd H. rewrite (pass_live _ _ Ht Hd) in H.
    destruct (reconcile_tmpl (with_tmpl w (Some (set_fin t true))) (set_fin t true)) as [[[[w2 e2] t2] rq] err] eqn:Er.
    destruct (reconcile_cases _ _ _ _ _ _ _ Er) as (w1 & e1 & Hsp & Hout).
    exists w1, e1, w2, e2, t2, rq, err. split; [exact Hsp|]. split; [exact Hout|].
    destruct (err =? 0) eqn:E0; injection H as <- <-.
    - apply N.eqb_eq in E0. subst. left. auto.
    - apply N.eqb_neq in E0. right. auto.
  Qed.

  Lemma tobj_inv t cfg env k body : template_object t cfg env = TObj k body ->
    exists k0 orefs, render (t_code t) cfg env = RObj k0 body orefs /\ pf_violation (t_ns t) k0 orefs = false /\ k = eff_key (t_ns t) k0.
  Proof.
    unfold Template.template_object. destruct (render (t_code t) cfg env) as [| |k0 b orefs]; try discriminate.
    destruct (pf_violation (t_ns t) k0 orefs) eqn:E; [discriminate|]. intros H. injection H as <- <-. eauto.
  Qed.

  Lemma writes_frame (e0 e2 tl : list ev) : target_writes e0 = [] -> target_writes tl = [] ->
    target_writes (e0 ++ e2 ++ tl) = target_writes e2.
  Proof. intros H0 H1. now rewrite !target_writes_app, H0, H1, app_nil_r. Qed.
  Lemma e0_no_writes (b : bool) : target_writes (if b then [] else [EFinAdd]) = [].
  Proof. now destruct b. Qed.
  Lemma e0_no_patches (b : bool) : label_patches (if b then [] else [EFinAdd]) = [].
  Proof. now destruct b. Qed.

  (** What the API server admits for a write: no namespace on a cluster-scoped kind. *)
  Definition admitted (k : key) : Prop := scope_of (k_kind k) = Some false -> k_ns k = 0.
  Lemma create_ok_admitted st k : create_res st k = WOk -> admitted k.
  Proof.
    unfold Template.create_res, admitted. intros H E. rewrite E in H. cbn in H.
    destruct (k_ns k =? 0) eqn:E0; cbn in H; [now apply N.eqb_eq in E0|discriminate].
  Qed.
  Lemma update_ok_admitted k : update_res k = WOk -> admitted k.
  Proof.
    unfold Template.update_res, admitted. intros H E. rewrite E in H.
    destruct (k_ns k =? 0) eqn:E0; cbn in H; [now apply N.eqb_eq in E0|discriminate].
  Qed.
  Lemma admitted_nkey k : admitted k -> nkey k = k.
  Proof.
    unfold admitted, Template.nkey. destruct (scope_of (k_kind k)) as [[|]|]; auto. intros H. specialize (H eq_refl).
    destruct k as [[a b] c]. unfold k_ns in H. cbn in *. now subst.
  Qed.

  Lemma update_ok_nkey k : update_res k = WOk -> nkey k = k.
  Proof.
    unfold Template.update_res, Template.nkey. destruct (scope_of (k_kind k)) as [[|]|]; auto.
    destruct (k_ns k =? 0) eqn:E; cbn; [|discriminate]. intros _. apply N.eqb_eq in E.
    destruct k as [[a b] c]. unfold k_ns in E. cbn in *. now subst.
  Qed.

  Lemma tracked_after_write tns w1 s kd k o :
    o_label o = true -> tracked tns w1 s ->
    tracked tns (with_store (with_watch w1 (add_watch kd me (w_watch w1))) (upsert k o (w_store w1))) s.
  Proof.
    intros Hl [H1 H2]. split; cbn.
    - now apply watched_add_mono.
    - rewrite lookup_upsert. destruct (key_eqb (nkey (src_key tns s)) k); assumption.
  Qed.
  Lemma tracked_with_tmpl tns w x s : tracked tns (with_tmpl w x) s <-> tracked tns w s.
  Proof. unfold tracked. cbn. tauto. Qed.
  Lemma tracked_with_watch tns w kd s : tracked tns w s -> tracked tns (with_watch w (add_watch kd me (w_watch w))) s.
  Proof. intros [H1 H2]. split; cbn; [now apply watched_add_mono|assumption]. Qed.

  (** The outcome table of a live pass. [w1] is the world after the source phase. *)
  Definition same_spec (a b : tmpl) : Prop :=
    t_ns a = t_ns b /\ t_sources a = t_sources b /\ t_code a = t_code b /\ t_gen a = t_gen b /\ t_del a = t_del b /\ t_fin b = true.

  Lemma pass_table w t w' r : w_tmpl w = Some t -> t_del t = false -> pass w = (w', r) ->
    let tns := t_ns t in
    let sc := scan (pfbad tns) (w_store w) tns (t_sources t) [] false in
    let t0 := set_fin t true in
    exists st1,
      store_le (w_store w) st1 /\ mono_watch (w_watch w) (w_watch w') /\
      (forall kd o, o <> me -> watched kd o (w_watch w') = watched kd o (w_watch w)) /\ w_env w' = w_env w /\
      (forall k, In k (label_patches (p_evs r)) -> exists s, In s (t_sources t) /\ pfbad tns s = false /\ k = nkey (src_key tns s)) /\
      (exists t', w_tmpl w' = Some t' /\ same_spec t t') /\
      (((sc = ScBad \/ sc = ScKey \/ sc = ScMissing) /\ target_writes (p_evs r) = [] /\ p_err r = 0 /\
        p_requeue r = (match sc with ScMissing => iv_res | _ => 0 end) /\ w_tmpl w' = Some (set_invalid t0 1) /\ w_store w' = st1)
       \/
       (exists cfg retry, sc = ScOk cfg retry /\ p_requeue r = rq_of retry /\ Forall (tracked tns w') (t_sources t) /\
          ((template_object t cfg (w_env w) = TTmplErr /\ target_writes (p_evs r) = [] /\ p_err r = 0 /\
            w_tmpl w' = Some (set_invalid t0 2) /\ w_store w' = st1)
           \/ (template_object t cfg (w_env w) = TYamlErr /\ target_writes (p_evs r) = [] /\ p_err r = 1 /\
               w_tmpl w' = Some t0 /\ w_store w' = st1)
           \/ (template_object t cfg (w_env w) = TSrcErr /\ target_writes (p_evs r) = [] /\ p_err r = 0 /\
               w_tmpl w' = Some (set_invalid t0 1) /\ w_store w' = st1)
           \/ (exists k body o, template_object t cfg (w_env w) = TObj k body /\ target_writes (p_evs r) = [(k, o_data o)] /\ p_err r = 0 /\
                 (exists t', w_tmpl w' = Some t' /\ t_invalid t' = 0) /\
                 w_store w' = upsert k o st1 /\ follows (o_data o) body = true /\ o_label o = true /\ watched (k_kind k) me (w_watch w') = true /\
                 admitted k /\ o_conds o = [] /\ o_sobs o = None)
           \/ (exists k body, template_object t cfg (w_env w) = TObj k body /\ target_writes (p_evs r) = [] /\
                 (p_err r = 2 \/ p_err r = 3 \/ p_err r = 4) /\ w_tmpl w' = Some t0 /\ w_store w' = st1 /\
                 ((cache_get st1 k = None /\ create_res st1 k <> WOk) \/
                  (exists ex, cache_get st1 k = Some ex /\ (update_res k <> WOk \/ copy_conds t0 ex = None))))))).
  Proof.
    intros Ht Hd H tns sc t0.
    destruct (pass_cases _ _ _ _ Ht Hd H) as (w1 & e1 & w2 & e2 & t2 & rq & err & Hsp & Hout & Hfin).
    destruct Hsp as [Hst Hse Hss Hsw Hso Hsev]. cbn [w_tmpl w_env w_store w_watch with_tmpl] in *.
    pose proof (src_events_no_writes _ _ _ Hsev) as Hnw. pose proof (src_events_patches _ _ _ Hsev) as Hpt.
    assert (Hspec0 : forall i, same_spec t (set_invalid t0 i)) by (intros i; unfold same_spec, t0; cbn; auto 10).
    assert (Hspec1 : same_spec t t0) by (unfold same_spec, t0; cbn; auto 10).
    exists (w_store w1).
    assert (Hpatch : forall tl, label_patches tl = [] ->
              forall k, In k (label_patches ((if t_fin t then [] else [EFinAdd]) ++ (e1 ++ tl) ++ [EStatus])) \/
                        In k (label_patches ((if t_fin t then [] else [EFinAdd]) ++ (e1 ++ tl))) ->
              exists s, In s (t_sources t) /\ pfbad tns s = false /\ k = nkey (src_key tns s)).
    { intros tl Htl k Hin. apply Hpt. rewrite !label_patches_app, e0_no_patches, Htl in Hin. cbn in Hin.
      rewrite !app_nil_r in Hin. tauto. }
    assert (Hwr : forall tl, target_writes ((if t_fin t then [] else [EFinAdd]) ++ (e1 ++ tl) ++ [EStatus]) = target_writes tl /\
                             target_writes ((if t_fin t then [] else [EFinAdd]) ++ (e1 ++ tl)) = target_writes tl).
    { intros tl. rewrite !target_writes_app, e0_no_writes, Hnw. cbn. now rewrite app_nil_r. }
    pose proof (Hpatch [] eq_refl) as Hp0. pose proof (Hwr []) as Hw0. rewrite !app_nil_r in Hp0, Hw0. destruct Hw0 as [Hw0 Hw0'].
    destruct Hout as [Hsc | Hsc | cfg retry Hsc Htr Hto | cfg retry Hsc Htr Hto | cfg retry Hsc Htr Hto
                     | cfg retry k body Hsc Htr Hto Hcg Hcr | cfg retry k body wr Hsc Htr Hto Hcg Hcr Hne
                     | cfg retry k body ex Hsc Htr Hto Hcg Hcc
                     | cfg retry k body ex cs Hsc Htr Hto Hcg Hcc Hur | cfg retry k body ex cs wr Hsc Htr Hto Hcg Hcc Hur Hne];
      cbn [t_ns t_sources set_fin w_store w_env with_tmpl] in Hsc; fold tns in Hsc; fold sc in Hsc;
      try (cbn [t_ns t_sources set_fin w_store w_env with_tmpl] in Htr, Hto);
      (destruct Hfin as [(He0 & -> & ->)|(He0 & -> & ->)]; [|try congruence]); try congruence;
      cbn [w_tmpl w_env w_store w_watch with_tmpl with_store with_watch p_evs p_requeue p_err].
    - (* bad / key *)
      repeat split; auto; [eauto|]. left. rewrite Hw0. repeat split; auto; [tauto|]. destruct Hsc as [-> | ->]; reflexivity.
    - (* missing *)
      repeat split; auto; [eauto|]. left. rewrite Hw0, Hsc. repeat split; auto.
    - (* template error *)
      repeat split; auto; [eauto|]. right. exists cfg, retry. split; [assumption|]. split; [reflexivity|]. split; [exact Htr|].
      left. rewrite Hw0. auto.
    - (* yaml error *)
      repeat split; auto; [eauto|]. right. exists cfg, retry. split; [assumption|]. split; [reflexivity|]. split; [exact Htr|].
      right; left. rewrite Hw0'. auto.
    - (* target rejected by preflight *)
      repeat split; auto; [eauto|]. right. exists cfg, retry. split; [assumption|]. split; [reflexivity|]. split; [exact Htr|].
      right; right; left. rewrite Hw0. auto.
    - (* create *)
      repeat split; auto.
      + intros kd o Hw. apply watched_add_mono. auto.
      + intros kd o Hne. rewrite watched_add, (Hso kd o Hne). apply N.eqb_neq in Hne. rewrite (N.eqb_sym me o), Hne, andb_false_r, orb_false_r. reflexivity.
      + intros k0 Hin. apply (Hpatch [EWatch (k_kind k); ECreate k body WOk] eq_refl k0). now left.
      + eauto.
      + right. exists cfg, retry. split; [assumption|]. split; [reflexivity|]. split.
        * eapply Forall_impl; [|exact Htr]. intros s Hs. apply tracked_with_tmpl. now apply tracked_after_write.
        * right; right; right; left. exists k, body, (new_target body).
          destruct (Hwr [EWatch (k_kind k); ECreate k body WOk]) as [-> _]. repeat split; auto; try (cbn; apply follows_refl).
          -- eexists. split; [reflexivity|]. reflexivity.
          -- apply watched_add_same.
          -- eapply create_ok_admitted; eauto.
    - (* create rejected *)
      repeat split; auto.
      + intros kd o Hw. apply watched_add_mono. auto.
      + intros kd o Hne'. rewrite watched_add, (Hso kd o Hne'). apply N.eqb_neq in Hne'. rewrite (N.eqb_sym me o), Hne', andb_false_r, orb_false_r. reflexivity.
      + intros k0 Hin. apply (Hpatch [EWatch (k_kind k); ECreate k body wr] eq_refl k0). now right.
      + eauto.
      + right. exists cfg, retry. split; [assumption|]. split; [reflexivity|]. split.
        * eapply Forall_impl; [|exact Htr]. intros s Hs. now apply tracked_with_watch.
        * right; right; right; right. exists k, body.
          destruct (Hwr [EWatch (k_kind k); ECreate k body wr]) as [_ ->]. repeat split; auto.
          -- destruct wr; try reflexivity. congruence.
          -- left. split; [assumption|congruence].
    - (* malformed condition on the existing target *)
      repeat split; auto.
      + intros kd o Hw. apply watched_add_mono. auto.
      + intros kd o Hne'. rewrite watched_add, (Hso kd o Hne'). apply N.eqb_neq in Hne'. rewrite (N.eqb_sym me o), Hne', andb_false_r, orb_false_r. reflexivity.
      + intros k0 Hin. apply (Hpatch [EWatch (k_kind k); ECacheHit (nkey k) (o_data ex)] eq_refl k0). now right.
      + eauto.
      + right. exists cfg, retry. split; [assumption|]. split; [reflexivity|]. split.
        * eapply Forall_impl; [|exact Htr]. intros s Hs. now apply tracked_with_watch.
        * right; right; right; right. exists k, body.
          destruct (Hwr [EWatch (k_kind k); ECacheHit (nkey k) (o_data ex)]) as [_ ->]. repeat split; auto.
          right. exists ex. split; [assumption|now right].
    - (* update *)
      rewrite (update_ok_nkey _ Hur).
      repeat split; auto.
      + intros kd o Hw. apply watched_add_mono. auto.
      + intros kd o Hne. rewrite watched_add, (Hso kd o Hne). apply N.eqb_neq in Hne. rewrite (N.eqb_sym me o), Hne, andb_false_r, orb_false_r. reflexivity.
      + intros k0 Hin. apply (Hpatch [EWatch (k_kind k); ECacheHit k (o_data ex); EUpdate k (merge_meta (o_data ex) body) WOk] eq_refl k0). now left.
      + eexists. split; [reflexivity|]. unfold same_spec; cbn; auto 10.
      + right. exists cfg, retry. split; [assumption|]. split; [reflexivity|]. split.
        * eapply Forall_impl; [|exact Htr]. intros s Hs. apply tracked_with_tmpl. now apply tracked_after_write.
        * right; right; right; left. exists k, body, (updated_target ex body).
          destruct (Hwr [EWatch (k_kind k); ECacheHit k (o_data ex); EUpdate k (merge_meta (o_data ex) body) WOk]) as [-> _]. repeat split; auto; try (cbn; apply follows_merge).
          -- eexists. split; [reflexivity|]. reflexivity.
          -- apply watched_add_same.
          -- now apply update_ok_admitted.
    - (* update rejected *)
      repeat split; auto.
      + intros kd o Hw. apply watched_add_mono. auto.
      + intros kd o Hne'. rewrite watched_add, (Hso kd o Hne'). apply N.eqb_neq in Hne'. rewrite (N.eqb_sym me o), Hne', andb_false_r, orb_false_r. reflexivity.
      + intros k0 Hin. apply (Hpatch [EWatch (k_kind k); ECacheHit (nkey k) (o_data ex); EUpdate k (merge_meta (o_data ex) body) wr] eq_refl k0). now right.
      + eauto.
      + right. exists cfg, retry. split; [assumption|]. split; [reflexivity|]. split.
        * eapply Forall_impl; [|exact Htr]. intros s Hs. now apply tracked_with_watch.
        * right; right; right; right. exists k, body.
          destruct (Hwr [EWatch (k_kind k); ECacheHit (nkey k) (o_data ex); EUpdate k (merge_meta (o_data ex) body) wr]) as [_ ->]. repeat split; auto.
          -- destruct wr; try reflexivity. congruence.
          -- right. exists ex. split; [assumption|left; congruence].
  Qed.

  (** * The clauses of C18, per pass, for an arbitrary pre-state *)

  (** Facts about [scan] *)
  Lemma scan_bad_not_ok bad st tns srcs : (exists s, In s srcs /\ bad s = true) ->
    forall cfg retry c rt, scan bad st tns srcs cfg retry <> ScOk c rt.
  Proof.
    induction srcs as [|s r IH]; intros (s0 & Hin & Hb) cfg retry c rt; [contradiction|]. cbn.
    destruct (bad s) eqn:Eb; [discriminate|].
    destruct Hin as [->|Hin]; [congruence|].
    destruct (lookup (nkey (src_key tns s)) st).
    - destruct (copy_items (s_items s) o cfg); [|discriminate]. apply IH; eauto.
    - destruct (s_opt s); [|discriminate]. apply IH; eauto.
  Qed.

  Lemma scan_required_missing bad st tns srcs :
    (exists s, In s srcs /\ s_opt s = false /\ lookup (nkey (src_key tns s)) st = None) ->
    forall cfg retry c rt, scan bad st tns srcs cfg retry <> ScOk c rt.
  Proof.
    induction srcs as [|s r IH]; intros (s0 & Hin & Ho & Hl) cfg retry c rt; [contradiction|]. cbn.
    destruct (bad s); [discriminate|].
    destruct Hin as [->|Hin].
    - rewrite Hl, Ho. discriminate.
    - destruct (lookup (nkey (src_key tns s)) st).
      + destruct (copy_items (s_items s) o cfg); [|discriminate]. apply IH; eauto.
      + destruct (s_opt s); [|discriminate]. apply IH; eauto.
  Qed.

  (** retry is set exactly when some (optional) source is missing *)
  Lemma scan_retry_mono bad st tns srcs : forall cfg c rt, scan bad st tns srcs cfg true = ScOk c rt -> rt = true.
  Proof.
    induction srcs as [|s r IH]; intros cfg c rt; cbn; [congruence|].
    destruct (bad s); [discriminate|]. destruct (lookup (nkey (src_key tns s)) st).
    - destruct (copy_items (s_items s) o cfg); [|discriminate]. apply IH.
    - destruct (s_opt s); [|discriminate]. apply IH.
  Qed.
  Lemma scan_retry_missing bad st tns srcs : forall cfg retry c,
    scan bad st tns srcs cfg retry = ScOk c true -> retry = true \/
    exists s, In s srcs /\ s_opt s = true /\ lookup (nkey (src_key tns s)) st = None.
  Proof.
    induction srcs as [|s r IH]; intros cfg retry c; cbn; [intros H; injection H; auto|].
    destruct (bad s); [discriminate|]. destruct (lookup (nkey (src_key tns s)) st) eqn:El.
    - destruct (copy_items (s_items s) o cfg); [|discriminate]. intros H. destruct (IH _ _ _ H) as [?|(s0 & ? & ? & ?)]; eauto 6.
    - destruct (s_opt s) eqn:Eo; [|discriminate]. intros _. right. exists s. auto.
  Qed.
  Lemma scan_missing_retry bad st tns srcs : forall cfg retry c rt,
    (exists s, In s srcs /\ lookup (nkey (src_key tns s)) st = None) ->
    scan bad st tns srcs cfg retry = ScOk c rt -> rt = true.
  Proof.
    induction srcs as [|s r IH]; intros cfg retry c rt (s0 & Hin & Hl); [contradiction|]. cbn.
    destruct (bad s); [discriminate|]. destruct Hin as [->|Hin].
    - rewrite Hl. destruct (s_opt s0); [|discriminate]. apply scan_retry_mono.
    - destruct (lookup (nkey (src_key tns s)) st).
      + destruct (copy_items (s_items s) o cfg); [|discriminate]. apply IH; eauto.
      + destruct (s_opt s); [|discriminate]. apply scan_retry_mono.
  Qed.

  Lemma scan_upsert_other bad st tns srcs k o : (forall s, In s srcs -> nkey (src_key tns s) <> k) ->
    forall cfg retry, scan bad (upsert k o st) tns srcs cfg retry = scan bad st tns srcs cfg retry.
  Proof.
    induction srcs as [|s r IH]; intros H cfg retry; cbn; [reflexivity|].
    destruct (bad s); [reflexivity|]. rewrite (lookup_upsert_other k _ o st (H s (or_introl eq_refl))).
    destruct (lookup (nkey (src_key tns s)) st).
    - destruct (copy_items (s_items s) o0 cfg); [|reflexivity]. apply IH. intros; apply H; now right.
    - destruct (s_opt s); [|reflexivity]. apply IH. intros; apply H; now right.
  Qed.

  (** The Watch calls of a live pass: kinds of admissible source references, then the kind of an admissible target. *)
  Lemma pass_watches w t w' r : w_tmpl w = Some t -> t_del t = false -> pass w = (w', r) ->
    forall kd, In kd (watch_calls (p_evs r)) ->
      (exists s, In s (t_sources t) /\ pfbad (t_ns t) s = false /\ kd = s_kind s) \/
      (exists cfg k0 body orefs, pf_violation (t_ns t) k0 orefs = false /\ kd = k_kind (eff_key (t_ns t) k0)
                                 /\ render (t_code t) cfg (w_env w) = RObj k0 body orefs).
  Proof.
    intros Ht Hd H kd Hin.
    destruct (pass_cases _ _ _ _ Ht Hd H) as (w1 & e1 & w2 & e2 & t2 & rq & err & Hsp & Hout & Hfin).
    destruct Hsp as [_ _ _ _ _ Hsev]. pose proof (src_events_watches _ _ _ Hsev) as Hsw.
    assert (He0 : watch_calls (if t_fin t then [] else [EFinAdd]) = []) by now destruct (t_fin t).
    assert (Hin2 : In kd (watch_calls e2)).
    { destruct Hfin as [(_ & _ & ->)|(_ & _ & ->)]; cbn [p_evs] in Hin; rewrite !watch_calls_app, He0 in Hin; cbn in Hin;
        rewrite ?app_nil_r in Hin; assumption. }
    clear Hin Hfin.
    assert (Htail : forall cfg k body tl, template_object (set_fin t true) cfg (w_env w) = TObj k body ->
              In kd (watch_calls (e1 ++ EWatch (k_kind k) :: tl)) -> watch_calls tl = [] ->
              (exists s, In s (t_sources t) /\ pfbad (t_ns t) s = false /\ kd = s_kind s) \/
              (exists cfg k0 body orefs, pf_violation (t_ns t) k0 orefs = false /\ kd = k_kind (eff_key (t_ns t) k0)
                                         /\ render (t_code t) cfg (w_env w) = RObj k0 body orefs)).
    { intros cfg k body tl Hto Hi Htl. rewrite watch_calls_app in Hi. apply in_app_or in Hi. destruct Hi as [Hi|Hi]; [left; now apply Hsw|].
      change (EWatch (k_kind k) :: tl) with ([EWatch (k_kind k)] ++ tl) in Hi. rewrite watch_calls_app, Htl in Hi.
      cbn in Hi. destruct Hi as [<-|[]]. right.
      destruct (tobj_inv _ _ _ _ _ Hto) as (k0 & orefs & Hr & Hpf & ->). exists cfg, k0, body, orefs. auto. }
    destruct Hout; cbn [w_env with_tmpl t_ns t_sources set_fin] in *; try (left; now apply Hsw);
      eapply Htail; eauto; destruct r0; reflexivity.
  Qed.

  Section LivePass.
    Variables (w : world) (t : tmpl) (w' : world) (r : pres).
    Hypothesis Ht : w_tmpl w = Some t.
    Hypothesis Hd : t_del t = false.
    Hypothesis Hp : pass w = (w', r).
    Let tns := t_ns t.
    Let sc := scan (pfbad tns) (w_store w) tns (t_sources t) [] false.

    Ltac table := destruct (pass_table _ _ _ _ Ht Hd Hp) as
      (st1 & Hle & Hmw & Hoth & Henv & Hpatch & (t' & Ht' & Hspec) & Hcase); fold tns in Hle, Hmw, Hoth, Hpatch, Hcase; fold sc in Hcase.
    Ltac cases_of Hcase := destruct Hcase as
      [(Hsc & Hwr & Herr & Hrq & Htm & Hst)
      |(cfg1 & retry1 & Hsc & Hrq & Htr &
         [(Hto & Hwr & Herr & Htm & Hst) | [(Hto & Hwr & Herr & Htm & Hst) | [(Hto & Hwr & Herr & Htm & Hst)
         | [(kk & bb & oo & Hto & Hwr & Herr & (t'' & Htm & Hinv) & Hst & Hod & Hol & Hwk & Hadm & Hoc & Hos)
           | (kk & bb & Hto & Hwr & Herr & Htm & Hst & Hwhy)]]]])].

    (** output_is_render: whatever a pass writes to the target is the template rendered with the values
        it read from the sources in this very pass (and the environment), at the key the template
        denotes; and it writes at most one object. *)
    Theorem output_is_render k d : In (k, d) (target_writes (p_evs r)) ->
      exists cfg retry k0 body orefs,
        sc = ScOk cfg retry /\ render (t_code t) cfg (w_env w) = RObj k0 body orefs /\ follows d body = true /\
        pf_violation tns k0 orefs = false /\ k = eff_key tns k0 /\ target_writes (p_evs r) = [(k, d)].
    Proof.
      intros Hin. table. cases_of Hcase; rewrite Hwr in Hin; try contradiction.
      destruct Hin as [E|[]]. injection E as <- <-.
      destruct (tobj_inv _ _ _ _ _ Hto) as (k0 & orefs & Hr & Hpf & Hk). exists cfg1, retry1, k0, bb, orefs. auto 10.
    Qed.

    (** ... and conversely: if the sources are all readable and the rendered object is admissible, the pass
        writes exactly that object or ends in an error (which controller-runtime retries). *)
    Theorem render_is_output cfg retry k0 d orefs :
      sc = ScOk cfg retry -> render (t_code t) cfg (w_env w) = RObj k0 d orefs -> pf_violation tns k0 orefs = false ->
      p_err r <> 0 \/ exists d', target_writes (p_evs r) = [(eff_key tns k0, d')] /\ follows d' d = true.
    Proof.
      intros Hs Hr Hpf. table.
      assert (Hto' : template_object t cfg (w_env w) = TObj (eff_key tns k0) d).
      { unfold Template.template_object. rewrite Hr. fold tns. rewrite Hpf. reflexivity. }
      cases_of Hcase; try (rewrite Hs in Hsc; (destruct Hsc as [?|[?|?]]; discriminate) || (injection Hsc as <- <-; congruence)).
      - rewrite Hs in Hsc. injection Hsc as <- <-. rewrite Hto' in Hto. injection Hto as <- <-. right. eauto.
      - left. destruct Herr as [-> | [-> | ->]]; discriminate.
    Qed.

    (** required_missing_no_write: a required source that does not exist: nothing is written, the pass
        reports Invalid/SourceError and returns no error. *)
    Theorem required_missing_no_write :
      (exists s, In s (t_sources t) /\ s_opt s = false /\ lookup (nkey (src_key tns s)) (w_store w) = None) ->
      target_writes (p_evs r) = [] /\ p_err r = 0 /\ exists t', w_tmpl w' = Some t' /\ t_invalid t' = 1.
    Proof.
      intros Hm. table. pose proof (scan_required_missing (pfbad tns) _ _ _ Hm [] false) as Hno. fold sc in Hno.
      cases_of Hcase; try (exfalso; eapply Hno; eauto; fail). repeat split; auto. eexists. split; [exact Htm|reflexivity].
    Qed.

    (** ... and when the missing source is what stops the collection, the pass asks to be requeued after
        the resource retry interval. *)
    Theorem required_missing_requeue : sc = ScMissing ->
      p_requeue r = iv_res /\ target_writes (p_evs r) = [] /\ p_err r = 0 /\ exists t', w_tmpl w' = Some t' /\ t_invalid t' = 1.
    Proof.
      intros Hs. table. cases_of Hcase; try (rewrite Hs in Hsc; discriminate).
      rewrite Hs in Hrq. repeat split; auto. eexists. split; [exact Htm|reflexivity].
    Qed.

    (** optional_missing_retry: all required sources readable, some optional one missing: the pass asks
        to be requeued after the optional retry interval and still writes the render of the remaining
        sources (or ends in an error / an Invalid report if that render is not admissible). *)
    Theorem optional_missing_retry cfg : sc = ScOk cfg true ->
      p_requeue r = iv_opt /\
      (exists s, In s (t_sources t) /\ s_opt s = true /\ lookup (nkey (src_key tns s)) (w_store w) = None) /\
      forall k0 d orefs, render (t_code t) cfg (w_env w) = RObj k0 d orefs -> pf_violation tns k0 orefs = false ->
        p_err r <> 0 \/ exists d', target_writes (p_evs r) = [(eff_key tns k0, d')] /\ follows d' d = true.
    Proof.
      intros Hs. split; [|split].
      - table. cases_of Hcase; try (rewrite Hs in Hsc; (destruct Hsc as [?|[?|?]]; discriminate)); rewrite Hs in Hsc; injection Hsc as <- <-; exact Hrq.
      - destruct (scan_retry_missing _ _ _ _ _ _ _ Hs) as [?|?]; [discriminate|assumption].
      - intros k0 d orefs. now apply (render_is_output cfg true).
    Qed.
    Theorem missing_means_retry cfg retry : sc = ScOk cfg retry ->
      (exists s, In s (t_sources t) /\ lookup (nkey (src_key tns s)) (w_store w) = None) -> retry = true.
    Proof. intros Hs Hm. eapply scan_missing_retry; eauto. Qed.

    (** unparsable_no_write: a template that does not parse or execute: nothing written, Invalid/TemplateError. *)
    Theorem unparsable_no_write cfg retry : sc = ScOk cfg retry -> render (t_code t) cfg (w_env w) = RTmplErr ->
      target_writes (p_evs r) = [] /\ p_err r = 0 /\ p_requeue r = rq_of retry /\ exists t', w_tmpl w' = Some t' /\ t_invalid t' = 2.
    Proof.
      intros Hs Hr. table.
      assert (Hto' : template_object t cfg (w_env w) = TTmplErr) by (unfold Template.template_object; now rewrite Hr).
      cases_of Hcase; try (rewrite Hs in Hsc; (destruct Hsc as [?|[?|?]]; discriminate)); rewrite Hs in Hsc; injection Hsc as <- <-; try congruence.
      repeat split; auto. eexists. split; [exact Htm|reflexivity].
    Qed.
    (** A template that fails on every input writes nothing whatever the sources are, and Invalid is set. *)
    Theorem unparsable_never_writes : (forall cfg env, render (t_code t) cfg env = RTmplErr) ->
      target_writes (p_evs r) = [] /\ p_err r = 0 /\ exists t', w_tmpl w' = Some t' /\ (t_invalid t' = 1 \/ t_invalid t' = 2).
    Proof.
      intros Hall. table.
      cases_of Hcase; try (unfold Template.template_object in Hto; rewrite Hall in Hto; discriminate).
      - repeat split; auto. eexists. split; [exact Htm|]. now left.
      - repeat split; auto. eexists. split; [exact Htm|]. now right.
    Qed.
    (** Output that is not YAML: nothing written; this is a plain error (retried), not an Invalid report. *)
    Theorem nonyaml_no_write cfg retry : sc = ScOk cfg retry -> render (t_code t) cfg (w_env w) = RYamlErr ->
      target_writes (p_evs r) = [] /\ p_err r = 1.
    Proof.
      intros Hs Hr. table.
      assert (Hto' : template_object t cfg (w_env w) = TYamlErr) by (unfold Template.template_object; now rewrite Hr).
      cases_of Hcase; try (rewrite Hs in Hsc; (destruct Hsc as [?|[?|?]]; discriminate)); rewrite Hs in Hsc; injection Hsc as <- <-; try congruence.
      auto.
    Qed.

    (** namespace_bound, part that holds unconditionally: every object a pass writes lies inside the bounds
        (namespaced kind in the template's namespace, for a namespaced template). *)
    Theorem writes_in_bounds k d : In (k, d) (target_writes (p_evs r)) -> in_bounds tns k = true.
    Proof.
      intros Hin. table. cases_of Hcase; rewrite Hwr in Hin; try contradiction. destruct Hin as [E|[]]. injection E as <- <-.
      destruct (tobj_inv _ _ _ _ _ Hto) as (k0 & orefs & Hr & Hpf & ->). fold tns in Hpf, Hadm.
      unfold admitted in Hadm. fold tns. unfold Template.in_bounds, is_namespaced.
      assert (Ek : k_kind (eff_key tns k0) = k_kind k0) by reflexivity.
      assert (En : tns =? 0 = false -> k_ns (eff_key tns k0) = tns) by (intros E; unfold eff_key, k_ns; cbn; now rewrite E).
      rewrite Ek in *. unfold Template.pf_violation in Hpf.
      destruct (scope_of (k_kind k0)) as [[|]|] eqn:Es; try discriminate.
      - destruct (tns =? 0) eqn:E0; [reflexivity|]. rewrite (En eq_refl). cbn. apply N.eqb_refl.
      - destruct (tns =? 0) eqn:E0; [reflexivity|]. specialize (Hadm eq_refl). rewrite (En eq_refl) in Hadm.
        apply N.eqb_neq in E0. congruence.
    Qed.

    (** Every label patch goes to a source reference that passed the implementation's check. *)
    Theorem patches_are_checked k : In k (label_patches (p_evs r)) ->
      exists s, In s (t_sources t) /\ pfbad tns s = false /\ k = nkey (src_key tns s).
    Proof. intros Hin. table. auto. Qed.

    (** namespace_bound, source side: label patches stay inside the bounds, and a source outside the bounds
        (other namespace, cluster-scoped kind, unknown API) stops the pass before it is looked up: nothing
        written, Invalid/SourceError. *)
    Lemma pfbad_is_bad s : pfbad tns s = src_bad tns s.
    Proof. now rewrite src_bad_pf. Qed.

    Theorem patches_in_bounds k : In k (label_patches (p_evs r)) -> in_bounds tns k = true.
    Proof.
      intros Hin. destruct (patches_are_checked k Hin) as (s & Hs & Hb & ->).
      apply not_bad_in_bounds. now rewrite <- pfbad_is_bad.
    Qed.

    Theorem source_out_of_bounds_no_write : (exists s, In s (t_sources t) /\ src_bad tns s = true) ->
      target_writes (p_evs r) = [] /\ p_err r = 0 /\ exists t', w_tmpl w' = Some t' /\ t_invalid t' = 1.
    Proof.
      intros (s & Hin & Hb). table.
      assert (Hno : forall c rt, sc <> ScOk c rt).
      { apply scan_bad_not_ok. exists s. split; [assumption|]. now rewrite pfbad_is_bad. }
      cases_of Hcase; try (exfalso; eapply Hno; eauto; fail). repeat split; auto. eexists. split; [exact Htm|reflexivity].
    Qed.

    (** ... so whatever is written was collected from admissible sources only *)
    Theorem writes_only_from_admissible_sources k d : In (k, d) (target_writes (p_evs r)) ->
      forall s, In s (t_sources t) -> src_bad tns s = false.
    Proof.
      intros Hin s Hs. destruct (src_bad tns s) eqn:Eb; [|reflexivity].
      destruct source_out_of_bounds_no_write as (Hw & _); [eauto|]. rewrite Hw in Hin. contradiction.
    Qed.

    (** namespace_bound, target side *)
    Theorem target_out_of_bounds_no_write cfg retry k0 d orefs :
      sc = ScOk cfg retry -> render (t_code t) cfg (w_env w) = RObj k0 d orefs -> tgt_bad tns k0 orefs = true ->
      target_writes (p_evs r) = [] /\ p_err r = 0 /\ exists t', w_tmpl w' = Some t' /\ t_invalid t' = 1.
    Proof.
      intros Hs Hr Hb. table. rewrite bad_pf in Hb.
      assert (Hto' : template_object t cfg (w_env w) = TSrcErr).
      { unfold Template.template_object. rewrite Hr. fold tns. now rewrite Hb. }
      cases_of Hcase; try (rewrite Hs in Hsc; (destruct Hsc as [?|[?|?]]; discriminate)); rewrite Hs in Hsc; injection Hsc as <- <-; try congruence.
      repeat split; auto. eexists. split; [exact Htm|reflexivity].
    Qed.

    (** namespace_bound, cache side: a namespaced template only ever asks the cache to watch namespaced kinds *)
    Theorem watches_in_bounds kd : tns <> 0 -> In kd (watch_calls (p_evs r)) -> is_namespaced scope_of kd = true.
    Proof.
      intros Hns Hin. destruct (pass_watches _ _ _ _ Ht Hd Hp kd Hin) as [(s & Hs & Hb & ->)|(cfg & k0 & body & orefs & Hpf & -> & _)].
      - fold tns in Hb. unfold pfbad, Template.pf_violation, ns_escalation, is_namespaced in *. cbn [k_kind fst snd] in Hb.
        apply N.eqb_neq in Hns. rewrite Hns in Hb. destruct (scope_of (s_kind s)) as [[|]|]; try reflexivity; try discriminate.
        cbn in Hb. now rewrite orb_true_r in Hb.
      - fold tns in Hpf |- *. change (k_kind (eff_key tns k0)) with (k_kind k0).
        unfold Template.pf_violation, ns_escalation, is_namespaced in *.
        apply N.eqb_neq in Hns. rewrite Hns in Hpf. destruct (scope_of (k_kind k0)) as [[|]|]; try reflexivity; try discriminate.
        cbn [negb] in Hpf. rewrite !orb_true_r in Hpf. discriminate.
    Qed.

    (** tracks_sources: after a successful pass (no error, no Invalid) the template is in the cache's
        owner set of every source kind, and every existing source carries the cache label. *)
    Theorem tracks_sources : p_err r = 0 -> (exists t', w_tmpl w' = Some t' /\ t_invalid t' = 0) ->
      Forall (tracked tns w') (t_sources t).
    Proof.
      intros He (tx & Htx & Hix). table.
      cases_of Hcase; try (rewrite Htm in Htx; injection Htx as <-; cbn in Hix; discriminate); try assumption;
        try (rewrite Herr in He; discriminate); try (destruct Herr as [E|[E|E]]; rewrite E in He; discriminate).
    Qed.

    (** quiescent (per pass): after a successful pass the stored target is the template rendered with the
        sources as they are now, provided the pass did not write onto one of the template's own sources. *)
    Theorem success_equals_render : p_err r = 0 -> (exists t', w_tmpl w' = Some t' /\ t_invalid t' = 0) ->
      (forall k d, In (k, d) (target_writes (p_evs r)) -> forall s, In s (t_sources t) -> nkey (src_key tns s) <> k) ->
      exists t' k d o, w_tmpl w' = Some t' /\ expected t' (w_store w') (w_env w') = Some (k, d) /\
        lookup k (w_store w') = Some o /\ follows (o_data o) d = true /\ o_label o = true /\ target_writes (p_evs r) = [(k, o_data o)].
    Proof.
      intros He (tx & Htx & Hix) Hself. table.
      cases_of Hcase; try (rewrite Htm in Htx; injection Htx as <-; cbn in Hix; discriminate);
        try (rewrite Herr in He; discriminate); try (destruct Herr as [E|[E|E]]; rewrite E in He; discriminate).
      destruct Hspec as (Ens & Esrc & Ecode & _).
      destruct (tobj_inv _ _ _ _ _ Hto) as (k0 & orefs & Hr & Hpf & Ekk). fold tns in Hpf, Ekk.
      exists t', kk, bb, oo. split; [assumption|]. split; [|split; [|auto]].
      - unfold Template.expected. rewrite <- Ens, <- Esrc, <- Ecode, Henv, Hst. fold tns.
        rewrite <- (scan_ext (pfbad tns) (src_bad tns)) by (intros; now apply pfbad_is_bad).
        rewrite scan_upsert_other by (intros s Hs; apply (Hself kk (o_data oo)); [rewrite Hwr; now left|assumption]).
        rewrite <- (scan_store_le _ _ _ _ _ Hle). fold sc. rewrite Hsc, Hr.
        rewrite bad_pf, Hpf. now rewrite Ekk.
      - rewrite Hst. apply lookup_upsert_same.
    Qed.
  End LivePass.

  Lemma oob_not_in_bounds tns s : oob tns (s_kind s, s_ns s, s_name s) = true -> in_bounds tns (nkey (src_key tns s)) = false.
  Proof.
    unfold Template.oob, Template.in_bounds, is_namespaced. cbn [k_kind k_ns fst snd]. rewrite nkey_kind.
    change (k_kind (src_key tns s)) with (s_kind s). intros H. apply andb_true_iff in H. destruct H as [H0 H].
    apply negb_true_iff in H0. rewrite H0.
    destruct (scope_of (s_kind s)) as [[|]|] eqn:Es; try reflexivity. cbn in H. rewrite orb_false_r in H. apply negb_true_iff in H.
    apply orb_false_iff in H. destruct H as [H1 H2]. cbn.
    unfold Template.nkey, src_key. cbn [k_kind fst snd]. rewrite Es. unfold k_ns. cbn [fst snd]. now rewrite H1.
  Qed.

  (** ** namespace_bound, in full: a namespaced ObjectTemplate never label-patches, never has the cache watch
      and never copies values from a source that is cluster-scoped or in another namespace; never writes a
      target that is cluster-scoped or in another namespace; and reports either through Invalid/SourceError
      without returning an error. *)
  Theorem namespace_bound w t w' r : w_tmpl w = Some t -> t_del t = false -> pass w = (w', r) -> t_ns t <> 0 ->
    let tns := t_ns t in
    (forall k, In k (label_patches (p_evs r)) -> in_bounds tns k = true) /\
    (forall kd, In kd (watch_calls (p_evs r)) -> is_namespaced scope_of kd = true) /\
    (forall k d, In (k, d) (target_writes (p_evs r)) ->
       in_bounds tns k = true /\ forall s, In s (t_sources t) -> oob tns (s_kind s, s_ns s, s_name s) = false) /\
    ((exists s, In s (t_sources t) /\ oob tns (s_kind s, s_ns s, s_name s) = true) ->
       target_writes (p_evs r) = [] /\ p_err r = 0 /\ (exists t', w_tmpl w' = Some t' /\ t_invalid t' = 1) /\
       forall s, In s (t_sources t) -> oob tns (s_kind s, s_ns s, s_name s) = true ->
                 ~ In (nkey (src_key tns s)) (label_patches (p_evs r))) /\
    (forall cfg retry k0 d orefs,
       scan (pfbad tns) (w_store w) tns (t_sources t) [] false = ScOk cfg retry ->
       render (t_code t) cfg (w_env w) = RObj k0 d orefs -> oob tns k0 = true ->
       target_writes (p_evs r) = [] /\ p_err r = 0 /\ exists t', w_tmpl w' = Some t' /\ t_invalid t' = 1).
  Proof.
    intros Ht Hd Hp Hns tns. split; [|split; [|split; [|split]]].
    - intros k. now apply (patches_in_bounds _ _ _ _ Ht Hd Hp).
    - intros kd. now apply (watches_in_bounds _ _ _ _ Ht Hd Hp).
    - intros k d Hin. split; [now apply (writes_in_bounds _ _ _ _ Ht Hd Hp k d)|].
      intros s Hs. pose proof (writes_only_from_admissible_sources _ _ _ _ Ht Hd Hp k d Hin s Hs) as Hb.
      unfold Template.src_bad in Hb. now apply orb_false_iff in Hb.
    - intros (s0 & Hs0 & Ho0).
      destruct (source_out_of_bounds_no_write _ _ _ _ Ht Hd Hp) as (Hw & He & Hi).
      { exists s0. split; [assumption|]. unfold Template.src_bad. fold tns. now rewrite Ho0. }
      repeat split; auto. intros s Hs Ho Hin.
      pose proof (patches_in_bounds _ _ _ _ Ht Hd Hp _ Hin) as Hb. fold tns in Hb. rewrite (oob_not_in_bounds _ _ Ho) in Hb. discriminate.
    - intros cfg retry k0 d orefs Hs Hr Ho. apply (target_out_of_bounds_no_write _ _ _ _ Ht Hd Hp _ _ _ _ _ Hs Hr).
      unfold Template.tgt_bad. fold tns. rewrite Ho. now rewrite orb_true_r.
  Qed.

  (** ** Deleting pass *)
  Theorem delete_frees w t w' r : w_tmpl w = Some t -> t_del t = true -> pass w = (w', r) ->
    p_evs r = EFree :: (if t_fin t then [EFinRm] else []) /\ target_writes (p_evs r) = [] /\ label_patches (p_evs r) = [] /\
    p_err r = 0 /\ p_requeue r = 0 /\
    (forall kd, watched kd me (w_watch w') = false) /\
    (forall kd o, o <> me -> watched kd o (w_watch w') = watched kd o (w_watch w)) /\
    (t_fin t = true -> w_tmpl w' = None) /\ w_store w' = w_store w.
  Proof.
    intros Ht Hd H. unfold Template.pass in H. rewrite Ht, Hd in H.
    destruct (t_fin t); injection H as <- <-; cbn; repeat split; auto using watched_free_same;
      intros; try discriminate; now apply watched_free_other.
  Qed.

  Theorem absent_noop w : w_tmpl w = None -> pass w = (w, {| p_evs := []; p_requeue := 0; p_err := 0 |}).
  Proof. intros H. unfold Template.pass. now rewrite H. Qed.

  (** ** A change of a tracked source enqueues the template *)
  Theorem tracked_change_enqueues tns w s o :
    tracked tns w s -> lookup (nkey (src_key tns s)) (w_store w) = Some o ->
    snd (do_step w (@SDel code (nkey (src_key tns s)))) = OEnq true /\
    forall d lbl, d <> o_data o -> snd (do_step w (@SPut code (nkey (src_key tns s)) d lbl)) = OEnq true.
  Proof.
    intros [Hw Hl] Hlk. rewrite Hlk in Hl. unfold Template.do_step. rewrite Hlk. cbn [snd].
    unfold Template.enqueued. rewrite nkey_kind. change (k_kind (src_key tns s)) with (s_kind s). rewrite Hw, Hl.
    split; [reflexivity|]. intros d lbl Hne. destruct (data_eqb (o_data o) d) eqn:E; [|reflexivity].
    apply data_eqb_spec in E. congruence.
  Qed.

  (** Nothing but a visible event on a watched kind enqueues it. *)
  Theorem enqueue_needs_watch w k d lbl b : snd (do_step w (@SPut code k d lbl)) = OEnq b \/ snd (do_step w (@SDel code k)) = OEnq b ->
    b = true -> watched (k_kind k) me (w_watch w) = true.
  Proof.
    unfold Template.do_step, Template.enqueued. intros [H|H] ->.
    - destruct (lookup k (w_store w)); [destruct (data_eqb (o_data o) d)|]; cbn in H; try discriminate;
        injection H as H; apply andb_true_iff in H; tauto.
    - destruct (lookup k (w_store w)); cbn in H; try discriminate. injection H as H; apply andb_true_iff in H; tauto.
  Qed.

  (** The enqueue rule does not depend on the order in which the cache lists the owners of a kind, nor on owners
      other than the template (other templates of its kind, owners of other kinds sharing the cache):
      every watcher of the handler's kind is enqueued whatever stands before it in the list. *)
  Lemma watched_perm kd o a b : Permutation a b -> watched kd o a = watched kd o b.
  Proof.
    unfold watched. induction 1 as [|x l l' _ IH|x y l|l l' l'' _ IH1 _ IH2]; cbn; [reflexivity|now rewrite IH| |congruence].
    destruct ((fst y =? kd) && (snd y =? o)), ((fst x =? kd) && (snd x =? o)); reflexivity.
  Qed.

  Theorem enqueue_order_irrelevant w wl s :
    Permutation (w_watch w) wl -> (exists k d l, s = @SPut code k d l) \/ (exists k, s = @SDel code k) ->
    snd (do_step (with_watch w wl) s) = snd (do_step w s).
  Proof.
    intros Hp [(k & d & l & ->)|(k & ->)]; cbn [Template.do_step]; unfold note, Template.enqueued; cbn [w_store w_watch with_watch];
      rewrite <- (watched_perm _ _ _ _ Hp).
    - destruct (lookup k (w_store w)); [destruct (data_eqb (o_data o) d)|]; reflexivity.
    - destruct (lookup k (w_store w)); reflexivity.
  Qed.

  Theorem enqueue_ignores_other_owners kd kd' o' wl1 wl2 : o' <> me ->
    watched kd me (wl1 ++ (kd', o') :: wl2) = watched kd me (wl1 ++ wl2).
  Proof.
    intros Hne. rewrite !watched_app. f_equal. unfold watched at 1. cbn [existsb fst snd].
    apply N.eqb_neq in Hne. rewrite Hne, andb_false_r. reflexivity.
  Qed.

  (** * Histories *)
  Lemma final_app w a b : final w (a ++ b) = final (final w a) b.
  Proof. unfold Template.final. apply fold_left_app. Qed.

  Lemma run_app w a b : run w (a ++ b) = run w a ++ run (final w a) b.
  Proof.
    revert w. induction a as [|s a IH]; intros w; [reflexivity|]. cbn.
    destruct (do_step w s) as [w1 o] eqn:E. cbn. rewrite IH. reflexivity.
  Qed.

  (** The observation of the n-th step of a history is the step's result at the world the prefix leads to. *)
  Lemma run_snoc w ss s : run w (ss ++ [s]) = run w ss ++ [(snd (do_step (final w ss) s), fst (do_step (final w ss) s))].
  Proof. rewrite run_app. cbn. destruct (do_step (final w ss) s); reflexivity. Qed.

  Lemma final_snoc_pass w ss : final w (ss ++ [@SPass code]) = with_pending (fst (pass (final w ss))) false.
  Proof. rewrite final_app. unfold Template.final at 1. cbn. destruct (pass (final w ss)); reflexivity. Qed.

  (** quiescent_equals_render: in any history from any initial world, if the last step is a pass that
      succeeds (no error, no Invalid), then in the resulting world the target is the template rendered
      with the current sources and environment. *)
  Theorem quiescent_equals_render w0 ss t :
    let wp := final w0 ss in let w := final w0 (ss ++ [@SPass code]) in let r := snd (pass wp) in
    w_tmpl wp = Some t -> t_del t = false ->
    p_err r = 0 -> (exists t', w_tmpl w = Some t' /\ t_invalid t' = 0) ->
    (forall k d, In (k, d) (target_writes (p_evs r)) -> forall s, In s (t_sources t) -> nkey (src_key (t_ns t) s) <> k) ->
    exists t' k d o, w_tmpl w = Some t' /\ expected t' (w_store w) (w_env w) = Some (k, d) /\
                     lookup k (w_store w) = Some o /\ follows (o_data o) d = true /\ o_label o = true.
  Proof.
    intros wp w r Ht Hd He Hinv Hself. subst w. rewrite final_snoc_pass in *. fold wp in Hinv |- *.
    destruct (pass wp) as [w' r'] eqn:Ep. cbn [fst snd w_tmpl w_store w_env with_pending] in *. subst r.
    destruct (success_equals_render _ _ _ _ Ht Hd Ep He Hinv Hself) as (t' & k & d & o & H1 & H2 & H3 & H4 & H5 & _).
    exists t', k, d, o. auto.
  Qed.

  (** ** Stability: once the target equals the render, further passes (requeues, passes triggered by the
      controller's own writes) keep it so, as long as sources, environment and template stay as they are. *)
  Definition settled (w : world) : Prop :=
    exists t k d o,
      w_tmpl w = Some t /\ t_del t = false /\
      expected t (w_store w) (w_env w) = Some (k, d) /\ (forall s, In s (t_sources t) -> nkey (src_key (t_ns t) s) <> k) /\
      lookup k (w_store w) = Some o /\ follows (o_data o) d = true /\ o_label o = true /\ admitted k /\
      o_conds o = [].             (* no (possibly malformed) status conditions on the target: true after every write of the controller *)

  Lemma update_res_admitted k : admitted k -> update_res k = WOk.
  Proof.
    unfold admitted, Template.update_res. destruct (scope_of (k_kind k)) as [[|]|]; auto. intros H. rewrite (H eq_refl). reflexivity.
  Qed.

  Lemma copy_conds_nil (t : tmpl) o : o_conds o = [] -> copy_conds t o = Some (t_conds t).
  Proof. intros H. unfold copy_conds. rewrite H. destruct (match o_sobs o with Some g => negb (g =? t_gen t) | None => false end); reflexivity. Qed.

  Theorem settled_pass w w' r : settled w -> pass w = (w', r) ->
    settled w' /\ p_err r = 0 /\ (exists t', w_tmpl w' = Some t' /\ t_invalid t' = 0) /\
    exists t k d, w_tmpl w = Some t /\ expected t (w_store w) (w_env w) = Some (k, d) /\
                  expected t (w_store w') (w_env w') = Some (k, d) /\
                  exists d', target_writes (p_evs r) = [(k, d')] /\ follows d' d = true.
  Proof.
    intros (t & k & d & o & Ht & Hd & Hex & Hself & Hlk & Hod & Hol & Hadm & Hoc) Hp.
    destruct (pass_table _ _ _ _ Ht Hd Hp) as (st1 & Hle & Hmw & Hoth & Henv & Hpatch & (t' & Ht' & Hspec) & Hcase).
    set (tns := t_ns t) in *.
    assert (Hpb : forall s, In s (t_sources t) -> pfbad tns s = src_bad tns s) by (intros; now rewrite src_bad_pf).
    unfold Template.expected in Hex. fold tns in Hex.
    rewrite <- (scan_ext (pfbad tns) (src_bad tns)) in Hex by assumption.
    destruct (scan (pfbad tns) (w_store w) tns (t_sources t) [] false) as [| | |cfg rt] eqn:Esc; try discriminate.
    destruct (render (t_code t) cfg (w_env w)) as [| |k0 body orefs] eqn:Er; try discriminate.
    destruct (tgt_bad tns k0 orefs) eqn:Eb; [discriminate|]. injection Hex as <- <-.
    rewrite bad_pf in Eb. rename Eb into Hpf.
    assert (Hto : template_object t cfg (w_env w) = TObj (eff_key tns k0) body).
    { unfold Template.template_object. rewrite Er. fold tns. now rewrite Hpf. }
    assert (Hlk1 : exists y, lookup (eff_key tns k0) st1 = Some y /\ o_label y = true /\ o_conds y = []).
    { specialize (Hle (eff_key tns k0)). rewrite Hlk in Hle. destruct (lookup (eff_key tns k0) st1) as [y|]; [|contradiction].
      exists y. split; [reflexivity|]. destruct Hle as (_ & Hc & Hl). split; [auto|congruence]. }
    destruct Hlk1 as (y & Hy & Hyl & Hyc).
    assert (Hcg : cache_get st1 (eff_key tns k0) = Some y).
    { unfold Template.cache_get. rewrite (admitted_nkey _ Hadm), Hy, Hyl. reflexivity. }
    destruct Hcase as
      [(Hsc & _)
      |(cfg1 & retry1 & Hsc & Hrq & Htr &
         [(Hto1 & _) | [(Hto1 & _) | [(Hto1 & _)
         | [(kk & bb & oo & Hto1 & Hwr & Herr & (t'' & Htm & Hinv) & Hst & Hod1 & Hol1 & Hwk & Hadm1 & Hoc1 & Hos1)
           | (kk & bb & Hto1 & Hwr & Herr & Htm & Hst & Hwhy)]]]])];
      try (destruct Hsc as [?|[?|?]]; discriminate); injection Hsc as <- <-; try congruence.
    - (* written *)
      rewrite Hto in Hto1. injection Hto1 as <- <-.
      assert (Hex' : expected t (w_store w') (w_env w') = Some (eff_key tns k0, body)).
      { unfold Template.expected. rewrite Henv, Hst. fold tns.
        rewrite <- (scan_ext (pfbad tns) (src_bad tns)) by assumption.
        rewrite scan_upsert_other by assumption. rewrite <- (scan_store_le _ _ _ _ _ Hle), Esc, Er.
        rewrite bad_pf, Hpf. reflexivity. }
      destruct Hspec as (Ens & Esrc & Ecode & Egen & Edel & Efin).
      split; [|split; [assumption|split; [eauto|]]].
      + exists t', (eff_key tns k0), body, oo. rewrite <- Ens, <- Esrc. fold tns.
        split; [assumption|]. split; [congruence|]. split.
        { unfold Template.expected in *. rewrite <- Ens, <- Esrc, <- Ecode. exact Hex'. }
        split; [assumption|]. split; [rewrite Hst; apply lookup_upsert_same|]. auto.
      + exists t, (eff_key tns k0), body. split; [assumption|]. split; [|split; [assumption|eauto]].
        unfold Template.expected. fold tns. rewrite <- (scan_ext (pfbad tns) (src_bad tns)) by assumption.
        rewrite Esc, Er, bad_pf, Hpf. reflexivity.
    - (* a failed write is impossible: the target is in the cache, carries no conditions, and an update of it is admitted *)
      exfalso. rewrite Hto in Hto1. injection Hto1 as <- <-.
      destruct Hwhy as [(Hn & _)|(ex & Hex2 & [Hne|Hcc])]; [congruence| |].
      + apply Hne. now apply update_res_admitted.
      + rewrite Hcg in Hex2. injection Hex2 as <-. rewrite (copy_conds_nil _ _ Hyc) in Hcc. discriminate.
  Qed.

  (** A successful pass establishes [settled]. *)
  Theorem success_settles w t w' r : w_tmpl w = Some t -> t_del t = false -> pass w = (w', r) ->
    p_err r = 0 -> (exists t', w_tmpl w' = Some t' /\ t_invalid t' = 0) ->
    (forall k d, In (k, d) (target_writes (p_evs r)) -> forall s, In s (t_sources t) -> nkey (src_key (t_ns t) s) <> k) ->
    settled w'.
  Proof.
    intros Ht Hd Hp He Hinv Hself.
    destruct (success_equals_render _ _ _ _ Ht Hd Hp He Hinv Hself) as (t' & k & d & o & H1 & H2 & H3 & H4 & H5 & H6).
    destruct (pass_table _ _ _ _ Ht Hd Hp) as (st1 & _ & _ & _ & _ & _ & (t2 & Ht2 & Hspec) & Hcase).
    rewrite H1 in Ht2. injection Ht2 as <-. destruct Hspec as (Ens & Esrc & Ecode & Egen & Edel & Efin).
    assert (Hfacts : admitted k /\ o_conds o = []).
    { destruct Hcase as
        [(_ & Hwr & _)
        |(cfg1 & retry1 & _ & _ & _ &
           [(_ & Hwr & _) | [(_ & Hwr & _) | [(_ & Hwr & _)
           | [(kk & bb & oo & _ & Hwr & _ & _ & Hst & _ & _ & _ & Hadm1 & Hoc1 & _)
             | (kk & bb & _ & Hwr & _)]]]])]; rewrite H6 in Hwr; try discriminate.
      injection Hwr as Ek _. subst kk. rewrite Hst, lookup_upsert_same in H3. injection H3 as <-. auto. }
    destruct Hfacts as [Hadm Hoc].
    exists t', k, d, o. rewrite <- Ens, <- Esrc. repeat split; auto; try congruence.
    intros s Hs. apply (Hself k (o_data o)); [rewrite H6; now left|assumption].
  Qed.

  (** ... hence any number of further passes leaves the target equal to the render. *)
  Theorem quiescent_stable w n : settled w -> settled (final w (repeat (@SPass code) n)).
  Proof.
    revert w. induction n as [|n IH]; intros w Hs; [exact Hs|].
    cbn [repeat]. change (@SPass code :: repeat (@SPass code) n) with ([@SPass code] ++ repeat (@SPass code) n).
    rewrite final_app. apply IH. unfold Template.final. cbn. destruct (pass w) as [w' r] eqn:Ep. cbn.
    now destruct (settled_pass _ _ _ Hs Ep).
  Qed.

  (** tracks_sources composed with the enqueue mapper: after a successful pass, deleting or editing any
      existing source object enqueues the ObjectTemplate (given the informer delivers the event). *)
  Theorem source_change_schedules_pass w t w' r : w_tmpl w = Some t -> t_del t = false -> pass w = (w', r) ->
    p_err r = 0 -> (exists t', w_tmpl w' = Some t' /\ t_invalid t' = 0) ->
    forall s o, In s (t_sources t) -> lookup (nkey (src_key (t_ns t) s)) (w_store w') = Some o ->
      snd (do_step w' (@SDel code (nkey (src_key (t_ns t) s)))) = OEnq true /\
      forall d lbl, d <> o_data o -> snd (do_step w' (@SPut code (nkey (src_key (t_ns t) s)) d lbl)) = OEnq true.
  Proof.
    intros Ht Hd Hp He Hinv s o Hin Hlk.
    pose proof (tracks_sources _ _ _ _ Ht Hd Hp He Hinv) as Htr. rewrite Forall_forall in Htr.
    now apply tracked_change_enqueues; [apply Htr|].
  Qed.

  (** ** Quiescence proper. The cache label is three-valued; only the exact value "True" makes an object
      visible to the informers. After a successful pass in which every source exists, every source and the
      target carry exactly that value and their kinds are watched ([calm]); so any edit or deletion of a
      source (or of the target) enqueues the template. Contrapositive, over histories: if after such a pass
      only source-level steps happen and no request is left in the queue, nothing the template depends on
      has changed and the target still equals the render of the current sources. *)
  Lemma o_label_true o : o_label o = true <-> o_lbl o = LTrue.
  Proof. unfold o_label. destruct (o_lbl o); split; congruence. Qed.

  Lemma scan_lookup_ext bad st st' tns srcs :
    (forall s, In s srcs -> lookup (nkey (src_key tns s)) st' = lookup (nkey (src_key tns s)) st) ->
    forall cfg retry, scan bad st' tns srcs cfg retry = scan bad st tns srcs cfg retry.
  Proof.
    induction srcs as [|s r IH]; intros H cfg retry; cbn; [reflexivity|].
    destruct (bad s); [reflexivity|]. rewrite (H s (or_introl eq_refl)).
    destruct (lookup (nkey (src_key tns s)) st).
    - destruct (copy_items (s_items s) o cfg); [|reflexivity]. apply IH. intros; apply H; now right.
    - destruct (s_opt s); [|reflexivity]. apply IH. intros; apply H; now right.
  Qed.

  Definition calm (w : world) : Prop :=
    exists t k d o,
      w_tmpl w = Some t /\ t_del t = false /\
      expected t (w_store w) (w_env w) = Some (k, d) /\ (forall s, In s (t_sources t) -> nkey (src_key (t_ns t) s) <> k) /\
      lookup k (w_store w) = Some o /\ follows (o_data o) d = true /\ o_label o = true /\ admitted k /\ o_conds o = [] /\
      Forall (tracked (t_ns t) w) (t_sources t) /\
      (forall s, In s (t_sources t) -> lookup (nkey (src_key (t_ns t) s)) (w_store w) <> None) /\
      watched (k_kind k) me (w_watch w) = true.

  Lemma calm_settled w : calm w -> settled w.
  Proof. intros (t & k & d & o & H). exists t, k, d, o. tauto. Qed.

  (** in a calm world every source and the target carry the label with the exact value "True" *)
  Lemma calm_labels w : calm w ->
    exists t k o, w_tmpl w = Some t /\ lookup k (w_store w) = Some o /\ o_lbl o = LTrue /\
      forall s, In s (t_sources t) -> exists os, lookup (nkey (src_key (t_ns t) s)) (w_store w) = Some os /\ o_lbl os = LTrue.
  Proof.
    intros (t & k & d & o & Ht & _ & _ & _ & Hlk & _ & Hl & _ & _ & Htr & Hex & _). exists t, k, o.
    repeat split; auto; [now apply o_label_true|]. intros s Hs. rewrite Forall_forall in Htr. destruct (Htr s Hs) as [_ H2].
    specialize (Hex s Hs). destruct (lookup (nkey (src_key (t_ns t) s)) (w_store w)) as [os|]; [|contradiction].
    exists os. split; [reflexivity|now apply o_label_true].
  Qed.

  Lemma calm_transport w w' :
    w_tmpl w' = w_tmpl w -> w_env w' = w_env w -> w_watch w' = w_watch w ->
    (forall t k, w_tmpl w = Some t -> (k = k \/ True) ->
       forall q, (q = k \/ exists s, In s (t_sources t) /\ q = nkey (src_key (t_ns t) s)) -> True) ->
    calm w ->
    (forall t, w_tmpl w = Some t -> forall s, In s (t_sources t) ->
       lookup (nkey (src_key (t_ns t) s)) (w_store w') = lookup (nkey (src_key (t_ns t) s)) (w_store w)) ->
    (forall t k d, w_tmpl w = Some t -> expected t (w_store w) (w_env w) = Some (k, d) -> lookup k (w_store w') = lookup k (w_store w)) ->
    calm w'.
  Proof.
    intros Et Ee Ew _ (t & k & d & o & Ht & Hd & Hex & Hself & Hlk & Hod & Hol & Hadm & Hoc & Htr & Hall & Hwk) Hsrc Htgt.
    exists t, k, d, o. rewrite Et, Ee, Ew. repeat split; auto.
    - unfold Template.expected in *. rewrite (scan_lookup_ext _ _ _ _ _ (Hsrc t Ht)). exact Hex.
    - rewrite (Htgt t k d Ht Hex). exact Hlk.
    - rewrite Forall_forall in *. intros s Hs. destruct (Htr s Hs) as [H1 H2]. split; [now rewrite Ew|]. now rewrite (Hsrc t Ht s Hs).
    - intros s Hs. rewrite (Hsrc t Ht s Hs). now apply Hall.
  Qed.

  Lemma calm_with_pending w b : calm w -> calm (with_pending w b).
  Proof. intros H. exact H. Qed.

  (** a source-level step that does not enqueue the template leaves a calm world calm *)
  Lemma calm_quiet_step w s w' : calm w ->
    (exists k d l, s = @SPut code k d l) \/ (exists k, s = @SDel code k) ->
    do_step w s = (w', OEnq false) -> calm w'.
  Proof.
    intros Hc Hs Hstep. pose proof Hc as (t & k & d & o & Ht & Hd & Hex & Hself & Hlk & Hod & Hol & Hadm & Hoc & Htr & Hall & Hwk).
    rewrite Forall_forall in Htr.
    (* the key the step touches, the store after it, and the fact that a real change of a tracked key would have enqueued *)
    assert (Hgen : forall k0 st', 
              (forall q, q <> k0 -> lookup q st' = lookup q (w_store w)) ->
              (forall o0, lookup k0 (w_store w) = Some o0 -> o_label o0 && watched (k_kind k0) me (w_watch w) = false) ->
              (lookup k0 (w_store w) = None -> True) ->
              calm (with_pending (with_store w st') (w_pending w || false))).
    { intros k0 st' Hoth Hnoenq _. apply calm_with_pending.
      assert (Hk0src : forall s0, In s0 (t_sources t) -> nkey (src_key (t_ns t) s0) <> k0).
      { intros s0 Hs0 E. destruct (Htr s0 Hs0) as [H1 H2]. pose proof (Hall s0 Hs0) as Hne.
        destruct (lookup (nkey (src_key (t_ns t) s0)) (w_store w)) as [os|] eqn:El; [|contradiction].
        rewrite E in El. specialize (Hnoenq os El). rewrite <- E, nkey_kind in Hnoenq.
        change (k_kind (src_key (t_ns t) s0)) with (s_kind s0) in Hnoenq. rewrite H1, H2 in Hnoenq. discriminate. }
      assert (Hk0tgt : k <> k0).
      { intros E. subst k0. specialize (Hnoenq o Hlk). rewrite Hol, Hwk in Hnoenq. discriminate. }
      apply (calm_transport w); auto.
      - intros t1 Ht1 s0 Hs0. cbn. rewrite Ht in Ht1. injection Ht1 as <-. apply Hoth. now apply Hk0src.
      - intros t1 k1 d1 Ht1 Hex1. cbn. rewrite Ht in Ht1. injection Ht1 as <-. rewrite Hex in Hex1. injection Hex1 as <- <-.
        now apply Hoth. }
    destruct Hs as [(k0 & d0 & l0 & ->)|(k0 & ->)]; cbn [Template.do_step] in Hstep; unfold note in Hstep.
    - destruct (lookup k0 (w_store w)) as [o0|] eqn:El.
      + destruct (data_eqb (o_data o0) d0) eqn:Ed.
        * injection Hstep as <-. now apply calm_with_pending.
        * injection Hstep as <- Hb. unfold Template.enqueued in Hb.
          apply (Hgen k0); auto.
          -- intros q Hq. cbn. now apply lookup_upsert_other.
          -- intros o1 Ho1. rewrite El in Ho1. injection Ho1 as <-. exact Hb.
      + (* creation: the key is none of the template's (they all exist) *)
        injection Hstep as <- Hb. apply (Hgen k0); auto.
        * intros q Hq. cbn. now apply lookup_upsert_other.
        * intros o1 Ho1. rewrite El in Ho1. discriminate.
    - destruct (lookup k0 (w_store w)) as [o0|] eqn:El.
      + remember (remove k0 (w_store w)) as st' eqn:Est in Hstep.
        injection Hstep as <- Hb. unfold Template.enqueued in Hb. apply (Hgen k0); auto.
        * intros q Hq. cbn [w_store with_store]. subst st'. rewrite lookup_remove. apply key_eqb_neq in Hq. now rewrite Hq.
        * intros o1 Ho1. rewrite El in Ho1. injection Ho1 as <-. exact Hb.
      + injection Hstep as <-. now apply calm_with_pending.
  Qed.

  (** A suffix of source-level steps during which the worker finds nothing to do. *)
  Fixpoint quiet_run (w : world) (ss : list (step code)) : Prop :=
    match ss with
    | [] => True
    | s :: r =>
        match s with
        | SPut _ _ _ | SDel _ => True
        | SDrain => w_pending w = false
        | _ => False
        end /\ quiet_run (fst (do_step w s)) r
    end.

  Lemma quiet_pending_mono ss : forall w, quiet_run w ss -> w_pending w = true -> w_pending (final w ss) = true.
  Proof.
    induction ss as [|s r IH]; intros w Hq Hp; [exact Hp|]. destruct Hq as [Hs Hr].
    change (final w (s :: r)) with (final (fst (do_step w s)) r). apply IH; [exact Hr|].
    destruct s; try contradiction; cbn [Template.do_step]; unfold note.
    - destruct (lookup k (w_store w)); [destruct (data_eqb (o_data o) d)|]; cbn; now rewrite Hp.
    - destruct (lookup k (w_store w)); cbn; now rewrite Hp.
    - congruence.
  Qed.

  Theorem calm_quiet_suffix ss : forall w, calm w -> quiet_run w ss -> w_pending (final w ss) = false -> calm (final w ss).
  Proof.
    induction ss as [|s r IH]; intros w Hc Hq Hp; [exact Hc|]. destruct Hq as [Hs Hr].
    change (final w (s :: r)) with (final (fst (do_step w s)) r) in *.
    assert (Hp1 : w_pending (fst (do_step w s)) = false).
    { destruct (w_pending (fst (do_step w s))) eqn:E; [|reflexivity]. rewrite (quiet_pending_mono r _ Hr E) in Hp. discriminate. }
    apply IH; auto.
    destruct s; try contradiction.
    - destruct (do_step w (SPut k d lbl)) as [w1 o1] eqn:Es. cbn [fst] in *.
      assert (o1 = OEnq false).
      { cbn [Template.do_step] in Es. unfold note in Es.
        destruct (lookup k (w_store w)); [destruct (data_eqb (o_data o) d)|]; injection Es as <- <-; cbn in Hp1;
          apply orb_false_iff in Hp1; destruct Hp1 as [_ H]; rewrite ?H; reflexivity. }
      subst o1. apply (calm_quiet_step w (SPut k d lbl)); [assumption|left; eauto|exact Es].
    - destruct (do_step w (SDel k)) as [w1 o1] eqn:Es. cbn [fst] in *.
      assert (o1 = OEnq false).
      { cbn [Template.do_step] in Es. unfold note in Es.
        destruct (lookup k (w_store w)); injection Es as <- <-; cbn in Hp1;
          apply orb_false_iff in Hp1; destruct Hp1 as [_ H]; rewrite ?H; reflexivity. }
      subst o1. apply (calm_quiet_step w (SDel k)); [assumption|right; eauto|exact Es].
    - cbn [Template.do_step]. rewrite Hs. exact Hc.
  Qed.

  (** A successful pass in which every source exists establishes [calm]. *)
  Theorem success_calms w t w' r : w_tmpl w = Some t -> t_del t = false -> pass w = (w', r) ->
    p_err r = 0 -> (exists t', w_tmpl w' = Some t' /\ t_invalid t' = 0) ->
    (forall k d, In (k, d) (target_writes (p_evs r)) -> forall s, In s (t_sources t) -> nkey (src_key (t_ns t) s) <> k) ->
    (forall s, In s (t_sources t) -> lookup (nkey (src_key (t_ns t) s)) (w_store w') <> None) ->
    calm w'.
  Proof.
    intros Ht Hd Hp He Hinv Hself Hall.
    destruct (success_settles _ _ _ _ Ht Hd Hp He Hinv Hself) as (t' & k & d & o & H1 & H2 & H3 & H4 & H5 & H6 & H7 & H8 & H9).
    pose proof (tracks_sources _ _ _ _ Ht Hd Hp He Hinv) as Htr.
    destruct (pass_table _ _ _ _ Ht Hd Hp) as (st1 & _ & _ & _ & _ & _ & (t2 & Ht2 & Hspec) & Hcase).
    rewrite H1 in Ht2. injection Ht2 as <-. destruct Hspec as (Ens & Esrc & _).
    exists t', k, d, o. rewrite <- Ens, <- Esrc. repeat split; auto.
    - now rewrite Ens, Esrc.
    - destruct (success_equals_render _ _ _ _ Ht Hd Hp He Hinv Hself) as (tx & kx & dx & ox & X1 & X2 & _ & _ & _ & X6).
      rewrite H1 in X1. injection X1 as <-. rewrite H3 in X2. injection X2 as <- <-.
      destruct Hcase as
        [(_ & Hwr & _)
        |(cfg1 & retry1 & _ & _ & _ &
           [(_ & Hwr & _) | [(_ & Hwr & _) | [(_ & Hwr & _)
           | [(kk & bb & oo & _ & Hwr & _ & _ & _ & _ & _ & Hwk & _)
             | (kk & bb & _ & Hwr & _)]]]])]; rewrite X6 in Hwr; try discriminate.
      injection Hwr as <- _. exact Hwk.
  Qed.

  (** quiescent_equals_render over histories with a quiet suffix: a successful pass in which every source
      exists, then any number of source creations / edits / deletions and idle worker steps; if no request is
      pending at the end, the target equals the template rendered with the sources as they are at the end. *)
  Theorem quiescent_after_quiet_suffix w0 ss suffix t :
    let wp := final w0 ss in let r := snd (pass wp) in let w1 := with_pending (fst (pass wp)) false in
    w_tmpl wp = Some t -> t_del t = false -> p_err r = 0 -> (exists t', w_tmpl w1 = Some t' /\ t_invalid t' = 0) ->
    (forall k d, In (k, d) (target_writes (p_evs r)) -> forall s, In s (t_sources t) -> nkey (src_key (t_ns t) s) <> k) ->
    (forall s, In s (t_sources t) -> lookup (nkey (src_key (t_ns t) s)) (w_store w1) <> None) ->
    quiet_run w1 suffix ->
    let w := final w0 (ss ++ [@SPass code] ++ suffix) in
    w_pending w = false ->
    exists t' k d o, w_tmpl w = Some t' /\ expected t' (w_store w) (w_env w) = Some (k, d) /\
                     lookup k (w_store w) = Some o /\ follows (o_data o) d = true /\ o_lbl o = LTrue.
  Proof.
    intros wp r w1 Ht Hd He Hinv Hself Hall Hq w Hp. subst w.
    rewrite final_app, final_app in *. fold wp in Hp |- *.
    assert (E1 : final wp [@SPass code] = w1).
    { unfold Template.final. cbn. subst w1. destruct (pass wp); reflexivity. }
    rewrite E1 in *. subst w1 r. destruct (pass wp) as [w' r'] eqn:Ep. cbn [fst snd w_tmpl w_store with_pending] in *.
    pose proof (success_calms _ _ _ _ Ht Hd Ep He Hinv Hself Hall) as Hc.
    pose proof (calm_quiet_suffix suffix _ (calm_with_pending _ false Hc) Hq Hp) as (t' & k & d & o & H).
    exists t', k, d, o. repeat split; try tauto. apply o_label_true. tauto.
  Qed.

  (** ** The environment of a render. [w_env] is what templateObject hands to the template; along every
      history it is [view] of the sink state as it is NOW (stored environment + the HostedCluster of the
      template's namespace now): no step makes it depend on anything earlier reconciles did. *)
  Definition fresh (w : world) : Prop := w_env w = view (w_sink w).

  Lemma get_source_sink w tns s w' evs r : get_source w tns s = (w', evs, r) -> w_sink w' = w_sink w /\ w_env w' = w_env w.
  Proof.
    unfold Template.get_source. destruct (pf_violation tns (s_kind s, s_ns s, s_name s) false); [intros H; injection H as <- _ _; auto|].
    destruct (cache_get _ _); [intros H; injection H as <- _ _; auto|].
    destruct (lookup _ _); [|destruct (s_opt s)]; intros H; injection H as <- _ _; auto.
  Qed.
  Lemma get_values_sink tns srcs : forall w cfg retry w' evs r, get_values w tns srcs cfg retry = (w', evs, r) ->
    w_sink w' = w_sink w /\ w_env w' = w_env w.
  Proof.
    induction srcs as [|s rest IH]; intros w cfg retry w' evs r H; cbn in H; [injection H as <- _ _; auto|].
    destruct (get_source w tns s) as [[w1 e1] sr] eqn:Es. destruct (get_source_sink _ _ _ _ _ _ Es) as [H1 H2].
    destruct sr as [nf| |o].
    - injection H as <- _ _. auto.
    - destruct (get_values w1 tns rest cfg true) as [[w2 e2] res] eqn:E2. injection H as <- _ _.
      destruct (IH _ _ _ _ _ _ E2). split; congruence.
    - destruct (copy_items (s_items s) o cfg); [|injection H as <- _ _; auto].
      destruct (get_values w1 tns rest d retry) as [[w2 e2] res] eqn:E2. injection H as <- _ _.
      destruct (IH _ _ _ _ _ _ E2). split; congruence.
  Qed.
  Lemma reconcile_sink w t w' evs t' rq err : reconcile_tmpl w t = (w', evs, t', rq, err) -> w_sink w' = w_sink w /\ w_env w' = w_env w.
  Proof.
    unfold Template.reconcile_tmpl. destruct (get_values w (t_ns t) (t_sources t) [] false) as [[w1 e1] vr] eqn:Ev.
    destruct (get_values_sink _ _ _ _ _ _ _ _ Ev) as [H1 H2]. intros H.
    destruct vr; [injection H as <- _ _ _ _; auto|].
    destruct (template_object t cfg (w_env w1)); try (injection H as <- _ _ _ _; auto; fail).
    cbn [w_store with_watch] in H. destruct (cache_get (w_store w1) k).
    - destruct (copy_conds t o); [|injection H as <- _ _ _ _; auto]. destruct (update_res k); injection H as <- _ _ _ _; auto.
    - destruct (create_res (w_store w1) k); injection H as <- _ _ _ _; auto.
  Qed.
  Lemma pass_sink w w' r : pass w = (w', r) -> w_sink w' = w_sink w /\ w_env w' = w_env w.
  Proof.
    unfold Template.pass. destruct (w_tmpl w) as [t|]; [|intros H; injection H as <- _; auto].
    destruct (t_del t); [destruct (t_fin t); intros H; injection H as <- _; auto|].
    destruct (reconcile_tmpl _ _) as [[[[w1 e1] t1] rq] err] eqn:Er. destruct (reconcile_sink _ _ _ _ _ _ _ Er) as [H1 H2].
    destruct (err =? 0); intros H; injection H as <- _; auto.
  Qed.

  (** the same for a pass with third parties and faults: they act on the API server's objects only *)
  Lemma get_sourcex_facts a n w tns s w' evs r n' : get_sourcex a n w tns s = (w', evs, r, n') ->
    w_sink w' = w_sink w /\ w_env w' = w_env w /\ w_tmpl w' = w_tmpl w /\ target_writes evs = [] /\ (r = SXSkip -> s_opt s = true).
  Proof.
    unfold Template.get_sourcex, req. destruct (pf_violation tns (s_kind s, s_ns s, s_name s) false);
      [intros H; injection H as <- <- <- _; repeat split; auto; discriminate|].
    destruct (cache_get _ _); [intros H; injection H as <- <- <- _; repeat split; auto; discriminate|].
    cbn [w_store with_watch with_store].
    destruct (adv_fault a n) as [[|]|].
    - destruct (s_opt s) eqn:Eo; intros H; injection H as <- <- <- _; repeat split; auto; discriminate.
    - intros H; injection H as <- <- <- _; repeat split; auto; discriminate.
    - destruct (lookup _ _).
      + destruct (adv_fault a (n + 1)); [intros H; injection H as <- <- <- _; repeat split; auto; discriminate|].
        destruct (lookup _ _); intros H; injection H as <- <- <- _; repeat split; auto; discriminate.
      + destruct (s_opt s) eqn:Eo; intros H; injection H as <- <- <- _; repeat split; auto; discriminate.
  Qed.

  Lemma get_valuesx_facts a tns srcs : forall n w cfg retry w' evs vr n' rs,
    get_valuesx a n w tns srcs cfg retry = (w', evs, vr, n', rs) ->
    w_sink w' = w_sink w /\ w_env w' = w_env w /\ w_tmpl w' = w_tmpl w /\ target_writes evs = [] /\
    forall c rt, vr = VXOk c rt -> length rs = length srcs /\ cfg_of_reads srcs rs cfg = Some c.
  Proof.
    induction srcs as [|s rest IH]; intros n w cfg retry w' evs vr n' rs H; cbn in H.
    - injection H as <- <- <- _ <-. repeat split; auto; injection H as <- _; reflexivity.
    - destruct (get_sourcex a n w tns s) as [[[w1 e1] sr] n1] eqn:Es.
      destruct (get_sourcex_facts _ _ _ _ _ _ _ _ _ Es) as (S1 & S2 & S3 & S4 & S5).
      destruct sr as [nf|c0| |o].
      + injection H as <- <- <- _ <-. repeat split; auto; discriminate.
      + injection H as <- <- <- _ <-. repeat split; auto; discriminate.
      + destruct (get_valuesx a n1 w1 tns rest cfg true) as [[[[w2 e2] res] n2] rs2] eqn:E2. injection H as <- <- <- _ <-.
        destruct (IH _ _ _ _ _ _ _ _ _ E2) as (T1 & T2 & T3 & T4 & T5).
        split; [congruence|split; [congruence|split; [congruence|split; [now rewrite target_writes_app, S4, T4|]]]].
        intros cX rX Hc; destruct (T5 cX rX Hc) as [L C]. split; cbn; [now rewrite L|now rewrite (S5 eq_refl)].
      + destruct (copy_vals (s_items s) (o_data o) cfg) as [cfg'|] eqn:Ec.
        * destruct (get_valuesx a n1 w1 tns rest cfg' retry) as [[[[w2 e2] res] n2] rs2] eqn:E2. injection H as <- <- <- _ <-.
          destruct (IH _ _ _ _ _ _ _ _ _ E2) as (T1 & T2 & T3 & T4 & T5).
          split; [congruence|split; [congruence|split; [congruence|split; [now rewrite target_writes_app, S4, T4|]]]].
          intros cX rX Hc; destruct (T5 cX rX Hc) as [L C]. split; cbn; [now rewrite L|now rewrite Ec].
        * injection H as <- <- <- _ <-. repeat split; auto; discriminate.
  Qed.

  (** what a pass with third parties and faults writes, if anything, is the render of exactly what it read *)
  Definition rendered_reads (t : tmpl) (env : N) (rs : list (option data)) (k : key) (d : data) : Prop :=
    exists cfg k0 body orefs,
      length rs = length (t_sources t) /\ cfg_of_reads (t_sources t) rs [] = Some cfg /\
      render (t_code t) cfg env = RObj k0 body orefs /\ follows d body = true /\
      pf_violation (t_ns t) k0 orefs = false /\ k = eff_key (t_ns t) k0.

  Lemma reconcilex_facts a n w t w' evs t' rq err n' rs : reconcilex a n w t = (w', evs, t', rq, err, n', rs) ->
    w_sink w' = w_sink w /\ w_env w' = w_env w /\
    (target_writes evs = [] \/ exists k d, target_writes evs = [(k, d)] /\ rendered_reads t (w_env w) rs k d).
  Proof.
    unfold Template.reconcilex.
    destruct (get_valuesx a n w (t_ns t) (t_sources t) [] false) as [[[[w1 e1] vr] n1] rs1] eqn:Ev.
    destruct (get_valuesx_facts _ _ _ _ _ _ _ _ _ _ _ _ Ev) as (S1 & S2 & S3 & S4 & S5). intros H.
    destruct vr as [nf|c0|cfg retry]; try (injection H as <- <- _ _ _ _ <-; auto; fail).
    destruct (S5 cfg retry eq_refl) as [L C].
    destruct (template_object t cfg (w_env w1)) as [| | |k body] eqn:Eto; try (injection H as <- <- _ _ _ _ <-; auto; fail).
    rewrite S2 in Eto. destruct (tobj_inv _ _ _ _ _ Eto) as (k0 & orefs & Hr & Hpf & Hk).
    assert (Hrr : forall d, follows d body = true -> rendered_reads t (w_env w) rs1 k d) by (intros d Hf; exists cfg, k0, body, orefs; auto 10).
    cbn [w_store with_watch] in H. unfold req in H. cbn [w_store with_watch with_store] in H.
    destruct (cache_get (w_store w1) k) as [ex|].
    - destruct (copy_conds t ex).
      + destruct (adv_fault a n1); [|destruct (lookup (nkey k) _); [destruct (update_res k)|]];
          injection H as <- <- _ _ _ _ <-; (split; [assumption|split; [assumption|]]);
          rewrite target_writes_app, S4; cbn; try (left; reflexivity); right;
          eexists _, _; (split; [reflexivity|apply Hrr; (apply follows_refl || apply follows_merge)]).
      + injection H as <- <- _ _ _ _ <-. split; [assumption|split; [assumption|]]. left. now rewrite target_writes_app, S4.
    - destruct (adv_fault a n1); [|destruct (create_res _ k)];
        injection H as <- <- _ _ _ _ <-; (split; [assumption|split; [assumption|]]);
        rewrite target_writes_app, S4; cbn; try (left; reflexivity); right;
        eexists _, _; (split; [reflexivity|apply Hrr; (apply follows_refl || apply follows_merge)]).
  Qed.

  Theorem passx_reads a w t w' r rs : w_tmpl w = Some t -> passx a w = (w', r, rs) ->
    forall k d, In (k, d) (target_writes (p_evs r)) ->
      target_writes (p_evs r) = [(k, d)] /\ rendered_reads (set_fin t true) (w_env w) rs k d.
  Proof.
    intros Ht H k d Hin. unfold Template.passx, req in H. cbn [w_tmpl w_store w_watch with_store with_watch] in H.
    destruct (adv_fault a 0) as [[|]|]; try (injection H as _ <- _; contradiction).
    rewrite Ht in H. destruct (t_del t).
    - destruct (t_fin t); [destruct (adv_fault a 1)|]; injection H as _ <- _; contradiction.
    - destruct (t_fin t) eqn:Ef.
      + destruct (reconcilex a 1 _ (set_fin t true)) as [[[[[[w2 e1] t1] rq] err] n2] rs2] eqn:Er.
        destruct (reconcilex_facts _ _ _ _ _ _ _ _ _ _ _ Er) as (_ & _ & Hw). cbn [w_env with_tmpl with_store] in Hw.
        assert (Hev : target_writes (p_evs r) = target_writes e1 /\ rs = rs2).
        { destruct (err =? 0); [destruct (adv_fault a n2)|]; injection H as _ <- <-; cbn [p_evs];
            unfold target_writes; cbn; rewrite ?flat_map_app; cbn; rewrite ?app_nil_r; auto. }
        destruct Hev as [Hev ->]. rewrite Hev in Hin |- *.
        destruct Hw as [Hw|(k1 & d1 & Hw & Hrr)]; rewrite Hw in Hin |- *; [contradiction|].
        destruct Hin as [E|[]]. injection E as <- <-. auto.
      + destruct (adv_fault a 1); [injection H as _ <- _; contradiction|].
        destruct (reconcilex a 2 _ (set_fin t true)) as [[[[[[w2 e1] t1] rq] err] n2] rs2] eqn:Er.
        destruct (reconcilex_facts _ _ _ _ _ _ _ _ _ _ _ Er) as (_ & _ & Hw). cbn [w_env with_tmpl with_store] in Hw.
        assert (Hev : target_writes (p_evs r) = target_writes e1 /\ rs = rs2).
        { destruct (err =? 0); [destruct (adv_fault a n2)|]; injection H as _ <- <-; cbn [p_evs];
            unfold target_writes; cbn; rewrite ?flat_map_app; cbn; rewrite ?app_nil_r; auto. }
        destruct Hev as [Hev ->]. rewrite Hev in Hin |- *.
        destruct Hw as [Hw|(k1 & d1 & Hw & Hrr)]; rewrite Hw in Hin |- *; [contradiction|].
        destruct Hin as [E|[]]. injection E as <- <-. auto.
  Qed.

  (** a read that is missing for a required source rules out the write *)
  Lemma cfg_of_reads_required srcs : forall rs cfg c, cfg_of_reads srcs rs cfg = Some c ->
    forall i s, nth_error srcs i = Some s -> s_opt s = false -> exists d, nth_error rs i = Some (Some d).
  Proof.
    induction srcs as [|s0 r IH]; intros rs cfg c H i s Hi Ho; [destruct i; discriminate|].
    destruct rs as [|[d|] rr]; cbn in H; try discriminate.
    - destruct (copy_vals (s_items s0) d cfg) eqn:E; [|discriminate].
      destruct i; cbn in Hi |- *; [eauto|]. eapply IH; eauto.
    - destruct (s_opt s0) eqn:E0; [|discriminate].
      destruct i; cbn in Hi |- *; [injection Hi as <-; congruence|]. eapply IH; eauto.
  Qed.

  Lemma passx_sink a w w' r rs : passx a w = (w', r, rs) -> w_sink w' = w_sink w /\ w_env w' = w_env w.
  Proof.
    unfold Template.passx, req. cbn [w_tmpl w_store w_watch with_store with_watch].
    destruct (adv_fault a 0) as [[|]|]; try (intros H; injection H as <- _ _; auto; fail).
    destruct (w_tmpl w) as [t|]; [|intros H; injection H as <- _ _; auto].
    destruct (t_del t).
    - destruct (t_fin t); [destruct (adv_fault a 1)|]; intros H; injection H as <- _ _; auto.
    - destruct (t_fin t).
      + destruct (reconcilex a 1 _ _) as [[[[[[w2 e1] t1] rq] err] n2] rs2] eqn:Er.
        destruct (reconcilex_facts _ _ _ _ _ _ _ _ _ _ _ Er) as (H1 & H2 & _).
        destruct (err =? 0); [destruct (adv_fault a n2)|]; intros H; injection H as <- _ _; auto.
      + destruct (adv_fault a 1); [intros H; injection H as <- _ _; auto|].
        destruct (reconcilex a 2 _ _) as [[[[[[w2 e1] t1] rq] err] n2] rs2] eqn:Er.
        destruct (reconcilex_facts _ _ _ _ _ _ _ _ _ _ _ Er) as (H1 & H2 & _).
        destruct (err =? 0); [destruct (adv_fault a n2)|]; intros H; injection H as <- _ _; auto.
  Qed.

  Theorem fresh_step w s : fresh w -> fresh (fst (do_step w s)).
  Proof.
    unfold fresh. intros Hf. destruct s; cbn [Template.do_step]; unfold note.
    - destruct (lookup k (w_store w)); [destruct (data_eqb (o_data o) d)|]; exact Hf.
    - destruct (lookup k (w_store w)); exact Hf.
    - destruct (lookup k (w_store w)); exact Hf.
    - destruct (w_tmpl w); exact Hf.
    - destruct (w_tmpl w) as [t|]; [destruct (t_fin t)|]; exact Hf.
    - reflexivity.
    - reflexivity.
    - reflexivity.
    - exact Hf.
    - destruct (passx a w) as [[w' r] rs] eqn:Ep. destruct (passx_sink _ _ _ _ _ Ep) as [H1 H2]. cbn. congruence.
    - destruct (pass w) as [w' r] eqn:Ep. destruct (pass_sink _ _ _ Ep) as [H1 H2]. cbn. congruence.
    - destruct (w_pending w); [|exact Hf]. destruct (pass w) as [w' r] eqn:Ep. destruct (pass_sink _ _ _ Ep) as [H1 H2]. cbn. congruence.
  Qed.

  Theorem fresh_history ss : forall w, fresh w -> fresh (final w ss).
  Proof.
    induction ss as [|s r IH]; intros w Hf; [exact Hf|].
    change (final w (s :: r)) with (final (fst (do_step w s)) r). apply IH. now apply fresh_step.
  Qed.

  (** what another template of the same controller renders for the HyperShift part depends on the sink state
      now and its namespace only *)
  Theorem aux_render w ns : do_step w (@SAux code ns) = (w, OAux (hval (w_sink w) ns)).
  Proof. reflexivity. Qed.
End Proofs.

(** * History of the namespace clause. Against the namespace check as it was before aa47ee3
      ([ns_escalation_v0]: it returned as soon as the reference named the template's own namespace, before
      looking at the scope of the kind) the clause "a source or target outside the namespace is never
      read, patched or written and is reported through Invalid" was REFUTED, for the model and for the
      implementation (finding F-C18). Defect fixed by aa47ee3; with [ns_escalation] the clause is proved
      in full above and the same witnesses are rejected. *)
Module Witness.
  Definition scope (k : N) : option bool := if k =? 3 then Some false else Some true.   (* kind 3 is cluster-scoped *)
  Definition render_cm (_ : unit) (cfg : data) (_ : N) : rres := RObj (1, 0, 100) cfg false.
  Definition render_cluster (_ : unit) (cfg : data) (_ : N) : rres := RObj (3, 1, 100) cfg false.
  Definition thing : obj := {| o_data := [(1, 7)]; o_lbl := LAbsent; o_ctrl := 0; o_gen := 1; o_sobs := None; o_conds := [] |}.
  Definition cm : obj := {| o_data := [(1, 5)]; o_lbl := LAbsent; o_ctrl := 0; o_gen := 1; o_sobs := None; o_conds := [] |}.
  Definition tm (srcs : list source) : tmpl unit :=
    {| t_ns := 1; t_sources := srcs; t_code := tt; t_gen := 1; t_fin := false; t_del := false; t_invalid := 0;
       t_conds := []; t_ctrlof := None |}.
  (** a namespaced template in namespace 1 whose source is the cluster-scoped object 3/-/1, written as 3/1/1 *)
  Definition src_cluster : source := {| s_kind := 3; s_ns := 1; s_name := 1; s_opt := false; s_items := [(1, 1)] |}.
  Definition src_cm : source := {| s_kind := 1; s_ns := 0; s_name := 1; s_opt := false; s_items := [(1, 1)] |}.
  Definition w_src : world unit := {| w_store := [((3, 0, 1), thing)]; w_tmpl := Some (tm [src_cluster]); w_watch := []; w_env := 0; w_sink := {| sk_ver := 0; sk_hs := false; sk_hcs := []; sk_ns := 1 |}; w_pending := false |}.
  Definition w_tgt : world unit := {| w_store := [((1, 1, 1), cm)]; w_tmpl := Some (tm [src_cm]); w_watch := []; w_env := 0; w_sink := {| sk_ver := 0; sk_hs := false; sk_hcs := []; sk_ns := 1 |}; w_pending := false |}.
End Witness.

Theorem v0_namespace_bound_refuted :
  exists (w : world unit) t s,
    w_tmpl w = Some t /\ t_del t = false /\ t_ns t <> 0 /\ In s (t_sources t) /\
    oob Witness.scope (t_ns t) (s_kind s, s_ns s, s_name s) = true /\
    let '(w', r) := pass Witness.render_cm Witness.scope ns_escalation_v0 30 60 w in
    label_patches (p_evs r) = [(3, 0, 1)] /\ in_bounds Witness.scope (t_ns t) (3, 0, 1) = false /\
    target_writes (p_evs r) = [((1, 1, 100), [(1, 7)])] /\
    watched 3 me (w_watch w') = true /\
    exists t', w_tmpl w' = Some t' /\ t_invalid t' = 0.
Proof.
  exists Witness.w_src, (Witness.tm [Witness.src_cluster]), Witness.src_cluster.
  repeat split; try (vm_compute; reflexivity || discriminate); [now left|].
  eexists. split; vm_compute; reflexivity.
Qed.

Theorem v0_namespace_bound_target_refuted :
  exists (w : world unit) t,
    w_tmpl w = Some t /\ t_del t = false /\ t_ns t <> 0 /\
    (forall cfg env, exists k d, Witness.render_cluster (t_code t) cfg env = RObj k d false /\ oob Witness.scope (t_ns t) k = true) /\
    let '(w', r) := pass Witness.render_cluster Witness.scope ns_escalation_v0 30 60 w in
    p_err r = 2 /\ target_writes (p_evs r) = [] /\ exists t', w_tmpl w' = Some t' /\ t_invalid t' = 0.
Proof.
  exists Witness.w_tgt, (Witness.tm [Witness.src_cm]).
  repeat split; try (vm_compute; reflexivity || discriminate).
  - intros cfg env. exists (3, 1, 100), cfg. split; reflexivity.
  - eexists. split; vm_compute; reflexivity.
Qed.

(** The same two worlds under the check as it is now: nothing patched, nothing written, no Watch on the
    cluster-scoped kind, Invalid/SourceError. *)
Theorem witnesses_now_rejected :
  (let '(w', r) := pass Witness.render_cm Witness.scope ns_escalation 30 60 Witness.w_src in
   label_patches (p_evs r) = [] /\ target_writes (p_evs r) = [] /\ watch_calls (p_evs r) = [] /\ p_err r = 0 /\
   exists t', w_tmpl w' = Some t' /\ t_invalid t' = 1) /\
  (let '(w', r) := pass Witness.render_cluster Witness.scope ns_escalation 30 60 Witness.w_tgt in
   target_writes (p_evs r) = [] /\ watch_calls (p_evs r) = [1] /\ p_err r = 0 /\
   exists t', w_tmpl w' = Some t' /\ t_invalid t' = 1).
Proof.
  split; repeat split; try (vm_compute; reflexivity); eexists; split; vm_compute; reflexivity.
Qed.
