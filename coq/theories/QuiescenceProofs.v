(** C10: quiescence of the whole (Cluster)ObjectSet controller pass.
    [FixpointProofs.v] shows that the desired state is a fixpoint of the PHASE reconciler. This file lifts it
    to one Reconcile pass of the ObjectSet controller ([objectset_pass]):
    - layer 1: the status derivation ([final_status], [paused_cond], the Available=False reports) is idempotent
      on its own output, and [update_status] of a status equal to the stored one writes nothing;
    - layer 2: [reconcile_objects] / [reconcile_phase] replayed on their own output world return the SAME result
      without changing the world (for every outcome, also errors and failing probes);
    - layer 3: the phase loop [reconcile_phases_m] replayed on its own output world;
    - layer 4: the whole pass: [objectset_pass] is a fixpoint of itself. *)
From Coq Require Import List NArith ZArith Bool Lia.
From PKO Require Import Util Base BaseProofs Owner OwnerProofs Api ApiProofs Phase PhaseProofs AdoptionProofs AdoptProofs
  FixpointProofs ObjectSet ObjectSetProofs.
Import ListNotations.
Local Open Scope N_scope.

(** * Layer 1: the status derivation is idempotent *)
Section StatusIdem.

  Lemma cstatus_eqb_spec a b : cstatus_eqb a b = true <-> a = b.
  Proof. destruct a, b; cbn; split; congruence. Qed.
  Lemma creason_eqb_spec a b : creason_eqb a b = true <-> a = b.
  Proof. destruct a, b; cbn; split; congruence. Qed.
  Lemma cond_eqb_spec a b : cond_eqb a b = true <-> a = b.
  Proof.
    unfold cond_eqb. rewrite !andb_true_iff, ctype_eqb_spec, cstatus_eqb_spec, creason_eqb_spec, Z.eqb_eq.
    destruct a, b; cbn. split; [intros [[[-> ->] ->] ->]; reflexivity|intros H; injection H; auto].
  Qed.
  Lemma pair_eqb_spec (x y : N * N) : (fst x =? fst y) && (snd x =? snd y) = true <-> x = y.
  Proof.
    rewrite andb_true_iff, !N.eqb_eq. destruct x, y; cbn. split; [intros [-> ->]; reflexivity|intros H; injection H; auto].
  Qed.

  (** the status part of an ObjectSet *)
  Definition stat_eq (a b : oset) : Prop :=
    os_revision a = os_revision b /\ os_conds a = os_conds b /\ os_ctrlof a = os_ctrlof b /\ os_remotes a = os_remotes b.
  (** everything but status and resourceVersion *)
  Definition spec_eq (a b : oset) : Prop :=
    os_id a = os_id b /\ os_gen a = os_gen b /\ os_deleting a = os_deleting b /\ os_fin a = os_fin b /\
    os_orphan a = os_orphan b /\ os_pkg a = os_pkg b /\ os_life a = os_life b /\ os_phases a = os_phases b /\
    os_prev a = os_prev b.

  Lemma stat_eq_refl a : stat_eq a a. Proof. repeat split. Qed.
  Lemma spec_eq_refl a : spec_eq a a. Proof. repeat split. Qed.
  Lemma stat_eq_sym a b : stat_eq a b -> stat_eq b a.
  Proof. intros (?&?&?&?). repeat split; auto. Qed.
  Lemma stat_eq_trans a b c : stat_eq a b -> stat_eq b c -> stat_eq a c.
  Proof. intros (?&?&?&?) (?&?&?&?). repeat split; congruence. Qed.
  Lemma spec_eq_sym a b : spec_eq a b -> spec_eq b a.
  Proof. intros (?&?&?&?&?&?&?&?&?). repeat split; auto. Qed.
  Lemma spec_eq_trans a b c : spec_eq a b -> spec_eq b c -> spec_eq a c.
  Proof. intros (?&?&?&?&?&?&?&?&?) (?&?&?&?&?&?&?&?&?). repeat split; congruence. Qed.

  Lemma oset_ext a b : spec_eq a b -> stat_eq a b -> os_rv a = os_rv b -> a = b.
  Proof.
    destruct a, b; cbn. intros (?&?&?&?&?&?&?&?&?) (?&?&?&?) ?; cbn in *. subst. reflexivity.
  Qed.

  Lemma status_eqb_spec a b : status_eqb a b = true <-> stat_eq a b.
  Proof.
    unfold status_eqb, stat_eq. rewrite !andb_true_iff, Z.eqb_eq.
    rewrite (list_eqb_spec cond_eqb cond_eqb_spec), (list_eqb_spec okey_eqb okey_eqb_spec).
    rewrite (list_eqb_spec _ pair_eqb_spec). tauto.
  Qed.

  (** ** conditions *)
  Lemma set_cond_found cs c : find_cond cs (cd_type c) = Some c -> set_cond cs c = cs.
  Proof.
    unfold find_cond. induction cs as [|x xs IH]; cbn; [discriminate|].
    destruct (ctype_eqb (cd_type x) (cd_type c)); [intros H; now injection H as ->|].
    intros H. now rewrite (IH H).
  Qed.

  Lemma remove_cond_absent cs t : find_cond cs t = None -> remove_cond cs t = cs.
  Proof.
    unfold find_cond, remove_cond. induction cs as [|x xs IH]; cbn; [reflexivity|].
    destruct (ctype_eqb (cd_type x) t); [discriminate|]. cbn. intros H. now rewrite (IH H).
  Qed.

  Lemma set_cond_idem cs c : set_cond (set_cond cs c) c = set_cond cs c.
  Proof. apply set_cond_found. apply find_set_cond_same. Qed.

  Lemma mk_cond_gen a b t st r : os_gen a = os_gen b -> mk_cond a t st r = mk_cond b t st r.
  Proof. unfold mk_cond. now intros ->. Qed.

  (** ** reportPausedCondition on conditions that already carry its verdict *)
  Lemma paused_cond_fix phs m m' :
    os_life m' = os_life m -> os_remotes m' = os_remotes m -> os_id m' = os_id m -> os_gen m' = os_gen m ->
    find_cond (os_conds m') CPaused = find_cond (paused_cond phs m) CPaused ->
    paused_cond phs m' = os_conds m'.
  Proof.
    intros Hl Hr Hi Hg. unfold paused_cond, phase_kind. rewrite Hl, Hr, Hi.
    rewrite !(mk_cond_gen m' m) by exact Hg.
    destruct (match os_remotes m with [] => _ | _ => _ end) as [pp unknown].
    destruct (unknown || _ || _).
    - rewrite (find_set_cond_same _ (mk_cond m CPaused SUnknown RPartiallyPaused)). intros H. now apply set_cond_found.
    - destruct (lifecycle_eqb (os_life m) LPaused).
      + rewrite (find_set_cond_same _ (mk_cond m CPaused STrue RPaused)). intros H. now apply set_cond_found.
      + rewrite find_remove_cond_same. intros H. now apply remove_cond_absent.
  Qed.

  Lemma paused_cond_idem phs m : paused_cond phs (set_conds m (paused_cond phs m)) = paused_cond phs m.
  Proof. now apply (paused_cond_fix phs m (set_conds m (paused_cond phs m))). Qed.

  Lemma in_transition_ext a b ctrlof :
    os_life a = os_life b -> os_id a = os_id b -> os_phases a = os_phases b -> in_transition a ctrlof = in_transition b ctrlof.
  Proof.
    intros Hl Hi Hp. unfold in_transition, all_objects, spec_key, as_owner, desired_key. cbn. now rewrite Hl, Hi, Hp.
  Qed.

  (** ** the status computed after the phase loop, computed again from its own result *)
  Lemma final_status_fix phs m m' ctrlof failed :
    os_life m' = os_life m -> os_remotes m' = os_remotes m -> os_id m' = os_id m -> os_gen m' = os_gen m ->
    os_phases m' = os_phases m ->
    os_conds m' = os_conds (final_status phs m ctrlof failed) ->
    os_conds (final_status phs m' ctrlof failed) = os_conds m'.
  Proof.
    intros Hl Hr Hi Hg Hp Hc.
    (* what the first result says about each condition type *)
    set (intr := in_transition (set_ctrlof m ctrlof) ctrlof).
    assert (Hintr' : in_transition (set_ctrlof m' ctrlof) ctrlof = intr) by (apply in_transition_ext; assumption).
    assert (HfI : find_cond (os_conds m') CInTransition =
                  if intr then Some (mk_cond m CInTransition STrue RInTransition) else None).
    { rewrite Hc. unfold final_status. cbn [os_conds set_conds]. rewrite paused_cond_other by discriminate. cbn [os_conds set_conds].
      fold intr.
      assert (H1 : find_cond (if intr then set_cond (os_conds (set_ctrlof m ctrlof)) (mk_cond (set_ctrlof m ctrlof) CInTransition STrue RInTransition)
                             else remove_cond (os_conds (set_ctrlof m ctrlof)) CInTransition) CInTransition =
                   if intr then Some (mk_cond m CInTransition STrue RInTransition) else None).
      { destruct intr; [apply (find_set_cond_same _ (mk_cond (set_ctrlof m ctrlof) CInTransition STrue RInTransition))|apply find_remove_cond_same]. }
      destruct failed.
      - rewrite find_set_cond_other by (cbn; discriminate). exact H1.
      - match goal with |- context [if negb ?b && negb intr then _ else _] => destruct (negb b && negb intr) end.
        + rewrite !find_set_cond_other by (cbn; discriminate). exact H1.
        + rewrite find_set_cond_other by (cbn; discriminate). exact H1. }
    assert (HfA : find_cond (os_conds m') CAvailable =
                  Some (match failed with Some _ => mk_cond m CAvailable SFalse RProbeFailure | None => mk_cond m CAvailable STrue RAvailable end)).
    { rewrite Hc. unfold final_status. cbn [os_conds set_conds]. rewrite paused_cond_other by discriminate. cbn [os_conds set_conds].
      destruct failed.
      - apply (find_set_cond_same _ (mk_cond (set_ctrlof m ctrlof) CAvailable SFalse RProbeFailure)).
      - match goal with |- context [if ?b then _ else _] => destruct b end.
        + rewrite find_set_cond_other by (cbn; discriminate).
          apply (find_set_cond_same _ (mk_cond (set_ctrlof m ctrlof) CAvailable STrue RAvailable)).
        + apply (find_set_cond_same _ (mk_cond (set_ctrlof m ctrlof) CAvailable STrue RAvailable)). }
    assert (HfS : failed = None -> intr = false -> cond_true (os_conds m') CSucceeded = true).
    { intros -> Hi0. rewrite Hc. unfold final_status, cond_true. cbn [os_conds set_conds]. rewrite paused_cond_other by discriminate.
      cbn [os_conds set_conds]. fold intr. rewrite Hi0. cbn [negb andb].
      match goal with |- context [if ?b then _ else _] => destruct b eqn:Eb end.
      - rewrite (find_set_cond_same _ (mk_cond (set_ctrlof m ctrlof) CSucceeded STrue RRolloutSuccess)). reflexivity.
      - rewrite andb_true_r in Eb. apply negb_false_iff in Eb. unfold cond_true in Eb. exact Eb. }
    (* the second computation *)
    unfold final_status. cbn [os_conds set_conds]. rewrite Hintr'.
    assert (Hg1 : forall t st r, mk_cond (set_ctrlof m' ctrlof) t st r = mk_cond m t st r) by (intros; now apply mk_cond_gen).
    rewrite !Hg1. cbn [os_conds set_ctrlof].
    assert (Hcs1 : (if intr then set_cond (os_conds m') (mk_cond m CInTransition STrue RInTransition) else remove_cond (os_conds m') CInTransition) = os_conds m').
    { destruct intr; [now apply set_cond_found|now apply remove_cond_absent]. }
    rewrite Hcs1.
    assert (Hcs2 : match failed with
                   | Some _ => set_cond (os_conds m') (mk_cond m CAvailable SFalse RProbeFailure)
                   | None => if negb (cond_true (set_cond (os_conds m') (mk_cond m CAvailable STrue RAvailable)) CSucceeded) && negb intr
                             then set_cond (set_cond (os_conds m') (mk_cond m CAvailable STrue RAvailable)) (mk_cond m CSucceeded STrue RRolloutSuccess)
                             else set_cond (os_conds m') (mk_cond m CAvailable STrue RAvailable)
                   end = os_conds m').
    { destruct failed as [n|].
      - now apply set_cond_found.
      - rewrite (set_cond_found (os_conds m') (mk_cond m CAvailable STrue RAvailable)) by exact HfA.
        destruct intr; [now rewrite andb_false_r|]. now rewrite (HfS eq_refl eq_refl). }
    rewrite Hcs2.
    eapply (paused_cond_fix phs _ (set_conds (set_ctrlof m' ctrlof) (os_conds m'))).
    5: { cbn [os_conds set_conds]. rewrite Hc. unfold final_status. cbn [os_conds set_conds]. reflexivity. }
    all: cbn [os_life os_remotes os_id os_gen os_conds set_conds set_ctrlof]; assumption.
  Qed.
End StatusIdem.

(** ** Writing a status: what is stored afterwards, and the write that changes nothing *)
Section StatusWrite.
  Definition set_key (s : oset) (kind ns name : N) : bool :=
    (oi_kind (os_id s) =? kind) && (oi_ns (os_id s) =? ns) && (oi_name (os_id s) =? name).

  Lemma find_put_set_other sets s kind ns name :
    set_key s kind ns name = false -> find_set (put_set sets s) kind ns name = find_set sets kind ns name.
  Proof.
    unfold set_key, find_set. intros Hne. induction sets as [|x xs IH]; cbn.
    - now rewrite Hne.
    - destruct (oid_eqb (os_id x) (os_id s)) eqn:E; cbn.
      + rewrite Hne. unfold oid_eqb in E. apply andb_true_iff in E. destruct E as [E E3]. apply andb_true_iff in E. destruct E as [E1 E2].
        apply N.eqb_eq in E1, E2, E3. rewrite E1, E2, E3, Hne. reflexivity.
      + destruct ((oi_kind (os_id x) =? kind) && (oi_ns (os_id x) =? ns) && (oi_name (os_id x) =? name)); [reflexivity|exact IH].
  Qed.

  Lemma set_key_self s : set_key s (oi_kind (os_id s)) (oi_ns (os_id s)) (oi_name (os_id s)) = true.
  Proof. unfold set_key. now rewrite !N.eqb_refl. Qed.

  Lemma set_key_true s kind ns name : set_key s kind ns name = true ->
    kind = oi_kind (os_id s) /\ ns = oi_ns (os_id s) /\ name = oi_name (os_id s).
  Proof.
    unfold set_key. intros H. apply andb_true_iff in H. destruct H as [H H3]. apply andb_true_iff in H. destruct H as [H1 H2].
    apply N.eqb_eq in H1, H2, H3. auto.
  Qed.

  (** Replacing a stored set by one with the same identity and remote phases (or one the reader does not name as a
      previous revision) does not change what the reader sees of its previous revisions. *)
  Lemma lookup_prev_put sets s st x :
    find_set sets (oi_kind (os_id s)) (oi_ns (os_id s)) (oi_name (os_id s)) = Some st ->
    os_id s = os_id st ->
    os_remotes s = os_remotes st \/ ~ In (oi_name (os_id s)) (os_prev x) ->
    lookup_prev (put_set sets s) x = lookup_prev sets x.
  Proof.
    intros Hf Hid Hor. unfold lookup_prev. apply map_ext_in. intros n Hn.
    destruct (set_key s (oi_kind (os_id x)) (oi_ns (os_id x)) n) eqn:E.
    - destruct (set_key_true _ _ _ _ E) as (Hk & Hns & Hname). rewrite Hk, Hns, Hname.
      rewrite (find_put_set sets s st Hf), Hf. rewrite Hid. destruct Hor as [Hr|Hnot]; [now rewrite Hr|].
      exfalso. apply Hnot. now rewrite <- Hname.
    - now rewrite find_put_set_other.
  Qed.

  Lemma update_status_noop sw m st :
    find_set (sw_sets sw) (oi_kind (os_id m)) (oi_ns (os_id m)) (oi_name (os_id m)) = Some st ->
    os_rv st = os_rv m -> stat_eq st m -> update_status sw m = (sw, m, true).
  Proof.
    intros Hf Hrv Hs. unfold update_status. rewrite Hf, Hrv, N.eqb_refl. cbn [negb].
    apply status_eqb_spec in Hs. now rewrite Hs.
  Qed.

  (** A status update pinned to the stored resourceVersion succeeds; afterwards the stored set carries the written
      status over the unchanged spec; member store, phase objects and namespaces are as before; the other sets too. *)
  Lemma update_status_post sw m st sw' m' ok :
    find_set (sw_sets sw) (oi_kind (os_id m)) (oi_ns (os_id m)) (oi_name (os_id m)) = Some st ->
    os_rv st = os_rv m -> os_id m = os_id st ->
    update_status sw m = (sw', m', ok) ->
    ok = true /\ w_store (sw_w sw') = w_store (sw_w sw) /\ sw_phases sw' = sw_phases sw /\ sw_nss sw' = sw_nss sw /\
    exists st', find_set (sw_sets sw') (oi_kind (os_id m)) (oi_ns (os_id m)) (oi_name (os_id m)) = Some st' /\
      spec_eq st' st /\ stat_eq st' m /\
      (forall x, os_remotes m = os_remotes st \/ ~ In (oi_name (os_id st)) (os_prev x) ->
                 lookup_prev (sw_sets sw') x = lookup_prev (sw_sets sw) x).
  Proof.
    intros Hf Hrv Hid. unfold update_status. rewrite Hf, Hrv, N.eqb_refl. cbn [negb].
    destruct (status_eqb st m) eqn:Es.
    - intros H. injection H as <- <- <-. repeat split; try reflexivity.
      exists st. split; [exact Hf|]. split; [apply spec_eq_refl|]. split; [now apply status_eqb_spec|]. reflexivity.
    - intros H. injection H as <- <- <-. repeat split; try reflexivity. cbn [sw_sets].
      set (s' := with_status st m (w_rv (sw_w sw))).
      assert (Hid' : os_id s' = os_id st) by reflexivity.
      rewrite Hid in Hf |- *. rewrite <- Hid' in Hf |- *.
      exists s'. split; [eapply find_put_set; exact Hf|]. split; [repeat split|]. split; [repeat split|].
      intros x Hor. apply (lookup_prev_put _ s' st x Hf Hid'). rewrite Hid'. exact Hor.
  Qed.
End StatusWrite.

(** * Layer 2: a phase replayed on its own output world
    For EVERY outcome of [reconcile_objects] (complete, failing probes, refusal, invalid apply): reconciling the
    same objects again, in any world that agrees with the output world on the phase's keys (the counters may have
    moved), changes nothing and returns the same outcome. *)
Section PhaseReplay.
  Variable c : cfg.
  Let s := flavor_strat (c_flavor c).

  (** a request that changed nothing: a no-op apply, or an apply the server rejected *)
  Definition calm_ev (e : ev) : Prop :=
    match e with EApply _ _ pre (POk o) => pre = Some o | EApply _ _ _ PInvalid => True | _ => False end.

  Lemma noop_calm e : noop_ev e -> calm_ev e.
  Proof. destruct e as [k rd pre [o| |]| |]; cbn; auto. Qed.

  Lemma api_apply_none_local w w2 k ap :
    lookup k (w_store w2) = lookup k (w_store w) -> api_apply w k ap = None -> api_apply w2 k ap = None.
  Proof.
    unfold api_apply. intros ->. destruct (lookup k (w_store w)) as [cur|].
    - destruct (negb (refs_valid (o_owners (apply_to ap cur)))); [reflexivity|].
      destruct (obj_eqb (apply_to ap cur) cur); discriminate.
    - cbn [fresh_obj o_owners]. destruct (negb (refs_valid (ap_owners ap))); [reflexivity|discriminate].
  Qed.

  Lemma do_apply_err_local w k rd ap w1 e1 e :
    do_apply idw w k rd ap = (w1, e1, RErr e) ->
    w1 = w /\ e = ErrInvalid /\
    forall w2, lookup k (w_store w2) = lookup k (w_store w) -> do_apply idw w2 k rd ap = (w2, e1, RErr e).
  Proof.
    unfold do_apply, idw, api_get. destruct (api_apply w k ap) as [[[w' o] cr]|] eqn:Ea; [discriminate|].
    intros H. injection H as <- <- <-. split; [reflexivity|]. split; [reflexivity|].
    intros w2 Hl. rewrite (api_apply_none_local w w2 k ap Hl Ea). now rewrite Hl.
  Qed.

  (** an erroring object step writes nothing, and errs the same way wherever the object looks the same *)
  Lemma rec_obj_err_local w ow prev p w1 e1 e :
    reconcile_object c idw w ow prev p = (w1, e1, RErr e) ->
    w1 = w /\ (e <> ErrInvalid -> e1 = []) /\ Forall calm_ev e1 /\
    forall w2, lookup (key_of ow p) (w_store w2) = lookup (key_of ow p) (w_store w) ->
               reconcile_object c idw w2 ow prev p = (w2, e1, RErr e).
  Proof.
    unfold reconcile_object. fold s. fold (key_of ow p).
    assert (Hdirect : forall x, (w, @nil ev, RErr x) = (w1, e1, RErr e) ->
              w1 = w /\ (e <> ErrInvalid -> e1 = []) /\ Forall calm_ev e1 /\
              forall w2 : world, (w2, @nil ev, RErr x) = (w2, e1, RErr e)).
    { intros x H. injection H as <- <- <-. repeat split; auto. }
    assert (Hda : forall rd ap, do_apply idw w (key_of ow p) rd ap = (w1, e1, RErr e) ->
              w1 = w /\ (e <> ErrInvalid -> e1 = []) /\ Forall calm_ev e1 /\
              forall w2, lookup (key_of ow p) (w_store w2) = lookup (key_of ow p) (w_store w) ->
                         do_apply idw w2 (key_of ow p) rd ap = (w2, e1, RErr e)).
    { intros rd ap H. destruct (do_apply_err_local _ _ _ _ _ _ _ H) as (H1 & H2 & H3).
      split; [exact H1|]. split; [intros Hne; contradiction|]. split; [|exact H3].
      destruct (do_apply_events _ _ _ _ _ _ _ _ H) as (post & -> & Hp). destruct post as [o| |]; [destruct Hp; discriminate|contradiction|].
      constructor; [exact I|constructor]. }
    destruct (set_controller_l s (ow_id ow) (k_ns (key_of ow p)) []) as [dref|].
    2:{ intros H. destruct (Hdirect _ H) as (H1 & H2 & H3 & H4). auto. }
    destruct (ow_paused ow).
    { destruct (cache_get w (key_of ow p)); discriminate. }
    rewrite cur_lookup.
    destruct (lookup (key_of ow p) (w_store w)) as [cu|] eqn:El.
    - destruct (check_adoption s (c_force c) ow cu prev (po_cp p)) eqn:Eca.
      + intros H. destruct (Hda _ _ H) as (H1 & H2 & H3 & H4). repeat split; auto.
        intros w2 Hl. rewrite cur_lookup, Hl, Eca. now apply H4.
      + discriminate.
      + destruct (set_controller_l s (ow_id ow) (k_ns (key_of ow p)) (release_l (refs s cu))) as [l|] eqn:Esc.
        * intros H. destruct (Hda _ _ H) as (H1 & H2 & H3 & H4). repeat split; auto.
          intros w2 Hl. rewrite cur_lookup, Hl, Eca, Esc. now apply H4.
        * intros H. destruct (Hdirect _ H) as (H1 & H2 & H3 & H4). repeat split; auto.
          intros w2 Hl. rewrite cur_lookup, Hl, Eca, Esc. apply H4.
      + intros H. destruct (Hdirect _ H) as (H1 & H2 & H3 & H4). repeat split; auto.
        intros w2 Hl. rewrite cur_lookup, Hl, Eca. apply H4.
      + intros H. destruct (Hdirect _ H) as (H1 & H2 & H3 & H4). repeat split; auto.
        intros w2 Hl. rewrite cur_lookup, Hl, Eca. apply H4.
      + intros H. destruct (Hdirect _ H) as (H1 & H2 & H3 & H4). repeat split; auto.
        intros w2 Hl. rewrite cur_lookup, Hl, Eca. apply H4.
    - intros H. destruct (Hda _ _ H) as (H1 & H2 & H3 & H4). repeat split; auto.
      intros w2 Hl. rewrite cur_lookup, Hl. now apply H4.
  Qed.

  (** an unpaused owner never reports an object as missing *)
  Lemma rec_obj_not_missing w ow prev p w1 e1 :
    ow_paused ow = false -> reconcile_object c idw w ow prev p <> (w1, e1, RMissing).
  Proof.
    intros Hpa E1. unfold reconcile_object in E1. fold s in E1. fold (key_of ow p) in E1.
    destruct (set_controller_l s (ow_id ow) (k_ns (key_of ow p)) []); [|discriminate].
    rewrite Hpa, cur_lookup in E1. destruct (lookup (key_of ow p) (w_store w)) as [cu|].
    - destruct (check_adoption s (c_force c) ow cu prev (po_cp p)); try discriminate;
        try (unfold do_apply in E1; destruct (api_apply _ _ _) as [[[? ?] ?]|]; discriminate).
      destruct (set_controller_l s (ow_id ow) (k_ns (key_of ow p)) (release_l (refs s cu))); [|discriminate].
      unfold do_apply in E1. destruct (api_apply _ _ _) as [[[? ?] ?]|]; discriminate.
    - unfold do_apply in E1. destruct (api_apply _ _ _) as [[[? ?] ?]|]; discriminate.
  Qed.

  (** the object an unpaused step answers with is the one stored afterwards *)
  Lemma rec_obj_ok_stored w ow prev p w1 e1 o :
    ow_paused ow = false -> reconcile_object c idw w ow prev p = (w1, e1, ROk o) -> lookup (key_of ow p) (w_store w1) = Some o.
  Proof.
    intros Hpa. unfold reconcile_object. fold s. fold (key_of ow p).
    destruct (set_controller_l s (ow_id ow) (k_ns (key_of ow p)) []) as [dref|]; [|discriminate].
    rewrite Hpa, cur_lookup.
    assert (Hda : forall rd ap, do_apply idw w (key_of ow p) rd ap = (w1, e1, ROk o) -> lookup (key_of ow p) (w_store w1) = Some o).
    { intros rd ap H. destruct (do_apply_events _ _ _ _ _ _ _ _ H) as (post & _ & Hp). destruct post as [x| |]; [|contradiction|destruct Hp; discriminate].
      destruct Hp as [Hr Ha]. injection Hr as <-. now destruct (api_apply_spec _ _ _ _ _ _ Ha). }
    destruct (lookup (key_of ow p) (w_store w)) as [cu|] eqn:El; [|apply Hda].
    destruct (check_adoption _ _ _ _ _ _); try discriminate; try apply Hda.
    - intros H. injection H as <- _ <-. exact El.
    - destruct (set_controller_l _ _ _ (release_l _)); [apply Hda|discriminate].
  Qed.

  (** One object replayed. *)
  Lemma rec_obj_replay w ow prev p w1 e1 r1 :
    ow_paused ow = false ->
    (forall cu, lookup (key_of ow p) (w_store w) = Some cu -> obj_wf s (ow_id ow) cu) ->
    reconcile_object c idw w ow prev p = (w1, e1, r1) ->
    forall w2, lookup (key_of ow p) (w_store w2) = lookup (key_of ow p) (w_store w1) ->
    exists e2, reconcile_object c idw w2 ow prev p = (w2, e2, r1) /\ Forall calm_ev e2 /\
               (r1 <> RErr ErrInvalid -> Forall noop_ev e2).
  Proof.
    intros Hpa Hwf H w2 Hl. destruct r1 as [o| |e].
    - pose proof (rec_obj_makes_quiet c w ow prev p w1 e1 o Hpa Hwf H) as Hq.
      apply (quiet_obj_local c w1 w2) in Hq; [|exact Hl].
      destruct (rec_obj_quiet c w2 ow prev p Hpa Hq) as (e2 & o2 & E2 & Hn).
      pose proof (rec_obj_ok_stored _ _ _ _ _ _ _ Hpa E2) as Hs2.
      pose proof (rec_obj_ok_stored _ _ _ _ _ _ _ Hpa H) as Hs1.
      rewrite Hl, Hs1 in Hs2. injection Hs2 as <-.
      exists e2. split; [exact E2|]. split; [|intros _; exact Hn].
      eapply Forall_impl; [|exact Hn]. apply noop_calm.
    - exfalso. eapply rec_obj_not_missing; eauto.
    - destruct (rec_obj_err_local _ _ _ _ _ _ _ H) as (-> & Hnil & Hcalm & Hloc).
      exists e1. split; [now apply Hloc|]. split; [exact Hcalm|].
      intros Hne. rewrite Hnil; [constructor|]. intros ->. now apply Hne.
  Qed.

  (** A list of objects replayed: same accumulators in, same result out, world untouched. *)
  Lemma rec_objs_replay ow prev ps : forall w acc failed w' evs r,
    ow_paused ow = false -> NoDup (map (key_of ow) ps) ->
    (forall p cu, In p ps -> lookup (key_of ow p) (w_store w) = Some cu -> obj_wf s (ow_id ow) cu) ->
    reconcile_objects c idw w ow prev ps acc failed = (w', evs, r) ->
    forall w2, (forall p, In p ps -> lookup (key_of ow p) (w_store w2) = lookup (key_of ow p) (w_store w')) ->
    exists evs2, reconcile_objects c idw w2 ow prev ps acc failed = (w2, evs2, r) /\ Forall calm_ev evs2 /\
                 (r <> PhErr ErrInvalid -> Forall noop_ev evs2).
  Proof.
    induction ps as [|p ps IH]; intros w acc failed w' evs r Hpa Hnd Hwf H w2 Hl; cbn in H |- *.
    - injection H as <- <- <-. exists []. repeat split; constructor.
    - inversion Hnd as [|? ? Hnotin Hnd']; subst.
      destruct (reconcile_object c idw w ow prev p) as [[w1 e1] r1] eqn:E1.
      assert (Hwfp : forall cu, lookup (key_of ow p) (w_store w) = Some cu -> obj_wf s (ow_id ow) cu).
      { intros cu Hcu. apply (Hwf p cu); [now left|assumption]. }
      assert (Hframe1 : forall x, In x ps -> lookup (key_of ow x) (w_store w1) = lookup (key_of ow x) (w_store w)).
      { intros x Hx. eapply rec_obj_frame; [exact E1|]. intros Heq. apply Hnotin. rewrite <- Heq. now apply in_map. }
      assert (Hwf' : forall x cu, In x ps -> lookup (key_of ow x) (w_store w1) = Some cu -> obj_wf s (ow_id ow) cu).
      { intros x cu Hx Hlx. rewrite (Hframe1 x Hx) in Hlx. apply (Hwf x cu); [now right|assumption]. }
      assert (Hrest : forall wz ez rz acc2 failed2,
                reconcile_objects c idw w1 ow prev ps acc2 failed2 = (wz, ez, rz) ->
                lookup (key_of ow p) (w_store wz) = lookup (key_of ow p) (w_store w1)).
      { intros wz ez rz acc2 failed2 H2. eapply (rec_objs_frame c ow prev (key_of ow p) ps); [exact H2|].
        intros x Hx Heq. apply Hnotin. rewrite <- Heq. now apply in_map. }
      destruct r1 as [o| |e].
      + destruct (reconcile_objects c idw w1 ow prev ps _ _) as [[wz ez] rz] eqn:E2. injection H as <- <- <-.
        assert (Hlp : lookup (key_of ow p) (w_store w2) = lookup (key_of ow p) (w_store w1)).
        { rewrite (Hl p (or_introl eq_refl)). eapply Hrest; exact E2. }
        destruct (rec_obj_replay w ow prev p w1 e1 (ROk o) Hpa Hwfp E1 w2 Hlp) as (e1' & -> & Hc1 & Hn1).
        destruct (IH _ _ _ _ _ _ Hpa Hnd' Hwf' E2 w2 (fun x Hx => Hl x (or_intror Hx))) as (e2' & -> & Hc2 & Hn2).
        exists (e1' ++ e2'). split; [reflexivity|]. split; [apply Forall_app; now split|].
        intros Hne. apply Forall_app. split; [apply Hn1; discriminate|now apply Hn2].
      + exfalso. eapply rec_obj_not_missing; eauto.
      + injection H as <- <- <-.
        destruct (rec_obj_replay w ow prev p w1 e1 (RErr e) Hpa Hwfp E1 w2 (Hl p (or_introl eq_refl))) as (e1' & -> & Hc1 & Hn1).
        exists e1'. split; [reflexivity|]. split; [exact Hc1|]. intros Hne. apply Hn1. intros Heq. apply Hne. now injection Heq as ->.
  Qed.

  (** A phase replayed (the preflight verdict does not depend on the world). *)
  Lemma rec_phase_replay ow prev class ps w w' evs r :
    ow_paused ow = false -> NoDup (map (key_of ow) ps) ->
    (forall p cu, In p ps -> lookup (key_of ow p) (w_store w) = Some cu -> obj_wf s (ow_id ow) cu) ->
    reconcile_phase c idw w ow prev class ps = (w', evs, r) ->
    forall w2, (forall p, In p ps -> lookup (key_of ow p) (w_store w2) = lookup (key_of ow p) (w_store w')) ->
    exists evs2, reconcile_phase c idw w2 ow prev class ps = (w2, evs2, r) /\ Forall calm_ev evs2 /\
                 (r <> PhErr ErrInvalid -> Forall noop_ev evs2).
  Proof.
    intros Hpa Hnd Hwf. unfold reconcile_phase. destruct (flat_map (preflight_obj (c_flavor c) ow class) ps).
    - intros H w2 Hl. eapply rec_objs_replay; eauto.
    - intros H w2 _. injection H as <- <- <-. exists []. repeat split; constructor.
  Qed.
End PhaseReplay.

(** * Layer 3: the phase loop replayed on its own output world *)
Section LoopReplay.
  Variable force : bool.
  Let c : cfg := {| c_flavor := FObjectSet; c_force := force |}.

  (** ** status.remotePhases: recording a reference twice changes nothing *)
  Definition recorded (rem : list (N * N)) (r : N * N) : Prop := add_remote rem r = rem.

  Lemma add_remote_idem rem r : recorded (add_remote rem r) r.
  Proof.
    unfold recorded. induction rem as [|x l IH]; cbn.
    - now rewrite N.eqb_refl.
    - destruct (fst x =? fst r) eqn:E; cbn; [now rewrite N.eqb_refl|]. now rewrite E, IH.
  Qed.

  Lemma recorded_add rem r r' : recorded rem r -> fst r' <> fst r \/ r' = r -> recorded (add_remote rem r') r.
  Proof.
    intros Hrec [Hne | ->]; [|apply add_remote_idem].
    unfold recorded in *. induction rem as [|x l IH]; cbn in *; [discriminate|].
    destruct (fst x =? fst r) eqn:E.
    - injection Hrec as <-. apply N.eqb_neq in Hne. rewrite N.eqb_sym in Hne. rewrite Hne. cbn. now rewrite N.eqb_refl.
    - injection Hrec as Hrec. destruct (fst x =? fst r') eqn:E'; cbn.
      + apply N.eqb_neq in Hne. rewrite Hne. now rewrite Hrec.
      + rewrite E. now rewrite (IH Hrec).
  Qed.

  Lemma fold_recorded ps : forall rem, (forall p, In p ps -> recorded rem p) -> fold_left add_remote ps rem = rem.
  Proof.
    induction ps as [|p ps IH]; intros rem H; cbn; [reflexivity|].
    rewrite (H p (or_introl eq_refl)). apply IH. intros q Hq. apply H. now right.
  Qed.

  Lemma fold_keeps_recorded ps r : forall rem,
    recorded rem r -> (forall p, In p ps -> fst p <> fst r \/ p = r) -> recorded (fold_left add_remote ps rem) r.
  Proof.
    induction ps as [|p ps IH]; intros rem Hr Hc; cbn; [exact Hr|].
    apply IH; [|intros q Hq; apply Hc; now right]. apply recorded_add; [exact Hr|]. apply Hc. now left.
  Qed.

  (** references that agree on the uid whenever they agree on the name are all recorded after they were all added *)
  Lemma fold_records_all ps : forall rem,
    (forall p q, In p ps -> In q ps -> fst p = fst q -> p = q) ->
    forall p, In p ps -> recorded (fold_left add_remote ps rem) p.
  Proof.
    induction ps as [|x ps IH]; intros rem Hfun p Hp; [destruct Hp|]. cbn.
    assert (Hfun' : forall a b, In a ps -> In b ps -> fst a = fst b -> a = b) by (intros a b Ha Hb; apply Hfun; now right).
    destruct Hp as [<-|Hp]; [|now apply IH].
    apply fold_keeps_recorded; [apply add_remote_idem|].
    intros q Hq. destruct (N.eq_dec (fst q) (fst x)) as [E|E]; [right|now left]. apply Hfun; auto; [now right|now left].
  Qed.

  (** ** delegated phases *)
  (** A delegated phase whose phase object the ObjectSet controller does not write to: it exists, is controlled by
      the ObjectSet and its spec.paused is in sync. *)
  Definition remote_ok (phs : list osphase) (s : oset) (ph : phase) : Prop :=
    let d := desired_phase s ph in
    exists cur, find_phase phs (oi_kind (op_id d)) (oi_ns (op_id d)) (oi_name (op_id d)) = Some cur /\
      controlled_by_uid (op_owners cur) (oi_uid (os_id s)) = true /\
      op_paused cur = op_paused d.

  (** the reference (name, uid) to the phase object of a delegated phase *)
  Definition remote_ref (phs : list osphase) (s : oset) (ph : phase) (p : N * N) : Prop :=
    let d := desired_phase s ph in
    exists cur, find_phase phs (oi_kind (op_id d)) (oi_ns (op_id d)) (oi_name (op_id d)) = Some cur /\
      p = (oi_name (op_id d), oi_uid (op_id cur)).

  (** ... and the reference to it is already in status.remotePhases *)
  Definition remote_ready (phs : list osphase) (s : oset) (rem : list (N * N)) (ph : phase) : Prop :=
    remote_ok phs s ph /\ forall p, remote_ref phs s ph p -> recorded rem p.

  Lemma remote_ref_fun phs s ph ph' p q :
    remote_ref phs s ph p -> remote_ref phs s ph' q -> fst p = fst q -> p = q.
  Proof.
    unfold remote_ref. cbn. intros (cur & Hf & ->) (cur' & Hf' & ->). cbn. intros E. rewrite E in Hf. rewrite Hf in Hf'.
    injection Hf' as ->. now rewrite E.
  Qed.

  Lemma remote_reconcile_ok sw s s' ph rem :
    remote_ok (sw_phases sw) s ph ->
    desired_phase s' ph = desired_phase s ph -> oi_uid (os_id s') = oi_uid (os_id s) ->
    let d := desired_phase s ph in
    exists cur, find_phase (sw_phases sw) (oi_kind (op_id d)) (oi_ns (op_id d)) (oi_name (op_id d)) = Some cur /\
      remote_reconcile sw s' ph rem =
      (sw, [SPhase (PGet (oi_name (op_id d)) (Some cur))], add_remote rem (oi_name (op_id d), oi_uid (op_id cur)), relay cur).
  Proof.
    intros (cur & Hf & Hc & Hp) Hd Hu. exists cur. split; [exact Hf|].
    unfold remote_reconcile. cbv zeta. rewrite Hd, Hu, Hf, Hc. cbn [negb]. rewrite Hp, eqb_reflx. reflexivity.
  Qed.

  (** events of a loop that changed nothing *)
  Definition quiet_lev (e : sev) : Prop :=
    match e with SMember x => calm_ev x | SPhase (PGet _ _) => True | _ => False end.
  Definition noop_lev (e : sev) : Prop :=
    match e with SMember x => noop_ev x | SPhase (PGet _ _) => True | _ => False end.

  Lemma quiet_members l : Forall calm_ev l -> Forall quiet_lev (map SMember l).
  Proof. intros H. apply Forall_map. exact H. Qed.
  Lemma noop_members l : Forall noop_ev l -> Forall noop_lev (map SMember l).
  Proof. intros H. apply Forall_map. exact H. Qed.

  Lemma with_w_self sw : with_w sw (sw_w sw) = sw.
  Proof. destruct sw; reflexivity. Qed.

  (** The loop replayed. The first run gathers the references [ps] of the delegated phases it passes; a second run
      in a world that agrees with the output world on the member keys - from ANY list of references - returns the
      same result, gathers the same references and changes nothing. *)
  Lemma rpm_replay s ow prev phs : forall sw acc rem sw2 evs rem2 r,
    ow_paused ow = false ->
    NoDup (local_keys ow phs) ->
    (forall ph p cu, In ph phs -> ph_class ph = false -> In p (ph_objects ph) ->
                     lookup (key_of ow p) (w_store (sw_w sw)) = Some cu -> obj_wf Native (ow_id ow) cu) ->
    (forall ph, In ph phs -> ph_class ph = true -> remote_ok (sw_phases sw) s ph) ->
    reconcile_phases_m force sw s ow prev phs acc rem = (sw2, evs, rem2, r) ->
    sw_phases sw2 = sw_phases sw /\ sw_sets sw2 = sw_sets sw /\ sw_nss sw2 = sw_nss sw /\
    exists ps, rem2 = fold_left add_remote ps rem /\
      (forall p, In p ps -> exists ph, In ph phs /\ ph_class ph = true /\ remote_ref (sw_phases sw) s ph p) /\
      forall sw' s' rem',
        (forall k, In k (local_keys ow phs) -> lookup k (w_store (sw_w sw')) = lookup k (w_store (sw_w sw2))) ->
        sw_phases sw' = sw_phases sw ->
        (forall ph, desired_phase s' ph = desired_phase s ph) -> oi_uid (os_id s') = oi_uid (os_id s) ->
        exists evs2, reconcile_phases_m force sw' s' ow prev phs acc rem' = (sw', evs2, fold_left add_remote ps rem', r) /\
                     Forall quiet_lev evs2 /\ (r <> MErr ErrInvalid -> Forall noop_lev evs2).
  Proof.
    induction phs as [|ph rest IH]; intros sw acc rem sw2 evs rem2 r Hpa Hnd Hwf Hrr H.
    - cbn in H. injection H as <- <- <- <-. repeat split; try reflexivity.
      exists []. split; [reflexivity|]. split; [intros p []|].
      intros sw' s' rem' _ _ _ _. exists []. cbn. repeat split; constructor.
    - rewrite rpm_cons in H. destruct (ph_class ph) eqn:Ecl.
      + (* delegated *)
        pose proof (Hrr ph (or_introl eq_refl) Ecl) as Hok.
        destruct (remote_reconcile_ok sw s s ph rem Hok eq_refl eq_refl) as (cur & Hfc & Hrec). cbv zeta in Hfc, Hrec.
        set (pr := (oi_name (op_id (desired_phase s ph)), oi_uid (op_id cur))) in *.
        assert (Href : remote_ref (sw_phases sw) s ph pr) by (exists cur; split; [exact Hfc|reflexivity]).
        rewrite Hrec in H.
        rewrite local_keys_cons_remote in * by exact Ecl.
        assert (Hsecond : forall sw' s' rem', sw_phases sw' = sw_phases sw ->
                  (forall q, desired_phase s' q = desired_phase s q) -> oi_uid (os_id s') = oi_uid (os_id s) ->
                  remote_reconcile sw' s' ph rem' = (sw', [SPhase (PGet (fst pr) (Some cur))], add_remote rem' pr, relay cur)).
        { intros sw' s' rem' Hph Hd Hu. rewrite <- Hph in Hok.
          destruct (remote_reconcile_ok sw' s s' ph rem' Hok (Hd ph) Hu) as (cur' & Hfc' & Hrec'). cbv zeta in Hfc', Hrec'.
          rewrite Hph, Hfc in Hfc'. injection Hfc' as <-. exact Hrec'. }
        destruct (relay cur) as [|active fl] eqn:Er; [exfalso; now apply (relay_not_err cur)|].
        destruct fl.
        * injection H as <- <- <- <-. repeat split; try reflexivity.
          exists [pr]. split; [reflexivity|].
          split. { intros p [<-|[]]. exists ph. split; [now left|]. split; assumption. }
          intros sw' s' rem' _ Hph Hd Hu. rewrite rpm_cons, Ecl, (Hsecond sw' s' rem' Hph Hd Hu).
          eexists. split; [reflexivity|]. split; [|intros _]; (constructor; [exact I|constructor]).
        * destruct (reconcile_phases_m force sw s ow prev rest (acc ++ active) (add_remote rem pr)) as [[[swz ez] remz] rz] eqn:E2.
          injection H as <- <- <- <-.
          destruct (IH sw (acc ++ active) (add_remote rem pr) swz ez remz rz Hpa Hnd
                       (fun q p cu Hq => Hwf q p cu (or_intror Hq)) (fun q Hq => Hrr q (or_intror Hq)) E2)
            as (Hph2 & Hsets2 & Hnss2 & ps & Hrem & Hps & Hnext).
          split; [exact Hph2|]. split; [exact Hsets2|]. split; [exact Hnss2|].
          exists (pr :: ps). split; [exact Hrem|].
          split. { intros p [<-|Hp]; [exists ph; split; [now left|split; assumption]|].
                   destruct (Hps p Hp) as (q & Hq & Hqc & Hqr). exists q. split; [now right|split; assumption]. }
          intros sw' s' rem' Hl Hph Hd Hu. rewrite rpm_cons, Ecl, (Hsecond sw' s' rem' Hph Hd Hu).
          destruct (Hnext sw' s' (add_remote rem' pr) Hl Hph Hd Hu) as (ez2 & -> & Hq & Hn).
          eexists. split; [reflexivity|]. split; [constructor; [exact I|exact Hq]|].
          intros Hne. constructor; [exact I|now apply Hn].
      + (* local *)
        rewrite local_keys_cons_local in * by exact Ecl. fold c in H.
        destruct (reconcile_phase c idw (sw_w sw) ow prev false (ph_objects ph)) as [[w1 e1] r1] eqn:E1.
        pose proof (rec_phase_replay c ow prev false (ph_objects ph) (sw_w sw) w1 e1 r1 Hpa (NoDup_app_l _ _ Hnd)
                      (fun p cu Hp => Hwf ph p cu (or_introl eq_refl) Ecl Hp) E1) as Hrep.
        (* the replay of this phase in a world that agrees with [wx] on the phase's keys *)
        assert (Hstep : forall sw' (wx : world),
                  (forall k, In k (phase_keys ow ph) -> lookup k (w_store (sw_w sw')) = lookup k (w_store wx)) ->
                  (forall k, In k (phase_keys ow ph) -> lookup k (w_store wx) = lookup k (w_store w1)) ->
                  exists e1', reconcile_phase c idw (sw_w sw') ow prev false (ph_objects ph) = (sw_w sw', e1', r1) /\
                              Forall calm_ev e1' /\ (r1 <> PhErr ErrInvalid -> Forall noop_ev e1')).
        { intros sw' wx Ha Hb. apply Hrep. intros p Hp.
          assert (Hk : In (key_of ow p) (phase_keys ow ph)) by (unfold phase_keys; now apply in_map).
          now rewrite (Ha _ Hk), (Hb _ Hk). }
        destruct r1 as [e|vs|a f]; cbv beta iota zeta in H.
        * injection H as <- <- <- <-. repeat split; try reflexivity.
          exists []. split; [reflexivity|]. split; [intros p []|].
          intros sw' s' rem' Hl Hph Hd Hu. rewrite rpm_cons, Ecl. fold c.
          destruct (Hstep sw' w1) as (e1' & -> & Hc1 & Hn1); [intros k Hk; apply Hl, in_or_app; now left|reflexivity|].
          rewrite with_w_self. eexists. split; [reflexivity|]. split; [now apply quiet_members|].
          intros Hne. apply noop_members, Hn1. intros Heq. apply Hne. now injection Heq as ->.
        * injection H as <- <- <- <-. repeat split; try reflexivity.
          exists []. split; [reflexivity|]. split; [intros p []|].
          intros sw' s' rem' Hl Hph Hd Hu. rewrite rpm_cons, Ecl. fold c.
          destruct (Hstep sw' w1) as (e1' & -> & Hc1 & Hn1); [intros k Hk; apply Hl, in_or_app; now left|reflexivity|].
          rewrite with_w_self. eexists. split; [reflexivity|]. split; [now apply quiet_members|].
          intros _. apply noop_members, Hn1. discriminate.
        * destruct f as [|f0 fs].
          2:{ injection H as <- <- <- <-. repeat split; try reflexivity.
              exists []. split; [reflexivity|]. split; [intros p []|].
              intros sw' s' rem' Hl Hph Hd Hu. rewrite rpm_cons, Ecl. fold c.
              destruct (Hstep sw' w1) as (e1' & -> & Hc1 & Hn1); [intros k Hk; apply Hl, in_or_app; now left|reflexivity|].
              cbv zeta. rewrite with_w_self. eexists. split; [reflexivity|]. split; [now apply quiet_members|].
              intros _. apply noop_members, Hn1. discriminate. }
          set (acc' := acc ++ map fst (filter (fun ko => is_controller Native (ow_id ow) (snd ko)) a)) in *.
          destruct (reconcile_phases_m force (with_w sw w1) s ow prev rest acc' rem) as [[[swz ez] remz] rz] eqn:E2.
          injection H as <- <- <- <-.
          assert (Hwf1 : forall q p cu, In q rest -> ph_class q = false -> In p (ph_objects q) ->
                           lookup (key_of ow p) (w_store (sw_w (with_w sw w1))) = Some cu -> obj_wf Native (ow_id ow) cu).
          { intros q p cu Hq Hqc Hp Hlk. apply (Hwf q p cu (or_intror Hq) Hqc Hp). rewrite <- Hlk. cbn [sw_w with_w]. symmetry.
            eapply (rec_phase_frame force); [exact E1|]. intros p1 Hp1 Heq.
            apply (NoDup_app_disj _ _ (key_of ow p1) Hnd); [unfold phase_keys; now apply in_map|].
            rewrite Heq. apply (in_local_keys ow q rest); auto. unfold phase_keys. now apply in_map. }
          destruct (IH (with_w sw w1) acc' rem swz ez remz rz Hpa (NoDup_app_r _ _ Hnd) Hwf1
                       (fun q Hq => Hrr q (or_intror Hq)) E2) as (Hph2 & Hsets2 & Hnss2 & ps & Hrem & Hps & Hnext).
          split; [exact Hph2|]. split; [exact Hsets2|]. split; [exact Hnss2|].
          exists ps. split; [exact Hrem|].
          split. { intros p Hp. destruct (Hps p Hp) as (q & Hq & Hqc & Hqr). exists q. split; [now right|split; assumption]. }
          intros sw' s' rem' Hl Hph Hd Hu. rewrite rpm_cons, Ecl. fold c.
          destruct (rpm_inv force s ow prev rest _ _ _ _ _ _ _ E2) as (_ & _ & _ & _ & Hfr & _).
          destruct (Hstep sw' swz.(sw_w)) as (e1' & -> & Hc1 & Hn1).
          { intros k Hk. apply Hl, in_or_app. now left. }
          { intros k Hk. rewrite Hfr; [reflexivity|]. now apply (NoDup_app_disj _ _ k Hnd). }
          cbv zeta. fold acc'. rewrite with_w_self.
          destruct (Hnext sw' s' rem' (fun k Hk => Hl k (in_or_app _ _ _ (or_intror Hk))) Hph Hd Hu) as (ez2 & -> & Hq & Hn).
          eexists. split; [reflexivity|]. split; [apply Forall_app; split; [now apply quiet_members|exact Hq]|].
          intros Hne. apply Forall_app. split; [apply noop_members, Hn1; discriminate|now apply Hn].
  Qed.
End LoopReplay.

(** * Layer 4: the whole pass replayed on its own output world *)
Section PassReplay.
  Variable force : bool.
  Let c : cfg := {| c_flavor := FObjectSet; c_force := force |}.

  (** the in-memory copy [m] is the stored set [st], possibly with a revision number computed in memory *)
  Definition same_but_rev (m st : oset) : Prop :=
    spec_eq m st /\ os_rv m = os_rv st /\ os_conds m = os_conds st /\ os_ctrlof m = os_ctrlof st /\ os_remotes m = os_remotes st.

  Lemma same_but_rev_refl m : same_but_rev m m.
  Proof. split; [apply spec_eq_refl|auto]. Qed.

  (** ** what the pass reads of its in-memory copy *)
  Lemma as_owner_ext a b : spec_eq a b -> os_revision a = os_revision b -> as_owner a = as_owner b.
  Proof. intros (Hi&_&_&_&_&Hp&Hl&_) Hr. unfold as_owner. now rewrite Hi, Hr, Hl, Hp. Qed.

  Lemma desired_phase_ext a b ph : spec_eq a b -> os_revision a = os_revision b -> desired_phase a ph = desired_phase b ph.
  Proof. intros (Hi&_&_&_&_&Hp&Hl&_&Hpr) Hr. unfold desired_phase, phase_kind. now rewrite Hi, Hr, Hl, Hp, Hpr. Qed.

  Lemma lookup_prev_ext sets a b : spec_eq a b -> lookup_prev sets a = lookup_prev sets b.
  Proof. intros (Hi&_&_&_&_&_&_&_&Hpr). unfold lookup_prev. now rewrite Hi, Hpr. Qed.

  Lemma spec_keys_ext a b : spec_eq a b -> map (spec_key a) (all_objects a) = map (spec_key b) (all_objects b).
  Proof.
    intros (Hi&_&_&_&_&_&_&Hph&_). unfold all_objects. rewrite Hph. apply map_ext. intros p.
    unfold spec_key, as_owner, desired_key. cbn. now rewrite Hi.
  Qed.

  Lemma paused_reads_ext phs a b : os_id a = os_id b -> os_remotes a = os_remotes b -> paused_reads phs a = paused_reads phs b.
  Proof. intros Hi Hr. unfold paused_reads, phase_kind. now rewrite Hi, Hr. Qed.

  (** ** the fields of the computed status *)
  Lemma final_status_fields phs m ctrlof failed :
    spec_eq (final_status phs m ctrlof failed) m /\ os_rv (final_status phs m ctrlof failed) = os_rv m /\
    os_revision (final_status phs m ctrlof failed) = os_revision m /\
    os_ctrlof (final_status phs m ctrlof failed) = ctrlof /\
    os_remotes (final_status phs m ctrlof failed) = os_remotes m /\
    find_cond (os_conds (final_status phs m ctrlof failed)) CArchived = find_cond (os_conds m) CArchived.
  Proof.
    split; [repeat split|]. split; [reflexivity|]. split; [reflexivity|]. split; [reflexivity|]. split; [reflexivity|].
    unfold final_status. cbn [os_conds set_conds]. rewrite paused_cond_other by discriminate. cbn [os_conds set_conds set_ctrlof].
    assert (H1 : forall b x, find_cond (if b : bool then set_cond (os_conds m) (mk_cond x CInTransition STrue RInTransition)
                                      else remove_cond (os_conds m) CInTransition) CArchived = find_cond (os_conds m) CArchived).
    { intros [|] x; [apply find_set_cond_other; cbn; discriminate|apply find_remove_cond_other; discriminate]. }
    destruct failed.
    - rewrite find_set_cond_other by (cbn; discriminate). apply H1.
    - match goal with |- context [if negb ?b && ?b2 then _ else _] => destruct (negb b && b2) end.
      + rewrite !find_set_cond_other by (cbn; discriminate). apply H1.
      + rewrite find_set_cond_other by (cbn; discriminate). apply H1.
  Qed.

  (** the Available=False report of an aborted pass *)
  Definition fail_status (m : oset) (r : creason) : oset :=
    set_conds m (set_cond (os_conds m) (mk_cond m CAvailable SFalse r)).

  (** ** the events of a pass that changed nothing *)
  Definition quiet_sev (st : oset) (e : sev) : Prop :=
    match e with
    | SMember x => calm_ev x
    | SPhase (PGet _ _) => True
    | SMeta (MStatus rev conds ctrlof rem _ ok) =>
        ok = true /\ rev = os_revision st /\ conds = os_conds st /\ ctrlof = os_ctrlof st /\ rem = os_remotes st
    | _ => False
    end.
  (** ... whose member requests moreover were all accepted: no-op applies *)
  Definition noop_sev (st : oset) (e : sev) : Prop :=
    match e with
    | SMember x => noop_ev x
    | SPhase (PGet _ _) => True
    | SMeta (MStatus rev conds ctrlof rem _ ok) =>
        ok = true /\ rev = os_revision st /\ conds = os_conds st /\ ctrlof = os_ctrlof st /\ rem = os_remotes st
    | _ => False
    end.

  Lemma quiet_lev_sev st l : Forall quiet_lev l -> Forall (quiet_sev st) l.
  Proof. apply Forall_impl. intros [x|m|[]]; cbn; tauto. Qed.
  Lemma noop_lev_sev st l : Forall noop_lev l -> Forall (noop_sev st) l.
  Proof. apply Forall_impl. intros [x|m|[]]; cbn; tauto. Qed.
  Lemma paused_reads_quiet st phs m : Forall (quiet_sev st) (paused_reads phs m) /\ Forall (noop_sev st) (paused_reads phs m).
  Proof.
    unfold paused_reads. generalize (os_remotes m). intros refs. induction refs as [|x xs [IH1 IH2]]; cbn; [split; constructor|].
    destruct (find_phase phs _ _ (fst x)); split; constructor; try exact I; try assumption; constructor.
  Qed.

  (** ** the pass after the revision is known *)
  Definition fail_tail (sw : sworld) (pevs : list sev) (m : oset) (reason : creason) : sworld * list sev * sres :=
    let '(sw'', _, ok) := update_status sw (fail_status m reason) in
    (sw'', pevs ++ [status_ev (fail_status m reason) ok], if ok then SDone true else SError).
  Definition ok_tail (sw : sworld) (pevs : list sev) (m : oset) (ctrlof : list okey) (failed : option N) : sworld * list sev * sres :=
    let '(sw3, _, ok) := update_status sw (final_status (sw_phases sw) m ctrlof failed) in
    (sw3, pevs ++ paused_reads (sw_phases sw) m ++ [status_ev_f (final_status (sw_phases sw) m ctrlof failed) failed ok],
     if ok then SDone false else SError).
  Definition loop_tail (pr : mres) (sw : sworld) (pevs : list sev) (m : oset) : sworld * list sev * sres :=
    match pr with
    | MPreflight => fail_tail sw pevs m RPreflightError
    | MErr ErrNotPrevious | MErr ErrRevCollision => fail_tail sw pevs m RCollisionDetected
    | MErr _ | MRemoteErr => (sw, pevs, SError)
    | MOk ctrlof failed => ok_tail sw pevs m ctrlof failed
    end.
  Definition body_go (sw1 : sworld) (mem1 : oset) : sworld * list sev * sres :=
    if Nat.ltb 0 (dup_count [] (map (spec_key mem1) (all_objects mem1))) then fail_tail sw1 [] mem1 RPreflightError else
    let '(sw2, pevs, rem, pr) :=
      reconcile_phases_m force sw1 mem1 (as_owner mem1) (lookup_prev (sw_sets sw1) mem1) (os_phases mem1) [] (os_remotes mem1) in
    loop_tail pr sw2 pevs (set_remotes mem1 rem).

  Lemma active_body_go sw0 evs0 mem sw1 evs1 mem1 :
    revision_pass sw0 mem = (sw1, evs1, mem1, RevGo) ->
    active_body force sw0 evs0 mem = let '(sw', evs, r) := body_go sw1 mem1 in (sw', (evs0 ++ evs1) ++ evs, r).
  Proof.
    intros H. unfold active_body, body_go, loop_tail, fail_tail, ok_tail, fail_status. rewrite H. cbv zeta.
    destruct (Nat.ltb 0 _).
    - destruct (update_status _ _) as [[? ?] ?]. reflexivity.
    - destruct (reconcile_phases_m _ _ _ _ _ _ _ _) as [[[sw2 pevs] rem] pr].
      destruct pr as [e| | |ctrlof failed]; [destruct e| | |];
        repeat match goal with |- context [update_status ?a ?b] => destruct (update_status a b) as [[? ?] ?] end;
        rewrite <- ?app_assoc; reflexivity.
  Qed.

  (** ** a status write pinned to the stored version, and the same status sent again *)
  Lemma write_then_noop sw m st sw' mx ok :
    find_set (sw_sets sw) (oi_kind (os_id m)) (oi_ns (os_id m)) (oi_name (os_id m)) = Some st ->
    os_rv st = os_rv m -> spec_eq m st ->
    update_status sw m = (sw', mx, ok) ->
    ok = true /\ w_store (sw_w sw') = w_store (sw_w sw) /\ sw_phases sw' = sw_phases sw /\ sw_nss sw' = sw_nss sw /\
    exists st', find_set (sw_sets sw') (oi_kind (os_id m)) (oi_ns (os_id m)) (oi_name (os_id m)) = Some st' /\
      spec_eq st' st /\ stat_eq st' m /\
      (forall x, os_remotes m = os_remotes st \/ ~ In (oi_name (os_id st)) (os_prev x) ->
                 lookup_prev (sw_sets sw') x = lookup_prev (sw_sets sw) x) /\
      forall m2, os_id m2 = os_id m -> os_rv m2 = os_rv st' -> stat_eq m2 m -> update_status sw' m2 = (sw', m2, true).
  Proof.
    intros Hf Hrv Hsp Hu. pose proof Hsp as (Hid & _).
    destruct (update_status_post sw m st sw' mx ok Hf Hrv Hid Hu) as (Hok & Hst & Hph & Hns & st' & Hf' & Hsp' & Hstat & Hlp).
    split; [exact Hok|]. split; [exact Hst|]. split; [exact Hph|]. split; [exact Hns|].
    exists st'. split; [exact Hf'|]. split; [exact Hsp'|]. split; [exact Hstat|]. split; [exact Hlp|].
    intros m2 Hid2 Hrv2 Hs2. apply (update_status_noop sw' m2 st'); [now rewrite Hid2|now symmetry|].
    eapply stat_eq_trans; [exact Hstat|]. now apply stat_eq_sym.
  Qed.

  (** the Available=False report, written and then computed again from what was stored *)
  Lemma fail_replay sw2 m st reason pevs sw3 evs r :
    find_set (sw_sets sw2) (oi_kind (os_id m)) (oi_ns (os_id m)) (oi_name (os_id m)) = Some st ->
    os_rv st = os_rv m -> spec_eq m st ->
    fail_tail sw2 pevs m reason = (sw3, evs, r) ->
    r = SDone true /\ w_store (sw_w sw3) = w_store (sw_w sw2) /\ sw_phases sw3 = sw_phases sw2 /\ sw_nss sw3 = sw_nss sw2 /\
    exists st', find_set (sw_sets sw3) (oi_kind (os_id m)) (oi_ns (os_id m)) (oi_name (os_id m)) = Some st' /\
      spec_eq st' st /\ stat_eq st' (fail_status m reason) /\
      (forall x, os_remotes m = os_remotes st \/ ~ In (oi_name (os_id st)) (os_prev x) ->
                 lookup_prev (sw_sets sw3) x = lookup_prev (sw_sets sw2) x) /\
      forall m2 pevs2, same_but_rev m2 st' -> os_revision m2 = os_revision m ->
        fail_tail sw3 pevs2 m2 reason = (sw3, pevs2 ++ [status_ev (fail_status m2 reason) true], SDone true) /\
        quiet_sev st' (status_ev (fail_status m2 reason) true) /\ noop_sev st' (status_ev (fail_status m2 reason) true).
  Proof.
    intros Hf Hrv Hsp. unfold fail_tail.
    destruct (update_status sw2 (fail_status m reason)) as [[swx mx] ok] eqn:Eu. intros H. injection H as <- <- <-.
    destruct (write_then_noop sw2 (fail_status m reason) st swx mx ok Hf Hrv Hsp Eu)
      as (-> & Hst & Hph & Hns & st' & Hf' & Hsp' & Hstat & Hlp & Hnoop).
    split; [reflexivity|]. split; [exact Hst|]. split; [exact Hph|]. split; [exact Hns|].
    exists st'. split; [exact Hf'|]. split; [exact Hsp'|]. split; [exact Hstat|]. split; [exact Hlp|].
    intros m2 pevs2 (Hsp2 & Hrv2 & Hcd2 & Hct2 & Hrm2) Hrev2.
    destruct Hstat as (Hs1 & Hs2 & Hs3 & Hs4). cbn [fail_status os_revision os_conds os_ctrlof os_remotes set_conds] in Hs1, Hs2, Hs3, Hs4.
    assert (Hgen : os_gen m2 = os_gen m).
    { destruct Hsp2 as (_&Hg2&_), Hsp' as (_&Hg'&_), Hsp as (_&Hg&_). congruence. }
    assert (Hid2 : os_id m2 = os_id m).
    { destruct Hsp2 as (Hi2&_), Hsp' as (Hi'&_), Hsp as (Hi&_). congruence. }
    assert (Hcf : os_conds (fail_status m2 reason) = os_conds st').
    { cbn [fail_status os_conds set_conds]. rewrite Hcd2, Hs2, (mk_cond_gen m2 m) by exact Hgen. apply set_cond_idem. }
    assert (Hse : stat_eq (fail_status m2 reason) (fail_status m reason)).
    { split; [cbn; congruence|]. split; [rewrite Hcf; exact Hs2|]. split; cbn; congruence. }
    rewrite (Hnoop (fail_status m2 reason) Hid2 Hrv2 Hse).
    split; [reflexivity|].
    assert (Hq : true = true /\ os_revision (fail_status m2 reason) = os_revision st' /\ os_conds (fail_status m2 reason) = os_conds st' /\
                 os_ctrlof (fail_status m2 reason) = os_ctrlof st' /\ os_remotes (fail_status m2 reason) = os_remotes st').
    { split; [reflexivity|]. split; [cbn; congruence|]. split; [exact Hcf|]. split; cbn; congruence. }
    split; exact Hq.
  Qed.

  (** ** hypotheses on the world: well-formed stored members; delegated phases that need no write *)
  Definition members_wf (sw : sworld) (mem : oset) : Prop :=
    forall ph p cu, In ph (os_phases mem) -> ph_class ph = false -> In p (ph_objects ph) ->
      lookup (key_of (as_owner mem) p) (w_store (sw_w sw)) = Some cu -> obj_wf Native (os_id mem) cu.
  Definition remotes_ok (sw : sworld) (mem : oset) : Prop :=
    forall ph, In ph (os_phases mem) -> ph_class ph = true -> remote_ok (sw_phases sw) mem ph.
  (** the references to the phase objects are already in status.remotePhases *)
  Definition remotes_recorded (sw : sworld) (mem : oset) : Prop :=
    forall ph p, In ph (os_phases mem) -> ph_class ph = true -> remote_ref (sw_phases sw) mem ph p -> recorded (os_remotes mem) p.
  (** an ObjectSet does not name itself as its own previous revision *)
  Definition not_own_prev (mem : oset) : Prop := ~ In (oi_name (os_id mem)) (os_prev mem).
  (** the status after a loop that returned, written and then computed again from what was stored *)
  Lemma ok_replay sw2 m st ctrlof failed pevs sw3 evs r :
    find_set (sw_sets sw2) (oi_kind (os_id m)) (oi_ns (os_id m)) (oi_name (os_id m)) = Some st ->
    os_rv st = os_rv m -> spec_eq m st ->
    ok_tail sw2 pevs m ctrlof failed = (sw3, evs, r) ->
    r = SDone false /\ w_store (sw_w sw3) = w_store (sw_w sw2) /\ sw_phases sw3 = sw_phases sw2 /\ sw_nss sw3 = sw_nss sw2 /\
    exists st', find_set (sw_sets sw3) (oi_kind (os_id m)) (oi_ns (os_id m)) (oi_name (os_id m)) = Some st' /\
      spec_eq st' st /\ stat_eq st' (final_status (sw_phases sw2) m ctrlof failed) /\
      (forall x, os_remotes m = os_remotes st \/ ~ In (oi_name (os_id st)) (os_prev x) ->
                 lookup_prev (sw_sets sw3) x = lookup_prev (sw_sets sw2) x) /\
      forall m2 pevs2, same_but_rev m2 st' -> os_revision m2 = os_revision m ->
        ok_tail sw3 pevs2 m2 ctrlof failed =
        (sw3, pevs2 ++ paused_reads (sw_phases sw3) m2 ++ [status_ev_f (final_status (sw_phases sw3) m2 ctrlof failed) failed true], SDone false) /\
        quiet_sev st' (status_ev_f (final_status (sw_phases sw3) m2 ctrlof failed) failed true) /\
        noop_sev st' (status_ev_f (final_status (sw_phases sw3) m2 ctrlof failed) failed true).
  Proof.
    intros Hf Hrv Hsp. unfold ok_tail.
    set (F := final_status (sw_phases sw2) m ctrlof failed).
    destruct (final_status_fields (sw_phases sw2) m ctrlof failed) as (HFsp & HFrv & HFrev & HFct & HFrm & _). fold F in HFsp, HFrv, HFrev, HFct, HFrm.
    destruct (update_status sw2 F) as [[swx mx] ok] eqn:Eu. intros H. injection H as <- <- <-.
    assert (HfF : find_set (sw_sets sw2) (oi_kind (os_id F)) (oi_ns (os_id F)) (oi_name (os_id F)) = Some st) by exact Hf.
    destruct (write_then_noop sw2 F st swx mx ok HfF (eq_trans Hrv (eq_sym HFrv)) (spec_eq_trans _ _ _ HFsp Hsp) Eu)
      as (-> & Hst & Hph & Hns & st' & Hf' & Hsp' & Hstat & Hlp & Hnoop).
    split; [reflexivity|]. split; [exact Hst|]. split; [exact Hph|]. split; [exact Hns|].
    exists st'. split; [exact Hf'|]. split; [exact Hsp'|]. split; [exact Hstat|].
    split. { intros x Hx. apply Hlp. now rewrite HFrm. }
    intros m2 pevs2 (Hsp2 & Hrv2 & Hcd2 & Hct2 & Hrm2) Hrev2. rewrite Hph.
    destruct Hstat as (Hs1 & Hs2 & Hs3 & Hs4).
    assert (Hs : spec_eq m2 m).
    { eapply spec_eq_trans; [exact Hsp2|]. eapply spec_eq_trans; [exact Hsp'|]. now apply spec_eq_sym. }
    destruct Hs as (Hi & Hg & _ & _ & _ & _ & Hl & Hp & _).
    set (F2 := final_status (sw_phases sw2) m2 ctrlof failed).
    destruct (final_status_fields (sw_phases sw2) m2 ctrlof failed) as (_ & HF2rv & HF2rev & HF2ct & HF2rm & _).
    fold F2 in HF2rv, HF2rev, HF2ct, HF2rm.
    assert (Hcf : os_conds F2 = os_conds m2).
    { apply (final_status_fix (sw_phases sw2) m m2 ctrlof failed); try assumption; [congruence|]. fold F. congruence. }
    assert (Hse : stat_eq F2 F) by (repeat split; congruence).
    assert (HidF : os_id F2 = os_id F) by exact Hi.
    rewrite (Hnoop F2 HidF (eq_trans HF2rv Hrv2) Hse).
    split; [reflexivity|].
    assert (Hq : true = true /\ os_revision F2 = os_revision st' /\ os_conds F2 = os_conds st' /\
                 os_ctrlof F2 = os_ctrlof st' /\ os_remotes F2 = os_remotes st') by (repeat split; congruence).
    split; exact Hq.
  Qed.

  (** ** what follows the phase loop, replayed *)
  (** [tail]: what the pass does after the loop; [m]: the in-memory copy of the first pass at that point; [st]: the
      stored set; afterwards [st'] is stored: either nothing was written, or revision and remote references are persisted. *)
  Definition tail_post (tail : sworld -> list sev -> oset -> sworld * list sev * sres)
             (sw2 : sworld) (m st : oset) (sw3 : sworld) (r : sres) : Prop :=
    w_store (sw_w sw3) = w_store (sw_w sw2) /\ sw_phases sw3 = sw_phases sw2 /\
    exists st', find_set (sw_sets sw3) (oi_kind (os_id m)) (oi_ns (os_id m)) (oi_name (os_id m)) = Some st' /\
      spec_eq st' st /\ find_cond (os_conds st') CArchived = find_cond (os_conds st) CArchived /\
      ((st' = st /\ sw3 = sw2) \/ (os_revision st' = os_revision m /\ os_remotes st' = os_remotes m)) /\
      (forall x, os_remotes m = os_remotes st \/ ~ In (oi_name (os_id st)) (os_prev x) ->
                 lookup_prev (sw_sets sw3) x = lookup_prev (sw_sets sw2) x) /\
      forall m2 pevs2, spec_eq m2 st' -> os_rv m2 = os_rv st' -> os_conds m2 = os_conds st' -> os_ctrlof m2 = os_ctrlof st' ->
        os_revision m2 = os_revision m -> os_remotes m2 = os_remotes m ->
        exists tl, tail sw3 pevs2 m2 = (sw3, pevs2 ++ tl, r) /\ Forall (quiet_sev st') tl /\ Forall (noop_sev st') tl.

  Lemma fail_tail_post reason sw2 pevs m st sw3 evs r :
    find_set (sw_sets sw2) (oi_kind (os_id m)) (oi_ns (os_id m)) (oi_name (os_id m)) = Some st ->
    spec_eq m st -> os_rv m = os_rv st -> os_conds m = os_conds st ->
    fail_tail sw2 pevs m reason = (sw3, evs, r) ->
    tail_post (fun sw p x => fail_tail sw p x reason) sw2 m st sw3 r.
  Proof.
    intros Hf Hsp Hrv Hcd H.
    destruct (fail_replay sw2 m st reason pevs sw3 evs r Hf (eq_sym Hrv) Hsp H)
      as (-> & Hst & Hph & Hns & st' & Hf' & Hsp' & Hstat & Hlp & Hagain).
    split; [exact Hst|]. split; [exact Hph|].
    exists st'. split; [exact Hf'|]. split; [exact Hsp'|].
    split. { destruct Hstat as (_ & -> & _). cbn [fail_status os_conds set_conds]. rewrite find_set_cond_other by (cbn; discriminate). now rewrite Hcd. }
    split. { right. destruct Hstat as (-> & _ & _ & ->). split; reflexivity. }
    split; [exact Hlp|].
    intros m2 pevs2 Hs2 Hrv2 Hcd2 Hct2 Hrev2 Hrm2.
    assert (Hm2 : same_but_rev m2 st').
    { split; [exact Hs2|]. split; [exact Hrv2|]. split; [exact Hcd2|]. split; [exact Hct2|]. destruct Hstat as (_ & _ & _ & ->). exact Hrm2. }
    destruct (Hagain m2 pevs2 Hm2 Hrev2) as (Hrun & Hq & Hn).
    eexists. split; [exact Hrun|]. split; (constructor; [assumption|constructor]).
  Qed.

  Lemma loop_tail_replay pr sw2 pevs m st sw3 evs r :
    find_set (sw_sets sw2) (oi_kind (os_id m)) (oi_ns (os_id m)) (oi_name (os_id m)) = Some st ->
    spec_eq m st -> os_rv m = os_rv st -> os_conds m = os_conds st ->
    loop_tail pr sw2 pevs m = (sw3, evs, r) ->
    tail_post (loop_tail pr) sw2 m st sw3 r.
  Proof.
    intros Hf Hsp Hrv Hcd.
    assert (Gerr : (sw2, pevs, SError) = (sw3, evs, r) -> tail_post (fun sw p (_ : oset) => (sw, p, SError)) sw2 m st sw3 r).
    { intros H. injection H as <- <- <-. split; [reflexivity|]. split; [reflexivity|].
      exists st. split; [exact Hf|]. split; [apply spec_eq_refl|]. split; [reflexivity|]. split; [left; now split|].
      split; [reflexivity|].
      intros m2 pevs2 _ _ _ _ _ _. exists []. rewrite app_nil_r. repeat split; constructor. }
    destruct pr as [e| | |ctrlof failed]; cbn [loop_tail].
    - destruct e; first [exact (fail_tail_post RCollisionDetected sw2 pevs m st sw3 evs r Hf Hsp Hrv Hcd)|exact Gerr].
    - exact Gerr.
    - exact (fail_tail_post RPreflightError sw2 pevs m st sw3 evs r Hf Hsp Hrv Hcd).
    - intros H.
      destruct (ok_replay sw2 m st ctrlof failed pevs sw3 evs r Hf (eq_sym Hrv) Hsp H)
        as (-> & Hst & Hph & Hns & st' & Hf' & Hsp' & Hstat & Hlp & Hagain).
      split; [exact Hst|]. split; [exact Hph|].
      destruct (final_status_fields (sw_phases sw2) m ctrlof failed) as (_ & _ & HFrev & _ & HFrm & HFar).
      exists st'. split; [exact Hf'|]. split; [exact Hsp'|].
      split. { destruct Hstat as (_ & -> & _). now rewrite HFar, Hcd. }
      split. { right. destruct Hstat as (-> & _ & _ & ->). split; assumption. }
      split; [exact Hlp|].
      intros m2 pevs2 Hs2 Hrv2 Hcd2 Hct2 Hrev2 Hrm2.
      assert (Hm2 : same_but_rev m2 st').
      { split; [exact Hs2|]. split; [exact Hrv2|]. split; [exact Hcd2|]. split; [exact Hct2|]. destruct Hstat as (_ & _ & _ & ->). now rewrite HFrm. }
      destruct (Hagain m2 pevs2 Hm2 Hrev2) as (Hrun & Hq & Hn).
      eexists. split; [exact Hrun|].
      destruct (paused_reads_quiet st' (sw_phases sw3) m2) as [Hp1 Hp2].
      split; (apply Forall_app; split; [assumption|constructor; [assumption|constructor]]).
  Qed.

  Lemma set_remotes_self m : set_remotes m (os_remotes m) = m.
  Proof. destruct m; reflexivity. Qed.

  (** ** the pass (after the revision is known) replayed on its own output world *)
  Lemma body_go_replay sw1 mem1 st sw' evs r :
    find_set (sw_sets sw1) (oi_kind (os_id mem1)) (oi_ns (os_id mem1)) (oi_name (os_id mem1)) = Some st ->
    same_but_rev mem1 st ->
    lifecycle_eqb (os_life mem1) LPaused = false ->
    members_wf sw1 mem1 -> remotes_ok sw1 mem1 -> remotes_recorded sw1 mem1 \/ not_own_prev mem1 ->
    body_go sw1 mem1 = (sw', evs, r) ->
    exists st', find_set (sw_sets sw') (oi_kind (os_id mem1)) (oi_ns (os_id mem1)) (oi_name (os_id mem1)) = Some st' /\
      spec_eq st' st /\ find_cond (os_conds st') CArchived = find_cond (os_conds st) CArchived /\
      (st' = st \/ os_revision st' = os_revision mem1) /\
      forall m2, same_but_rev m2 st' -> os_revision m2 = os_revision mem1 ->
        exists evs2, body_go sw' m2 = (sw', evs2, r) /\ Forall (quiet_sev st') evs2 /\
                     (r <> SError -> Forall (noop_sev st') evs2).
  Proof.
    intros Hf Hsb Hpa Hwf Hrr Hstable. pose proof Hsb as (Hsp & Hrv & Hcd & Hct & Hrm).
    (* what any second in-memory copy shares with the first *)
    assert (Htwin : forall st' m2, spec_eq st' st -> same_but_rev m2 st' -> os_revision m2 = os_revision mem1 ->
              as_owner m2 = as_owner mem1 /\ (forall ph, desired_phase m2 ph = desired_phase mem1 ph) /\
              map (spec_key m2) (all_objects m2) = map (spec_key mem1) (all_objects mem1) /\
              (forall sets, lookup_prev sets m2 = lookup_prev sets mem1) /\ os_phases m2 = os_phases mem1 /\
              os_id m2 = os_id mem1).
    { intros st' m2 Hsp' (Hsp2 & _) Hrev2.
      assert (Hs : spec_eq m2 mem1).
      { eapply spec_eq_trans; [exact Hsp2|]. eapply spec_eq_trans; [exact Hsp'|]. now apply spec_eq_sym. }
      split; [now apply as_owner_ext|]. split; [intros ph; now apply desired_phase_ext|].
      split; [now apply spec_keys_ext|]. split; [intros sets; now apply lookup_prev_ext|].
      destruct Hs as (Hi&_&_&_&_&_&_&Hph&_). auto. }
    unfold body_go at 1.
    destruct (Nat.ltb 0 (dup_count [] (map (spec_key mem1) (all_objects mem1)))) eqn:Edup.
    - (* duplicate objects: Available=False is reported, nothing else *)
      intros H.
      destruct (loop_tail_replay MPreflight sw1 [] mem1 st sw' evs r Hf Hsp Hrv Hcd H)
        as (_ & _ & st' & Hf' & Hsp' & Har & Hor & _ & Hagain).
      exists st'. split; [exact Hf'|]. split; [exact Hsp'|]. split; [exact Har|].
      split. { destruct Hor as [[-> _]|[-> _]]; [now left|now right]. }
      intros m2 Hm2 Hrev2. destruct (Htwin st' m2 Hsp' Hm2 Hrev2) as (_ & _ & Hkeys & _).
      destruct Hm2 as (Hs2 & Hrv2 & Hcd2 & Hct2 & Hrm2).
      assert (Hrm2' : os_remotes m2 = os_remotes mem1).
      { rewrite Hrm2. destruct Hor as [[-> _]|[_ ->]]; [now symmetry|reflexivity]. }
      destruct (Hagain m2 [] Hs2 Hrv2 Hcd2 Hct2 Hrev2 Hrm2') as (tl & Hrun & Hq & Hn).
      exists ([] ++ tl). unfold body_go. rewrite Hkeys, Edup. split; [exact Hrun|]. split; [exact Hq|intros _; exact Hn].
    - assert (Hdup0 : dup_count [] (map (spec_key mem1) (all_objects mem1)) = O) by (apply Nat.ltb_ge in Edup; lia).
      pose proof (dup_zero_nodup mem1 Hdup0) as Hnd.
      destruct (reconcile_phases_m force sw1 mem1 (as_owner mem1) (lookup_prev (sw_sets sw1) mem1) (os_phases mem1) [] (os_remotes mem1))
        as [[[sw2 pevs] rem] pr] eqn:Erp.
      destruct (rpm_replay force mem1 (as_owner mem1) (lookup_prev (sw_sets sw1) mem1) (os_phases mem1) sw1 [] (os_remotes mem1)
                  sw2 pevs rem pr Hpa Hnd Hwf Hrr Erp) as (Hph2 & Hsets2 & Hnss2 & ps & Hrem & Hps & Hnext).
      (* the references gathered by the loop agree on the uid whenever they agree on the name *)
      assert (Hfun : forall p q, In p ps -> In q ps -> fst p = fst q -> p = q).
      { intros p q Hp Hq. destruct (Hps p Hp) as (ph & _ & _ & Hrp), (Hps q Hq) as (ph' & _ & _ & Hrq). eapply remote_ref_fun; eauto. }
      assert (Hrec2 : forall p, In p ps -> recorded rem p) by (intros p Hp; rewrite Hrem; now apply fold_records_all).
      (* the stored previous revisions look the same after the status write *)
      assert (Hprev_ok : os_remotes (set_remotes mem1 rem) = os_remotes st \/ ~ In (oi_name (os_id st)) (os_prev mem1)).
      { destruct Hstable as [Hall|Hnot].
        - left. cbn [os_remotes set_remotes]. rewrite Hrem, <- Hrm. apply fold_recorded.
          intros p Hp. destruct (Hps p Hp) as (ph & Hin & Hc & Hrp). now apply (Hall ph p).
        - right. destruct Hsp as (<- & _). exact Hnot. }
      intros H.
      assert (Hf2 : find_set (sw_sets sw2) (oi_kind (os_id (set_remotes mem1 rem))) (oi_ns (os_id (set_remotes mem1 rem)))
                      (oi_name (os_id (set_remotes mem1 rem))) = Some st) by (cbn [os_id set_remotes]; now rewrite Hsets2).
      destruct (loop_tail_replay pr sw2 pevs (set_remotes mem1 rem) st sw' evs r Hf2 Hsp Hrv Hcd H)
        as (Hst3 & Hph3 & st' & Hf' & Hsp' & Har & Hor & Hlp & Hagain).
      cbn [os_id os_revision os_remotes set_remotes] in Hf', Hor, Hlp, Hagain.
      exists st'. split; [exact Hf'|]. split; [exact Hsp'|]. split; [exact Har|].
      split. { destruct Hor as [[-> _]|[-> _]]; [now left|now right]. }
      intros m2 Hm2 Hrev2. destruct (Htwin st' m2 Hsp' Hm2 Hrev2) as (Hown & Hdes & Hkeys & Hprev & Hphs & Hid).
      destruct Hm2 as (Hs2 & Hrv2 & Hcd2 & Hct2 & Hrm2).
      (* the second loop starts from the stored references and ends with the same references as the first *)
      assert (Hfold : fold_left add_remote ps (os_remotes m2) = rem).
      { rewrite Hrm2. destruct Hor as [[-> _]|[_ ->]]; [now rewrite <- Hrm|]. now apply fold_recorded. }
      destruct (Hnext sw' m2 (os_remotes m2)) as (evs2 & Hrun & Hq & Hn).
      { intros k _. now rewrite Hst3. }
      { now rewrite Hph3. }
      { exact Hdes. }
      { now rewrite Hid. }
      rewrite Hfold in Hrun.
      destruct (Hagain (set_remotes m2 rem) evs2) as (tl & Htl & Hqt & Hnt); try assumption; try reflexivity.
      exists (evs2 ++ tl). unfold body_go. rewrite Hkeys, Edup, Hown, Hphs, Hprev.
      rewrite (Hlp mem1 Hprev_ok), Hsets2, Hrun. split; [exact Htl|].
      split; [apply Forall_app; split; [now apply quiet_lev_sev|exact Hqt]|].
      intros Hne. apply Forall_app. split; [|exact Hnt]. apply noop_lev_sev, Hn.
      intros ->. cbn in H. injection H as _ _ <-. now apply Hne.
  Qed.

  (** ** the reconciler loop of an ObjectSet whose revision is assigned *)
  Lemma revision_pass_assigned sw mem : os_revision mem <> 0%Z -> revision_pass sw mem = (sw, [], mem, RevGo).
  Proof. intros H. unfold revision_pass. apply Z.eqb_neq in H. now rewrite H. Qed.

  Lemma active_body_fixpoint sw evs0 mem sw1 evs1 r1 :
    find_set (sw_sets sw) (oi_kind (os_id mem)) (oi_ns (os_id mem)) (oi_name (os_id mem)) = Some mem ->
    os_revision mem <> 0%Z -> lifecycle_eqb (os_life mem) LPaused = false ->
    members_wf sw mem -> remotes_ok sw mem -> remotes_recorded sw mem \/ not_own_prev mem ->
    active_body force sw evs0 mem = (sw1, evs1, r1) ->
    exists st', find_set (sw_sets sw1) (oi_kind (os_id mem)) (oi_ns (os_id mem)) (oi_name (os_id mem)) = Some st' /\
      spec_eq st' mem /\ find_cond (os_conds st') CArchived = find_cond (os_conds mem) CArchived /\
      os_revision st' <> 0%Z /\
      exists evs2, active_body force sw1 [] st' = (sw1, evs2, r1) /\ Forall (quiet_sev st') evs2 /\
                   (r1 <> SError -> Forall (noop_sev st') evs2).
  Proof.
    intros Hf Hrev Hpa Hwf Hrr Hstb. rewrite (active_body_go sw evs0 mem sw [] mem (revision_pass_assigned sw mem Hrev)).
    destruct (body_go sw mem) as [[swx evsx] rx] eqn:Eb. intros H. injection H as <- <- <-.
    destruct (body_go_replay sw mem mem swx evsx rx Hf (same_but_rev_refl mem) Hpa Hwf Hrr Hstb Eb)
      as (st' & Hf' & Hsp' & Har & Hor & Hagain).
    assert (Hrev' : os_revision st' <> 0%Z) by (destruct Hor as [-> | ->]; exact Hrev).
    assert (Hrev2 : os_revision st' = os_revision mem) by (destruct Hor as [-> | ->]; reflexivity).
    exists st'. split; [exact Hf'|]. split; [exact Hsp'|]. split; [exact Har|]. split; [exact Hrev'|].
    destruct (Hagain st' (same_but_rev_refl st') Hrev2) as (evs2 & Hrun & Hq & Hn).
    exists evs2. rewrite (active_body_go swx [] st' swx [] st' (revision_pass_assigned swx st' Hrev')), Hrun.
    split; [reflexivity|]. split; assumption.
  Qed.

  (** ** revision assignment (revisionReconciler), replayed *)

  (** the stored sets after a status update, as seen by a reader of any key: unchanged, or the updated set *)
  Lemma update_status_sets sw m st sw' m' ok :
    find_set (sw_sets sw) (oi_kind (os_id m)) (oi_ns (os_id m)) (oi_name (os_id m)) = Some st ->
    os_rv st = os_rv m -> spec_eq m st ->
    update_status sw m = (sw', m', ok) ->
    forall st', find_set (sw_sets sw') (oi_kind (os_id m)) (oi_ns (os_id m)) (oi_name (os_id m)) = Some st' ->
      same_but_rev m' st' /\
      forall kind ns name,
        find_set (sw_sets sw') kind ns name = find_set (sw_sets sw) kind ns name \/
        (find_set (sw_sets sw') kind ns name = Some st' /\ find_set (sw_sets sw) kind ns name = Some st).
  Proof.
    intros Hf Hrv Hsp. pose proof Hsp as (Hid & _). unfold update_status. rewrite Hf, Hrv, N.eqb_refl. cbn [negb].
    destruct (status_eqb st m) eqn:Es.
    - intros H st' Hf'. injection H as <- <- _. rewrite Hf in Hf'. injection Hf' as <-.
      apply status_eqb_spec in Es. destruct Es as (E1 & E2 & E3 & E4).
      split; [|intros; now left]. split; [exact Hsp|]. auto.
    - intros H st' Hf'. injection H as <- <- _. cbn [sw_sets] in Hf' |- *.
      set (s' := with_status st m (w_rv (sw_w sw))) in *.
      assert (Hid' : os_id s' = os_id st) by reflexivity.
      assert (Hfs : find_set (sw_sets sw) (oi_kind (os_id s')) (oi_ns (os_id s')) (oi_name (os_id s')) = Some st) by (rewrite Hid', <- Hid; exact Hf).
      rewrite Hid, <- Hid' in Hf'. rewrite (find_put_set _ s' st Hfs) in Hf'. injection Hf' as <-.
      split; [apply same_but_rev_refl|].
      intros kind ns name. destruct (set_key s' kind ns name) eqn:E.
      + right. destruct (set_key_true _ _ _ _ E) as (-> & -> & ->). split; [now apply (find_put_set _ s' st)|exact Hfs].
      + left. now apply find_put_set_other.
  Qed.

  Lemma scan_prev_ext sets sets' s s' names :
    os_id s' = os_id s ->
    (forall name, option_map os_revision (find_set sets' (oi_kind (os_id s)) (oi_ns (os_id s)) name) =
                  option_map os_revision (find_set sets (oi_kind (os_id s)) (oi_ns (os_id s)) name)) ->
    forall latest, scan_prev sets' s' names latest = scan_prev sets s names latest.
  Proof.
    intros Hid Hrev. induction names as [|x xs IH]; intros latest; cbn; [reflexivity|]. rewrite Hid.
    specialize (Hrev x).
    destruct (find_set sets' _ _ x) as [p'|], (find_set sets _ _ x) as [p|]; cbn in Hrev; try discriminate; [|reflexivity].
    injection Hrev as ->. destruct (Z.eqb (os_revision p) 0); [reflexivity|apply IH].
  Qed.

  Lemma scan_prev_ge sets s names : forall latest x, scan_prev sets s names latest = Some (Some x) -> (latest <= x)%Z.
  Proof.
    induction names as [|n ns IH]; intros latest x; cbn.
    - intros H. injection H as <-. lia.
    - destruct (find_set sets _ _ n) as [p|]; [|discriminate]. destruct (Z.eqb (os_revision p) 0); [discriminate|].
      intros H. apply IH in H. lia.
  Qed.

  Lemma set_conds_self m : set_conds m (os_conds m) = m.
  Proof. destruct m; reflexivity. Qed.

  Lemma members_wf_ext sw sw' m m' :
    w_store (sw_w sw') = w_store (sw_w sw) -> os_id m' = os_id m -> os_phases m' = os_phases m ->
    members_wf sw m -> members_wf sw' m'.
  Proof.
    intros Hst Hid Hph H ph p cu Hin Hc Hp Hl. rewrite Hid. rewrite Hph in Hin. apply (H ph p cu Hin Hc Hp).
    rewrite <- Hst, <- Hl. unfold key_of, desired_key, as_owner. cbn. now rewrite Hid.
  Qed.

  Lemma remotes_ok_ext sw sw' m m' :
    sw_phases sw' = sw_phases sw -> os_id m' = os_id m -> os_phases m' = os_phases m -> os_life m' = os_life m ->
    remotes_ok sw m -> remotes_ok sw' m'.
  Proof.
    intros Hps Hid Hph Hl H ph Hin Hc. rewrite Hph in Hin. destruct (H ph Hin Hc) as (cur & Hf & Hct & Hp).
    exists cur. unfold desired_phase, phase_kind in *. cbn in *. rewrite Hps, Hid, Hl. auto.
  Qed.

  Lemma remotes_stable_ext sw sw' m m' :
    sw_phases sw' = sw_phases sw -> os_id m' = os_id m -> os_phases m' = os_phases m -> os_prev m' = os_prev m ->
    os_remotes m' = os_remotes m ->
    remotes_recorded sw m \/ not_own_prev m -> remotes_recorded sw' m' \/ not_own_prev m'.
  Proof.
    intros Hps Hid Hph Hpv Hrm [H|H]; [left|right].
    - intros ph p Hin Hc (cur & Hf & ->). rewrite Hph in Hin. rewrite Hrm.
      unfold desired_phase, phase_kind in *. cbn in *. rewrite Hps, Hid in Hf. rewrite Hid.
      apply (H ph _ Hin Hc). exists cur. split; [exact Hf|reflexivity].
    - unfold not_own_prev. now rewrite Hid, Hpv.
  Qed.

  (** ** the reconciler loop of the controller (revision, phases, status), replayed: for ANY revision state *)
  Theorem active_body_replay sw evs0 mem sw1 evs1 r1 :
    find_set (sw_sets sw) (oi_kind (os_id mem)) (oi_ns (os_id mem)) (oi_name (os_id mem)) = Some mem ->
    lifecycle_eqb (os_life mem) LPaused = false ->
    members_wf sw mem -> remotes_ok sw mem -> remotes_recorded sw mem \/ not_own_prev mem ->
    active_body force sw evs0 mem = (sw1, evs1, r1) ->
    exists st', find_set (sw_sets sw1) (oi_kind (os_id mem)) (oi_ns (os_id mem)) (oi_name (os_id mem)) = Some st' /\
      spec_eq st' mem /\ find_cond (os_conds st') CArchived = find_cond (os_conds mem) CArchived /\
      exists evs2, active_body force sw1 [] st' = (sw1, evs2, r1) /\ Forall (quiet_sev st') evs2 /\
                   (r1 <> SError -> Forall (noop_sev st') evs2).
  Proof.
    intros Hf Hpa Hwf Hrr Hstb.
    destruct (Z.eqb (os_revision mem) 0) eqn:Ez.
    2:{ apply Z.eqb_neq in Ez. intros H.
        destruct (active_body_fixpoint sw evs0 mem sw1 evs1 r1 Hf Ez Hpa Hwf Hrr Hstb H) as (st' & H1 & H2 & H3 & _ & H4).
        exists st'. auto. }
    destruct (os_prev mem) as [|pn pns] eqn:Epv.
    - (* no previous revision: revision 1 is assigned in memory and persisted with the status *)
      assert (Hrp : revision_pass sw mem = (sw, [], set_revision mem 1, RevGo)) by (unfold revision_pass; now rewrite Ez, Epv).
      rewrite (active_body_go sw evs0 mem sw [] _ Hrp).
      destruct (body_go sw (set_revision mem 1)) as [[swx evsx] rx] eqn:Eb. intros H. injection H as <- <- <-.
      assert (Hsb : same_but_rev (set_revision mem 1) mem) by (repeat split).
      destruct (body_go_replay sw (set_revision mem 1) mem swx evsx rx Hf Hsb Hpa Hwf Hrr Hstb Eb)
        as (st' & Hf' & Hsp' & Har & Hor & Hagain).
      exists st'. split; [exact Hf'|]. split; [exact Hsp'|]. split; [exact Har|].
      destruct (Z.eqb (os_revision st') 0) eqn:Ez'.
      + assert (Hpv' : os_prev st' = []) by (destruct Hsp' as (_&_&_&_&_&_&_&_&->); exact Epv).
        assert (Hrp' : revision_pass swx st' = (swx, [], set_revision st' 1, RevGo)) by (unfold revision_pass; now rewrite Ez', Hpv').
        destruct (Hagain (set_revision st' 1)) as (evs2 & Hrun & Hq & Hn); [repeat split|reflexivity|].
        exists evs2. rewrite (active_body_go swx [] st' swx [] _ Hrp'), Hrun. auto.
      + apply Z.eqb_neq in Ez'.
        assert (Hrev2 : os_revision st' = os_revision (set_revision mem 1)).
        { destruct Hor as [-> | ->]; [|reflexivity]. apply Z.eqb_eq in Ez. contradiction. }
        destruct (Hagain st' (same_but_rev_refl st') Hrev2) as (evs2 & Hrun & Hq & Hn).
        exists evs2. rewrite (active_body_go swx [] st' swx [] st' (revision_pass_assigned swx st' Ez')), Hrun. auto.
    - destruct (scan_prev (sw_sets sw) mem (os_prev mem) 0) as [[latest|]|] eqn:Esc.
      + (* the revision is computed from the previous revisions and persisted at once *)
        destruct (update_status sw (set_revision mem (latest + 1))) as [[swa mema] oka] eqn:Eu.
        assert (Hspm : spec_eq (set_revision mem (latest + 1)) mem) by (repeat split).
        destruct (update_status_post sw (set_revision mem (latest + 1)) mem swa mema oka Hf eq_refl eq_refl Eu)
          as (-> & Hsta & Hpha & Hnsa & sta & Hfa & Hspa & Hstata & _).
        destruct (update_status_sets sw (set_revision mem (latest + 1)) mem swa mema true Hf eq_refl Hspm Eu sta Hfa) as (Hsba & _).
        assert (Hrp : revision_pass sw mem = (swa, [status_ev (set_revision mem (latest + 1)) true], mema, RevGo)).
        { unfold revision_pass. rewrite Ez, Epv. rewrite <- Epv, Esc, Eu. reflexivity. }
        rewrite (active_body_go sw evs0 mem swa _ mema Hrp).
        destruct (body_go swa mema) as [[swx evsx] rx] eqn:Eb. intros H. injection H as <- <- <-.
        pose proof Hsba as (Hspma & _ & _ & _ & Hrma).
        assert (Hida : os_id mema = os_id mem).
        { destruct Hspma as (->&_), Hspa as (->&_). reflexivity. }
        assert (Hspmm : spec_eq mema mem) by (eapply spec_eq_trans; eauto).
        assert (Hrma' : os_remotes mema = os_remotes mem) by (rewrite Hrma; now destruct Hstata as (_&_&_&->)).
        assert (Hfa' : find_set (sw_sets swa) (oi_kind (os_id mema)) (oi_ns (os_id mema)) (oi_name (os_id mema)) = Some sta) by now rewrite Hida.
        assert (Hpa' : lifecycle_eqb (os_life mema) LPaused = false) by (destruct Hspmm as (_&_&_&_&_&_&->&_); exact Hpa).
        assert (Hwf' : members_wf swa mema).
        { apply (members_wf_ext sw swa mem mema Hsta Hida); [now destruct Hspmm as (_&_&_&_&_&_&_&->&_)|exact Hwf]. }
        assert (Hrr' : remotes_ok swa mema).
        { apply (remotes_ok_ext sw swa mem mema Hpha Hida); try assumption;
            [now destruct Hspmm as (_&_&_&_&_&_&_&->&_)|now destruct Hspmm as (_&_&_&_&_&_&->&_)]. }
        assert (Hstb' : remotes_recorded swa mema \/ not_own_prev mema).
        { apply (remotes_stable_ext sw swa mem mema Hpha Hida); try assumption;
            [now destruct Hspmm as (_&_&_&_&_&_&_&->&_)|now destruct Hspmm as (_&_&_&_&_&_&_&_&->)]. }
        destruct (body_go_replay swa mema sta swx evsx rx Hfa' Hsba Hpa' Hwf' Hrr' Hstb' Eb)
          as (st' & Hf' & Hsp' & Har & Hor & Hagain).
        rewrite Hida in Hf'.
        exists st'. split; [exact Hf'|]. split; [eapply spec_eq_trans; eauto|].
        split. { rewrite Har. destruct Hstata as (_ & -> & _). reflexivity. }
        assert (Hreva : os_revision mema = (latest + 1)%Z).
        { (* the in-memory copy carries the stored revision *)
          unfold update_status in Eu. cbn [os_id set_revision os_rv] in Eu. rewrite Hf, N.eqb_refl in Eu. cbn [negb] in Eu.
          destruct (status_eqb mem (set_revision mem (latest + 1))); injection Eu as _ <-; reflexivity. }
        assert (Hsta_rev : os_revision sta = (latest + 1)%Z) by now destruct Hstata as (-> & _).
        pose proof (scan_prev_ge _ _ _ _ _ Esc) as Hge.
        assert (Hrev' : os_revision st' <> 0%Z) by (destruct Hor as [-> | ->]; lia).
        assert (Hrev2 : os_revision st' = os_revision mema) by (destruct Hor as [-> | ->]; lia).
        destruct (Hagain st' (same_but_rev_refl st') Hrev2) as (evs2 & Hrun & Hq & Hn).
        exists evs2. rewrite (active_body_go swx [] st' swx [] st' (revision_pass_assigned swx st' Hrev')), Hrun. auto.
      + (* a previous revision has no revision number yet: requeue; only the Paused condition is reported *)
        assert (Hrp : revision_pass sw mem = (sw, [], mem, RevRequeue)).
        { unfold revision_pass. rewrite Ez, Epv. rewrite <- Epv, Esc. reflexivity. }
        unfold active_body. rewrite Hrp.
        set (mem2 := set_conds mem (paused_cond (sw_phases sw) mem)).
        destruct (update_status sw mem2) as [[sw2 mx] ok] eqn:Eu. intros H. injection H as <- <- <-.
        assert (Hspm : spec_eq mem2 mem) by (repeat split).
        destruct (update_status_post sw mem2 mem sw2 mx ok Hf eq_refl eq_refl Eu)
          as (-> & Hst2 & Hph2 & Hns2 & st' & Hf' & Hsp' & Hstat & _).
        destruct (update_status_sets sw mem2 mem sw2 mx true Hf eq_refl Hspm Eu st' Hf') as (_ & Hsets).
        destruct Hstat as (Hs1 & Hs2 & Hs3 & Hs4). cbn [mem2 os_revision os_conds os_ctrlof os_remotes set_conds] in Hs1, Hs2, Hs3, Hs4.
        exists st'. split; [exact Hf'|]. split; [exact Hsp'|].
        split. { rewrite Hs2. apply paused_cond_other. discriminate. }
        pose proof Hsp' as (Hi' & Hg' & _ & _ & _ & _ & Hl' & _ & Hpv').
        assert (Hrp' : revision_pass sw2 st' = (sw2, [], st', RevRequeue)).
        { unfold revision_pass. rewrite Hs1, Ez, Hpv', Epv. rewrite <- Epv.
          rewrite (scan_prev_ext (sw_sets sw) (sw_sets sw2) mem st' (os_prev mem) Hi'); [now rewrite Esc|].
          intros name. destruct (Hsets (oi_kind (os_id mem)) (oi_ns (os_id mem)) name) as [->|[-> ->]]; [reflexivity|]. cbn. now rewrite Hs1. }
        unfold active_body. rewrite Hrp', Hph2.
        assert (Hpc : paused_cond (sw_phases sw) st' = os_conds st').
        { apply (paused_cond_fix (sw_phases sw) mem st'); try assumption. now rewrite Hs2. }
        rewrite Hpc, set_conds_self.
        assert (Hf'' : find_set (sw_sets sw2) (oi_kind (os_id st')) (oi_ns (os_id st')) (oi_name (os_id st')) = Some st') by now rewrite Hi'.
        rewrite (update_status_noop sw2 st' st' Hf'' eq_refl (stat_eq_refl st')).
        eexists. split; [reflexivity|].
        destruct (paused_reads_quiet st' (sw_phases sw) st') as [Hp1 Hp2].
        split; [|intros _]; cbn [app]; (apply Forall_app; split; [assumption|constructor; [cbn; auto|constructor]]).
      + (* a previous revision is missing: error before any write *)
        assert (Hrp : revision_pass sw mem = (sw, [], mem, RevErr)).
        { unfold revision_pass. rewrite Ez, Epv. rewrite <- Epv, Esc. reflexivity. }
        unfold active_body. rewrite Hrp. intros H. injection H as <- <- <-.
        exists mem. split; [exact Hf|]. split; [apply spec_eq_refl|]. split; [reflexivity|].
        rewrite Hrp. eexists. split; [reflexivity|]. split; [constructor|intros _; constructor].
  Qed.

  (** ** GenericObjectSetController.Reconcile is a fixpoint of itself.
      For an active (not deleting, not archived), unpaused ObjectSet (with or without finalizer, with or without an
      assigned revision), over members whose
      stored owner lists are well-formed (and delegated phases whose phase objects need no write): whatever one pass
      did - completed, stopped at a failing probe, was refused an adoption, met a duplicate, had to wait for a previous revision - the NEXT pass from
      the world it left returns the same result and leaves that world exactly as it is (member store, both counters,
      every stored ObjectSet, phase objects, namespaces); every request it sends is a no-op apply (or an apply the
      server rejects again), a read of a phase object, or a status update equal to the stored status, which the
      server does not persist. *)
  Theorem pass_fixpoint sw k ns n mem0 sw1 evs1 r1 :
    find_set (sw_sets sw) k ns n = Some mem0 -> is_active mem0 ->
    os_life mem0 <> LPaused ->
    members_wf sw mem0 -> remotes_ok sw mem0 -> remotes_recorded sw mem0 \/ not_own_prev mem0 ->
    objectset_pass force sw k ns n = (sw1, evs1, r1) ->
    exists st' evs2, find_set (sw_sets sw1) k ns n = Some st' /\
      objectset_pass force sw1 k ns n = (sw1, evs2, r1) /\
      Forall (quiet_sev st') evs2 /\ (r1 <> SError -> Forall (noop_sev st') evs2).
  Proof.
    intros Hfind (Harch & Hdel & Hlife) Hnp Hwf Hrr Hstb.
    destruct (find_set_id _ _ _ _ _ Hfind) as (Hk & Hns & Hn).
    assert (Hpa : lifecycle_eqb (os_life mem0) LPaused = false) by (destruct (os_life mem0); try reflexivity; congruence).
    assert (Hla : lifecycle_eqb (os_life mem0) LArchived = false) by (destruct (os_life mem0); try reflexivity; congruence).
    (* the second pass, given what the first left behind *)
    assert (Hsecond : forall mem st', os_id mem = os_id mem0 -> os_deleting mem = false -> os_life mem = os_life mem0 -> os_fin mem = true ->
              cond_true (os_conds mem) CArchived = false ->
              find_set (sw_sets sw1) (oi_kind (os_id mem)) (oi_ns (os_id mem)) (oi_name (os_id mem)) = Some st' ->
              spec_eq st' mem -> find_cond (os_conds st') CArchived = find_cond (os_conds mem) CArchived ->
              (exists evs2, active_body force sw1 [] st' = (sw1, evs2, r1) /\ Forall (quiet_sev st') evs2 /\
                            (r1 <> SError -> Forall (noop_sev st') evs2)) ->
              exists st' evs2, find_set (sw_sets sw1) k ns n = Some st' /\
                objectset_pass force sw1 k ns n = (sw1, evs2, r1) /\
                Forall (quiet_sev st') evs2 /\ (r1 <> SError -> Forall (noop_sev st') evs2)).
    { intros mem st' Hid Hdl Hlf Hfin Hca Hf' (Hi'&_&Hd'&Hfi'&_&_&Hl'&_) Har (evs2 & Hrun & Hq & Hnn).
      rewrite Hid, Hk, Hns, Hn in Hf'. exists st', evs2. split; [exact Hf'|]. split; [|split; assumption].
      unfold objectset_pass. rewrite Hf'. unfold cond_true in Hca |- *. rewrite Har, Hca.
      rewrite Hd', Hdl, Hl', Hlf, Hla. cbn [orb]. unfold active_pass. rewrite Hfi', Hfin. exact Hrun. }
    unfold objectset_pass. rewrite Hfind, Harch, Hdel, Hla. cbn [orb]. unfold active_pass.
    assert (Hf0 : find_set (sw_sets sw) (oi_kind (os_id mem0)) (oi_ns (os_id mem0)) (oi_name (os_id mem0)) = Some mem0) by now rewrite Hk, Hns, Hn.
    destruct (os_fin mem0) eqn:Efin.
    - intros H.
      destruct (active_body_replay sw [] mem0 sw1 evs1 r1 Hf0 Hpa Hwf Hrr Hstb H) as (st' & Hf' & Hsp' & Har & Hrun).
      exact (Hsecond mem0 st' eq_refl Hdel eq_refl Efin Harch Hf' Hsp' Har Hrun).
    - unfold patch_finalizer. rewrite Hf0, N.eqb_refl. cbn [negb andb].
      set (m := set_fin mem0 true (w_rv (sw_w sw))).
      set (sw0 := {| sw_w := bump_rv (sw_w sw); sw_sets := put_set (sw_sets sw) m; sw_phases := sw_phases sw; sw_nss := sw_nss sw |}).
      intros H.
      assert (Hfm : find_set (sw_sets sw0) (oi_kind (os_id m)) (oi_ns (os_id m)) (oi_name (os_id m)) = Some m).
      { apply (find_put_set (sw_sets sw) m mem0). exact Hf0. }
      destruct (active_body_replay sw0 _ m sw1 evs1 r1 Hfm Hpa Hwf Hrr Hstb H) as (st' & Hf' & Hsp' & Har & Hrun).
      exact (Hsecond m st' eq_refl Hdel eq_refl eq_refl Harch Hf' Hsp' Har Hrun).
  Qed.

  (** Quiescence: a pass that ran to its end without error (in particular one that reported Available=True for
      every phase) is followed by passes that write nothing at all: world unchanged, all member requests no-op applies. *)
  Corollary quiescent_pass sw k ns n mem0 sw1 evs1 requeue :
    find_set (sw_sets sw) k ns n = Some mem0 -> is_active mem0 -> os_life mem0 <> LPaused ->
    members_wf sw mem0 -> remotes_ok sw mem0 -> remotes_recorded sw mem0 \/ not_own_prev mem0 ->
    objectset_pass force sw k ns n = (sw1, evs1, SDone requeue) ->
    exists st' evs2, find_set (sw_sets sw1) k ns n = Some st' /\
      objectset_pass force sw1 k ns n = (sw1, evs2, SDone requeue) /\ Forall (noop_sev st') evs2.
  Proof.
    intros H1 H2 H3 H4 H5 H6 H7. destruct (pass_fixpoint sw k ns n mem0 sw1 evs1 _ H1 H2 H3 H4 H5 H6 H7) as (st' & evs2 & Ha & Hb & _ & Hc).
    exists st', evs2. split; [exact Ha|]. split; [exact Hb|]. apply Hc. discriminate.
  Qed.
End PassReplay.
