(** Model of one ObjectTemplate controller pass and of histories around it (C18).
    Follows internal/controllers/objecttemplate/{objecttemplate_controller.go,template_reconciler.go},
    internal/preflight/{apis_exist,noownerreferences,empty_namespace_no_default,namespace_escalation_protection}.go,
    internal/controllers/controllers.go (finalizer / cache-label helpers) and internal/dynamiccache
    (owner bookkeeping of Cache.Watch / Cache.Free, CacheReader.Get, EnqueueWatchingObjects).
    Executable definitions only; proofs are in TemplateProofs.v.

    Abstraction: objects are (kind, namespace, name) -> data map (name -> value), cache label, controller
    owner, generation, status (observedGeneration, conditions). Namespace 0 = none. A template is a code
    interpreted by an arbitrary [render] function from the collected config and the environment to a
    render result; all theorems quantify over [render], over the kind table [scope_of] and over the two
    retry intervals. The dynamic cache is taken to be in sync with the store at the start of a pass
    (cache consistency itself is C12). *)
From Coq Require Import List NArith Bool.
Import ListNotations.
Local Open Scope N_scope.

(** * Keys, data maps, objects, store *)

Definition key := (N * N * N)%type.            (* kind, namespace (0 = none), name *)
Definition k_kind (k : key) : N := fst (fst k).
Definition k_ns (k : key) : N := snd (fst k).
Definition k_name (k : key) : N := snd k.
Definition key_eqb (a b : key) : bool :=
  (k_kind a =? k_kind b) && (k_ns a =? k_ns b) && (k_name a =? k_name b).

Definition data := list (N * N).               (* a string map, kept sorted by key *)

Fixpoint dlookup (k : N) (d : data) : option N :=
  match d with
  | [] => None
  | (k', v) :: r => if k' =? k then Some v else dlookup k r
  end.

(** map[k] = v on the sorted representation *)
Fixpoint dset (k v : N) (d : data) : data :=
  match d with
  | [] => [(k, v)]
  | (k', v') :: r => if k <? k' then (k, v) :: d else if k =? k' then (k, v) :: r else (k', v') :: dset k v r
  end.

(** The content of an object is one map with the component in the key: keys below 1000 are .data, 1000-1999
    metadata.labels (other than the cache label), 2000-2999 metadata.annotations. *)
Definition is_meta (k : N) : bool := 1000 <=? k.
Definition has_key (k : N) (d : data) : bool := match dlookup k d with Some _ => true | None => false end.
Definition data_part (d : data) : data := filter (fun kv => negb (is_meta (fst kv))) d.

(** What client.Update sends on the update path (template_reconciler.go:116-121): the rendered object with
    labels := labels.Merge(existing, rendered) and annotations likewise - rendered keys win, keys only the
    existing object has are KEPT; everything else is the rendered object's. *)
Definition merge_meta (ex body : data) : data :=
  fold_left (fun acc kv => if is_meta (fst kv) && negb (has_key (fst kv) body) then dset (fst kv) (snd kv) acc else acc) ex body.

(** [d] is what the template denotes, up to label / annotation keys it does not mention:
    every rendered key is there with the rendered value, and every .data key is a rendered one. *)
Definition follows (d body : data) : bool :=
  forallb (fun kv => match dlookup (fst kv) d, dlookup (fst kv) body with
                     | Some x, Some y => x =? y | None, None => true | _, _ => false end) body
  && forallb (fun kv => is_meta (fst kv) || has_key (fst kv) body) d.

Definition pair_eqb (a b : N * N) : bool := (fst a =? fst b) && (snd a =? snd b).
Fixpoint data_eqb (a b : data) : bool :=
  match a, b with
  | [], [] => true
  | x :: a', y :: b' => pair_eqb x y && data_eqb a' b'
  | _, _ => false
  end.

Record cond := { c_type : N; c_status : N; c_obsgen : N;
                 c_ok : bool }.   (* type, status, reason and message are all strings (template_reconciler.go:392-398) *)

(** The package-operator.run/cache label of an object. The cache informers select on exactly
    package-operator.run/cache=True (cmd/package-operator-manager/components/components.go:155): an object
    that carries the key with any other value ("true", "False", "", ...) is as invisible as one without it. *)
Inductive label := LAbsent | LTrue | LOther (v : N).

Record obj := {
  o_data : data;
  o_lbl : label;           (* the cache label *)
  o_ctrl : N;              (* controller owner reference: 0 none, 1 the ObjectTemplate, anything else: somebody else *)
  o_gen : N;               (* metadata.generation *)
  o_sobs : option N;       (* status.observedGeneration *)
  o_conds : list cond      (* status.conditions *)
}.

(** visible to the dynamic cache *)
Definition o_label (o : obj) : bool := match o_lbl o with LTrue => true | _ => false end.

Definition store := list (key * obj).

Fixpoint lookup (k : key) (st : store) : option obj :=
  match st with
  | [] => None
  | (k', o) :: r => if key_eqb k k' then Some o else lookup k r
  end.

Fixpoint upsert (k : key) (o : obj) (st : store) : store :=
  match st with
  | [] => [(k, o)]
  | (k', o') :: r => if key_eqb k k' then (k, o) :: r else (k', o') :: upsert k o r
  end.

Definition remove (k : key) (st : store) : store := filter (fun p => negb (key_eqb k (fst p))) st.

(** * Template objects *)

Record source := {
  s_kind : N; s_ns : N; s_name : N;      (* s_ns = 0: namespace left empty in the spec *)
  s_opt : bool;
  s_items : list (N * N)                  (* (key in the source's data, destination key in the config) *)
}.

(** What executing the template text on a config and environment gives. *)
Inductive rres :=
| RTmplErr                                      (* text/template parse or execution error -> *TemplateError *)
| RYamlErr                                      (* output is not YAML -> plain error *)
| RObj (k : key) (body : data) (orefs : bool).  (* object as written in the template; orefs: it carries ownerReferences *)

Inductive wres := WOk | WAlreadyExists | WBadRequest | WOther.

(** Writes and cache calls of a pass, in program order. *)
Inductive ev :=
| EWatch (kind : N)                       (* dynamicCache.Watch(objectTemplate, <object of kind>) *)
| EFree                                   (* dynamicCache.Free(objectTemplate) *)
| ECacheHit (k : key) (d : data)          (* dynamicCache.Get found the object (hence labelled); its data *)
| EPatchLabel (k : key) (d : data)        (* AddDynamicCacheLabel merge patch succeeded; k as addressed on the API server, d the
                                             data of the object the API server returned (what the pass goes on with) *)
| EPatchFail (k : key)                    (* that patch failed (object gone, fault) *)
| EFail (site : N)                        (* a failed finalizer patch (6) or status update (9) *)
| ECreate (k : key) (d : data) (r : wres)
| EUpdate (k : key) (d : data) (r : wres)
| EFinAdd | EFinRm                        (* finalizer patches on the ObjectTemplate *)
| EStatus                                 (* Status().Update of the ObjectTemplate *)
| EOther.                                 (* anything else the implementation does; the model never produces it *)

(** What environment.Sink.GetEnvironment (environment.go:305-339) works from: the environment stored by
    SetEnvironment (version, HyperShift section present?), and the HostedCluster objects on the API server,
    each identified by the namespace hypershift's HostedClusterNamespace maps it to. [sk_ns] is the namespace
    of the ObjectTemplate under study (0: cluster-scoped), for which [w_env] is the view. *)
Record sink := { sk_ver : N; sk_hs : bool; sk_hcs : list N; sk_ns : N }.

(** The HyperShift part of the environment GetEnvironment returns for a namespace:
    0 no HyperShift section; 1 section without HostedCluster; 10 + ns: the HostedCluster of that namespace. *)
Definition hval (k : sink) (ns : N) : N :=
  if sk_hs k then (if negb (ns =? 0) && existsb (N.eqb ns) (sk_hcs k) then 10 + ns else 1) else 0.
(** The environment a render sees, as one number (versions stay below 1000). It is a function of the sink
    state NOW and of the namespace - nothing else. *)
Definition view (k : sink) : N := sk_ver k + 1000 * hval k (sk_ns k).

(** What happens around the API requests of one pass ([passx]): before the n-th request of the pass a third
    party deletes or modifies an object, and / or the request fails. *)
Inductive fault := FNotFound | FOther.            (* FOther: Conflict, InternalError, ... *)
Inductive act := ADel (k : key) | APut (k : key) (d : data) | AFault (f : fault).
Definition adv := list (N * act).

(** The owner identity of the ObjectTemplate under study in the cache's owner sets. *)
Definition me : N := 1.

(** preflight.NamespaceEscalation.Check for an owner in namespace [tns] <> 0 and an object of a registered
    kind ([nsd]: the kind is namespaced); true = violation.
    namespace_escalation_protection.go as of aa47ee3: a foreign namespace is a violation (:43-49, returns);
    otherwise the scope of the kind decides, whether or not a namespace is given (:51-68). *)
Definition ns_escalation (tns : N) (k : key) (nsd : bool) : bool :=
  (negb (k_ns k =? 0) && negb (k_ns k =? tns)) || negb nsd.

(** The check as it was before aa47ee3: it returned as soon as the object named a namespace, so the scope
    of the kind was only looked at for objects without namespace. Kept for C18_v0_namespace_bound_refuted. *)
Definition ns_escalation_v0 (tns : N) (k : key) (nsd : bool) : bool :=
  if negb (k_ns k =? 0) then negb (k_ns k =? tns) else negb nsd.

Section Model.
  Context {code : Type}.
  Variable render : code -> data -> N -> rres.   (* config -> environment -> result *)
  Variable scope_of : N -> option bool.          (* RESTMapper: None = not registered, Some true = namespaced *)
  Variable esc : N -> key -> bool -> bool.       (* NamespaceEscalation for a namespaced owner: [ns_escalation] *)
  Variable iv_res iv_opt : N.                    (* ControllerConfig.ResourceRetryInterval / OptionalResourceRetryInterval *)

  Record tmpl := {
    t_ns : N;                      (* 0: ClusterObjectTemplate *)
    t_sources : list source;
    t_code : code;
    t_gen : N;
    t_fin : bool;                  (* package-operator.run/cached finalizer *)
    t_del : bool;                  (* deletionTimestamp set *)
    t_invalid : N;                 (* Invalid condition: 0 absent, 1 True/SourceError, 2 True/TemplateError *)
    t_conds : list (N * N);        (* other conditions: (type, status) *)
    t_ctrlof : option key          (* status.controllerOf *)
  }.

  Record world := {
    w_store : store;
    w_tmpl : option tmpl;
    w_watch : list (N * N);        (* Cache.informerReferences: (kind, owner) *)
    w_env : N;                     (* the environment a render of the template sees: [view (w_sink w)] along every history *)
    w_sink : sink;
    w_pending : bool               (* a reconcile request for the template sits in the work queue (enqueued by a source event) *)
  }.

  Definition with_store (w : world) (st : store) : world :=
    {| w_store := st; w_tmpl := w_tmpl w; w_watch := w_watch w; w_env := w_env w; w_sink := w_sink w; w_pending := w_pending w |}.
  Definition with_tmpl (w : world) (t : option tmpl) : world :=
    {| w_store := w_store w; w_tmpl := t; w_watch := w_watch w; w_env := w_env w; w_sink := w_sink w; w_pending := w_pending w |}.
  Definition with_watch (w : world) (wl : list (N * N)) : world :=
    {| w_store := w_store w; w_tmpl := w_tmpl w; w_watch := wl; w_env := w_env w; w_sink := w_sink w; w_pending := w_pending w |}.
  Definition with_env (w : world) (e : N) : world :=
    {| w_store := w_store w; w_tmpl := w_tmpl w; w_watch := w_watch w; w_env := e; w_sink := w_sink w; w_pending := w_pending w |}.

  (** a change of the sink state or of the HostedClusters: the view follows *)
  Definition with_sink (w : world) (k : sink) : world :=
    {| w_store := w_store w; w_tmpl := w_tmpl w; w_watch := w_watch w; w_env := view k; w_sink := k; w_pending := w_pending w |}.
  Definition with_pending (w : world) (b : bool) : world :=
    {| w_store := w_store w; w_tmpl := w_tmpl w; w_watch := w_watch w; w_env := w_env w; w_sink := w_sink w; w_pending := b |}.

  Definition set_invalid (t : tmpl) (i : N) : tmpl :=
    {| t_ns := t_ns t; t_sources := t_sources t; t_code := t_code t; t_gen := t_gen t; t_fin := t_fin t;
       t_del := t_del t; t_invalid := i; t_conds := t_conds t; t_ctrlof := t_ctrlof t |}.
  Definition set_conds (t : tmpl) (cs : list (N * N)) : tmpl :=
    {| t_ns := t_ns t; t_sources := t_sources t; t_code := t_code t; t_gen := t_gen t; t_fin := t_fin t;
       t_del := t_del t; t_invalid := t_invalid t; t_conds := cs; t_ctrlof := t_ctrlof t |}.
  Definition set_ctrlof (t : tmpl) (k : option key) : tmpl :=
    {| t_ns := t_ns t; t_sources := t_sources t; t_code := t_code t; t_gen := t_gen t; t_fin := t_fin t;
       t_del := t_del t; t_invalid := t_invalid t; t_conds := t_conds t; t_ctrlof := k |}.
  Definition set_fin (t : tmpl) (b : bool) : tmpl :=
    {| t_ns := t_ns t; t_sources := t_sources t; t_code := t_code t; t_gen := t_gen t; t_fin := b;
       t_del := t_del t; t_invalid := t_invalid t; t_conds := t_conds t; t_ctrlof := t_ctrlof t |}.
  Definition set_del (t : tmpl) (b : bool) : tmpl :=
    {| t_ns := t_ns t; t_sources := t_sources t; t_code := t_code t; t_gen := t_gen t; t_fin := t_fin t;
       t_del := b; t_invalid := t_invalid t; t_conds := t_conds t; t_ctrlof := t_ctrlof t |}.
  Definition set_spec (t : tmpl) (srcs : list source) (c : code) : tmpl :=
    {| t_ns := t_ns t; t_sources := srcs; t_code := c; t_gen := t_gen t + 1; t_fin := t_fin t;
       t_del := t_del t; t_invalid := t_invalid t; t_conds := t_conds t; t_ctrlof := t_ctrlof t |}.

  (** ** API server and cache addressing *)

  (** controller-runtime leaves the namespace out of the request path for cluster-scoped kinds
      (client NamespaceIfScoped) and CacheReader.Get clears it (cache_reader.go:60-62): reads and
      patches of (cluster-scoped kind, ns, name) address (kind, -, name). *)
  Definition nkey (k : key) : key :=
    match scope_of (k_kind k) with
    | Some false => (k_kind k, 0, k_name k)
    | _ => k
    end.

  (** dynamicCache.Get: informer indexer filled by a list/watch with the cache-label selector. *)
  Definition cache_get (st : store) (k : key) : option obj :=
    match lookup (nkey k) st with
    | Some o => if o_label o then Some o else None
    | None => None
    end.

  Definition watched (kind owner : N) (wl : list (N * N)) : bool :=
    existsb (fun p => (fst p =? kind) && (snd p =? owner)) wl.
  (** Cache.Watch (cache.go:160-165): remember owner for the kind *)
  Definition add_watch (kind owner : N) (wl : list (N * N)) : list (N * N) :=
    if watched kind owner wl then wl else wl ++ [(kind, owner)].
  (** Cache.Free (cache.go:203-218): drop the owner from every kind *)
  Definition free_owner (owner : N) (wl : list (N * N)) : list (N * N) :=
    filter (fun p => negb (snd p =? owner)) wl.

  (** ** Preflight (objecttemplate_controller.go:110-117: APIExistence [NoOwnerReferences,
      EmptyNamespaceNoDefault, NamespaceEscalation]); true = at least one violation. *)
  Definition pf_violation (tns : N) (k : key) (orefs : bool) : bool :=
    match scope_of (k_kind k) with
    | None => true                                                  (* apis_exist.go:38-42 *)
    | Some nsd =>
        orefs                                                       (* noownerreferences.go:141 *)
        || (if tns =? 0
            then nsd && (k_ns k =? 0)                               (* empty_namespace_no_default.go:199-219 *)
            else esc tns k nsd)                                     (* namespace_escalation_protection.go:29-68 *)
    end.

  (** ** Sources *)

  (** AddDynamicCacheLabel (controllers.go:219-239): labels[cache] = "True", whatever was there, sent as a merge patch *)
  Definition set_label (o : obj) : obj :=
    {| o_data := o_data o; o_lbl := LTrue; o_ctrl := o_ctrl o; o_gen := o_gen o; o_sobs := o_sobs o; o_conds := o_conds o |}.

  Inductive sres := SrcErr (notfound : bool) | SrcSkip | SrcFound (o : obj).

  (** getSourceObject (template_reconciler.go:173-225) + lookupUncached (:227-241) *)
  Definition get_source (w : world) (tns : N) (s : source) : world * list ev * sres :=
    if pf_violation tns (s_kind s, s_ns s, s_name s) false                       (* :184-190 *)
    then (w, [], SrcErr false)
    else
      let k := (s_kind s, if s_ns s =? 0 then tns else s_ns s, s_name s) in      (* :192-194 *)
      let w1 := with_watch w (add_watch (s_kind s) me (w_watch w)) in            (* :196 *)
      match cache_get (w_store w1) k with                                        (* :203 *)
      | Some o => (w1, [EWatch (s_kind s); ECacheHit (nkey k) (o_data o)], SrcFound o)
      | None =>
          match lookup (nkey k) (w_store w1) with                                (* :206, :230 *)
          | None => if s_opt s then (w1, [EWatch (s_kind s)], SrcSkip)           (* :231-234 *)
                    else (w1, [EWatch (s_kind s)], SrcErr true)                  (* :235 *)
          | Some o =>                                                            (* :215 AddDynamicCacheLabel *)
              let o' := set_label o in
              (with_store w1 (upsert (nkey k) o' (w_store w1)),
               [EWatch (s_kind s); EPatchLabel (nkey k) (o_data o')], SrcFound o')
          end
      end.

  (** copySourceItems / copySourceItem (:243-292): None = the key is not in the source (jsonpath error, :272)
      or the destination is empty / has no leading dot (destination 0; JSONPathFormatError, :283-285). *)
  Fixpoint copy_items (items : list (N * N)) (o : obj) (cfg : data) : option data :=
    match items with
    | [] => Some cfg
    | (k, d) :: r =>
        match dlookup k (o_data o) with
        | None => None
        | Some v => if d =? 0 then None else copy_items r o (dset d v cfg)
        end
    end.

  Inductive vres := VErr (notfound : bool) | VOk (cfg : data) (retry : bool).

  (** getValuesFromSources (:150-171) *)
  Fixpoint get_values (w : world) (tns : N) (srcs : list source) (cfg : data) (retry : bool)
    : world * list ev * vres :=
    match srcs with
    | [] => (w, [], VOk cfg retry)
    | s :: r =>
        match get_source w tns s with
        | (w1, e1, SrcErr nf) => (w1, e1, VErr nf)                               (* :157-159 *)
        | (w1, e1, SrcSkip) =>                                                   (* :160-165 *)
            let '(w2, e2, res) := get_values w1 tns r cfg true in (w2, e1 ++ e2, res)
        | (w1, e1, SrcFound o) =>
            match copy_items (s_items s) o cfg with
            | None => (w1, e1, VErr false)                                       (* :166-168 SourceError, not NotFound *)
            | Some cfg' => let '(w2, e2, res) := get_values w1 tns r cfg' retry in (w2, e1 ++ e2, res)
            end
        end
    end.

  (** ** Rendering *)

  Inductive tres := TTmplErr | TYamlErr | TSrcErr | TObj (k : key) (body : data).

  (** templateObject (:294-333) *)
  Definition template_object (t : tmpl) (cfg : data) (env : N) : tres :=
    match render (t_code t) cfg env with                                         (* :306-313 *)
    | RTmplErr => TTmplErr
    | RYamlErr => TYamlErr                                                       (* :315-317 *)
    | RObj k body orefs =>
        if pf_violation (t_ns t) k orefs then TSrcErr                            (* :318-324 *)
        else TObj (k_kind k, if t_ns t =? 0 then k_ns k else t_ns t, k_name k) body   (* :326-328 *)
    end.

  (** ** Writing the target *)

  (** Create on the API server: scope admission (a body whose namespace does not fit the request path is
      a BadRequest), then AlreadyExists. *)
  Definition create_res (st : store) (k : key) : wres :=
    match scope_of (k_kind k) with
    | None => WOther
    | Some nsd =>
        if (if nsd then k_ns k =? 0 else negb (k_ns k =? 0)) then WBadRequest
        else match lookup k st with Some _ => WAlreadyExists | None => WOk end
    end.

  Definition update_res (k : key) : wres :=
    match scope_of (k_kind k) with
    | Some false => if negb (k_ns k =? 0) then WBadRequest else WOk
    | _ => WOk
    end.

  Fixpoint set_cond (ty st : N) (cs : list (N * N)) : list (N * N) :=
    match cs with
    | [] => [(ty, st)]
    | (ty', st') :: r => if ty' =? ty then (ty, st) :: r else (ty', st') :: set_cond ty st r
    end.

  (** updateStatusConditionsFromOwnedObject (:354-410); None = "malformed condition" (BadRequest, :392-398) *)
  Fixpoint copy_conds_loop (gen : N) (cs : list cond) (acc : list (N * N)) : option (list (N * N)) :=
    match cs with
    | [] => Some acc
    | c :: r =>
        if negb (gen =? c_obsgen c) then copy_conds_loop gen r acc               (* :387-390 outdated: skipped *)
        else if c_ok c then copy_conds_loop gen r (set_cond (c_type c) (c_status c) acc)
        else None                                                                (* :392-398 *)
    end.
  Definition copy_conds (t : tmpl) (ex : obj) : option (list (N * N)) :=
    if match o_sobs ex with Some g => negb (g =? t_gen t) | None => false end    (* :357-366 *)
    then Some (t_conds t)
    else copy_conds_loop (o_gen ex) (o_conds ex) (t_conds t).

  Definition new_target (body : data) : obj :=
    {| o_data := body; o_lbl := LTrue; o_ctrl := me; o_gen := 1; o_sobs := None; o_conds := [] |}.
  (** client.Update with the rendered object: body replaced, owner references, labels and annotations of
      the existing object merged under the rendered ones (:116-121, [merge_meta]); the rendered object has no status. *)
  Definition updated_target (ex : obj) (body : data) : obj :=
    {| o_data := merge_meta (o_data ex) body; o_lbl := LTrue; o_ctrl := o_ctrl ex;
       o_gen := if data_eqb (data_part (o_data ex)) (data_part body) then o_gen ex else o_gen ex + 1;   (* metadata does not bump the generation *)
       o_sobs := None; o_conds := [] |}.

  (** ** templateReconciler.Reconcile (:70-136) with the deferred
      setObjectTemplateConditionBasedOnError (:404-432).
      Result: world, events, in-memory template, RequeueAfter, error class
      (0 none, 1 yaml, 2 creation, 3 update, 4 malformed condition on the existing target). *)
  Definition reconcile_tmpl (w : world) (t : tmpl) : world * list ev * tmpl * N * N :=
    let '(w1, e1, vr) := get_values w (t_ns t) (t_sources t) [] false in         (* :77-78 *)
    match vr with
    | VErr nf => (w1, e1, set_invalid t 1, if nf then iv_res else 0, 0)          (* :79-84, :406-414, :468-474 *)
    | VOk cfg retry =>
        let rq := if retry then iv_opt else 0 in                                 (* :86-88 *)
        match template_object t cfg (w_env w1) with                              (* :93 *)
        | TTmplErr => (w1, e1, set_invalid t 2, rq, 0)                           (* :416-426 *)
        | TYamlErr => (w1, e1, t, rq, 1)                                         (* :431 *)
        | TSrcErr => (w1, e1, set_invalid t 1, rq, 0)                            (* :323, :406-414 *)
        | TObj k body =>
            let w2 := with_watch w1 (add_watch (k_kind k) me (w_watch w1)) in    (* :97 *)
            match cache_get (w_store w2) k with                                  (* :104 *)
            | None =>                                                            (* :105-108 handleCreation *)
                match create_res (w_store w2) k with
                | WOk => (with_store w2 (upsert k (new_target body) (w_store w2)),
                          e1 ++ [EWatch (k_kind k); ECreate k body WOk], set_invalid t 0, rq, 0)   (* :108, :428-430 *)
                | r => (w2, e1 ++ [EWatch (k_kind k); ECreate k body r], t, rq, 2)
                end
            | Some ex =>
                match copy_conds t ex with                                       (* :112-114 *)
                | None => (w2, e1 ++ [EWatch (k_kind k); ECacheHit (nkey k) (o_data ex)], t, rq, 4)
                | Some cs =>
                    let t1 := set_conds t cs in
                    match update_res k with                                      (* :121 *)
                    | WOk => (with_store w2 (upsert (nkey k) (updated_target ex body) (w_store w2)),
                              e1 ++ [EWatch (k_kind k); ECacheHit (nkey k) (o_data ex); EUpdate k (merge_meta (o_data ex) body) WOk],
                              set_invalid (set_ctrlof t1 (Some k)) 0, rq, 0)     (* :125-135 *)
                    | r => (w2, e1 ++ [EWatch (k_kind k); ECacheHit (nkey k) (o_data ex); EUpdate k (merge_meta (o_data ex) body) r], t, rq, 3)
                    end
                end
            end
        end
    end.

  Record pres := { p_evs : list ev; p_requeue : N; p_err : N }.

  (** GenericObjectTemplateController.Reconcile (objecttemplate_controller.go:126-165) *)
  Definition pass (w : world) : world * pres :=
    match w_tmpl w with
    | None => (w, {| p_evs := []; p_requeue := 0; p_err := 0 |})                 (* :134-137 *)
    | Some t =>
        if t_del t then                                                          (* :139-145 *)
          let w1 := with_watch w (free_owner me (w_watch w)) in                  (* controllers.go:91 Free *)
          if t_fin t                                                             (* controllers.go:54-73 RemoveFinalizer *)
          then (with_tmpl w1 None, {| p_evs := [EFree; EFinRm]; p_requeue := 0; p_err := 0 |})
          else (w1, {| p_evs := [EFree]; p_requeue := 0; p_err := 0 |})
        else
          let e0 := if t_fin t then [] else [EFinAdd] in                         (* :147 EnsureCachedFinalizer *)
          let t0 := set_fin t true in
          let w0 := with_tmpl w (Some t0) in
          let '(w1, e1, t1, rq, err) := reconcile_tmpl w0 t0 in                  (* :155-160 *)
          if err =? 0
          then (with_tmpl w1 (Some t1), {| p_evs := e0 ++ e1 ++ [EStatus]; p_requeue := rq; p_err := 0 |})  (* :164 *)
          else (w1, {| p_evs := e0 ++ e1; p_requeue := rq; p_err := err |})      (* :161-163 *)
    end.

  (** ** The same pass with third parties and API faults between its requests.
      The requests of a pass are numbered in program order from 0: the Get of the ObjectTemplate, the
      finalizer patch, per source the uncached Get and the label patch (cache reads are no requests), the
      Create / Update of the target, the status update. [a] schedules, before request n takes effect,
      third-party deletions / modifications (the cache is taken to follow them at once) and a fault that
      replaces the request's answer. The functions mirror the ones above; [passx [] w] is [pass w]
      (checked by the correspondence: SPassX [] steps are generated). Beyond the events they return, per
      processed source and in order, the data the pass read AND labelled (cache hit, or answer of a
      successful label patch); None: the source was attempted (its kind watched) but skipped as not found, or its
      requests failed. *)
  Fixpoint copy_vals (items : list (N * N)) (d : data) (cfg : data) : option data :=
    match items with
    | [] => Some cfg
    | (k, dst) :: r =>
        match dlookup k d with
        | None => None
        | Some v => if dst =? 0 then None else copy_vals r d (dset dst v cfg)
        end
    end.

  Definition adv_obj (o : obj) (d : data) : obj :=
    if data_eqb (o_data o) d then o
    else {| o_data := d; o_lbl := o_lbl o; o_ctrl := o_ctrl o; o_gen := o_gen o + 1; o_sobs := o_sobs o; o_conds := o_conds o |}.
  Definition adv_store (a : adv) (n : N) (st : store) : store :=
    fold_left (fun st p => if fst p =? n
                           then match snd p with
                                | ADel k => remove k st
                                | APut k d => match lookup k st with Some o => upsert k (adv_obj o d) st | None => st end
                                | AFault _ => st
                                end
                           else st) a st.
  Fixpoint adv_fault (a : adv) (n : N) : option fault :=
    match a with
    | [] => None
    | (m, AFault f) :: r => if m =? n then Some f else adv_fault r n
    | _ :: r => adv_fault r n
    end.
  (** request n is about to take effect *)
  Definition req (a : adv) (n : N) (w : world) : world * option fault :=
    (with_store w (adv_store a n (w_store w)), adv_fault a n).

  Inductive sresx := SXSrcErr (notfound : bool) | SXPlain (cls : N) | SXSkip | SXFound (o : obj).

  (** getSourceObject; error classes of plain errors: 7 uncached Get, 8 label patch *)
  Definition get_sourcex (a : adv) (n : N) (w : world) (tns : N) (s : source) : world * list ev * sresx * N :=
    if pf_violation tns (s_kind s, s_ns s, s_name s) false then (w, [], SXSrcErr false, n)
    else
      let k := (s_kind s, if s_ns s =? 0 then tns else s_ns s, s_name s) in
      let w1 := with_watch w (add_watch (s_kind s) me (w_watch w)) in
      match cache_get (w_store w1) k with
      | Some o => (w1, [EWatch (s_kind s); ECacheHit (nkey k) (o_data o)], SXFound o, n)
      | None =>
          let '(w2, f) := req a n w1 in                                          (* uncached Get (:230) *)
          match f with
          | Some FOther => (w2, [EWatch (s_kind s)], SXPlain 7, n + 1)           (* :236-239 *)
          | _ =>
              match (match f with Some _ => None | None => lookup (nkey k) (w_store w2) end) with
              | None => if s_opt s then (w2, [EWatch (s_kind s)], SXSkip, n + 1)
                        else (w2, [EWatch (s_kind s)], SXSrcErr true, n + 1)
              | Some _ =>
                  let '(w3, f2) := req a (n + 1) w2 in                           (* label patch (:215) *)
                  match f2, lookup (nkey k) (w_store w3) with
                  | None, Some o2 =>
                      let o' := set_label o2 in
                      (with_store w3 (upsert (nkey k) o' (w_store w3)),
                       [EWatch (s_kind s); EPatchLabel (nkey k) (o_data o')], SXFound o', n + 2)
                  | _, _ => (w3, [EWatch (s_kind s); EPatchFail (nkey k)], SXPlain 8, n + 2)   (* :216-218 *)
                  end
              end
          end
      end.

  Inductive vresx := VXSrcErr (notfound : bool) | VXPlain (cls : N) | VXOk (cfg : data) (retry : bool).

  Fixpoint get_valuesx (a : adv) (n : N) (w : world) (tns : N) (srcs : list source) (cfg : data) (retry : bool)
    : world * list ev * vresx * N * list (option data) :=
    match srcs with
    | [] => (w, [], VXOk cfg retry, n, [])
    | s :: r =>
        match get_sourcex a n w tns s with
        | (w1, e1, SXSrcErr nf, n1) => (w1, e1, VXSrcErr nf, n1, match e1 with [] => [] | _ => [None] end)   (* attempted iff watched *)
        | (w1, e1, SXPlain c, n1) => (w1, e1, VXPlain c, n1, [None])
        | (w1, e1, SXSkip, n1) =>
            let '(w2, e2, res, n2, rs) := get_valuesx a n1 w1 tns r cfg true in (w2, e1 ++ e2, res, n2, None :: rs)
        | (w1, e1, SXFound o, n1) =>
            match copy_vals (s_items s) (o_data o) cfg with
            | None => (w1, e1, VXSrcErr false, n1, [Some (o_data o)])
            | Some cfg' =>
                let '(w2, e2, res, n2, rs) := get_valuesx a n1 w1 tns r cfg' retry in (w2, e1 ++ e2, res, n2, Some (o_data o) :: rs)
            end
        end
    end.

  (** templateReconciler.Reconcile; result: world, events, in-memory template, RequeueAfter, error class, next request, reads *)
  Definition reconcilex (a : adv) (n : N) (w : world) (t : tmpl)
    : world * list ev * tmpl * N * N * N * list (option data) :=
    let '(w1, e1, vr, n1, rs) := get_valuesx a n w (t_ns t) (t_sources t) [] false in
    match vr with
    | VXSrcErr nf => (w1, e1, set_invalid t 1, if nf then iv_res else 0, 0, n1, rs)
    | VXPlain c => (w1, e1, t, 0, c, n1, rs)
    | VXOk cfg retry =>
        let rq := if retry then iv_opt else 0 in
        match template_object t cfg (w_env w1) with
        | TTmplErr => (w1, e1, set_invalid t 2, rq, 0, n1, rs)
        | TYamlErr => (w1, e1, t, rq, 1, n1, rs)
        | TSrcErr => (w1, e1, set_invalid t 1, rq, 0, n1, rs)
        | TObj k body =>
            let w2 := with_watch w1 (add_watch (k_kind k) me (w_watch w1)) in
            match cache_get (w_store w2) k with
            | None =>
                let '(w3, f) := req a n1 w2 in                                   (* Create *)
                match (match f with Some _ => WOther | None => create_res (w_store w3) k end) with
                | WOk => (with_store w3 (upsert k (new_target body) (w_store w3)),
                          e1 ++ [EWatch (k_kind k); ECreate k body WOk], set_invalid t 0, rq, 0, n1 + 1, rs)
                | r => (w3, e1 ++ [EWatch (k_kind k); ECreate k body r], t, rq, 2, n1 + 1, rs)
                end
            | Some ex =>
                match copy_conds t ex with
                | None => (w2, e1 ++ [EWatch (k_kind k); ECacheHit (nkey k) (o_data ex)], t, rq, 4, n1, rs)
                | Some cs =>
                    let t1 := set_conds t cs in
                    let '(w3, f) := req a n1 w2 in                               (* Update *)
                    match (match f, lookup (nkey k) (w_store w3) with
                           | None, Some _ => update_res k
                           | _, _ => WOther end) with
                    | WOk => (with_store w3 (upsert (nkey k) (updated_target ex body) (w_store w3)),
                              e1 ++ [EWatch (k_kind k); ECacheHit (nkey k) (o_data ex); EUpdate k (merge_meta (o_data ex) body) WOk],
                              set_invalid (set_ctrlof t1 (Some k)) 0, rq, 0, n1 + 1, rs)
                    | r => (w3, e1 ++ [EWatch (k_kind k); ECacheHit (nkey k) (o_data ex); EUpdate k (merge_meta (o_data ex) body) r], t, rq, 3, n1 + 1, rs)
                    end
                end
            end
        end
    end.

  (** GenericObjectTemplateController.Reconcile; further error classes: 5 Get of the ObjectTemplate,
      6 finalizer patch, 9 status update *)
  Definition passx (a : adv) (w : world) : world * pres * list (option data) :=
    let '(w0, f0) := req a 0 w in                                                (* request 0: Get *)
    match f0 with
    | Some FNotFound => (w0, {| p_evs := []; p_requeue := 0; p_err := 0 |}, [])  (* client.IgnoreNotFound *)
    | Some FOther => (w0, {| p_evs := []; p_requeue := 0; p_err := 5 |}, [])
    | None =>
        match w_tmpl w0 with
        | None => (w0, {| p_evs := []; p_requeue := 0; p_err := 0 |}, [])
        | Some t =>
            if t_del t then
              let w1 := with_watch w0 (free_owner me (w_watch w0)) in
              if t_fin t then
                let '(w2, f1) := req a 1 w1 in                                   (* request 1: finalizer patch *)
                match f1 with
                | Some _ => (w2, {| p_evs := [EFree; EFail 6]; p_requeue := 0; p_err := 6 |}, [])
                | None => (with_tmpl w2 None, {| p_evs := [EFree; EFinRm]; p_requeue := 0; p_err := 0 |}, [])
                end
              else (w1, {| p_evs := [EFree]; p_requeue := 0; p_err := 0 |}, [])
            else
              let '(w1, e0, n1, ferr) :=
                if t_fin t then (w0, [], 1, false)
                else let '(w1, f1) := req a 1 w0 in
                     match f1 with Some _ => (w1, [EFail 6], 2, true) | None => (w1, [EFinAdd], 2, false) end in
              if ferr then (w1, {| p_evs := e0; p_requeue := 0; p_err := 6 |}, [])
              else
                let t0 := set_fin t true in
                let '(w2, e1, t1, rq, err, n2, rs) := reconcilex a n1 (with_tmpl w1 (Some t0)) t0 in
                if err =? 0
                then let '(w3, f3) := req a n2 w2 in                             (* status update *)
                     match f3 with
                     | Some _ => (w3, {| p_evs := e0 ++ e1 ++ [EFail 9]; p_requeue := rq; p_err := 9 |}, rs)
                     | None => (with_tmpl w3 (Some t1), {| p_evs := e0 ++ e1 ++ [EStatus]; p_requeue := rq; p_err := 0 |}, rs)
                     end
                else (w2, {| p_evs := e0 ++ e1; p_requeue := rq; p_err := err |}, rs)
        end
    end.

  (** ** Histories *)

  Inductive step :=
  | SPut (k : key) (d : data) (lbl : label)      (* third party creates the object (with this cache label) or edits its data *)
  | SDel (k : key)                               (* third party deletes the object *)
  | SPoke (k : key) (sobs : option N) (cs : list cond)   (* somebody writes the object's status *)
  | SEdit (srcs : list source) (c : code)        (* the user edits the ObjectTemplate's spec *)
  | STDel                                        (* the user deletes the ObjectTemplate *)
  | SEnv (e : N)                                 (* the environment manager hands a new environment (version) to the sink *)
  | SHyper (b : bool)                            (* ... with / without the HyperShift section *)
  | SHc (ns : N) (present : bool)                (* the HostedCluster mapping to namespace ns is created / deleted *)
  | SAux (ns : N)                                (* the same controller reconciles ANOTHER ObjectTemplate, in namespace ns, whose
                                                    template prints the HyperShift part of its environment *)
  | SPassX (a : adv)                             (* a Reconcile during which third parties act and requests fail, see [passx] *)
  | SPass                                        (* one Reconcile of the ObjectTemplate, whatever triggered it *)
  | SDrain.                                      (* the controller's worker: a Reconcile iff a request is pending *)

  Inductive sobs := OPass (r : pres) | OEnq (b : bool) | ONone
                  | OAux (h : N)                          (* what the other template rendered for the HyperShift part *)
                  | OPassX (r : pres) (reads : list (option data)).   (* + per source, in order: the data read-and-labelled, if any *)

  Definition new_obj (d : data) (lbl : label) : obj :=
    {| o_data := d; o_lbl := lbl; o_ctrl := 0; o_gen := 1; o_sobs := None; o_conds := [] |}.
  Definition edit_obj (o : obj) (d : data) : obj :=
    {| o_data := d; o_lbl := o_lbl o; o_ctrl := o_ctrl o; o_gen := o_gen o + 1; o_sobs := o_sobs o; o_conds := o_conds o |}.
  Definition poke_obj (o : obj) (sobs : option N) (cs : list cond) : obj :=
    {| o_data := o_data o; o_lbl := o_lbl o; o_ctrl := o_ctrl o; o_gen := o_gen o; o_sobs := sobs; o_conds := cs |}.

  (** EnqueueWatchingObjects.enqueueWatchers (enqueue_watching.go:77-104) behind an informer that only
      sees labelled objects: the ObjectTemplate is enqueued iff the event is visible and the template is
      in OwnersForGKV of the object's kind. *)
  Definition enqueued (w : world) (kind : N) (visible : bool) : bool :=
    visible && watched kind me (w_watch w).

  Definition is_true_label (l : label) : bool := match l with LTrue => true | _ => false end.

  (** a source event that enqueues the template leaves a request in the queue *)
  Definition note (w : world) (b : bool) : world * sobs := (with_pending w (w_pending w || b), OEnq b).

  Definition do_step (w : world) (s : step) : world * sobs :=
    match s with
    | SPut k d lbl =>
        match lookup k (w_store w) with
        | None => note (with_store w (upsert k (new_obj d lbl) (w_store w))) (enqueued w (k_kind k) (is_true_label lbl))
        | Some o => if data_eqb (o_data o) d then note w false
                    else note (with_store w (upsert k (edit_obj o d) (w_store w))) (enqueued w (k_kind k) (o_label o))
        end
    | SDel k =>
        match lookup k (w_store w) with
        | None => note w false
        | Some o => note (with_store w (remove k (w_store w))) (enqueued w (k_kind k) (o_label o))
        end
    | SPoke k so cs =>
        match lookup k (w_store w) with
        | None => (w, ONone)
        | Some o => (with_store w (upsert k (poke_obj o so cs) (w_store w)), ONone)
        end
    | SEdit srcs c =>
        match w_tmpl w with
        | None => (w, ONone)
        | Some t => (with_tmpl w (Some (set_spec t srcs c)), ONone)
        end
    | STDel =>
        match w_tmpl w with
        | None => (w, ONone)
        | Some t => if t_fin t then (with_tmpl w (Some (set_del t true)), ONone)   (* finalizer-delayed deletion *)
                    else (with_tmpl w None, ONone)
        end
    | SEnv e => (with_sink w {| sk_ver := e; sk_hs := sk_hs (w_sink w); sk_hcs := sk_hcs (w_sink w); sk_ns := sk_ns (w_sink w) |}, ONone)
    | SHyper b => (with_sink w {| sk_ver := sk_ver (w_sink w); sk_hs := b; sk_hcs := sk_hcs (w_sink w); sk_ns := sk_ns (w_sink w) |}, ONone)
    | SHc ns b =>
        let rest := filter (fun x => negb (x =? ns)) (sk_hcs (w_sink w)) in
        (with_sink w {| sk_ver := sk_ver (w_sink w); sk_hs := sk_hs (w_sink w); sk_hcs := if b then ns :: rest else rest;
                        sk_ns := sk_ns (w_sink w) |}, ONone)
    | SAux ns => (w, OAux (hval (w_sink w) ns))
    | SPassX a => let '(w', r, reads) := passx a w in (with_pending w' false, OPassX r reads)
    | SPass => let '(w', r) := pass w in (with_pending w' false, OPass r)      (* the pass serves the pending request *)
    | SDrain => if w_pending w then let '(w', r) := pass w in (with_pending w' false, OPass r) else (w, ONone)
    end.

  Fixpoint run (w : world) (ss : list step) : list (sobs * world) :=
    match ss with
    | [] => []
    | s :: r => let '(w', o) := do_step w s in (o, w') :: run w' r
    end.

  Definition final (w : world) (ss : list step) : world := fold_left (fun w s => fst (do_step w s)) ss w.

  (** * Property vocabulary (used by the theorems and by the run-time monitor) *)

  Definition is_namespaced (kind : N) : bool := match scope_of kind with Some true => true | _ => false end.
  Definition is_cluster (kind : N) : bool := match scope_of kind with Some false => true | _ => false end.

  (** The key a source reference denotes: the namespace defaults to the template's. *)
  Definition src_key (tns : N) (s : source) : key := (s_kind s, if s_ns s =? 0 then tns else s_ns s, s_name s).

  (** Outside the template's namespace: another namespace, or not a namespaced kind at all. *)
  Definition oob (tns : N) (k : key) : bool :=
    negb (tns =? 0) && (negb ((k_ns k =? 0) || (k_ns k =? tns)) || negb (is_namespaced (k_kind k))).
  (** References that cannot be resolved at all: unknown API, or a namespaced object without namespace
      under a cluster-scoped template. *)
  Definition malformed (tns : N) (k : key) : bool :=
    match scope_of (k_kind k) with None => true | Some nsd => (tns =? 0) && nsd && (k_ns k =? 0) end.
  Definition src_bad (tns : N) (s : source) : bool :=
    oob tns (s_kind s, s_ns s, s_name s) || malformed tns (s_kind s, s_ns s, s_name s).
  Definition tgt_bad (tns : N) (k : key) (orefs : bool) : bool := orefs || oob tns k || malformed tns k.
  (** The shape the namespace check let through before aa47ee3: a cluster-scoped kind named with the
      template's own namespace (only used to name that shape in reports and in the v0 refutation). *)
  Definition rootown (tns : N) (k : key) : bool := negb (tns =? 0) && is_cluster (k_kind k) && (k_ns k =? tns).
  Definition src_rootown (tns : N) (s : source) : bool := rootown tns (s_kind s, s_ns s, s_name s).

  (** A key inside the template's bounds: namespaced kind in the template's namespace
      (anything registered for a cluster-scoped template). *)
  Definition in_bounds (tns : N) (k : key) : bool :=
    if tns =? 0 then match scope_of (k_kind k) with Some _ => true | None => false end
    else is_namespaced (k_kind k) && (k_ns k =? tns).

  (** The current values of the sources, collected in order (later destinations overwrite earlier ones). *)
  Inductive scanres := ScBad | ScMissing | ScKey | ScOk (cfg : data) (retry : bool).
  Fixpoint scan (bad : source -> bool) (st : store) (tns : N) (srcs : list source) (cfg : data) (retry : bool) : scanres :=
    match srcs with
    | [] => ScOk cfg retry
    | s :: r =>
        if bad s then ScBad
        else match lookup (nkey (src_key tns s)) st with
             | None => if s_opt s then scan bad st tns r cfg true else ScMissing
             | Some o => match copy_items (s_items s) o cfg with
                         | None => ScKey
                         | Some cfg' => scan bad st tns r cfg' retry
                         end
             end
    end.

  Definition eff_key (tns : N) (k : key) : key := (k_kind k, if tns =? 0 then k_ns k else tns, k_name k).

  (** The object the template denotes in a store and environment: render of the current source values,
      if every source reference and the rendered object are admissible. *)
  Definition expected (t : tmpl) (st : store) (env : N) : option (key * data) :=
    match scan (src_bad (t_ns t)) st (t_ns t) (t_sources t) [] false with
    | ScOk cfg _ =>
        match render (t_code t) cfg env with
        | RObj k body orefs => if tgt_bad (t_ns t) k orefs then None else Some (eff_key (t_ns t) k, body)
        | _ => None
        end
    | _ => None
    end.

  (** The config a pass must have rendered with, given what it read: per source, in order, the data read and
      labelled; a source without a read must be optional. *)
  Fixpoint cfg_of_reads (srcs : list source) (reads : list (option data)) (cfg : data) : option data :=
    match srcs, reads with
    | [], [] => Some cfg
    | s :: r, Some d :: rr => match copy_vals (s_items s) d cfg with Some c => cfg_of_reads r rr c | None => None end
    | s :: r, None :: rr => if s_opt s then cfg_of_reads r rr cfg else None
    | _, _ => None
    end.

  Definition is_target_write (e : ev) : bool :=
    match e with ECreate _ _ WOk | EUpdate _ _ WOk => true | _ => false end.
  Definition target_writes (evs : list ev) : list (key * data) :=
    flat_map (fun e => match e with ECreate k d WOk | EUpdate k d WOk => [(k, d)] | _ => [] end) evs.
  Definition label_patches (evs : list ev) : list key :=
    flat_map (fun e => match e with EPatchLabel k _ => [k] | _ => [] end) evs.
  Definition watch_calls (evs : list ev) : list N :=
    flat_map (fun e => match e with EWatch kd => [kd] | _ => [] end) evs.
End Model.

Arguments tmpl : clear implicits.
Arguments world : clear implicits.
Arguments step : clear implicits.
