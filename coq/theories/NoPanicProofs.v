(** C19: lemmas about the site table and the stage models of NoPanic.v. *)
From Coq Require Import List Bool Arith NArith ZArith String Ascii Lia.
From PKO Require Import NoPanic.
Import ListNotations.
Local Open Scope string_scope.

(* ------------------------------------------------------------------ the table *)

Lemma all_sites_complete : forall i : site_id, In i all_sites.
Proof. intros i; destruct i; vm_compute; tauto. Qed.

(** no two accounted sites share an identity: a table entry speaks about one site only *)
Fixpoint distinct_sites (l : list site) : bool :=
  match l with [] => true | s :: t => negb (existsb (site_eqb s) t) && distinct_sites t end.
Lemma accounted_identities_distinct : distinct_sites (map fst accounted) = true.
Proof. vm_compute. reflexivity. Qed.

Lemma descr_accounted : forall i, is_accounted (descr i) = true.
Proof. intros i; destruct i; vm_compute; reflexivity. Qed.

(* ------------------------------------------------------------------ helpers *)

Lemma set_nth_some {A} (l : list A) i v : i < List.length l -> exists l', set_nth l i v = Some l' /\ List.length l' = List.length l.
Proof.
  revert i; induction l as [|h t IH]; intros i Hi; cbn in *; [lia|].
  destruct i as [|i'].
  - eexists; split; [reflexivity|reflexivity].
  - destruct (IH i') as (l' & E & L); [lia|]. rewrite E. cbn. eexists; split; [reflexivity|cbn; lia].
Qed.

Lemma bind_not_panic {A B} (x : outcome A) (f : A -> outcome B) :
  (forall s, x <> Panic s) -> (forall a, x = Ok a -> forall s, f a <> Panic s) -> forall s, bind x f <> Panic s.
Proof.
  intros Hx Hf s. destruct x as [a| |s']; cbn.
  - now apply Hf.
  - discriminate.
  - exfalso. now apply (Hx s').
Qed.

(* ------------------------------------------------------------------ (1) condition map, collector *)

Lemma line_ok_parts raw : line_ok raw = true ->
  exists a b, cut_arrow raw = Some (a, b) /\ is_empty a = false /\ is_empty b = false.
Proof.
  unfold line_ok. destruct (cut_arrow raw) as [[a b]|]; [|discriminate].
  rewrite andb_true_iff, !negb_true_iff. intros [Ha Hb]. now exists a, b.
Qed.

(** The loop of parseConditionMapAnnotation cannot panic whenever outputMappings is long enough for
    the remaining lines - which `make(.., len(inputMappings))` ensures. *)
Lemma parse_lines_no_panic : forall lines i out,
  i + List.length lines <= List.length out -> forall s, parse_lines lines i out <> Panic s.
Proof.
  induction lines as [|raw rest IH]; intros i out Hlen s; cbn [parse_lines]; [discriminate|].
  cbn in Hlen. unfold splitn2. destruct (cut_arrow raw) as [[a b]|]; cbn; [|discriminate].
  destruct (is_empty a); [discriminate|]. destruct (is_empty b); [discriminate|].
  unfold store_or. destruct (set_nth_some out i (trim_space a, trim_space b)) as (out' & E & L); [lia|].
  rewrite E. cbn. apply IH. lia.
Qed.

Lemma parse_lines_ok : forall lines i out,
  i + List.length lines <= List.length out -> forallb line_ok lines = true -> exists m, parse_lines lines i out = Ok m.
Proof.
  induction lines as [|raw rest IH]; intros i out Hlen Hok; cbn [parse_lines]; [now exists out|].
  cbn in Hlen, Hok. apply andb_true_iff in Hok as [H1 H2].
  destruct (line_ok_parts _ H1) as (a & b & E & Ha & Hb). unfold splitn2. rewrite E. cbn. rewrite Ha, Hb.
  unfold store_or. destruct (set_nth_some out i (trim_space a, trim_space b)) as (out' & E' & L); [lia|].
  rewrite E'. cbn. apply IH; [lia|assumption].
Qed.

Lemma parse_lines_err : forall lines i out,
  i + List.length lines <= List.length out -> forallb line_ok lines = false -> parse_lines lines i out = Err.
Proof.
  induction lines as [|raw rest IH]; intros i out Hlen Hok; cbn [parse_lines]; [discriminate|].
  cbn in Hlen, Hok. unfold line_ok in Hok. unfold splitn2.
  destruct (cut_arrow raw) as [[a b]|] eqn:E; cbn; [|reflexivity].
  destruct (is_empty a); [reflexivity|]. destruct (is_empty b); [reflexivity|]. cbn in Hok.
  unfold store_or. destruct (set_nth_some out i (trim_space a, trim_space b)) as (out' & E' & L); [lia|].
  rewrite E'. cbn. apply IH; [lia|assumption].
Qed.

Lemma parse_condmap_no_panic : forall anno s, parse_condmap anno <> Panic s.
Proof.
  intros [v|] s; unfold parse_condmap; [|discriminate]. apply parse_lines_no_panic. rewrite repeat_length. lia.
Qed.

(** the parser accepts exactly the grammar [condmap_ok] *)
Lemma parse_condmap_ok_iff : forall anno, condmap_ok anno = true <-> exists m, parse_condmap anno = Ok m.
Proof.
  intros [v|]; unfold parse_condmap, condmap_ok; [|split; [now exists []|reflexivity]].
  split.
  - intros H. apply parse_lines_ok; [rewrite repeat_length; lia|assumption].
  - intros [m Hm]. destruct (forallb line_ok (split_on nl (trim_space v))) eqn:E; [reflexivity|].
    rewrite parse_lines_err in Hm; [discriminate|rewrite repeat_length; lia|assumption].
Qed.

Lemma parse_condmap_err_iff : forall anno, condmap_ok anno = false <-> parse_condmap anno = Err.
Proof.
  intros anno. split.
  - intros H. destruct (parse_condmap anno) as [m| |s] eqn:E; [|reflexivity|now apply parse_condmap_no_panic in E].
    assert (condmap_ok anno = true) by (apply parse_condmap_ok_iff; now exists m). congruence.
  - intros H. destruct (condmap_ok anno) eqn:E; [|reflexivity].
    apply parse_condmap_ok_iff in E as [m Hm]. congruence.
Qed.

Lemma add_objects_from_panic : forall objs idxs acc s,
  (forall i, In i idxs -> i < List.length objs) ->
  add_objects_from objs idxs acc = Panic s ->
  s = S_col_panic /\ existsb (fun o => negb (condmap_ok (o_condmap o))) objs = true.
Proof.
  intros objs idxs. induction idxs as [|i rest IH]; intros acc s Hin H; cbn in H; [discriminate|].
  unfold index_or in H. destruct (nth_error objs i) as [o|] eqn:E.
  - cbn in H. destruct (parse_condmap (o_condmap o)) as [m| |s'] eqn:P.
    + apply (IH _ _ (fun j Hj => Hin j (or_intror Hj)) H).
    + injection H as <-. split; [reflexivity|]. apply existsb_exists. exists o. split.
      * now apply nth_error_In in E.
      * apply negb_true_iff. now apply parse_condmap_err_iff.
    + now apply parse_condmap_no_panic in P.
  - apply nth_error_None in E. specialize (Hin i (or_introl eq_refl)). lia.
Qed.

Lemma add_objects_from_ok : forall objs idxs acc,
  (forall i, In i idxs -> i < List.length objs) ->
  forallb (fun o => condmap_ok (o_condmap o)) objs = true ->
  exists l, add_objects_from objs idxs acc = Ok l.
Proof.
  intros objs idxs. induction idxs as [|i rest IH]; intros acc Hin Hok; cbn; [now exists acc|].
  unfold index_or. destruct (nth_error objs i) as [o|] eqn:E.
  - cbn. rewrite forallb_forall in Hok. pose proof (Hok o (nth_error_In _ _ E)) as Ho.
    apply parse_condmap_ok_iff in Ho as [m Hm]. rewrite Hm.
    apply IH; [intros j Hj; apply Hin; now right|now apply forallb_forall].
  - apply nth_error_None in E. specialize (Hin i (or_introl eq_refl)). lia.
Qed.

Lemma seq_bound n : forall i, In i (seq 0 n) -> i < n.
Proof. intros i H. apply in_seq in H. lia. Qed.

Theorem collector_total_if_validated : forall phases objs,
  forallb (fun o => condmap_ok (o_condmap o)) objs = true -> exists n, collect phases objs = Ok n.
Proof.
  intros phases objs H. unfold collect, add_objects.
  destruct (add_objects_from_ok objs (seq 0 (List.length objs)) [] (seq_bound _) H) as [l Hl].
  rewrite Hl. cbn. eauto.
Qed.

Theorem collect_panic_only_at_AddObjects : forall phases objs s,
  collect phases objs = Panic s ->
  s = S_col_panic /\ existsb (fun o => negb (condmap_ok (o_condmap o))) objs = true.
Proof.
  intros phases objs s H. unfold collect, add_objects in H.
  destruct (add_objects_from objs (seq 0 (List.length objs)) []) as [l| |s'] eqn:E; cbn in H; try discriminate.
  injection H as <-. apply (add_objects_from_panic _ _ _ _ (seq_bound _) E).
Qed.

Definition bytes_of (s : string) : bytes := list_ascii_of_string s.

(** F-C19a: one ConfigMap-like object in phase "deploy", annotation value "garbage" *)
Definition witness_objs : list pobj := [mkobj (Some "deploy") true true 1 (Some (bytes_of "garbage"))].

Theorem collector_panics_refuted :
  exists phases objs, validators_accept phases objs = true /\ render_and_collect phases objs = Panic S_col_panic.
Proof. exists ["deploy"], witness_objs. vm_compute. split; reflexivity. Qed.

(** even the empty annotation value panics: strings.Split("", "\n") is [""] *)
Theorem collector_panics_on_empty_value :
  render_and_collect ["deploy"] [mkobj (Some "deploy") true true 1 (Some [])] = Panic S_col_panic.
Proof. vm_compute. reflexivity. Qed.

Theorem collector_partial : forall phases objs s,
  render_and_collect phases objs = Panic s ->
  s = S_col_panic /\ existsb (fun o => negb (condmap_ok (o_condmap o))) objs = true.
Proof.
  intros phases objs s H. unfold render_and_collect in H.
  destruct (validators_accept phases objs); [|discriminate]. now apply collect_panic_only_at_AddObjects in H.
Qed.

Theorem collector_fixed_total : forall phases objs s, render_and_collect_fixed phases objs <> Panic s.
Proof.
  intros phases objs s H. unfold render_and_collect_fixed in H.
  destruct (validators_accept phases objs); cbn in H; [|discriminate].
  destruct (forallb (fun o => condmap_ok (o_condmap o)) objs) eqn:E; [|discriminate].
  destruct (collector_total_if_validated phases objs E) as [n Hn]. congruence.
Qed.

(** the repaired pipeline changes nothing for packages whose annotations follow the grammar *)
Theorem collector_fixed_agrees : forall phases objs,
  forallb (fun o => condmap_ok (o_condmap o)) objs = true ->
  render_and_collect_fixed phases objs = render_and_collect phases objs.
Proof.
  intros phases objs H. unfold render_and_collect_fixed, render_and_collect. rewrite H, andb_true_r. reflexivity.
Qed.

(* ------------------------------------------------------------------ (2) mapConditions *)

Theorem map_conditions_total : forall mappings obj s, map_conditions mappings obj <> Panic s.
Proof.
  intros mappings obj s. unfold map_conditions.
  destruct (is_empty mappings); [discriminate|].
  destruct (nested2 obj "status" "conditions") as [|raw|]; try discriminate.
  destruct (slice_fits condition_spec raw); cbn; discriminate.
Qed.

(* ------------------------------------------------------------------ (3) objecttemplate *)

Definition ot_assert_sites : list site_id := [S_ot_cond_type; S_ot_cond_status; S_ot_cond_reason; S_ot_cond_message].

Ltac assert_step kvs k :=
  unfold assert_string at 1;
  let E := fresh "E" in
  destruct (jget k kvs) as [[| | | |?v| |]|] eqn:E; cbn [bind];
  try (let H := fresh in intros H; injection H as <-; split; [cbn; tauto|];
       unfold entry_strings; cbn [forallb];
       repeat match goal with HE : jget _ kvs = _ |- _ => rewrite HE; clear HE end; reflexivity).

Lemma copy_one_panic objgen kvs s :
  copy_one objgen kvs = Panic s -> In s ot_assert_sites /\ entry_strings kvs = false.
Proof.
  unfold copy_one.
  destruct (as_int64 (nested1 kvs "observedGeneration")) as [|z|]; try discriminate;
  (match goal with |- context [if ?c then _ else _] => destruct c end; [discriminate|]);
  assert_step kvs "type"; assert_step kvs "status"; assert_step kvs "reason"; assert_step kvs "message";
  discriminate.
Qed.

Lemma copy_conditions_panic : forall objgen conds acc s,
  copy_conditions objgen conds acc = Panic s -> In s ot_assert_sites /\ forallb cond_entry_ok conds = false.
Proof.
  intros objgen conds. induction conds as [|c rest IH]; intros acc s H; cbn in H; [discriminate|].
  destruct c as [| | | | |l|kvs]; try discriminate.
  destruct (copy_one objgen kvs) as [r| |s'] eqn:E; cbn in H; try discriminate.
  - destruct (IH _ _ H) as [H1 H2]. split; [assumption|]. cbn [forallb]. rewrite H2. apply andb_false_r.
  - injection H as <-. destruct (copy_one_panic _ _ _ E) as [H1 H2]. split; [assumption|].
    cbn [forallb cond_entry_ok]. now rewrite H2.
Qed.

Theorem template_conditions_partial : forall gen obj s,
  template_conditions gen obj = Panic s -> In s ot_assert_sites /\ conditions_wellformed obj = false.
Proof.
  intros gen obj s H. unfold template_conditions in H.
  assert (G : forall b, conditions_of b obj = Panic s -> In s ot_assert_sites /\ conditions_wellformed obj = false).
  { intros b Hb. unfold conditions_of in Hb. destruct (negb b); [discriminate|].
    unfold conditions_wellformed. destruct (nested2 obj "status" "conditions") as [|v|]; try discriminate.
    destruct v; try discriminate. now apply copy_conditions_panic in Hb. }
  destruct (as_int64 (nested2 obj "status" "observedGeneration")); try discriminate; now apply G in H.
Qed.

Theorem template_conditions_total_if_wellformed : forall gen obj,
  conditions_wellformed obj = true -> forall s, template_conditions gen obj <> Panic s.
Proof.
  intros gen obj Hw s H. apply template_conditions_partial in H as [_ H]. congruence.
Qed.

(** F-C19c: a current condition entry of the templated object without `reason` *)
Definition witness_templated : list (string * json) :=
  [("metadata", JObj [("generation", JInt 1)]);
   ("status", JObj [("conditions", JArr [JObj [("type", JStr "Ready"); ("status", JStr "True");
                                               ("message", JStr "all good"); ("observedGeneration", JInt 1)]])])].

Theorem template_conditions_refuted : exists gen obj, template_conditions gen obj = Panic S_ot_cond_reason.
Proof. exists 1%Z, witness_templated. vm_compute. reflexivity. Qed.

(** every one of the four assertions can fire *)
Theorem template_conditions_each_site_reachable :
  forall s, In s ot_assert_sites -> exists gen obj, template_conditions gen obj = Panic s.
Proof.
  intros s Hs. exists 0%Z. cbn in Hs.
  pose (mk := fun fields => [("status", JObj [("conditions", JArr [JObj fields])])]).
  destruct Hs as [<-|[<-|[<-|[<-|[]]]]].
  - exists (mk []). vm_compute. reflexivity.
  - exists (mk [("type", JStr "T")]). vm_compute. reflexivity.
  - exists (mk [("type", JStr "T"); ("status", JStr "True"); ("reason", JInt 1)]). vm_compute. reflexivity.
  - exists (mk [("type", JStr "T"); ("status", JStr "True"); ("reason", JStr "R"); ("message", JNull)]).
    vm_compute. reflexivity.
Qed.

Lemma relaxed_jsonpath_no_panic key_empty submatches s : relaxed_jsonpath key_empty submatches <> Panic s.
Proof.
  unfold relaxed_jsonpath. destruct key_empty; [discriminate|]. destruct submatches as [sm|]; [|discriminate].
  destruct sm as [|a [|b [|c [|d t]]]]; cbn; try discriminate.
  destruct (negb (String.eqb b "")); discriminate.
Qed.

Theorem template_source_partial : forall key_empty submatches executed destination set_ok s,
  copy_source_item key_empty submatches executed destination set_ok = Panic s ->
  s = S_ot_destination0 /\ destination = "".
Proof.
  intros key_empty submatches executed destination set_ok s H. unfold copy_source_item in H.
  destruct (relaxed_jsonpath key_empty submatches) as [r| |s'] eqn:E; cbn in H; try discriminate.
  2:{ now apply relaxed_jsonpath_no_panic in E. }
  destruct executed as [value|]; [|discriminate].
  assert (V : exists v, (match value with
            | JArr vs => if Nat.eqb (List.length vs) 1 then index_or S_ot_vslice0 vs 0 else Ok value
            | _ => Ok value end) = Ok v).
  { destruct value; eauto. destruct l as [|x [|y t]]; cbn; eauto. }
  destruct V as [v Hv]. rewrite Hv in H. cbn in H.
  destruct destination as [|c d]; [injection H as <-; split; reflexivity|].
  destruct (negb (Ascii.eqb c ".")); [discriminate|]. destruct set_ok; discriminate.
Qed.

(** F-C19d: `destination: ""` satisfies the CRD schema (type string, required, no minLength) *)
Theorem template_source_refuted :
  exists executed, copy_source_item false (Some ["{.data.k}"; ".data.k"; ""]) (Some executed) "" true = Panic S_ot_destination0.
Proof. exists (JStr "v"). vm_compute. reflexivity. Qed.

Theorem template_source_fixed_total : forall key_empty submatches executed destination set_ok s,
  copy_source_item_fixed key_empty submatches executed destination set_ok <> Panic s.
Proof.
  intros key_empty submatches executed destination set_ok s H. unfold copy_source_item_fixed in H.
  destruct destination as [|c d].
  - destruct (relaxed_jsonpath key_empty submatches) as [r| |s'] eqn:E; cbn in H; try discriminate.
    + destruct executed; discriminate.
    + now apply relaxed_jsonpath_no_panic in E.
  - apply template_source_partial in H as [_ H]. discriminate.
Qed.

Theorem template_source_fixed_agrees : forall key_empty submatches executed destination set_ok,
  destination <> "" ->
  copy_source_item_fixed key_empty submatches executed destination set_ok
  = copy_source_item key_empty submatches executed destination set_ok.
Proof. intros. unfold copy_source_item_fixed. destruct destination; [congruence|reflexivity]. Qed.

(* ------------------------------------------------------------------ (4) FromOCI *)

Theorem oci_partial : forall evs files s,
  from_oci evs files = Panic s -> s = S_imp_hdr /\ no_tar_error evs = false.
Proof.
  induction evs as [|e rest IH]; intros files s H; cbn in H.
  - destruct (N.eqb files 0); discriminate.
  - destruct e as [p body_ok|].
    + cbn [no_tar_error forallb]. fold (no_tar_error rest).
      destruct p as [[|]| |]; destruct body_ok; try discriminate;
        try (apply IH in H as [-> ->]; split; reflexivity);
        try (injection H as <-; split; reflexivity).
    + injection H as <-. split; reflexivity.
Qed.

Theorem oci_total_without_read_error : forall evs files,
  no_tar_error evs = true -> forall s, from_oci evs files <> Panic s.
Proof. intros evs files Hn s H. apply oci_partial in H as [_ H]. congruence. Qed.

(** F-C19b: the stream breaks off inside the body of an entry FromOCI skips (a dot file, or a file
    outside package/), or the reader fails otherwise between entries *)
Theorem oci_refuted :
  from_oci [THeader (PUnder false) true; THeader (PUnder true) false] 0 = Panic S_imp_hdr
  /\ from_oci [THeader POutside false] 0 = Panic S_imp_hdr
  /\ from_oci [THeader (PUnder false) true; TError] 0 = Panic S_imp_hdr.
Proof. vm_compute. repeat split; reflexivity. Qed.

Theorem oci_fixed_total : forall evs files s, from_oci_fixed evs files <> Panic s.
Proof.
  induction evs as [|e rest IH]; intros files s; cbn.
  - destruct (N.eqb files 0); discriminate.
  - destruct e as [p body_ok|]; [|discriminate].
    destruct p as [[|]| |]; destruct body_ok; try discriminate; apply IH.
Qed.

Theorem oci_fixed_agrees : forall evs files, no_tar_error evs = true -> from_oci_fixed evs files = from_oci evs files.
Proof.
  induction evs as [|e rest IH]; intros files H; cbn; [reflexivity|].
  destruct e as [p body_ok|]; [|discriminate]. cbn in H.
  destruct p as [[|]| |]; destruct body_ok; try reflexivity; try discriminate; now apply IH.
Qed.

(* ------------------------------------------------------------------ (4b) x-kubernetes-validations *)

(** F-C19f: a structurally valid config schema with at least one x-kubernetes-validations rule *)
Theorem xvalidations_refuted : compile_xvalidations false false false false 1 false false = Panic S_mv_nil_envset.
Proof. reflexivity. Qed.

Theorem xvalidations_partial : forall se cn te tn rules dn base s,
  compile_xvalidations se cn te tn rules dn base = Panic s ->
  s = S_mv_nil_envset /\ base = false /\ rules <> 0 /\ se = false.
Proof.
  intros se cn te tn rules dn base s H. unfold compile_xvalidations in H.
  destruct se; [discriminate|]. destruct cn; [discriminate|]. cbn in H.
  destruct te; [discriminate|]. destruct tn; [discriminate|]. cbn in H.
  destruct rules as [|n]; [discriminate|]. cbn in H.
  destruct dn; [discriminate|]. destruct base; [discriminate|]. injection H as <-.
  repeat split; congruence.
Qed.

Theorem xvalidations_total_with_env : forall se cn te tn rules dn s,
  compile_xvalidations se cn te tn rules dn true <> Panic s.
Proof. intros se cn te tn rules dn s H. apply xvalidations_partial in H as (_ & H & _). discriminate. Qed.

(* ------------------------------------------------------------------ (5) annotation owner strategy *)

Theorem owner_annotation_partial : forall teardown desired actual s,
  phase_owner_reads teardown desired actual = Panic s ->
  s = S_bx_a_getOwnerReferences_panic
  /\ ((teardown = false /\ anno_wellformed desired = false)
      \/ exists a, actual = Some a /\ anno_wellformed a = false).
Proof.
  intros teardown desired actual s H. unfold phase_owner_reads in H.
  assert (G : forall a, get_owner_refs a = Panic s -> s = S_bx_a_getOwnerReferences_panic /\ anno_wellformed a = false).
  { intros a Ha. destruct a as [| |v]; cbn in *; try discriminate.
    - injection Ha as <-. split; reflexivity.
    - destruct (slice_fits ownerref_spec v); [discriminate|]. injection Ha as <-. split; reflexivity. }
  destruct teardown; cbn in H.
  - destruct actual as [a|]; [|discriminate]. apply G in H as [H1 H2]. split; [assumption|]. right. eauto.
  - destruct (get_owner_refs desired) as [[]| |s'] eqn:E; cbn in H; try discriminate.
    + destruct actual as [a|]; [|discriminate]. apply G in H as [H1 H2]. split; [assumption|]. right. eauto.
    + injection H as <-. apply G in E as [H1 H2]. split; [assumption|]. left. split; [reflexivity|assumption].
Qed.

Theorem owner_annotation_total_if_wellformed : forall teardown desired actual,
  anno_wellformed desired = true ->
  (forall a, actual = Some a -> anno_wellformed a = true) ->
  forall s, phase_owner_reads teardown desired actual <> Panic s.
Proof.
  intros teardown desired actual Hd Ha s H. apply owner_annotation_partial in H as [_ [[_ H]|(a & E & H)]].
  - congruence.
  - rewrite (Ha a E) in H. discriminate.
Qed.

(** F-C19e: a cluster object whose owners annotation is not JSON (anyone with write access to the
    object can set it), or a desired object carrying one in the ObjectSetPhase spec *)
Theorem owner_annotation_refuted :
  phase_owner_reads false AAbsent (Some ANotJSON) = Panic S_bx_a_getOwnerReferences_panic
  /\ phase_owner_reads true AAbsent (Some (AJSON (JObj []))) = Panic S_bx_a_getOwnerReferences_panic
  /\ phase_owner_reads false (AJSON (JArr [JInt 1])) None = Panic S_bx_a_getOwnerReferences_panic.
Proof. vm_compute. repeat split; reflexivity. Qed.

(* ------------------------------------------------------------------ satisfiability of the hypotheses *)

Example validated_objects_exist :
  let objs := [mkobj (Some "deploy") true true 1 (Some (bytes_of "Available => my.io/Available"))] in
  validators_accept ["deploy"] objs = true
  /\ forallb (fun o => condmap_ok (o_condmap o)) objs = true
  /\ render_and_collect ["deploy"] objs = Ok 1%N.
Proof. vm_compute. repeat split; reflexivity. Qed.

Example wellformed_templated_exists :
  let obj := [("metadata", JObj [("generation", JInt 1)]);
              ("status", JObj [("conditions", JArr [JObj [("type", JStr "Ready"); ("status", JStr "True");
                 ("reason", JStr "Ok"); ("message", JStr "all good"); ("observedGeneration", JInt 1)]])])] in
  conditions_wellformed obj = true /\ template_conditions 1 obj = Ok ["Ready"].
Proof. vm_compute. split; reflexivity. Qed.

Example clean_stream_exists :
  no_tar_error [THeader (PUnder false) true; THeader (PUnder true) true] = true
  /\ from_oci [THeader (PUnder false) true; THeader (PUnder true) true] 0 = Ok 1%N.
Proof. vm_compute. split; reflexivity. Qed.

Example wellformed_owner_annotation_exists :
  let a := AJSON (JArr [JObj [("apiVersion", JStr "package-operator.run/v1alpha1"); ("kind", JStr "ObjectSetPhase");
                               ("name", JStr "n"); ("uid", JStr "u"); ("controller", JBool true)]]) in
  anno_wellformed a = true /\ phase_owner_reads false a (Some a) = Ok tt.
Proof. vm_compute. split; reflexivity. Qed.
