(** C19: lemmas about the site table and the stage models of NoPanic.v. *)
From Coq Require Import List Bool Arith NArith ZArith String Ascii Lia.
From PKO Require Import NoPanic.
Import ListNotations.
Local Open Scope string_scope.

(* ------------------------------------------------------------------ the table *)

(** no two accounted sites share an identity: a table entry speaks about one site only *)
Fixpoint distinct_sites (l : list site) : bool :=
  match l with [] => true | s :: t => negb (existsb (site_eqb s) t) && distinct_sites t end.
Lemma accounted_identities_distinct : distinct_sites (map fst accounted) = true.
Proof. vm_compute. reflexivity. Qed.

(** a site is in the table the inventory is checked against iff it is not historical: the shapes the
    fixing commits removed are refused should they come back *)
Lemma accounted_iff_current : forall i, is_accounted (descr i) = negb (historical i).
Proof. intros i; destruct i; vm_compute; reflexivity. Qed.

(* ------------------------------------------------------------------ helpers *)

Lemma set_nth_some {A} (l : list A) i v : i < List.length l -> exists l', set_nth l i v = Some l' /\ List.length l' = List.length l.
Proof.
  revert i; induction l as [|h t IH]; intros i Hi; cbn in *; [lia|].
  destruct i as [|i'].
  - eexists; split; [reflexivity|reflexivity].
  - destruct (IH i') as (l' & E & L); [lia|]. rewrite E. cbn. eexists; split; [reflexivity|cbn; lia].
Qed.

Lemma bind_not_panic {A B} (x : outcome A) (f : A -> outcome B) :
  (forall s, x <> Panic s) -> (forall a, x = Ok a -> forall s, f a <> Panic s) -> forall s, bind x f <> Panic s.
Proof.
  intros Hx Hf s. destruct x as [a| |s']; cbn.
  - now apply Hf.
  - discriminate.
  - exfalso. now apply (Hx s').
Qed.

(* ------------------------------------------------------------------ (1) condition map, collector *)

Lemma line_ok_parts raw : line_ok raw = true ->
  exists a b, cut_arrow raw = Some (a, b) /\ is_empty a = false /\ is_empty b = false.
Proof.
  unfold line_ok. destruct (cut_arrow raw) as [[a b]|]; [|discriminate].
  rewrite andb_true_iff, !negb_true_iff. intros [Ha Hb]. now exists a, b.
Qed.

(** The loop of parseConditionMapAnnotation cannot panic whenever outputMappings is long enough for
    the remaining lines - which `make(.., len(inputMappings))` ensures. *)
Lemma parse_lines_no_panic : forall lines i out,
  i + List.length lines <= List.length out -> forall s, parse_lines lines i out <> Panic s.
Proof.
  induction lines as [|raw rest IH]; intros i out Hlen s; cbn [parse_lines]; [discriminate|].
  cbn in Hlen. unfold splitn2. destruct (cut_arrow raw) as [[a b]|]; cbn; [|discriminate].
  destruct (is_empty a); [discriminate|]. destruct (is_empty b); [discriminate|].
  unfold store_or. destruct (set_nth_some out i (trim_space a, trim_space b)) as (out' & E & L); [lia|].
  rewrite E. cbn. apply IH. lia.
Qed.

Lemma parse_lines_ok : forall lines i out,
  i + List.length lines <= List.length out -> forallb line_ok lines = true -> exists m, parse_lines lines i out = Ok m.
Proof.
  induction lines as [|raw rest IH]; intros i out Hlen Hok; cbn [parse_lines]; [now exists out|].
  cbn in Hlen, Hok. apply andb_true_iff in Hok as [H1 H2].
  destruct (line_ok_parts _ H1) as (a & b & E & Ha & Hb). unfold splitn2. rewrite E. cbn. rewrite Ha, Hb.
  unfold store_or. destruct (set_nth_some out i (trim_space a, trim_space b)) as (out' & E' & L); [lia|].
  rewrite E'. cbn. apply IH; [lia|assumption].
Qed.

Lemma parse_lines_err : forall lines i out,
  i + List.length lines <= List.length out -> forallb line_ok lines = false -> parse_lines lines i out = Err.
Proof.
  induction lines as [|raw rest IH]; intros i out Hlen Hok; cbn [parse_lines]; [discriminate|].
  cbn in Hlen, Hok. unfold line_ok in Hok. unfold splitn2.
  destruct (cut_arrow raw) as [[a b]|] eqn:E; cbn; [|reflexivity].
  destruct (is_empty a); [reflexivity|]. destruct (is_empty b); [reflexivity|]. cbn in Hok.
  unfold store_or. destruct (set_nth_some out i (trim_space a, trim_space b)) as (out' & E' & L); [lia|].
  rewrite E'. cbn. apply IH; [lia|assumption].
Qed.

Lemma parse_condmap_no_panic : forall anno s, parse_condmap anno <> Panic s.
Proof.
  intros [v|] s; unfold parse_condmap; [|discriminate]. apply parse_lines_no_panic. rewrite repeat_length. lia.
Qed.

(** the parser accepts exactly the grammar [condmap_ok] *)
Lemma parse_condmap_ok_iff : forall anno, condmap_ok anno = true <-> exists m, parse_condmap anno = Ok m.
Proof.
  intros [v|]; unfold parse_condmap, condmap_ok; [|split; [now exists []|reflexivity]].
  split.
  - intros H. apply parse_lines_ok; [rewrite repeat_length; lia|assumption].
  - intros [m Hm]. destruct (forallb line_ok (split_on nl (trim_space v))) eqn:E; [reflexivity|].
    rewrite parse_lines_err in Hm; [discriminate|rewrite repeat_length; lia|assumption].
Qed.

Lemma parse_condmap_err_iff : forall anno, condmap_ok anno = false <-> parse_condmap anno = Err.
Proof.
  intros anno. split.
  - intros H. destruct (parse_condmap anno) as [m| |s] eqn:E; [|reflexivity|now apply parse_condmap_no_panic in E].
    assert (condmap_ok anno = true) by (apply parse_condmap_ok_iff; now exists m). congruence.
  - intros H. destruct (condmap_ok anno) eqn:E; [|reflexivity].
    apply parse_condmap_ok_iff in E as [m Hm]. congruence.
Qed.

(** "repaired": the same stage with a panic turned into an error - how the present models relate to
    the historical (_v0) ones *)
Definition repaired {A} (x : outcome A) : outcome A := match x with Panic _ => Err | o => o end.

Lemma add_objects_from_panic : forall site objs idxs acc s,
  (forall i, In i idxs -> i < List.length objs) ->
  add_objects_from site objs idxs acc = Panic s ->
  s = site /\ existsb (fun o => negb (condmap_ok (o_condmap o))) objs = true.
Proof.
  intros site objs idxs. induction idxs as [|i rest IH]; intros acc s Hin H; cbn in H; [discriminate|].
  unfold index_or in H. destruct (nth_error objs i) as [o|] eqn:E.
  - cbn in H. destruct (parse_condmap (o_condmap o)) as [m| |s'] eqn:P.
    + apply (IH _ _ (fun j Hj => Hin j (or_intror Hj)) H).
    + injection H as <-. split; [reflexivity|]. apply existsb_exists. exists o. split.
      * now apply nth_error_In in E.
      * apply negb_true_iff. now apply parse_condmap_err_iff.
    + now apply parse_condmap_no_panic in P.
  - apply nth_error_None in E. specialize (Hin i (or_introl eq_refl)). lia.
Qed.

(** with well-formed annotations the collector's result does not depend on which panic site it carries *)
Lemma add_objects_from_ok : forall objs idxs acc,
  (forall i, In i idxs -> i < List.length objs) ->
  forallb (fun o => condmap_ok (o_condmap o)) objs = true ->
  exists l, forall site', add_objects_from site' objs idxs acc = Ok l.
Proof.
  intros objs idxs. induction idxs as [|i rest IH]; intros acc Hin Hok; cbn; [now exists acc|].
  unfold index_or. destruct (nth_error objs i) as [o|] eqn:E.
  - cbn. pose proof Hok as Hok'. rewrite forallb_forall in Hok'. pose proof (Hok' o (nth_error_In _ _ E)) as Ho.
    apply parse_condmap_ok_iff in Ho as [m Hm]. rewrite Hm.
    apply IH; [intros j Hj; apply Hin; now right|assumption].
  - apply nth_error_None in E. specialize (Hin i (or_introl eq_refl)). lia.
Qed.

Lemma seq_bound n : forall i, In i (seq 0 n) -> i < n.
Proof. intros i H. apply in_seq in H. lia. Qed.

Lemma collect_at_ok : forall phases objs,
  forallb (fun o => condmap_ok (o_condmap o)) objs = true -> exists n, forall site, collect_at site phases objs = Ok n.
Proof.
  intros phases objs H. unfold collect_at, add_objects.
  destruct (add_objects_from_ok objs (seq 0 (List.length objs)) [] (seq_bound _) H) as [l Hl].
  eexists. intros site. rewrite Hl. cbn. reflexivity.
Qed.

Theorem collector_total_if_validated : forall phases objs,
  forallb (fun o => condmap_ok (o_condmap o)) objs = true -> exists n, collect phases objs = Ok n.
Proof. intros phases objs H. destruct (collect_at_ok phases objs H) as [n Hn]. exists n. apply Hn. Qed.

Lemma collect_at_panic : forall site phases objs s,
  collect_at site phases objs = Panic s ->
  s = site /\ existsb (fun o => negb (condmap_ok (o_condmap o))) objs = true.
Proof.
  intros site phases objs s H. unfold collect_at, add_objects in H.
  destruct (add_objects_from site objs (seq 0 (List.length objs)) []) as [l| |s'] eqn:E; cbn in H; try discriminate.
  injection H as <-. apply (add_objects_from_panic _ _ _ _ _ (seq_bound _) E).
Qed.

(** parseObjects lets exactly the grammar through and never panics *)
Lemma parse_objects_spec : forall objs,
  parse_objects objs = (if forallb (fun o => condmap_ok (o_condmap o)) objs then Ok tt else Err).
Proof.
  induction objs as [|o rest IH]; cbn; [reflexivity|].
  destruct (parse_condmap (o_condmap o)) as [m| |s] eqn:P.
  - assert (condmap_ok (o_condmap o) = true) as -> by (apply parse_condmap_ok_iff; eauto). cbn. apply IH.
  - apply parse_condmap_err_iff in P. rewrite P. reflexivity.
  - now apply parse_condmap_no_panic in P.
Qed.

(** C19 for the collector stage, at full strength: no object list makes the present pipeline panic. *)
Theorem collector_total : forall phases objs s, render_and_collect phases objs <> Panic s.
Proof.
  intros phases objs s H. unfold render_and_collect in H. rewrite parse_objects_spec in H.
  destruct (forallb (fun o => condmap_ok (o_condmap o)) objs) eqn:E; cbn in H; [|discriminate].
  destruct (validators_accept phases objs); [|discriminate].
  destruct (collector_total_if_validated phases objs E) as [n Hn]. congruence.
Qed.

Definition bytes_of (s : string) : bytes := list_ascii_of_string s.

(** F-C19a (fixed by 6890742): one ConfigMap-like object in phase "deploy", annotation value "garbage" *)
Definition witness_objs : list pobj := [mkobj (Some "deploy") true true 1 (Some (bytes_of "garbage"))].

Theorem v0_collector_panics_refuted :
  exists phases objs, validators_accept phases objs = true /\ render_and_collect_v0 phases objs = Panic S_v0_col_panic.
Proof. exists ["deploy"], witness_objs. vm_compute. split; reflexivity. Qed.

(** even the empty annotation value panicked: strings.Split("", "\n") is [""] *)
Theorem v0_collector_panics_on_empty_value :
  render_and_collect_v0 ["deploy"] [mkobj (Some "deploy") true true 1 (Some [])] = Panic S_v0_col_panic.
Proof. vm_compute. reflexivity. Qed.

(** the present pipeline is the historical one with exactly that panic turned into a violation *)
Theorem collector_repairs_v0 : forall phases objs,
  render_and_collect phases objs = repaired (render_and_collect_v0 phases objs).
Proof.
  intros phases objs. unfold render_and_collect, render_and_collect_v0. rewrite parse_objects_spec.
  destruct (forallb (fun o => condmap_ok (o_condmap o)) objs) eqn:E; cbn.
  - destruct (validators_accept phases objs); [|reflexivity].
    destruct (collect_at_ok phases objs E) as [n Hn]. unfold collect. rewrite !Hn. reflexivity.
  - destruct (validators_accept phases objs); [|reflexivity].
    destruct (collect_at S_v0_col_panic phases objs) as [n| |s] eqn:C; cbn; try reflexivity.
    exfalso. unfold collect_at, add_objects in C.
    destruct (add_objects_from S_v0_col_panic objs (seq 0 (List.length objs)) []) as [l| |s] eqn:A; cbn in C; try discriminate.
    clear C n.
    assert (G : forall idxs acc l, add_objects_from S_v0_col_panic objs idxs acc = Ok l ->
                  forall i, In i idxs -> forall o, nth_error objs i = Some o -> condmap_ok (o_condmap o) = true).
    { induction idxs as [|j rest IH]; intros acc l' H i Hi o Ho; [contradiction|]. cbn in H.
      unfold index_or in H. destruct (nth_error objs j) as [oj|] eqn:Ej; cbn in H; [|discriminate].
      destruct (parse_condmap (o_condmap oj)) as [m| |] eqn:P; try discriminate.
      destruct Hi as [->|Hi]; [|now apply (IH _ _ H i Hi o Ho)].
      assert (oj = o) by congruence. subst. apply parse_condmap_ok_iff. eauto. }
    assert (T : forallb (fun o => condmap_ok (o_condmap o)) objs = true).
    { apply forallb_forall. intros o Ho. apply In_nth_error in Ho as [i Hi].
      apply (G _ _ _ A i); [|assumption]. apply in_seq.
      assert (i < List.length objs) by (apply nth_error_Some; congruence). lia. }
    congruence.
Qed.

(* ------------------------------------------------------------------ (2) mapConditions *)

Theorem map_conditions_total : forall mappings obj s, map_conditions mappings obj <> Panic s.
Proof.
  intros mappings obj s. unfold map_conditions.
  destruct (is_empty mappings); [discriminate|].
  destruct (nested2 obj "status" "conditions") as [|raw|]; try discriminate.
  destruct (slice_fits condition_spec raw); cbn; discriminate.
Qed.

(* ------------------------------------------------------------------ (3) objecttemplate *)

Lemma copy_one_no_panic objgen kvs s : copy_one objgen kvs <> Panic s.
Proof.
  unfold copy_one. destruct (as_int64 (nested1 kvs "observedGeneration")); try discriminate;
  (match goal with |- context [if ?c then _ else _] => destruct c end; [discriminate|]);
  destruct (entry_strings kvs); discriminate.
Qed.

Lemma copy_conditions_with_no_panic one :
  (forall g kvs s, one g kvs <> Panic s) ->
  forall objgen conds acc s, copy_conditions_with one objgen conds acc <> Panic s.
Proof.
  intros Hone objgen conds. induction conds as [|c rest IH]; intros acc s; cbn; [discriminate|].
  destruct c; try discriminate. destruct (one objgen l) as [r| |s'] eqn:E; cbn; [apply IH|discriminate|].
  now apply Hone in E.
Qed.

(** C19 for the condition copy of the ObjectTemplate controller, at full strength *)
Theorem template_conditions_total : forall gen obj s, template_conditions gen obj <> Panic s.
Proof.
  intros gen obj s. unfold template_conditions, template_conditions_with.
  assert (G : forall b, conditions_of_with copy_one b obj <> Panic s).
  { intros b. unfold conditions_of_with. destruct (negb b); [discriminate|].
    destruct (nested2 obj "status" "conditions") as [|v|]; try discriminate.
    destruct v; try discriminate. apply copy_conditions_with_no_panic. apply copy_one_no_panic. }
  destruct (as_int64 (nested2 obj "status" "observedGeneration")); [apply G|apply G|discriminate].
Qed.

Definition ot_assert_sites : list site_id :=
  [S_v0_ot_cond_type; S_v0_ot_cond_status; S_v0_ot_cond_reason; S_v0_ot_cond_message].

(** F-C19c (fixed by a818a7e): a current condition entry of the templated object without `reason` *)
Definition witness_templated : list (string * json) :=
  [("metadata", JObj [("generation", JInt 1)]);
   ("status", JObj [("conditions", JArr [JObj [("type", JStr "Ready"); ("status", JStr "True");
                                               ("message", JStr "all good"); ("observedGeneration", JInt 1)]])])].

Theorem v0_template_conditions_refuted : exists gen obj, template_conditions_v0 gen obj = Panic S_v0_ot_cond_reason.
Proof. exists 1%Z, witness_templated. vm_compute. reflexivity. Qed.

(** every one of the four assertions could fire *)
Theorem v0_template_conditions_each_site_reachable :
  forall s, In s ot_assert_sites -> exists gen obj, template_conditions_v0 gen obj = Panic s.
Proof.
  intros s Hs. exists 0%Z. cbn in Hs.
  pose (mk := fun fields => [("status", JObj [("conditions", JArr [JObj fields])])]).
  destruct Hs as [<-|[<-|[<-|[<-|[]]]]].
  - exists (mk []). vm_compute. reflexivity.
  - exists (mk [("type", JStr "T")]). vm_compute. reflexivity.
  - exists (mk [("type", JStr "T"); ("status", JStr "True"); ("reason", JInt 1)]). vm_compute. reflexivity.
  - exists (mk [("type", JStr "T"); ("status", JStr "True"); ("reason", JStr "R"); ("message", JNull)]).
    vm_compute. reflexivity.
Qed.

Lemma copy_one_repairs_v0 objgen kvs : copy_one objgen kvs = repaired (copy_one_v0 objgen kvs).
Proof.
  unfold copy_one, copy_one_v0.
  destruct (as_int64 (nested1 kvs "observedGeneration")) as [|z|]; try reflexivity;
  (match goal with |- context [if ?c then _ else _] => destruct c end; [reflexivity|]);
  unfold entry_strings, assert_string; cbn [forallb];
  destruct (jget "type" kvs) as [[| | | |? | |]|]; cbn; try reflexivity;
  destruct (jget "status" kvs) as [[| | | |? | |]|]; cbn; try reflexivity;
  destruct (jget "reason" kvs) as [[| | | |? | |]|]; cbn; try reflexivity;
  destruct (jget "message" kvs) as [[| | | |? | |]|]; cbn; reflexivity.
Qed.

Lemma copy_conditions_repairs one1 one2 :
  (forall g kvs, one1 g kvs = repaired (one2 g kvs)) ->
  forall objgen conds acc, copy_conditions_with one1 objgen conds acc = repaired (copy_conditions_with one2 objgen conds acc).
Proof.
  intros H objgen conds. induction conds as [|c rest IH]; intros acc; cbn; [reflexivity|].
  destruct c; try reflexivity. rewrite H. destruct (one2 objgen l) as [r| |s]; cbn; [apply IH|reflexivity|reflexivity].
Qed.

Theorem template_conditions_repairs_v0 : forall gen obj,
  template_conditions gen obj = repaired (template_conditions_v0 gen obj).
Proof.
  intros gen obj. unfold template_conditions, template_conditions_v0, template_conditions_with.
  assert (G : forall b, conditions_of_with copy_one b obj = repaired (conditions_of_with copy_one_v0 b obj)).
  { intros b. unfold conditions_of_with. destruct (negb b); [reflexivity|].
    destruct (nested2 obj "status" "conditions") as [|v|]; try reflexivity.
    destruct v; try reflexivity. apply copy_conditions_repairs. apply copy_one_repairs_v0. }
  destruct (as_int64 (nested2 obj "status" "observedGeneration")); [apply G|apply G|reflexivity].
Qed.

Lemma relaxed_jsonpath_no_panic key_empty submatches s : relaxed_jsonpath key_empty submatches <> Panic s.
Proof.
  unfold relaxed_jsonpath. destruct key_empty; [discriminate|]. destruct submatches as [sm|]; [|discriminate].
  destruct sm as [|a [|b [|c [|d t]]]]; cbn; try discriminate.
  destruct (negb (String.eqb b "")); discriminate.
Qed.

Lemma vslice_step_ok (value : json) : exists v,
  (match value with
   | JArr vs => if Nat.eqb (List.length vs) 1 then index_or S_ot_vslice0 vs 0 else Ok value
   | _ => Ok value end) = Ok v.
Proof. destruct value; eauto. destruct l as [|x [|y t]]; cbn; eauto. Qed.

Lemma copy_source_item_at_panic : forall lc site key_empty submatches executed destination set_ok s,
  copy_source_item_at lc site key_empty submatches executed destination set_ok = Panic s ->
  s = site /\ destination = "" /\ lc = false.
Proof.
  intros lc site key_empty submatches executed destination set_ok s H. unfold copy_source_item_at in H.
  destruct (relaxed_jsonpath key_empty submatches) as [r| |s'] eqn:E; cbn in H; try discriminate.
  2:{ now apply relaxed_jsonpath_no_panic in E. }
  destruct executed as [value|]; [|discriminate].
  destruct (vslice_step_ok value) as [v Hv]. rewrite Hv in H. cbn in H.
  destruct destination as [|c d].
  - destruct lc; cbn in H; [discriminate|]. injection H as <-. repeat split.
  - rewrite andb_false_r in H. cbn in H. destruct (negb (Ascii.eqb c ".")); [discriminate|]. destruct set_ok; discriminate.
Qed.

(** C19 for the source items of the ObjectTemplate controller, at full strength, for every behaviour of
    the regular expression, jsonpath and SetNestedField *)
Theorem template_source_total : forall key_empty submatches executed destination set_ok s,
  copy_source_item key_empty submatches executed destination set_ok <> Panic s.
Proof.
  intros key_empty submatches executed destination set_ok s H.
  apply copy_source_item_at_panic in H as (_ & _ & H). discriminate.
Qed.

(** F-C19d (fixed by a818a7e): `destination: ""` satisfies the CRD schema (type string, required, no minLength) *)
Theorem v0_template_source_refuted :
  exists executed, copy_source_item_v0 false (Some ["{.data.k}"; ".data.k"; ""]) (Some executed) "" true = Panic S_v0_ot_destination0.
Proof. exists (JStr "v"). vm_compute. reflexivity. Qed.

Theorem template_source_repairs_v0 : forall key_empty submatches executed destination set_ok,
  copy_source_item key_empty submatches executed destination set_ok
  = repaired (copy_source_item_v0 key_empty submatches executed destination set_ok).
Proof.
  intros key_empty submatches executed destination set_ok. unfold copy_source_item, copy_source_item_v0, copy_source_item_at.
  destruct (relaxed_jsonpath key_empty submatches) as [r| |s] eqn:E; cbn; try reflexivity.
  2:{ now apply relaxed_jsonpath_no_panic in E. }
  destruct executed as [value|]; [|reflexivity].
  destruct (vslice_step_ok value) as [v ->]. cbn.
  destruct destination as [|c d]; cbn; [reflexivity|].
  destruct (negb (Ascii.eqb c ".")); [reflexivity|]. destruct set_ok; reflexivity.
Qed.

(* ------------------------------------------------------------------ (4) FromOCI *)

(** C19 for the OCI import, at full strength over all event sequences *)
Theorem oci_total : forall evs files s, from_oci evs files <> Panic s.
Proof.
  induction evs as [|e rest IH]; intros files s; cbn.
  - destruct (N.eqb files 0); discriminate.
  - destruct e as [p body_ok|]; [|discriminate].
    destruct p as [[|]| |]; destruct body_ok; try discriminate; apply IH.
Qed.

(** F-C19b (fixed by e1805ac): the stream breaks off inside the body of an entry FromOCI skips (a dot file,
    or a file outside package/), or the reader fails otherwise between entries *)
Theorem v0_oci_refuted :
  from_oci_v0 [THeader (PUnder false) true; THeader (PUnder true) false] 0 = Panic S_v0_imp_hdr
  /\ from_oci_v0 [THeader POutside false] 0 = Panic S_v0_imp_hdr
  /\ from_oci_v0 [THeader (PUnder false) true; TError] 0 = Panic S_v0_imp_hdr.
Proof. vm_compute. repeat split; reflexivity. Qed.

Theorem oci_repairs_v0 : forall evs files, from_oci evs files = repaired (from_oci_v0 evs files).
Proof.
  induction evs as [|e rest IH]; intros files; cbn.
  - destruct (N.eqb files 0); reflexivity.
  - destruct e as [p body_ok|]; [|reflexivity].
    destruct p as [[|]| |]; destruct body_ok; try reflexivity; apply IH.
Qed.

(** the repair changed nothing for streams all of whose reads succeed *)
Theorem oci_agrees_with_v0 : forall evs files, no_tar_error evs = true -> from_oci evs files = from_oci_v0 evs files.
Proof.
  induction evs as [|e rest IH]; intros files H; cbn; [reflexivity|].
  destruct e as [p body_ok|]; [|discriminate]. cbn in H.
  destruct p as [[|]| |]; destruct body_ok; try reflexivity; try discriminate; now apply IH.
Qed.

(* ------------------------------------------------------------------ (4b) x-kubernetes-validations *)

(** C19 for the compilation of x-kubernetes-validations, for every behaviour of the type-information and
    compilation library *)
Theorem xvalidations_total : forall se cn te tn rules dn s, compile_xvalidations se cn te tn rules dn <> Panic s.
Proof.
  intros se cn te tn rules dn s. unfold compile_xvalidations, compile_xvalidations_with.
  destruct (se || cn); [discriminate|]. destruct (te || tn); [discriminate|].
  destruct (Nat.eqb rules 0); [discriminate|]. destruct dn; discriminate.
Qed.

(** F-C19f (found by the fuzz stage, fixed by 35e301a): a structurally valid config schema with at least one rule *)
Theorem v0_xvalidations_refuted : compile_xvalidations_v0 false false false false 1 false = Panic S_v0_mv_nil_envset.
Proof. reflexivity. Qed.

(** the repair (a real environment instead of nil) makes the compilation succeed where it panicked and
    changes nothing else *)
Theorem xvalidations_agrees_with_v0 : forall se cn te tn rules dn,
  compile_xvalidations_v0 se cn te tn rules dn = Panic S_v0_mv_nil_envset
  \/ compile_xvalidations se cn te tn rules dn = compile_xvalidations_v0 se cn te tn rules dn.
Proof.
  intros se cn te tn rules dn. unfold compile_xvalidations, compile_xvalidations_v0, compile_xvalidations_with.
  destruct (se || cn); [now right|]. destruct (te || tn); [now right|].
  destruct (Nat.eqb rules 0); [now right|]. destruct dn; [now right|now left].
Qed.

(* ------------------------------------------------------------------ (5) annotation owner strategy *)

Theorem owner_annotation_partial : forall teardown desired actual s,
  phase_owner_reads teardown desired actual = Panic s ->
  s = S_bx_a_getOwnerReferences_panic
  /\ ((teardown = false /\ anno_wellformed desired = false)
      \/ exists a, actual = Some a /\ anno_wellformed a = false).
Proof.
  intros teardown desired actual s H. unfold phase_owner_reads in H.
  assert (G : forall a, get_owner_refs a = Panic s -> s = S_bx_a_getOwnerReferences_panic /\ anno_wellformed a = false).
  { intros a Ha. destruct a as [| |v]; cbn in *; try discriminate.
    - injection Ha as <-. split; reflexivity.
    - destruct (slice_fits ownerref_spec v); [discriminate|]. injection Ha as <-. split; reflexivity. }
  destruct teardown; cbn in H.
  - destruct actual as [a|]; [|discriminate]. apply G in H as [H1 H2]. split; [assumption|]. right. eauto.
  - destruct (get_owner_refs desired) as [[]| |s'] eqn:E; cbn in H; try discriminate.
    + destruct actual as [a|]; [|discriminate]. apply G in H as [H1 H2]. split; [assumption|]. right. eauto.
    + injection H as <-. apply G in E as [H1 H2]. split; [assumption|]. left. split; [reflexivity|assumption].
Qed.

Theorem owner_annotation_total_if_wellformed : forall teardown desired actual,
  anno_wellformed desired = true ->
  (forall a, actual = Some a -> anno_wellformed a = true) ->
  forall s, phase_owner_reads teardown desired actual <> Panic s.
Proof.
  intros teardown desired actual Hd Ha s H. apply owner_annotation_partial in H as [_ [[_ H]|(a & E & H)]].
  - congruence.
  - rewrite (Ha a E) in H. discriminate.
Qed.

(** F-C19e: a cluster object whose owners annotation is not JSON (anyone with write access to the
    object can set it), or a desired object carrying one in the ObjectSetPhase spec *)
Theorem owner_annotation_refuted :
  phase_owner_reads false AAbsent (Some ANotJSON) = Panic S_bx_a_getOwnerReferences_panic
  /\ phase_owner_reads true AAbsent (Some (AJSON (JObj []))) = Panic S_bx_a_getOwnerReferences_panic
  /\ phase_owner_reads false (AJSON (JArr [JInt 1])) None = Panic S_bx_a_getOwnerReferences_panic.
Proof. vm_compute. repeat split; reflexivity. Qed.

(* ------------------------------------------------------------------ (6) include recursion guard *)

Lemma upd_same c n v : upd c n v n = v.
Proof. unfold upd. now rewrite Nat.eqb_refl. Qed.
Lemma upd_other c n v m : m <> n -> upd c n v m = c m.
Proof. intros H. unfold upd. apply Nat.eqb_neq in H. now rewrite H. Qed.

(** with decrement-on-exit a name's counter is the number of its active includes *)
Definition counts_stack (st : gstate) : Prop := forall n, g_count st n = count_occ Nat.eq_dec (g_stack st) n.

Ltac split_ltb H L := match type of H with context [if ?c then _ else _] => destruct c eqn:L end.

Lemma gstep_counts limit st op st' :
  counts_stack st -> gstep Decrement limit st op = Some st' -> counts_stack st'.
Proof.
  intros Inv H. destruct op as [n|]; unfold gstep in H.
  - split_ltb H L; [discriminate|]. injection H as <-. intros m. cbn.
    destruct (Nat.eq_dec n m) as [->|Hne].
    + rewrite upd_same. now rewrite Inv.
    + rewrite upd_other by congruence. apply Inv.
  - destruct (g_stack st) as [|n rest] eqn:E; [injection H as <-; exact Inv|]. injection H as <-. intros m. cbn.
    pose proof (Inv m) as Hm. rewrite E in Hm. cbn in Hm.
    destruct (Nat.eq_dec n m) as [->|Hne].
    + rewrite upd_same. rewrite Hm. reflexivity.
    + rewrite upd_other by congruence. exact Hm.
Qed.

Definition per_name_bounded (limit : nat) (st : gstate) : Prop :=
  forall n, count_occ Nat.eq_dec (g_stack st) n <= S limit.

Lemma gstep_bounded limit st op st' :
  counts_stack st -> per_name_bounded limit st -> gstep Decrement limit st op = Some st' -> per_name_bounded limit st'.
Proof.
  intros Inv B H. destruct op as [n|]; unfold gstep in H.
  - split_ltb H L; [discriminate|]. injection H as <-. intros m. cbn.
    apply Nat.ltb_ge in L. destruct (Nat.eq_dec n m) as [->|Hne]; [rewrite <- Inv; lia|apply B].
  - destruct (g_stack st) as [|n rest] eqn:E; [injection H as <-; exact B|]. injection H as <-. intros m. cbn.
    pose proof (B m) as Hm. rewrite E in Hm. cbn in Hm. destruct (Nat.eq_dec n m); lia.
Qed.

Lemma grun_invariants limit : forall ops st,
  counts_stack st -> per_name_bounded limit st ->
  counts_stack (grun Decrement limit ops st) /\ per_name_bounded limit (grun Decrement limit ops st).
Proof.
  induction ops as [|op rest IH]; intros st Inv B; cbn; [now split|].
  destruct (gstep Decrement limit st op) as [st'|] eqn:E; [|now split].
  apply IH; [eapply gstep_counts|eapply gstep_bounded]; eassumption.
Qed.

Lemma length_remove_count (a : nat) : forall l,
  List.length l = count_occ Nat.eq_dec l a + List.length (remove Nat.eq_dec a l).
Proof.
  induction l as [|x l IH]; cbn; [reflexivity|].
  destruct (Nat.eq_dec x a) as [->|Hne]; destruct (Nat.eq_dec a a) as [_|F]; try congruence.
  - destruct (Nat.eq_dec a a); [lia|congruence].
  - destruct (Nat.eq_dec a x); [congruence|]. cbn. lia.
Qed.

Lemma count_occ_remove_le (a : nat) : forall l n,
  count_occ Nat.eq_dec (remove Nat.eq_dec a l) n <= count_occ Nat.eq_dec l n.
Proof.
  induction l as [|x l IH]; intros n; cbn; [lia|].
  destruct (Nat.eq_dec a x); cbn; specialize (IH n); destruct (Nat.eq_dec x n); lia.
Qed.

Lemma length_le_names : forall names l k,
  NoDup names -> incl l names -> (forall n, count_occ Nat.eq_dec l n <= k) -> List.length l <= k * List.length names.
Proof.
  induction names as [|a ns IH]; intros l k Hnd Hin Hc.
  - destruct l as [|x l]; [cbn; lia|]. exfalso. apply (Hin x). now left.
  - rewrite (length_remove_count a l). inversion Hnd as [|? ? Hna Hnd']; subst.
    assert (Hl : List.length (remove Nat.eq_dec a l) <= k * List.length ns).
    { apply IH; [assumption| |intros n; etransitivity; [apply count_occ_remove_le|apply Hc]].
      intros x Hx. apply in_remove in Hx as [Hx Hne]. destruct (Hin x Hx) as [->|H]; [congruence|assumption]. }
    specialize (Hc a). cbn [List.length]. rewrite Nat.mul_succ_r. lia.
Qed.

Lemma grun_stack_names limit names : forall ops st,
  (forall n, In (Enter n) ops -> In n names) -> incl (g_stack st) names ->
  incl (g_stack (grun Decrement limit ops st)) names.
Proof.
  induction ops as [|op rest IH]; intros st Hops Hst; cbn; [assumption|].
  destruct (gstep Decrement limit st op) as [st'|] eqn:E; [|assumption].
  apply IH; [intros n Hn; apply Hops; now right|].
  destruct op as [n|]; unfold gstep in E.
  - split_ltb E L; [discriminate|]. injection E as <-. cbn.
    intros x [<-|Hx]; [apply Hops; now left|now apply Hst].
  - destruct (g_stack st) as [|n r] eqn:S; injection E as <-; cbn; [now rewrite S|].
    intros x Hx. apply Hst. now right.
Qed.

(** The guard bounds the nesting: whatever a template does (any sequence of includes and returns over the
    helper names [names]), at no point are more than (limit + 1) * |names| includes active. Every prefix of
    a render is itself such a sequence, so this bounds the deepest nesting of the whole render. *)
Theorem include_depth_bounded : forall limit names ops,
  NoDup names -> (forall n, In (Enter n) ops -> In n names) ->
  depth (grun Decrement limit ops g_init) <= S limit * List.length names.
Proof.
  intros limit names ops Hnd Hops. unfold depth.
  assert (I0 : counts_stack g_init) by (intros n; reflexivity).
  assert (B0 : per_name_bounded limit g_init) by (intros n; cbn; lia).
  destruct (grun_invariants limit ops g_init I0 B0) as [_ B].
  apply length_le_names; [assumption| |exact B].
  apply grun_stack_names; [assumption|intros x []].
Qed.

(** per name: never more than limit + 1 active includes of the same helper *)
Theorem include_per_name_bounded : forall limit ops n,
  count_occ Nat.eq_dec (g_stack (grun Decrement limit ops g_init)) n <= S limit.
Proof.
  intros limit ops n.
  assert (I0 : counts_stack g_init) by (intros m; reflexivity).
  assert (B0 : per_name_bounded limit g_init) by (intros m; cbn; lia).
  now destruct (grun_invariants limit ops g_init I0 B0) as [_ B].
Qed.

(** REFUTED for the delete-on-exit shape (seed C19-E): one helper that includes itself for a call that returns
    and then includes itself again nests without bound - the counter never exceeds 2. *)
Lemma leaf_first_grows limit : 1 <= limit -> forall d st,
  g_count st 0 = 0 -> depth (grun Delete limit (leaf_first_ops d) st) = d + depth st
  /\ g_count (grun Delete limit (leaf_first_ops d) st) 0 = 0.
Proof.
  intros Hl. induction d as [|d IH]; intros st H0; cbn [leaf_first_ops grun]; [split; [reflexivity|assumption]|].
  cbn [gstep]. rewrite H0. replace (Nat.ltb limit 0) with false by (symmetry; apply Nat.ltb_ge; lia).
  cbn [g_count g_stack grun gstep]. rewrite upd_same.
  replace (Nat.ltb limit 1) with false by (symmetry; apply Nat.ltb_ge; lia).
  cbn [g_count g_stack grun gstep].
  match goal with |- context [grun Delete limit (leaf_first_ops d) ?s] => destruct (IH s) as [D C] end.
  { cbn. first [reflexivity | apply upd_same]. }
  split; [rewrite D; unfold depth; cbn; lia|exact C].
Qed.

Theorem delete_on_exit_unbounded_refuted : forall limit d, 1 <= limit ->
  depth (grun Delete limit (leaf_first_ops d) g_init) = d.
Proof.
  intros limit d Hl. destruct (leaf_first_grows limit Hl d g_init eq_refl) as [D _]. rewrite D. unfold depth. cbn. lia.
Qed.

(* ------------------------------------------------------------------ (7) uniqueInScope constraint *)

Theorem check_unique_total : forall has_unique list_ok s, check_unique has_unique list_ok <> Panic s.
Proof. intros [] [] s; discriminate. Qed.

(** F-C19g (found by code reading, missed by the check until the controllers were driven; fixed by 9533cda) *)
Theorem v0_cluster_deployer_refuted : forall list_ok, check_unique_v0_cluster true list_ok = Panic S_v0_pd_uncachedClient_unset.
Proof. intros []; reflexivity. Qed.

Theorem check_unique_agrees_with_v0 : forall has_unique list_ok,
  has_unique = false -> check_unique has_unique list_ok = check_unique_v0_cluster has_unique list_ok.
Proof. intros has_unique list_ok ->. reflexivity. Qed.

(* ------------------------------------------------------------------ satisfiability of the hypotheses *)

Example validated_objects_exist :
  let objs := [mkobj (Some "deploy") true true 1 (Some (bytes_of "Available => my.io/Available"))] in
  validators_accept ["deploy"] objs = true
  /\ forallb (fun o => condmap_ok (o_condmap o)) objs = true
  /\ render_and_collect ["deploy"] objs = Ok 1%N.
Proof. vm_compute. repeat split; reflexivity. Qed.

Example clean_stream_exists :
  no_tar_error [THeader (PUnder false) true; THeader (PUnder true) true] = true
  /\ from_oci [THeader (PUnder false) true; THeader (PUnder true) true] 0 = Ok 1%N.
Proof. vm_compute. split; reflexivity. Qed.

Example wellformed_owner_annotation_exists :
  let a := AJSON (JArr [JObj [("apiVersion", JStr "package-operator.run/v1alpha1"); ("kind", JStr "ObjectSetPhase");
                               ("name", JStr "n"); ("uid", JStr "u"); ("controller", JBool true)]]) in
  anno_wellformed a = true /\ phase_owner_reads false a (Some a) = Ok tt.
Proof. vm_compute. split; reflexivity. Qed.
