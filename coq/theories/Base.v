(** Shared data model of the "PKO kernel": cluster objects, owner references,
    the object store, owners (ObjectSet / ObjectSetPhase seen as phase owners).
    Executable definitions only. *)
From Coq Require Import List NArith ZArith Bool.
From PKO Require Import Util.
Import ListNotations.
Local Open Scope N_scope.

(** Owner reference as both owner strategies of boxcutter/ownerhandling see it:
    group+kind (one number), name, uid, controller flag.  The annotation strategy
    additionally records a namespace that is never compared; it is not modelled. *)
Record oref := { r_kind : N; r_name : N; r_uid : N; r_ctrl : bool }.

Definition oref_eqb (a b : oref) : bool :=
  (r_kind a =? r_kind b) && (r_name a =? r_name b) && (r_uid a =? r_uid b) && Bool.eqb (r_ctrl a) (r_ctrl b).

(** package-operator.run/revision annotation: absent/empty, a number, or unparsable. *)
Inductive revann := RevNone | RevNum (z : Z) | RevBad.

Definition revann_eqb (a b : revann) : bool :=
  match a, b with
  | RevNone, RevNone | RevBad, RevBad => true
  | RevNum x, RevNum y => Z.eqb x y
  | _, _ => false
  end.

(** Abstract cluster object: exactly the fields the reconcilers look at. *)
Record obj := {
  o_uid : N; o_rv : N; o_gen : Z;
  o_owners : list oref;          (* metadata.ownerReferences *)
  o_aowners : list oref;         (* package-operator.run/owners annotation (annotation strategy) *)
  o_rev : revann;
  o_cache : bool;                (* label package-operator.run/cache=True *)
  o_pkg : N;                     (* package label: 0 none, 1 "package-operator", other = other package *)
  o_body : N;                    (* identity of the non-metadata, non-status content *)
  o_avail : N;                   (* status.conditions[Available]: 0 absent, 1 True, 2 False *)
  o_obsgen : option Z;           (* status.observedGeneration *)
  o_deleting : bool;             (* deletionTimestamp set *)
  o_fin : bool                   (* carries a (foreign) finalizer that delays deletion *)
}.

Definition set_rv (o : obj) (rv : N) : obj :=
  {| o_uid := o_uid o; o_rv := rv; o_gen := o_gen o; o_owners := o_owners o; o_aowners := o_aowners o;
     o_rev := o_rev o; o_cache := o_cache o; o_pkg := o_pkg o; o_body := o_body o; o_avail := o_avail o;
     o_obsgen := o_obsgen o; o_deleting := o_deleting o; o_fin := o_fin o |}.

Definition obj_eqb (a b : obj) : bool :=
  (o_uid a =? o_uid b) && (o_rv a =? o_rv b) && Z.eqb (o_gen a) (o_gen b) &&
  list_eqb oref_eqb (o_owners a) (o_owners b) && list_eqb oref_eqb (o_aowners a) (o_aowners b) &&
  revann_eqb (o_rev a) (o_rev b) && Bool.eqb (o_cache a) (o_cache b) && (o_pkg a =? o_pkg b) &&
  (o_body a =? o_body b) && (o_avail a =? o_avail b) && option_eqb Z.eqb (o_obsgen a) (o_obsgen b) &&
  Bool.eqb (o_deleting a) (o_deleting b) && Bool.eqb (o_fin a) (o_fin b).

(** Object key: group-kind number, namespace (0 = empty / cluster scope), name. *)
Record okey := { k_gk : N; k_ns : N; k_name : N }.
Definition okey_eqb (a b : okey) : bool :=
  (k_gk a =? k_gk b) && (k_ns a =? k_ns b) && (k_name a =? k_name b).

(** The store: association list; the first binding of a key is the live one. *)
Definition store := list (okey * obj).

Fixpoint lookup (k : okey) (s : store) : option obj :=
  match s with
  | [] => None
  | (k', o) :: s' => if okey_eqb k k' then Some o else lookup k s'
  end.

Fixpoint remove_key (k : okey) (s : store) : store :=
  match s with
  | [] => []
  | (k', o) :: s' => if okey_eqb k k' then remove_key k s' else (k', o) :: remove_key k s'
  end.

Definition upsert (k : okey) (o : obj) (s : store) : store := (k, o) :: remove_key k s.

(** The kinds the scenarios use; mirrors the harness's scripted RESTMapper.
    Some true = namespaced, Some false = cluster scoped, None = not registered. *)
Definition gk_scope (gk : N) : option bool :=
  match gk with
  | 1 => Some true     (* v1 ConfigMap *)
  | 2 => Some true     (* verif.example/v1 Widget: has status, selected by the probe *)
  | 3 => Some false    (* v1 Namespace *)
  | _ => None          (* 4: verif.example/v1 Unregistered *)
  end.

(** Owner kinds. *)
Definition KObjectSet : N := 1.
Definition KClusterObjectSet : N := 2.
Definition KObjectSetPhase : N := 3.
Definition KClusterObjectSetPhase : N := 4.

(** Identity of an owner object (ObjectSet, ObjectSetPhase, ... ) *)
Record oid := { oi_kind : N; oi_ns : N; oi_name : N; oi_uid : N }.

(** Owner strategies of boxcutter/ownerhandling. *)
Inductive strat := Native | Annot.

(** spec.…collisionProtection; any other string (rejected by the CRD enum) behaves as Prevent. *)
Inductive cprot := CPPrevent | CPIfNoController | CPNone.

(** One entry of phase.objects. *)
Record pobj := {
  po_gk : N; po_ns : N; po_name : N;   (* po_ns = 0: namespace left empty in the spec *)
  po_body : N;
  po_cp : cprot;
  po_ownerrefs : bool;                 (* the object in the spec carries ownerReferences of its own *)
  po_dryreject : bool                  (* the API server's dry run rejects it *)
}.

(** A previous revision as PreviousObjectSet: its identity and its remote phases (name, uid). *)
Record prevrev := { pv_id : oid; pv_remotes : list (N * N) }.

(** The acting owner of a phase (PhaseObjectOwner). *)
Record owner := {
  ow_id : oid;
  ow_rev : Z;           (* GetRevision() *)
  ow_paused : bool;     (* IsSpecPaused() *)
  ow_pkg : N            (* package label of the owner, copied to the objects; 0 = none *)
}.
