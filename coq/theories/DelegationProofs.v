(** C15 — Delegating a phase to an ObjectSetPhase preserves behaviour.
    Theorems about the remote phase reconciler of the ObjectSet controller (ObjectSet.v) and the
    ObjectSetPhase controller (PhaseController.v). *)
From Coq Require Import List NArith ZArith Bool Lia.
From PKO Require Import Util Base BaseProofs Owner OwnerProofs Api ApiProofs Phase PhaseProofs TeardownProofs PreflightProofs
  AdoptionProofs ObjectSet ObjectSetProofs PhaseController RenameProofs.
Import ListNotations.
Local Open Scope N_scope.

(** * 1. What the phase object carries *)

(** A phase object carries phase [ph] of ObjectSet [s]: the phase's objects, the ObjectSet's revision, previous
    revisions, paused state and package label, the phase's class, and a single owner reference: the controller
    reference to the ObjectSet. (The availability probes are copied verbatim from the ObjectSet,
    remotephase_reconciler.go:218; all scenarios use one probe set, which is not a field of the model; the
    harness rejects a phase object whose probes differ.) *)
Record carries (s : oset) (ph : phase) (p : osphase) : Prop := {
  ca_kind : oi_kind (op_id p) = phase_kind s;
  ca_ns : oi_ns (op_id p) = oi_ns (os_id s);
  ca_name : oi_name (op_id p) = pobj_name s ph;
  ca_objects : op_objects p = ph_objects ph;
  ca_revision : op_revision p = os_revision s;
  ca_prev : op_prev p = os_prev s;
  ca_paused : op_paused p = lifecycle_eqb (os_life s) LPaused;
  ca_pkg : op_pkg p = os_pkg s;
  ca_class : op_class p = (if ph_class ph then 1 else 0);
  ca_owners : op_owners p = [ctrl_ref (os_id s)]
}.

Theorem desired_phase_carries s ph : carries s ph (desired_phase s ph).
Proof. constructor; reflexivity. Qed.

Lemma stamp_carries s ph p uid rv gen : carries s ph p -> carries s ph (stamp_phase p uid rv gen).
Proof. intros []. constructor; assumption. Qed.

(** The only owner reference is the controller reference to the ObjectSet: metav1.IsControlledBy holds. *)
Lemma carries_controlled s ph p : carries s ph p -> controlled_by_uid (op_owners p) (oi_uid (os_id s)) = true.
Proof. intros H. rewrite (ca_owners _ _ _ H). cbn. apply N.eqb_refl. Qed.

(** What the remote phase reconciler creates carries the phase of the (in-memory) ObjectSet, and it creates
    only when no object of that name exists. *)
Lemma remote_reconcile_creates sw s ph rem sw1 e1 rem1 r n p :
  remote_reconcile sw s ph rem = (sw1, e1, rem1, r) -> In (SPhase (PCreate n (Some p))) e1 ->
  n = pobj_name s ph /\ carries s ph p /\ phase_obj_of sw s ph = None /\ phase_obj_of sw1 s ph = Some p /\ r = RRErr /\
  oi_uid (op_id p) = w_uid (sw_w sw) /\ op_gen p = 1%Z /\ op_conds p = [] /\ op_deleting p = false.
Proof.
  unfold remote_reconcile, phase_obj_of, pobj_name. cbn [desired_phase op_id oi_kind oi_ns oi_name].
  set (name := join_name (oi_name (os_id s)) (ph_name ph)).
  destruct (find_phase (sw_phases sw) (phase_kind s) (oi_ns (os_id s)) name) as [cur|] eqn:Ef.
  - destruct (negb (controlled_by_uid (op_owners cur) (oi_uid (os_id s)))); [|destruct (Bool.eqb (op_paused cur) _)];
      intros H; injection H as <- <- <- <-; cbn; intros Hi;
      repeat (destruct Hi as [Hi|Hi]; [discriminate|]); contradiction.
  - intros H. injection H as <- <- <- <-. cbn. intros [Hi|[Hi|[]]]; [discriminate|]. injection Hi as <- <-.
    split; [reflexivity|]. split; [apply stamp_carries, desired_phase_carries|]. split; [reflexivity|]. split; [|repeat split].
    apply (find_put_phase_same (sw_phases sw) (stamp_phase (desired_phase s ph) (w_uid (sw_w sw)) (w_rv (sw_w sw)) 1)).
Qed.

(** * 2. The ObjectSetPhase controller runs the same phase reconciler *)

Definition member_of (e : sev) : list ev := match e with SMember x => [x] | _ => [] end.

Section PhasePassShape.
  Variables (f : flavor) (force : bool) (cls : N).
  Let c : cfg := {| c_flavor := f; c_force := force |}.

  Lemma update_pstatus_store sw m sw' m' ok :
    update_pstatus sw m = (sw', m', ok) -> w_store (sw_w sw') = w_store (sw_w sw) /\ sw_sets sw' = sw_sets sw.
  Proof.
    unfold update_pstatus. destruct (find_phase _ _ _ _) as [st|]; [|intros H; now injection H as <- _ _].
    destruct (negb _); [intros H; now injection H as <- _ _|].
    destruct (pstatus_eqb st m); intros H; injection H as <- _ _; auto.
  Qed.

  Lemma patch_pfinalizer_store sw m fin sw' r :
    patch_pfinalizer sw m fin = (sw', r) -> w_store (sw_w sw') = w_store (sw_w sw) /\ sw_sets sw' = sw_sets sw.
  Proof.
    unfold patch_pfinalizer. destruct (find_phase _ _ _ _) as [st|]; [|intros H; now injection H as <- _].
    destruct (negb (op_rv st =? op_rv m)); [intros H; now injection H as <- _|].
    destruct (negb fin && op_deleting st && negb (op_orphan st)); intros H; injection H as <- _; auto.
  Qed.

  Lemma patch_pfinalizer_same sw m fin sw' m' :
    patch_pfinalizer sw m fin = (sw', Some m') ->
    exists st, find_phase (sw_phases sw) (oi_kind (op_id m)) (oi_ns (op_id m)) (oi_name (op_id m)) = Some st /\
      op_id m' = op_id st /\ op_objects m' = op_objects st /\ op_revision m' = op_revision st /\ op_paused m' = op_paused st /\
      op_pkg m' = op_pkg st /\ op_prev m' = op_prev st.
  Proof.
    unfold patch_pfinalizer. destruct (find_phase _ _ _ _) as [st|]; [|discriminate].
    destruct (negb (op_rv st =? op_rv m)); [discriminate|].
    destruct (negb fin && op_deleting st && negb (op_orphan st)); intros H; injection H as _ <-; exists st; repeat split.
  Qed.

  (** An active pass: the member requests and the resulting member store are exactly those of
      [Phase.reconcile_phase] for the flavour, with the phase object as owner, its spec.revision, spec.paused,
      package label, spec.objects, and the previous revisions named in spec.previous looked up as ObjectSets
      (with their remote phases). *)
  Lemma pactive_body_members sw0 evs0 mem sw' evs r :
    pactive_body f force sw0 evs0 mem = (sw', evs, r) ->
    exists w1 e1 pr,
      reconcile_phase c (fun w => w) (sw_w sw0) (phase_owner mem) (lookup_prev_p (sw_sets sw0) mem) false (op_objects mem) = (w1, e1, pr) /\
      member_evs evs = member_evs evs0 ++ e1 /\ w_store (sw_w sw') = w_store w1 /\ sw_sets sw' = sw_sets sw0.
  Proof.
    unfold pactive_body. fold c.
    destruct (reconcile_phase c (fun w => w) (sw_w sw0) (phase_owner mem) (lookup_prev_p (sw_sets sw0) mem) false (op_objects mem)) as [[w1 e1] pr] eqn:E.
    assert (Hfail : forall rs swf evsf rf,
      (let m' := set_pconds mem (set_cond (op_conds mem) (pmk_cond mem CAvailable SFalse rs)) in
       let '(sw'', _, ok) := update_pstatus (with_w sw0 w1) m' in
       (sw'', (evs0 ++ map SMember e1) ++ [pstatus_ev m' ok], if ok then SDone true else SError)) = (swf, evsf, rf) ->
      member_evs evsf = member_evs evs0 ++ e1 /\ w_store (sw_w swf) = w_store w1 /\ sw_sets swf = sw_sets sw0).
    { intros rs swf evsf rf. cbv zeta. destruct (update_pstatus (with_w sw0 w1) _) as [[sw2 m2] ok] eqn:Eu.
      intros H'. injection H' as <- <- _. destruct (update_pstatus_store _ _ _ _ _ Eu) as [Hs Hse].
      rewrite !member_evs_app, member_evs_members. cbn. rewrite app_nil_r. auto. }
    intros H. exists w1, e1, pr. split; [reflexivity|].
    destruct pr as [e|vs|actual failed].
    - destruct e.
      + eapply Hfail; exact H.
      + eapply Hfail; exact H.
      + injection H as <- <- _; rewrite member_evs_app, member_evs_members; auto.
      + injection H as <- <- _; rewrite member_evs_app, member_evs_members; auto.
      + injection H as <- <- _; rewrite member_evs_app, member_evs_members; auto.
    - eapply Hfail; exact H.
    - match type of H with context [update_pstatus ?a ?b] => destruct (update_pstatus a b) as [[sw3 m3] ok] eqn:Eu end.
      injection H as <- <- _. destruct (update_pstatus_store _ _ _ _ _ Eu) as [Hs Hse].
      rewrite !member_evs_app, member_evs_members. cbn. rewrite app_nil_r. auto.
  Qed.

  (** A deletion pass: the member requests are exactly those of [Phase.teardown_phase] with the phase object
      as owner (none under the "orphan" finalizer or once the cached finalizer is gone). *)
  Lemma pdeletion_pass_members sw mem sw' evs r :
    pdeletion_pass f force sw mem = (sw', evs, r) ->
    exists w1 e1 td,
      (if op_fin mem then if op_orphan mem then (sw_w sw, [], TdOk true)
                          else teardown_phase c (fun w => w) (sw_w sw) (phase_owner mem) (op_objects mem)
       else (sw_w sw, [], TdOk true)) = (w1, e1, td) /\
      member_evs evs = e1 /\ w_store (sw_w sw') = w_store w1 /\ sw_sets sw' = sw_sets sw /\
      (* the finalizer is removed only after the teardown reported done *)
      (forall n ok, In (SPhase (PFinalizer n false ok)) evs -> td = TdOk true).
  Proof.
    unfold pdeletion_pass. fold c.
    destruct (if op_fin mem then _ else _) as [[w1 e1] td] eqn:E. intros H. exists w1, e1, td. split; [reflexivity|].
    assert (Hfin : forall swx evsx m swf evsf rf, w_store (sw_w swx) = w_store w1 -> sw_sets swx = sw_sets sw ->
      (let '(sw'', _, ok) := update_pstatus swx m in (sw'', evsx ++ [pstatus_ev m ok], if ok then SDone false else SError)) = (swf, evsf, rf) ->
      member_evs evsf = member_evs evsx /\ w_store (sw_w swf) = w_store w1 /\ sw_sets swf = sw_sets sw /\
      (forall e, In e evsf -> In e evsx \/ exists ok, e = pstatus_ev m ok)).
    { intros swx evsx m swf evsf rf Hsx Hsex. destruct (update_pstatus swx m) as [[sw2 m2] ok] eqn:Eu.
      intros H'. injection H' as <- <- _. destruct (update_pstatus_store _ _ _ _ _ Eu) as [Hs Hse].
      rewrite member_evs_app. cbn. rewrite app_nil_r. repeat split; try congruence.
      intros e Hin. apply in_app_or in Hin. destruct Hin as [Hin|[<-|[]]]; [now left|right; eauto]. }
    assert (Hnotfin : forall l n ok, In (SPhase (PFinalizer n false ok)) (map SMember l) -> False).
    { intros l n ok Hi. apply in_map_iff in Hi. destruct Hi as (x & Hx & _). discriminate. }
    destruct td as [|done].
    - injection H as <- <- _. rewrite member_evs_members. repeat split; auto. intros n ok Hi. exfalso. eapply Hnotfin; eauto.
    - destruct done.
      + destruct (op_fin mem).
        * destruct (patch_pfinalizer (with_w sw w1) mem false) as [sw2 [mem2|]] eqn:Ep.
          -- destruct (patch_pfinalizer_store _ _ _ _ _ Ep) as [Hs2 Hse2].
             destruct (Hfin _ _ _ _ _ _ Hs2 Hse2 H) as (Hm & Hst & Hse & _).
             rewrite Hm, member_evs_app, member_evs_members. cbn. rewrite app_nil_r. auto.
          -- injection H as <- <- _. destruct (patch_pfinalizer_store _ _ _ _ _ Ep) as [Hs2 Hse2].
             rewrite member_evs_app, member_evs_members. cbn. rewrite app_nil_r. auto.
        * destruct (Hfin (with_w sw w1) _ _ _ _ _ eq_refl eq_refl H) as (Hm & Hst & Hse & _).
          rewrite Hm, member_evs_members. auto.
      + destruct (Hfin (with_w sw w1) _ _ _ _ _ eq_refl eq_refl H) as (Hm & Hst & Hse & Hin).
        rewrite Hm, member_evs_members. repeat split; auto.
        intros n ok Hi. exfalso. destruct (Hin _ Hi) as [Hi'|(ok' & He)]; [eapply Hnotfin; eauto|discriminate].
  Qed.

  (** ** The class filter: a controller started for class [cls] sends no request for a phase object of another class. *)
  Theorem class_filter sw kind ns name p :
    find_phase (sw_phases sw) kind ns name = Some p -> op_class p <> cls ->
    objectsetphase_pass f force cls sw kind ns name = (sw, [], SNothing).
  Proof.
    intros Hf Hc. unfold objectsetphase_pass. rewrite Hf.
    destruct (op_class p =? cls) eqn:E; [apply N.eqb_eq in E; contradiction|reflexivity].
  Qed.

  (** ** delegated_equiv, step 1: one ObjectSetPhase controller pass on a phase object of its class is exactly
      one run of the shared phase reconciler: [reconcile_phase] while the object is not being deleted,
      [teardown_phase] (unless orphaned) once it is. *)
  Theorem phase_pass_is_phase_reconciler sw kind ns name p sw' evs r :
    find_phase (sw_phases sw) kind ns name = Some p -> op_class p = cls ->
    objectsetphase_pass f force cls sw kind ns name = (sw', evs, r) ->
    sw_sets sw' = sw_sets sw /\
    if op_deleting p then
      exists w1 td,
        (if op_fin p then if op_orphan p then (sw_w sw, [], TdOk true)
                          else teardown_phase c (fun w => w) (sw_w sw) (phase_owner p) (op_objects p)
         else (sw_w sw, [], TdOk true)) = (w1, member_evs evs, td) /\ w_store (sw_w sw') = w_store w1
    else
      (exists ok, evs = [SPhase (PFinalizer name true ok)] /\ ok = false /\ w_store (sw_w sw') = w_store (sw_w sw)) \/
      exists w0 w1 pr,
        w_store w0 = w_store (sw_w sw) /\
        reconcile_phase c (fun w => w) w0 (phase_owner p) (lookup_prev_p (sw_sets sw) p) false (op_objects p) = (w1, member_evs evs, pr) /\
        w_store (sw_w sw') = w_store w1.
  Proof.
    intros Hf Hc. unfold objectsetphase_pass. rewrite Hf, Hc, N.eqb_refl. cbn [negb].
    destruct (op_deleting p) eqn:Ed.
    - intros H. destruct (pdeletion_pass_members _ _ _ _ _ H) as (w1 & e1 & td & E & Hm & Hst & Hse & _).
      split; [exact Hse|]. exists w1, td. rewrite Hm. auto.
    - destruct (op_fin p) eqn:Efin.
      + intros H. destruct (pactive_body_members _ _ _ _ _ _ H) as (w1 & e1 & pr & E & Hm & Hst & Hse).
        split; [exact Hse|]. right. exists (sw_w sw), w1, pr. cbn in Hm. rewrite Hm. auto.
      + destruct (patch_pfinalizer sw p true) as [sw0 [m|]] eqn:Ep.
        * intros H. destruct (pactive_body_members _ _ _ _ _ _ H) as (w1 & e1 & pr & E & Hm & Hst & Hse).
          destruct (patch_pfinalizer_store _ _ _ _ _ Ep) as [Hs0 Hse0].
          destruct (patch_pfinalizer_same _ _ _ _ _ Ep) as (st & Hfs & Hid & Hob & Hrev & Hpa & Hpk & Hpr).
          destruct (find_phase_key _ _ _ _ _ Hf) as (Hk & Hn & Hnm). rewrite Hk, Hn, Hnm, Hf in Hfs. injection Hfs as <-.
          split; [congruence|]. right. exists (sw_w sw0), w1, pr. cbn in Hm. rewrite Hm. split; [exact Hs0|]. split; [|exact Hst].
          assert (Hown : phase_owner m = phase_owner p) by (unfold phase_owner; now rewrite Hid, Hrev, Hpa, Hpk).
          assert (Hprev : lookup_prev_p (sw_sets sw0) m = lookup_prev_p (sw_sets sw) p).
          { unfold lookup_prev_p, set_kind_of. now rewrite Hse0, Hid, Hpr. }
          rewrite <- Hown, <- Hprev, <- Hob. exact E.
        * intros H. injection H as <- <- <-. destruct (patch_pfinalizer_store _ _ _ _ _ Ep) as [Hs0 Hse0].
          split; [exact Hse0|]. left. exists false. auto.
  Qed.
End PhasePassShape.

(** ** delegated_equiv, step 2: for a phase object that carries phase [ph] of ObjectSet [s], the run of step 1
    uses the ObjectSet's revision, paused state, package label, the phase's objects and the ObjectSet's previous
    revisions; the only difference to the local step of the ObjectSet's own loop is the owner identity
    (the phase object instead of the ObjectSet) and the order in which the flavour lists preflight violations. *)
Lemma carried_owner s ph p : carries s ph p ->
  phase_owner p = {| ow_id := op_id p; ow_rev := ow_rev (as_owner s); ow_paused := ow_paused (as_owner s); ow_pkg := ow_pkg (as_owner s) |}.
Proof. intros H. unfold phase_owner, as_owner. cbn. now rewrite (ca_revision _ _ _ H), (ca_paused _ _ _ H), (ca_pkg _ _ _ H). Qed.

Definition set_kind_wf (s : oset) : Prop := oi_kind (os_id s) = KObjectSet \/ oi_kind (os_id s) = KClusterObjectSet.

Lemma carried_prev sets s ph p : set_kind_wf s -> carries s ph p -> lookup_prev_p sets p = lookup_prev sets s.
Proof.
  intros Hwf H. unfold lookup_prev_p, lookup_prev, set_kind_of. rewrite (ca_prev _ _ _ H), (ca_kind _ _ _ H), (ca_ns _ _ _ H).
  assert (Hk : (if phase_kind s =? KClusterObjectSetPhase then KClusterObjectSet else KObjectSet) = oi_kind (os_id s)).
  { unfold phase_kind. destruct Hwf as [-> | ->]; reflexivity. }
  now rewrite Hk.
Qed.

(** ** delegated_equiv, step 3: the same-cluster ObjectSetPhase flavour and the ObjectSet flavour run the same
    checks (in a different order) with the same owner strategy: for one and the same owner record both do
    exactly the same, except for the order of the violations they list. *)
Lemma preflight_same_empty ow p :
  preflight_obj FSamePhase ow false p = [] <-> preflight_obj FObjectSet ow false p = [].
Proof.
  unfold preflight_obj. destruct (gk_scope (k_gk (desired_key ow p))); [|tauto].
  split; intros H.
  - apply app_eq_nil in H. destruct H as [H1 H]. apply app_eq_nil in H. destruct H as [H2 H3]. now rewrite H1, H2, H3.
  - apply app_eq_nil in H. destruct H as [H1 H]. apply app_eq_nil in H. destruct H as [H2 H3]. now rewrite H1, H2, H3.
Qed.

Lemma preflight_all_same_empty ow ps :
  flat_map (preflight_obj FSamePhase ow false) ps = [] <-> flat_map (preflight_obj FObjectSet ow false) ps = [].
Proof.
  induction ps as [|p ps IH]; cbn; [tauto|]. split; intros H; apply app_eq_nil in H; destruct H as [H1 H2].
  - apply preflight_same_empty in H1. apply IH in H2. now rewrite H1, H2.
  - apply preflight_same_empty in H1. apply IH in H2. now rewrite H1, H2.
Qed.

Lemma reconcile_objects_not_preflight c between ow prev ps : forall w acc failed w' evs vs,
  reconcile_objects c between w ow prev ps acc failed <> (w', evs, PhPreflight vs).
Proof.
  induction ps as [|p ps IH]; intros w acc failed w' evs vs E; cbn in E; [discriminate|].
  destruct (reconcile_object c between w ow prev p) as [[w1 e1] r1]. destruct r1.
  - destruct (reconcile_objects c between w1 ow prev ps _ _) as [[w2 e2] r2] eqn:E2. injection E as _ _ ->. eapply IH; eauto.
  - destruct (reconcile_objects c between w1 ow prev ps _ _) as [[w2 e2] r2] eqn:E2. injection E as _ _ ->. eapply IH; eauto.
  - discriminate.
Qed.

Section FlavorSame.
  Variable force : bool.
  Variable between : world -> world.
  Let cS : cfg := {| c_flavor := FSamePhase; c_force := force |}.
  Let cO : cfg := {| c_flavor := FObjectSet; c_force := force |}.

  Lemma reconcile_objects_flavor w ow prev ps acc failed :
    reconcile_objects cS between w ow prev ps acc failed = reconcile_objects cO between w ow prev ps acc failed.
  Proof. reflexivity. Qed.

  Theorem flavor_same_reconcile w ow prev ps :
    match reconcile_phase cO between w ow prev false ps with
    | (w', evs, PhPreflight vs) =>
        w' = w /\ evs = [] /\ vs <> [] /\
        exists vs', vs' <> [] /\ reconcile_phase cS between w ow prev false ps = (w, [], PhPreflight vs')
    | res => reconcile_phase cS between w ow prev false ps = res
    end.
  Proof.
    unfold reconcile_phase. cbn [c_flavor cS cO].
    destruct (flat_map (preflight_obj FObjectSet ow false) ps) as [|v vs] eqn:EO.
    - apply preflight_all_same_empty in EO. rewrite EO. rewrite reconcile_objects_flavor.
      destruct (reconcile_objects cO between w ow prev ps [] []) as [[w' evs] r] eqn:E.
      destruct r; try reflexivity.
      exfalso. eapply reconcile_objects_not_preflight; eauto.
    - destruct (flat_map (preflight_obj FSamePhase ow false) ps) as [|v' vs'] eqn:ES.
      + apply preflight_all_same_empty in ES. rewrite ES in EO. discriminate.
      + repeat split; try discriminate. exists (v' :: vs'). split; [discriminate|reflexivity].
  Qed.

  Lemma teardown_object_flavor w ow p : teardown_object cS between w ow p = teardown_object cO between w ow p.
  Proof.
    unfold teardown_object. cbn [c_flavor cS cO].
    destruct (preflight_obj FSamePhase ow false p) eqn:ES; destruct (preflight_obj FObjectSet ow false p) eqn:EO; try reflexivity.
    - apply preflight_same_empty in ES. rewrite ES in EO. discriminate.
    - apply preflight_same_empty in EO. rewrite EO in ES. discriminate.
  Qed.

  Theorem flavor_same_teardown ow ps : forall w, teardown_phase cS between w ow ps = teardown_phase cO between w ow ps.
  Proof.
    unfold teardown_phase. generalize true. induction ps as [|p ps IH]; intros b w; [reflexivity|].
    cbn [teardown_objects]. rewrite teardown_object_flavor.
    destruct (teardown_object cO between w ow p) as [[w1 e1] d]. destruct (teardown_err e1); [reflexivity|]. now rewrite IH.
  Qed.
End FlavorSame.

(** * 3. Adoption through remote phases, in both directions, for both owner strategies *)

Lemma controlled_by_previous_direct st o prev pv :
  In pv prev -> is_controller st (pv_id pv) o = true -> controlled_by_previous st o prev = true.
Proof.
  intros Hin Hc. unfold controlled_by_previous. apply existsb_exists. exists pv. split; [exact Hin|]. now rewrite Hc.
Qed.

Lemma controlled_by_previous_remote st o prev pv rp :
  In pv prev -> In rp (pv_remotes pv) -> is_controller st (remote_phase_oid pv rp) o = true ->
  controlled_by_previous st o prev = true.
Proof.
  intros Hin Hrp Hc. unfold controlled_by_previous. apply existsb_exists. exists pv. split; [exact Hin|].
  apply orb_true_iff. right. apply existsb_exists. exists rp. auto.
Qed.

(** is_controller looks at kind, name and uid of the owner only. *)
Lemma is_controller_same_id st a b o :
  oi_kind a = oi_kind b -> oi_name a = oi_name b -> oi_uid a = oi_uid b -> is_controller st a o = is_controller st b o.
Proof.
  intros H1 H2 H3. unfold is_controller, is_controller_l. induction (refs st o) as [|r l IH]; [reflexivity|].
  cbn. rewrite IH. unfold same_obj. now rewrite H1, H2, H3.
Qed.

Section AdoptionThroughRemotePhases.
  Variable st : strat.
  Variables (sets : list oset) (prevset : oset).
  Hypothesis Hwf : set_kind_wf prevset.
  Hypothesis Hfound : find_set sets (oi_kind (os_id prevset)) (oi_ns (os_id prevset)) (oi_name (os_id prevset)) = Some prevset.

  (** The previous revision as the lookup of a next revision sees it. *)
  Let pv : prevrev := {| pv_id := os_id prevset; pv_remotes := os_remotes prevset |}.

  Lemma lookup_prev_finds (next : oset) :
    oi_kind (os_id next) = oi_kind (os_id prevset) -> oi_ns (os_id next) = oi_ns (os_id prevset) ->
    In (oi_name (os_id prevset)) (os_prev next) -> In pv (lookup_prev sets next).
  Proof.
    intros Hk Hn Hin. unfold lookup_prev. apply in_map_iff. exists (oi_name (os_id prevset)). split; [|exact Hin].
    now rewrite Hk, Hn, Hfound.
  Qed.

  (** delegated -> local: an object controlled by the phase object of a delegated phase of the previous
      revision, once that phase object is recorded in the previous revision's status.remotePhases, counts as
      controlled by a previous revision for the next revision's own (local) phase reconciler... *)
  Theorem adoption_delegated_to_local (next : oset) (po : osphase) (o : obj) :
    oi_kind (os_id next) = oi_kind (os_id prevset) -> oi_ns (os_id next) = oi_ns (os_id prevset) ->
    In (oi_name (os_id prevset)) (os_prev next) ->
    oi_kind (op_id po) = phase_kind prevset ->
    In (oi_name (op_id po), oi_uid (op_id po)) (os_remotes prevset) ->
    is_controller st (op_id po) o = true ->
    controlled_by_previous st o (lookup_prev sets next) = true.
  Proof.
    intros Hk Hn Hin Hpk Hrem Hc.
    eapply controlled_by_previous_remote; [apply lookup_prev_finds; eauto|exact Hrem|].
    rewrite <- Hc. apply is_controller_same_id; cbn; auto.
  Qed.

  (** ... and for the phase object of a delegated phase of the next revision (delegated -> delegated): the
      phase object carries the next revision's previous list, so its controller looks up the same previous
      revisions with the same remote phases. *)
  Theorem adoption_delegated_to_delegated (next : oset) (ph : phase) (pnext po : osphase) (o : obj) :
    set_kind_wf next -> carries next ph pnext ->
    oi_kind (os_id next) = oi_kind (os_id prevset) -> oi_ns (os_id next) = oi_ns (os_id prevset) ->
    In (oi_name (os_id prevset)) (os_prev next) ->
    oi_kind (op_id po) = phase_kind prevset ->
    In (oi_name (op_id po), oi_uid (op_id po)) (os_remotes prevset) ->
    is_controller st (op_id po) o = true ->
    controlled_by_previous st o (lookup_prev_p sets pnext) = true.
  Proof.
    intros Hwfn Hca Hk Hn Hin Hpk Hrem Hc. rewrite (carried_prev _ _ _ _ Hwfn Hca).
    eapply adoption_delegated_to_local; eauto.
  Qed.

  (** local -> delegated: an object controlled by the previous revision itself (its phase was local) counts as
      controlled by a previous revision for the phase object of the next revision's delegated phase. *)
  Theorem adoption_local_to_delegated (next : oset) (ph : phase) (pnext : osphase) (o : obj) :
    set_kind_wf next -> carries next ph pnext ->
    oi_kind (os_id next) = oi_kind (os_id prevset) -> oi_ns (os_id next) = oi_ns (os_id prevset) ->
    In (oi_name (os_id prevset)) (os_prev next) ->
    is_controller st (os_id prevset) o = true ->
    controlled_by_previous st o (lookup_prev_p sets pnext) = true.
  Proof.
    intros Hwfn Hca Hk Hn Hin Hc. rewrite (carried_prev _ _ _ _ Hwfn Hca).
    eapply controlled_by_previous_direct; [apply lookup_prev_finds; eauto|exact Hc].
  Qed.

  (** Hence the adoption decision: with collision protection Prevent (no force, not the self-bootstrap package),
      an object whose recorded revision is lower than the acting owner's and that is controlled through any of
      the routes above is adopted, whichever of ObjectSet / phase object acts. *)
  Theorem adoption_decision_through_previous force (ow : owner) (prev : list prevrev) (o : obj) r :
    controlled_by_previous st o prev = true -> is_controller st (ow_id ow) o = false ->
    obj_revision o = Some r -> (r < ow_rev ow)%Z ->
    forall cp, check_adoption st force ow o prev cp = Adopt.
  Proof.
    intros Hcp Hnc Hrev Hlt cp. apply check_adopt_iff; [exact Hnc|]. unfold permitted. rewrite Hrev.
    assert ((r <=? ow_rev ow)%Z = true) as -> by (apply Z.leb_le; lia).
    assert ((r <? ow_rev ow)%Z = true) as Hl by (apply Z.ltb_lt; lia). cbn [andb].
    destruct (eff_cp force o cp); [now rewrite Hcp, Hl|rewrite Hcp, Hl; apply orb_true_r|reflexivity].
  Qed.
End AdoptionThroughRemotePhases.

(** * 4. One phase object per (ObjectSet, phase), from the first pass that reaches the phase until teardown *)
(** The immutable part of a phase object: identity (incl. uid), owner references, labels, revision, previous,
    objects. Neither controller ever changes it (they change spec.paused, finalizers, deletion and status). *)
Definition core_eq (p p' : osphase) : Prop :=
  op_id p' = op_id p /\ op_owners p' = op_owners p /\ op_pkg p' = op_pkg p /\ op_class p' = op_class p /\
  op_revision p' = op_revision p /\ op_prev p' = op_prev p /\ op_objects p' = op_objects p.
Lemma core_eq_refl p : core_eq p p.
Proof. repeat split. Qed.
Lemma core_eq_trans a b c : core_eq a b -> core_eq b c -> core_eq a c.
Proof. unfold core_eq. intros (?&?&?&?&?&?&?) (?&?&?&?&?&?&?). repeat split; congruence. Qed.
Lemma core_eq_phase_with p rv gen d f o pa : core_eq p (phase_with p rv gen d f o pa).
Proof. repeat split. Qed.

Section OnePhaseObject.
  Variable force : bool.

  Definition creates (nm : N) (evs : list sev) : Prop := exists p, In (SPhase (PCreate nm p)) evs.

  Lemma only_phase_create n evs nm : only_phase_evs n evs -> creates nm evs -> nm = n.
  Proof.
    intros Ho (p & Hin). unfold only_phase_evs in Ho. rewrite Forall_forall in Ho. specialize (Ho _ Hin). cbn in Ho. congruence.
  Qed.

  Lemma remote_reconcile_create_iff sw s ph rem sw1 e1 rem1 r :
    remote_reconcile sw s ph rem = (sw1, e1, rem1, r) ->
    (creates (pobj_name s ph) e1 -> phase_obj_of sw s ph = None /\ r = RRErr /\ exists p, phase_obj_of sw1 s ph = Some p) /\
    (phase_obj_of sw s ph <> None -> ~ creates (pobj_name s ph) e1) /\
    (* whatever exists stays, with its uid *)
    (forall kind ns name p, find_phase (sw_phases sw) kind ns name = Some p ->
       exists p', find_phase (sw_phases sw1) kind ns name = Some p' /\ core_eq p p').
  Proof.
    intros H. pose proof H as H0.
    unfold remote_reconcile, phase_obj_of, pobj_name in *. cbn [desired_phase op_id oi_kind oi_ns oi_name] in *.
    set (name := join_name (oi_name (os_id s)) (ph_name ph)) in *.
    destruct (find_phase (sw_phases sw) (phase_kind s) (oi_ns (os_id s)) name) as [cur|] eqn:Ef.
    - destruct (find_phase_key _ _ _ _ _ Ef) as (Hk & Hns & Hn).
      assert (Hnc : forall evs, (evs = [SPhase (PGet name (Some cur))] \/ exists p q, evs = [SPhase (PGet name (Some cur)); SPhase (PPause name p q)]) -> ~ creates name evs).
      { intros evs [->|(p & q & ->)] (x & Hin); cbn in Hin; repeat (destruct Hin as [Hin|Hin]; [discriminate|]); contradiction. }
      destruct (negb (controlled_by_uid (op_owners cur) (oi_uid (os_id s)))).
      { injection H as <- <- <- <-. split; [intros Hc; exfalso; exact (Hnc _ (or_introl eq_refl) Hc)|]. split; [intros _; exact (Hnc _ (or_introl eq_refl))|].
        intros kind ns nm p Hp. exists p. split; [exact Hp|apply core_eq_refl]. }
      destruct (Bool.eqb (op_paused cur) _).
      + injection H as <- <- <- <-. split; [intros Hc; exfalso; exact (Hnc _ (or_introl eq_refl) Hc)|]. split; [intros _; exact (Hnc _ (or_introl eq_refl))|].
        intros kind ns nm p Hp. exists p. split; [exact Hp|apply core_eq_refl].
      + injection H as <- <- <- <-.
        match goal with |- (creates name ?l -> _) /\ _ => assert (Hnc' : ~ creates name l) end.
        { intros (x & Hin); cbn in Hin; repeat (destruct Hin as [Hin|Hin]; [discriminate|]); contradiction. }
        split; [intros Hc; exfalso; exact (Hnc' Hc)|]. split; [intros _; exact Hnc'|].
        intros kind ns nm p Hp. cbn [sw_phases with_phases].
        set (cur' := phase_with cur _ _ _ _ _ _).
        destruct ((oi_kind (op_id cur') =? kind) && (oi_ns (op_id cur') =? ns) && (oi_name (op_id cur') =? nm)) eqn:E.
        * apply andb_true_iff in E. destruct E as [E E3]. apply andb_true_iff in E. destruct E as [E1 E2].
          apply N.eqb_eq in E1, E2, E3. subst kind ns nm. exists cur'. split; [apply find_put_phase_same|].
          change (op_id cur') with (op_id cur) in Hp. rewrite Hk, Hns, Hn, Ef in Hp. injection Hp as <-. apply core_eq_phase_with.
        * exists p. split; [|apply core_eq_refl]. rewrite find_put_phase_other; [exact Hp|exact E].
    - injection H as <- <- <- <-. cbn [sw_phases with_phases].
      set (st := stamp_phase (desired_phase s ph) _ _ _).
      split; [intros _; split; [reflexivity|split; [reflexivity|exists st; apply (find_put_phase_same (sw_phases sw) st)]]|].
      split; [congruence|].
      intros kind ns nm p Hp. exists p. split; [|apply core_eq_refl]. rewrite find_put_phase_other; [exact Hp|].
      unfold pkey_eq. cbn. fold name. destruct ((phase_kind s =? kind) && (oi_ns (os_id s) =? ns) && (name =? nm)) eqn:E; [|reflexivity].
      apply andb_true_iff in E. destruct E as [E E3]. apply andb_true_iff in E. destruct E as [E1 E2].
      apply N.eqb_eq in E1, E2, E3. subst. rewrite Ef in Hp. discriminate.
  Qed.

  (** The loop creates a phase object only under a name for which none exists, then stops; it never removes one. *)
  Lemma rpm_creates s ow prev phs : forall sw acc rem sw' evs rem' r,
    reconcile_phases_m force sw s ow prev phs acc rem = (sw', evs, rem', r) ->
    (forall nm, creates nm evs ->
       find_phase (sw_phases sw) (phase_kind s) (oi_ns (os_id s)) nm = None /\
       (exists p, find_phase (sw_phases sw') (phase_kind s) (oi_ns (os_id s)) nm = Some p) /\ r = MRemoteErr /\
       exists ph, In ph phs /\ ph_class ph = true /\ nm = pobj_name s ph) /\
    (forall kind ns name p, find_phase (sw_phases sw) kind ns name = Some p ->
       exists p', find_phase (sw_phases sw') kind ns name = Some p' /\ core_eq p p').
  Proof.
    induction phs as [|ph rest IH]; intros sw acc rem sw' evs rem' r H.
    - cbn in H. injection H as <- <- _ _. split; [intros nm (p & [])|]. intros kind ns name p Hp. exists p. split; [exact Hp|apply core_eq_refl].
    - rewrite rpm_cons in H. destruct (ph_class ph) eqn:Ecl.
      + destruct (remote_reconcile sw s ph rem) as [[[sw1 e1] rem1] r1] eqn:E1.
        destruct (remote_reconcile_create_iff _ _ _ _ _ _ _ _ E1) as (Hc1 & Hnc1 & Hk1).
        destruct (remote_reconcile_inv _ _ _ _ _ _ _ _ E1) as (_ & _ & _ & Hev1 & Hfr1 & Hres1).
        assert (Hstop : forall rr, (sw1, e1, rem1) = (sw', evs, rem') -> (r1 = RRErr -> rr = MRemoteErr) ->
                  (forall nm, creates nm evs ->
                     find_phase (sw_phases sw) (phase_kind s) (oi_ns (os_id s)) nm = None /\
                     (exists p, find_phase (sw_phases sw') (phase_kind s) (oi_ns (os_id s)) nm = Some p) /\ rr = MRemoteErr /\
                     exists ph0, In ph0 (ph :: rest) /\ ph_class ph0 = true /\ nm = pobj_name s ph0) /\
                  (forall kind ns name p, find_phase (sw_phases sw) kind ns name = Some p ->
                     exists p', find_phase (sw_phases sw') kind ns name = Some p' /\ core_eq p p')).
        { intros rr Heq Hrr. injection Heq as <- <- <-. split; [|exact Hk1].
          intros nm Hcr. pose proof (only_phase_create _ _ _ Hev1 Hcr) as ->. destruct (Hc1 Hcr) as (Ha & Hb & Hd).
          split; [exact Ha|]. split; [exact Hd|]. split; [auto|]. exists ph. split; [now left|auto]. }
        destruct r1 as [|active failed]; [injection H as <- <- <- <-; now apply Hstop|].
        destruct failed; [injection H as <- <- <- <-; apply Hstop; [reflexivity|discriminate]|].
        destruct (reconcile_phases_m force sw1 s ow prev rest (acc ++ active) rem1) as [[[sw2 e2] rem2] r2] eqn:E2.
        injection H as <- <- <- <-. destruct (IH _ _ _ _ _ _ _ E2) as [Hcr2 Hk2].
        destruct Hres1 as (cur & Hcur & _).
        assert (Hno1 : forall nm, ~ creates nm e1).
        { intros nm Hcr. pose proof (only_phase_create _ _ _ Hev1 Hcr) as ->. destruct (Hc1 Hcr) as (_ & Hb & _). discriminate. }
        split.
        * intros nm (p & Hin). apply in_app_or in Hin. destruct Hin as [Hin|Hin]; [exfalso; eapply Hno1; exists p; eauto|].
          destruct (Hcr2 nm (ex_intro _ p Hin)) as (Ha & Hb & Hc & (ph0 & Hp0 & Hc0 & Hn0)).
          split; [|split; [exact Hb|split; [exact Hc|exists ph0; split; [now right|auto]]]].
          destruct (N.eq_dec nm (pobj_name s ph)) as [->|Hne].
          -- unfold phase_obj_of in Hcur. rewrite Hcur in Ha. discriminate.
          -- rewrite <- Ha. symmetry. apply Hfr1. rewrite !N.eqb_refl. cbn. apply N.eqb_neq. congruence.
        * intros kind ns name p Hp. destruct (Hk1 _ _ _ _ Hp) as (p1 & Hp1 & Hu1). destruct (Hk2 _ _ _ _ Hp1) as (p2 & Hp2 & Hu2).
          exists p2. split; [exact Hp2|eapply core_eq_trans; eauto].
      + destruct (reconcile_phase _ _ (sw_w sw) ow prev false (ph_objects ph)) as [[w1 e1] r1] eqn:E1.
        assert (Hno1 : forall nm, ~ creates nm (map SMember e1)).
        { intros nm (p & Hin). apply in_map_iff in Hin. destruct Hin as (x & Hx & _). discriminate. }
        assert (Hstop : forall rr, (with_w sw w1, map SMember e1, rem) = (sw', evs, rem') ->
                  (forall nm, creates nm evs ->
                     find_phase (sw_phases sw) (phase_kind s) (oi_ns (os_id s)) nm = None /\
                     (exists p, find_phase (sw_phases sw') (phase_kind s) (oi_ns (os_id s)) nm = Some p) /\ rr = MRemoteErr /\
                     exists ph0, In ph0 (ph :: rest) /\ ph_class ph0 = true /\ nm = pobj_name s ph0) /\
                  (forall kind ns name p, find_phase (sw_phases sw) kind ns name = Some p ->
                     exists p', find_phase (sw_phases sw') kind ns name = Some p' /\ core_eq p p')).
        { intros rr Heq. injection Heq as <- <- <-. split; [intros nm Hcr; exfalso; eapply Hno1; eauto|]. intros kind ns name p Hp. exists p. split; [exact Hp|apply core_eq_refl]. }
        destruct r1 as [e|vs|actual failed]; [injection H as <- <- <- <-; now apply Hstop|injection H as <- <- <- <-; now apply Hstop|].
        destruct failed as [|f fs]; [|injection H as <- <- <- <-; now apply Hstop].
        cbv zeta in H.
        match type of H with context [reconcile_phases_m force ?a s ow prev ?l ?b ?d] =>
          destruct (reconcile_phases_m force a s ow prev l b d) as [[[sw2 e2] rem2] r2] eqn:E2 end.
        injection H as <- <- <- <-. destruct (IH _ _ _ _ _ _ _ E2) as [Hcr2 Hk2]. split.
        * intros nm (p & Hin). apply in_app_or in Hin. destruct Hin as [Hin|Hin]; [exfalso; eapply Hno1; exists p; eauto|].
          destruct (Hcr2 nm (ex_intro _ p Hin)) as (Ha & Hb & Hc & (ph0 & Hp0 & Hc0 & Hn0)).
          split; [exact Ha|]. split; [exact Hb|]. split; [exact Hc|]. exists ph0. split; [now right|auto].
        * intros kind ns name p Hp. exact (Hk2 _ _ _ _ Hp).
  Qed.

  (** Pass level. *)
  Lemma status_keeps_no_create mem0 evs nm : Forall (status_keeps mem0) evs -> ~ creates nm evs.
  Proof. intros Hk (p & Hin). rewrite Forall_forall in Hk. exact (Hk _ Hin). Qed.

  Theorem active_pass_phase_objects sw k ns n mem0 sw' evs r :
    find_set (sw_sets sw) k ns n = Some mem0 -> is_active mem0 ->
    objectset_pass force sw k ns n = (sw', evs, r) ->
    (* a phase object is created only for a delegated phase of this ObjectSet, under a name for which none
       exists; it exists afterwards and the pass ends there (with the error of remotephase_reconciler.go:149) *)
    (forall nm, creates nm evs ->
       find_phase (sw_phases sw) (phase_kind mem0) (oi_ns (os_id mem0)) nm = None /\
       (exists p, find_phase (sw_phases sw') (phase_kind mem0) (oi_ns (os_id mem0)) nm = Some p) /\ r = SError /\
       exists ph, In ph (os_phases mem0) /\ ph_class ph = true /\ nm = pobj_name mem0 ph) /\
    (* and no phase object is removed or replaced: same identity (uid), owner, labels, revision, previous, objects *)
    (forall kind pns name p, find_phase (sw_phases sw) kind pns name = Some p ->
       exists p', find_phase (sw_phases sw') kind pns name = Some p' /\ core_eq p p').
  Proof.
    intros Hfind Hact H.
    destruct (objectset_pass_active force _ _ _ _ _ _ _ _ Hfind Hact H) as [(_ & Hph & _ & Hkeep)|Hr].
    - split; [intros nm Hc; exfalso; eapply status_keeps_no_create; eauto|]. intros kind pns name p Hp. exists p. rewrite Hph. split; [exact Hp|apply core_eq_refl].
    - destruct Hr as (mem1 & sw1 & sw2 & pevs & rem & pr & pre0 & Hs & _ & Hph1 & _ & _ & Hrp & _ & Hph2 & _ & Hpre & Hal).
      destruct (rpm_creates _ _ _ _ _ _ _ _ _ _ _ Hrp) as [Hcr Hk].
      destruct Hs as (Hid & Hphs & _).
      assert (Hpk : phase_kind mem1 = phase_kind mem0) by (unfold phase_kind; now rewrite Hid).
      assert (Hcr_loop : forall nm, creates nm evs -> creates nm pevs /\ (pr = MRemoteErr -> r = SError)).
      { intros nm (p & Hin). unfold after_loop in Hal.
        assert (Hnp : forall l, Forall (status_keeps mem0) l -> ~ In (SPhase (PCreate nm p)) l).
        { intros l Hl Hi. rewrite Forall_forall in Hl. exact (Hl _ Hi). }
        destruct pr as [e| | |co failed].
        - destruct (match e with ErrNotPrevious | ErrRevCollision => true | _ => false end).
          + destruct Hal as (ok & m' & -> & _). apply in_app_or in Hin. destruct Hin as [Hin|Hin]; [exfalso; eapply Hnp; eauto|].
            apply in_app_or in Hin. destruct Hin as [Hin|[Hin|[]]]; [|discriminate]. split; [exists p; exact Hin|discriminate].
          + destruct Hal as [-> _]. apply in_app_or in Hin. destruct Hin as [Hin|Hin]; [exfalso; eapply Hnp; eauto|]. split; [exists p; exact Hin|discriminate].
        - destruct Hal as [-> ->]. apply in_app_or in Hin. destruct Hin as [Hin|Hin]; [exfalso; eapply Hnp; eauto|]. split; [exists p; exact Hin|auto].
        - destruct Hal as (ok & m' & -> & _). apply in_app_or in Hin. destruct Hin as [Hin|Hin]; [exfalso; eapply Hnp; eauto|].
          apply in_app_or in Hin. destruct Hin as [Hin|[Hin|[]]]; [|discriminate]. split; [exists p; exact Hin|discriminate].
        - destruct Hal as (ok & -> & _). apply in_app_or in Hin. destruct Hin as [Hin|Hin]; [exfalso; eapply Hnp; eauto|].
          apply in_app_or in Hin. destruct Hin as [Hin|Hin]; [split; [exists p; exact Hin|discriminate]|].
          apply in_app_or in Hin. destruct Hin as [Hin|[Hin|[]]]; [exfalso; eapply Hnp; [apply (paused_reads_keep mem0)|exact Hin]|discriminate]. }
      split.
      + intros nm Hc. destruct (Hcr_loop nm Hc) as [Hcl Hrr]. destruct (Hcr nm Hcl) as (Ha & (p & Hb) & Hc' & (ph & Hp & Hcl' & Hn)).
        rewrite Hpk, Hid, Hph1 in Ha. rewrite Hpk, Hid, <- Hph2 in Hb. split; [exact Ha|]. split; [eauto|]. split; [auto|].
        exists ph. rewrite <- Hphs. split; [exact Hp|]. split; [exact Hcl'|]. unfold pobj_name in *. now rewrite <- Hid.
      + intros kind pns name p Hp. rewrite <- Hph1 in Hp. destruct (Hk _ _ _ _ Hp) as (p' & Hp' & Hu). exists p'. rewrite Hph2. auto.
  Qed.

  (** Histories of active ObjectSet passes (any ObjectSets, any order). *)
  Inductive apasses : sworld -> list (N * N * list sev) -> sworld -> Prop :=
  | ap_nil sw : apasses sw [] sw
  | ap_cons sw k ns n mem0 sw1 evs r rest sw' :
      find_set (sw_sets sw) k ns n = Some mem0 -> is_active mem0 ->
      objectset_pass force sw k ns n = (sw1, evs, r) -> apasses sw1 rest sw' ->
      apasses sw ((phase_kind mem0, oi_ns (os_id mem0), evs) :: rest) sw'.

  (** a step of the history creates the phase object (kind, ns, nm) *)
  Definition step_creates (kind pns nm : N) (st : N * N * list sev) : Prop :=
    fst (fst st) = kind /\ snd (fst st) = pns /\ creates nm (snd st).

  Lemma apasses_present sw hist sw' kind pns nm p :
    apasses sw hist sw' -> find_phase (sw_phases sw) kind pns nm = Some p ->
    Forall (fun st => ~ step_creates kind pns nm st) hist /\
    exists p', find_phase (sw_phases sw') kind pns nm = Some p' /\ core_eq p p'.
  Proof.
    intros Hh. revert p. induction Hh as [sw|sw k ns n mem0 sw1 evs r rest sw' Hf Ha Hp Hrest IH]; intros p Hpres.
    - split; [constructor|]. exists p. split; [exact Hpres|apply core_eq_refl].
    - destruct (active_pass_phase_objects _ _ _ _ _ _ _ _ Hf Ha Hp) as [Hcr Hk].
      destruct (Hk _ _ _ _ Hpres) as (p1 & Hp1 & Hu1). destruct (IH _ Hp1) as (Hno & p2 & Hp2 & Hu2).
      split; [|exists p2; split; [exact Hp2|eapply core_eq_trans; eauto]].
      constructor; [|exact Hno]. intros (Hk1 & Hk2 & Hc). cbn in Hk1, Hk2, Hc. subst kind pns.
      destruct (Hcr _ Hc) as (Habs & _). rewrite Habs in Hpres. discriminate.
  Qed.

  (** one_phase_object: over every history of active ObjectSet passes, each phase object name is created by at
      most one pass; from then on an object of that name and uid exists in every later world of the history. *)
  Theorem one_phase_object sw hist sw' kind pns nm :
    apasses sw hist sw' ->
    forall before st after, hist = before ++ st :: after -> step_creates kind pns nm st ->
      Forall (fun st' => ~ step_creates kind pns nm st') after /\
      exists p, find_phase (sw_phases sw') kind pns nm = Some p.
  Proof.
    intros Hh. induction Hh as [sw|sw k ns n mem0 sw1 evs r rest sw' Hf Ha Hp Hrest IH]; intros before st after Hsplit Hst.
    - destruct before; discriminate.
    - destruct before as [|b before'].
      + cbn in Hsplit. injection Hsplit as <- <-. destruct Hst as (Hk1 & Hk2 & Hc). cbn in Hk1, Hk2, Hc. subst kind pns.
        destruct (active_pass_phase_objects _ _ _ _ _ _ _ _ Hf Ha Hp) as [Hcr _].
        destruct (Hcr _ Hc) as (_ & (p & Hpres) & _).
        destruct (apasses_present _ _ _ _ _ _ _ Hrest Hpres) as (Hno & p' & Hp' & _). split; [exact Hno|eauto].
      + cbn in Hsplit. injection Hsplit as _ ->. eapply IH; eauto.
  Qed.
End OnePhaseObject.

(** * 5. The relay trusts Available only for the phase object's current generation *)
Section Relay.
  Variable force : bool.

  (** The relay itself: the remote phase reconciler answers "no failure" only for a phase object — the one it
      read, or the one its pause patch returned — whose Available condition is True and was computed for that
      object's current generation. *)
  Theorem relay_generation_step sw s ph rem sw1 e1 rem1 active :
    remote_reconcile sw s ph rem = (sw1, e1, rem1, RROk active false) ->
    exists cur, phase_read e1 (pobj_name s ph) cur /\ avail_current cur /\ active = op_ctrlof cur /\
                phase_obj_of sw1 s ph = Some cur.
  Proof.
    intros H. destruct (remote_reconcile_inv _ _ _ _ _ _ _ _ H) as (_ & _ & _ & _ & _ & (cur & Hcur & Hrel & Hread)).
    destruct (relay_ok _ _ Hrel) as [Ha ->]. exists cur. auto.
  Qed.

  (** A stale status (observedGeneration different from the generation) never counts. *)
  Theorem relay_stale_is_failure cur cd :
    find_cond (op_conds cur) CAvailable = Some cd -> cd_gen cd <> op_gen cur -> relay cur = RROk (op_ctrlof cur) true.
  Proof.
    intros Hc Hg. unfold relay. rewrite Hc. assert (Z.eqb (cd_gen cd) (op_gen cur) = false) as -> by now apply Z.eqb_neq. reflexivity.
  Qed.

  (** relay_generation: the ObjectSet reports Available=True (newly) only in a pass in which, for every
      delegated phase, the phase object read in THIS pass carries Available=True with observedGeneration equal
      to its generation. *)
  Theorem relay_generation sw k ns n mem0 sw' evs r rev conds ctrlof rem fph ok cd :
    find_set (sw_sets sw) k ns n = Some mem0 -> is_active mem0 ->
    objectset_pass force sw k ns n = (sw', evs, r) ->
    In (SMeta (MStatus rev conds ctrlof rem fph ok)) evs ->
    find_cond conds CAvailable = Some cd -> cd_status cd = STrue ->
    find_cond (os_conds mem0) CAvailable <> Some cd ->
    forall q, In q (os_phases mem0) -> ph_class q = true ->
      exists cur, own_phase_read mem0 evs q cur /\ avail_current cur.
  Proof.
    intros Hfind Hact H Hin Hfc Hst Hnew q Hq Hc.
    destruct (C06_available_true_justified_all force _ _ _ _ _ _ _ _ _ _ _ _ _ _ _ Hfind Hact H Hin Hfc Hst Hnew) as (_ & _ & _ & Hd & _).
    apply Hd. unfold delegated_phases. apply filter_In. auto.
  Qed.

  (** The gate (C03 extended to mixed phase lists): no object of a later local phase is written and no later
      phase object is created or patched unless every earlier local phase is complete and every earlier
      delegated phase's phase object carries Available=True for its current generation. The only hypothesis on
      the spec is that the delegated phases of the ObjectSet have distinct names. *)
  Theorem relay_gates_rollout sw k ns n mem0 sw' evs r :
    find_set (sw_sets sw) k ns n = Some mem0 -> is_active mem0 -> phase_names_nodup mem0 ->
    objectset_pass force sw k ns n = (sw', evs, r) ->
    forall pre ph post, os_phases mem0 = pre ++ ph :: post ->
      Exists (touches mem0 (as_owner mem0) ph) evs ->
      forall q, In q pre -> phase_done sw' mem0 (as_owner mem0) q.
  Proof. exact (C03_rollout_gated_mixed_all force sw k ns n mem0 sw' evs r). Qed.
End Relay.

(** * 6. Teardown deletes the phase object and waits until it is gone *)
Section TeardownWaits.
  Variable force : bool.

  (** teardown_waits, the step: a delegated phase counts as done only in a state in which its phase object is
      absent or not controlled by the ObjectSet; that step sends no write, and a step that deletes (or strips
      the finalizers of) the phase object answers "not done". *)
  Theorem teardown_waits_step sw s ph sw1 e1 :
    remote_teardown sw s ph = (sw1, e1, TdOk true) ->
    sw1 = sw /\ remote_gone sw s ph /\ Forall (fun e => ~ is_write_on (pobj_name s ph) e) e1.
  Proof. apply remote_teardown_waits. Qed.

  Theorem teardown_delete_not_done sw s ph sw1 e1 r :
    remote_teardown sw s ph = (sw1, e1, r) -> Exists (is_write_on (pobj_name s ph)) e1 -> r = TdOk false.
  Proof.
    intros H Hex. destruct r as [|[|]]; [| |reflexivity].
    - exfalso. unfold remote_teardown in H. cbn [desired_phase op_id oi_kind oi_ns oi_name] in H.
      destruct (find_phase _ _ _ _) as [cur|]; [|discriminate].
      destruct (negb (controlled_by_uid _ _)); [discriminate|].
      destruct (oi_ns (os_id s) =? 0); [discriminate|].
      destruct (ns_state _ _) as [[|]|]; [destruct (negb _); discriminate|discriminate|].
      injection H as _ <-. inversion Hex as [? ? Hw|? ? Hw]; subst; [exact Hw|inversion Hw].
    - exfalso. destruct (remote_teardown_waits _ _ _ _ _ H) as (_ & _ & Hn). eapply exists_not; eauto.
  Qed.

  (** teardown_waits, the pass (C04 extended to mixed phase lists): the finalizer is removed, or Archived=True
      reported, only when every local phase's objects are gone / released and every delegated phase's phase
      object is absent or not controlled by the ObjectSet; and a request writes to a phase only if every later
      phase is already finished. *)
  Theorem teardown_waits sw k ns n mem0 sw' evs r :
    find_set (sw_sets sw) k ns n = Some mem0 -> is_going mem0 -> desired_keys_nodup mem0 -> phase_names_nodup mem0 ->
    os_fin mem0 = true -> os_orphan mem0 = false ->
    objectset_pass force sw k ns n = (sw', evs, r) ->
    ((exists ok, In (SMeta (MFinalizer false ok)) evs) \/
     (exists rev0 conds ctrlof rem fph ok, In (SMeta (MStatus rev0 conds ctrlof rem fph ok)) evs /\ cond_true conds CArchived = true)) ->
    forall q, In q (os_phases mem0) -> phase_gone sw' mem0 (as_owner mem0) q.
  Proof. exact (C04_finalizer_held_until_gone force sw k ns n mem0 sw' evs r). Qed.

  Theorem teardown_order_mixed sw k ns n mem0 sw' evs r :
    find_set (sw_sets sw) k ns n = Some mem0 -> is_going mem0 -> desired_keys_nodup mem0 -> phase_names_nodup mem0 ->
    objectset_pass force sw k ns n = (sw', evs, r) ->
    forall pre ph post, os_phases mem0 = pre ++ ph :: post ->
      Exists (touches mem0 (as_owner mem0) ph) evs ->
      forall q, In q post -> phase_gone sw' mem0 (as_owner mem0) q.
  Proof. exact (C04_reverse_order_mixed force sw k ns n mem0 sw' evs r). Qed.
End TeardownWaits.

(** * 7. Does the relay read the ObjectSet's own phase object? *)
Section RelayOwn.
  Variable force : bool.

  (** What the loop creates carries the phase of the ObjectSet as it is in memory at that point. *)
  Lemma rpm_created_carries s ow prev phs : forall sw acc rem sw' evs rem' r nm p,
    reconcile_phases_m force sw s ow prev phs acc rem = (sw', evs, rem', r) ->
    In (SPhase (PCreate nm (Some p))) evs ->
    exists ph, In ph phs /\ ph_class ph = true /\ nm = pobj_name s ph /\ carries s ph p /\ op_conds p = [] /\ op_gen p = 1%Z.
  Proof.
    induction phs as [|ph rest IH]; intros sw acc rem sw' evs rem' r nm p H Hin.
    - cbn in H. injection H as _ <- _ _. contradiction.
    - rewrite rpm_cons in H. destruct (ph_class ph) eqn:Ecl.
      + destruct (remote_reconcile sw s ph rem) as [[[sw1 e1] rem1] r1] eqn:E1.
        assert (Hhead : In (SPhase (PCreate nm (Some p))) e1 ->
                  exists ph0, In ph0 (ph :: rest) /\ ph_class ph0 = true /\ nm = pobj_name s ph0 /\ carries s ph0 p /\ op_conds p = [] /\ op_gen p = 1%Z).
        { intros Hi. destruct (remote_reconcile_creates _ _ _ _ _ _ _ _ _ _ E1 Hi) as (Hn & Hca & _ & _ & _ & _ & Hg & Hc & _).
          exists ph. split; [now left|auto]. }
        destruct r1 as [|active failed]; [injection H as _ <- _ _; auto|].
        destruct failed; [injection H as _ <- _ _; auto|].
        destruct (reconcile_phases_m force sw1 s ow prev rest (acc ++ active) rem1) as [[[sw2 e2] rem2] r2] eqn:E2.
        injection H as _ <- _ _. apply in_app_or in Hin. destruct Hin as [Hi|Hi]; [auto|].
        destruct (IH _ _ _ _ _ _ _ _ _ E2 Hi) as (ph0 & Hp0 & rest'). exists ph0. split; [now right|exact rest'].
      + destruct (reconcile_phase _ _ (sw_w sw) ow prev false (ph_objects ph)) as [[w1 e1] r1] eqn:E1.
        assert (Hno : ~ In (SPhase (PCreate nm (Some p))) (map SMember e1)).
        { intros Hi. apply in_map_iff in Hi. destruct Hi as (x & Hx & _). discriminate. }
        destruct r1 as [e|vs|actual failed]; [injection H as _ <- _ _; contradiction|injection H as _ <- _ _; contradiction|].
        destruct failed as [|f fs]; [|injection H as _ <- _ _; contradiction].
        cbv zeta in H.
        match type of H with context [reconcile_phases_m force ?a s ow prev ?l ?b ?d] =>
          destruct (reconcile_phases_m force a s ow prev l b d) as [[[sw2 e2] rem2] r2] eqn:E2 end.
        injection H as _ <- _ _. apply in_app_or in Hin. destruct Hin as [Hi|Hi]; [contradiction|].
        destruct (IH _ _ _ _ _ _ _ _ _ E2 Hi) as (ph0 & Hp0 & rest'). exists ph0. split; [now right|exact rest'].
  Qed.

  (** The ObjectSetPhase controller never changes the immutable part of a phase object either. *)
  Lemma update_pstatus_core sw m sw' m' ok kind ns name p :
    update_pstatus sw m = (sw', m', ok) -> find_phase (sw_phases sw) kind ns name = Some p ->
    exists p', find_phase (sw_phases sw') kind ns name = Some p' /\ core_eq p p'.
  Proof.
    unfold update_pstatus. destruct (find_phase (sw_phases sw) (oi_kind (op_id m)) _ _) as [st|] eqn:Ef;
      [|intros H Hp; injection H as <- _ _; exists p; split; [exact Hp|apply core_eq_refl]].
    destruct (negb _); [intros H Hp; injection H as <- _ _; exists p; split; [exact Hp|apply core_eq_refl]|].
    destruct (pstatus_eqb st m); intros H Hp; injection H as <- _ _; [exists p; split; [exact Hp|apply core_eq_refl]|].
    cbn [sw_phases with_phases]. destruct (find_phase_key _ _ _ _ _ Ef) as (Hk & Hn & Hnm).
    set (s' := with_pstatus st m _).
    destruct ((oi_kind (op_id s') =? kind) && (oi_ns (op_id s') =? ns) && (oi_name (op_id s') =? name)) eqn:E.
    - apply andb_true_iff in E. destruct E as [E E3]. apply andb_true_iff in E. destruct E as [E1 E2].
      apply N.eqb_eq in E1, E2, E3. subst kind ns name. exists s'. split; [apply find_put_phase_same|].
      change (op_id s') with (op_id st) in Hp. rewrite Hk, Hn, Hnm, Ef in Hp. injection Hp as <-. repeat split.
    - exists p. split; [|apply core_eq_refl]. rewrite find_put_phase_other; [exact Hp|exact E].
  Qed.

  (** ** relay_own: everything the ObjectSet relays comes from a phase object it controls.
      The step: the remote phase reconciler records, pause-patches and relays only a phase object whose
      controller reference names this ObjectSet (metav1.IsControlledBy); for any other object found under the
      name it answers with an error and leaves the world and the recorded remote phases untouched. *)
  Theorem relay_own_step sw s ph rem sw1 e1 rem1 r :
    remote_reconcile sw s ph rem = (sw1, e1, rem1, r) ->
    match r with
    | RRErr => rem1 = rem /\ Forall (fun e => match e with SPhase (PPause _ _ _) => False | _ => True end) e1
    | RROk active failed =>
        exists cur, phase_obj_of sw1 s ph = Some cur /\ relay cur = RROk active failed /\
          phase_read e1 (pobj_name s ph) cur /\
          controlled_by_uid (op_owners cur) (oi_uid (os_id s)) = true /\
          rem1 = add_remote rem (pobj_name s ph, oi_uid (op_id cur))
    end.
  Proof. apply remote_reconcile_own. Qed.

  Theorem relay_foreign_is_error sw s ph rem cur :
    phase_obj_of sw s ph = Some cur -> controlled_by_uid (op_owners cur) (oi_uid (os_id s)) = false ->
    remote_reconcile sw s ph rem = (sw, [SPhase (PGet (pobj_name s ph) (Some cur))], rem, RRErr).
  Proof.
    unfold remote_reconcile, phase_obj_of, pobj_name. cbn [desired_phase op_id oi_kind oi_ns oi_name]. intros -> ->. reflexivity.
  Qed.

  (** The pass: in any status request of an active pass that newly reports Available=True, (1) every delegated
      phase was relayed from a phase object read in this pass that this ObjectSet controls and that is Available
      for its own generation; (2) every controllerOf entry was seen controlled by the ObjectSet itself or is
      reported by such a phase object; (3) every status.remotePhases entry is the stored one or names such a
      phase object with its uid. No hypothesis on names or on who created the phase object. *)
  Theorem relay_own sw k ns n mem0 sw' evs r rev conds ctrlof rem fph ok cd :
    find_set (sw_sets sw) k ns n = Some mem0 -> is_active mem0 ->
    objectset_pass force sw k ns n = (sw', evs, r) ->
    In (SMeta (MStatus rev conds ctrlof rem fph ok)) evs ->
    find_cond conds CAvailable = Some cd -> cd_status cd = STrue ->
    find_cond (os_conds mem0) CAvailable <> Some cd ->
    (forall q, In q (delegated_phases mem0) -> exists cur, own_phase_read mem0 evs q cur /\ avail_current cur) /\
    (forall key, In key ctrlof -> seen_controlled (sw_w sw') (as_owner mem0) key \/ reported_by_phase mem0 (os_phases mem0) evs key) /\
    (forall x, In x rem -> In x (os_remotes mem0) \/
       exists q cur, In q (os_phases mem0) /\ ph_class q = true /\ own_phase_read mem0 evs q cur /\ x = (pobj_name mem0 q, oi_uid (op_id cur))).
  Proof.
    intros Hfind Hact H Hin Hfc Hst Hnew.
    destruct (C06_available_true_justified_all force _ _ _ _ _ _ _ _ _ _ _ _ _ _ _ Hfind Hact H Hin Hfc Hst Hnew) as (_ & _ & _ & H1 & H2 & H3 & _).
    auto.
  Qed.

  (** The loop, for any outcome (also when a later phase fails or errors): every remote phase reference gathered
      and every controllerOf entry taken from a phase object comes from one this ObjectSet controls. *)
  Theorem relay_own_loop s ow prev phs sw acc rem sw' evs rem' r :
    reconcile_phases_m force sw s ow prev phs acc rem = (sw', evs, rem', r) ->
    forall x, In x rem' -> In x rem \/
      exists q cur, In q phs /\ ph_class q = true /\ own_phase_read s evs q cur /\ x = (pobj_name s q, oi_uid (op_id cur)).
  Proof. apply rpm_remotes. Qed.

  (** ** The shape before commit a940846 (historical) *)

  (** On worlds in which the phase object is absent or controlled by the ObjectSet, nothing changed. *)
  Theorem remote_reconcile_v0_agrees sw s ph rem :
    match phase_obj_of sw s ph with
    | None => True
    | Some cur => controlled_by_uid (op_owners cur) (oi_uid (os_id s)) = true
    end ->
    remote_reconcile sw s ph rem = remote_reconcile_v0 sw s ph rem.
  Proof.
    unfold remote_reconcile, remote_reconcile_v0, phase_obj_of, pobj_name. cbn [desired_phase op_id oi_kind oi_ns oi_name].
    destruct (find_phase _ _ _ _) as [cur|]; [|reflexivity]. intros ->. reflexivity.
  Qed.

  (** ObjectSet "n3" (uid 110) with delegated phase "p2-p5"; the only phase object is "n3-p2-p5" of ObjectSet
      "n3-p2" (uid 100), phase "p5": same name as "n3" + "-" + "p2-p5". *)
  Definition relay_own_world : sworld :=
    let obj := {| po_gk := 1; po_ns := 0; po_name := 2; po_body := 1; po_cp := CPPrevent; po_ownerrefs := false; po_dryreject := false |} in
    let other := {| po_gk := 1; po_ns := 0; po_name := 1; po_body := 1; po_cp := CPPrevent; po_ownerrefs := false; po_dryreject := false |} in
    let b := {| os_id := {| oi_kind := KObjectSet; oi_ns := 1; oi_name := 3; oi_uid := 110 |}; os_rv := 6; os_gen := 1;
                os_deleting := false; os_fin := true; os_orphan := false; os_pkg := 0; os_life := LActive;
                os_phases := [{| ph_name := 2005; ph_class := true; ph_objects := [obj] |}]; os_prev := [];
                os_revision := 1; os_conds := []; os_ctrlof := []; os_remotes := [] |} in
    let pa := {| op_id := {| oi_kind := KObjectSetPhase; oi_ns := 1; oi_name := join_name 3002 5; oi_uid := 60 |};
                 op_rv := 70; op_gen := 1; op_owners := [ctrl_ref {| oi_kind := KObjectSet; oi_ns := 1; oi_name := 3002; oi_uid := 100 |}];
                 op_deleting := false; op_fin := true; op_orphan := false; op_pkg := 0; op_class := 1;
                 op_paused := false; op_revision := 1; op_prev := []; op_objects := [other];
                 op_conds := [{| cd_type := CAvailable; cd_status := STrue; cd_reason := RAvailable; cd_gen := 1 |}];
                 op_ctrlof := [{| k_gk := 1; k_ns := 1; k_name := 1 |}] |} in
    {| sw_w := {| w_store := []; w_rv := 80; w_uid := 90 |}; sw_sets := [b]; sw_phases := [pa]; sw_nss := [(1, false)] |}.

  (** relay_own_v0_refuted (historical, repaired by commit a940846): the old remote phase reconciler relayed
      "available", the controllerOf and the uid of a phase object controlled by another ObjectSet and carrying
      that ObjectSet's objects; the repaired one answers with an error and records nothing. *)
  Theorem relay_own_v0_refuted :
    exists sw s ph sw1 e1 rem1 active cur,
      In s (sw_sets sw) /\ In ph (os_phases s) /\ ph_class ph = true /\
      remote_reconcile_v0 sw s ph [] = (sw1, e1, rem1, RROk active false) /\
      phase_read e1 (pobj_name s ph) cur /\ active = op_ctrlof cur /\ active <> [] /\
      rem1 = [(pobj_name s ph, oi_uid (op_id cur))] /\
      controlled_by_uid (op_owners cur) (oi_uid (os_id s)) = false /\ op_objects cur <> ph_objects ph /\
      remote_reconcile sw s ph [] = (sw, e1, [], RRErr).
  Proof.
    eexists relay_own_world, _, _, _, _, _, _, _.
    split; [left; reflexivity|]. split; [left; reflexivity|]. split; [reflexivity|]. split; [vm_compute; reflexivity|].
    split; [left; left; reflexivity|]. split; [reflexivity|]. split; [discriminate|]. split; [reflexivity|].
    split; [reflexivity|]. split; [discriminate|]. vm_compute. reflexivity.
  Qed.

  (** What an ObjectSet pass creates: the phase object of one of its delegated phases, carrying that phase
      (objects, revision, previous, paused, class, package label, controller reference = the ObjectSet), under
      a name that was free. *)
  Theorem created_phase_carries sw k ns n mem0 sw' evs r nm p :
    find_set (sw_sets sw) k ns n = Some mem0 -> is_active mem0 ->
    objectset_pass force sw k ns n = (sw', evs, r) ->
    In (SPhase (PCreate nm (Some p))) evs ->
    exists mem1 ph, same_spec mem1 mem0 /\ In ph (os_phases mem0) /\ ph_class ph = true /\ nm = pobj_name mem0 ph /\
      carries mem1 ph p /\ controlled_by_uid (op_owners p) (oi_uid (os_id mem0)) = true /\
      find_phase (sw_phases sw) (phase_kind mem0) (oi_ns (os_id mem0)) nm = None.
  Proof.
    intros Hfind Hact H Hin.
    destruct (active_pass_phase_objects force _ _ _ _ _ _ _ _ Hfind Hact H) as [Hcr _].
    destruct (Hcr nm (ex_intro _ (Some p) Hin)) as (Habs & _).
    destruct (objectset_pass_active force _ _ _ _ _ _ _ _ Hfind Hact H) as [(_ & _ & _ & Hkeep)|Hr].
    - exfalso. rewrite Forall_forall in Hkeep. exact (Hkeep _ Hin).
    - destruct Hr as (mem1 & sw1 & sw2 & pevs & rem & pr & pre0 & Hs & _ & _ & _ & _ & Hrp & _ & _ & _ & Hpre & Hal).
      assert (Hin_loop : In (SPhase (PCreate nm (Some p))) pevs).
      { assert (Hnp : forall l, Forall (status_keeps mem0) l -> ~ In (SPhase (PCreate nm (Some p))) l).
        { intros l Hl Hi. rewrite Forall_forall in Hl. exact (Hl _ Hi). }
        unfold after_loop in Hal. destruct pr as [e| | |co failed].
        - destruct (match e with ErrNotPrevious | ErrRevCollision => true | _ => false end).
          + destruct Hal as (ok & m' & -> & _). apply in_app_or in Hin. destruct Hin as [Hi|Hi]; [exfalso; eapply Hnp; eauto|].
            apply in_app_or in Hi. destruct Hi as [Hi|[Hi|[]]]; [exact Hi|discriminate].
          + destruct Hal as [-> _]. apply in_app_or in Hin. destruct Hin as [Hi|Hi]; [exfalso; eapply Hnp; eauto|exact Hi].
        - destruct Hal as [-> _]. apply in_app_or in Hin. destruct Hin as [Hi|Hi]; [exfalso; eapply Hnp; eauto|exact Hi].
        - destruct Hal as (ok & m' & -> & _). apply in_app_or in Hin. destruct Hin as [Hi|Hi]; [exfalso; eapply Hnp; eauto|].
          apply in_app_or in Hi. destruct Hi as [Hi|[Hi|[]]]; [exact Hi|discriminate].
        - destruct Hal as (ok & -> & _). apply in_app_or in Hin. destruct Hin as [Hi|Hi]; [exfalso; eapply Hnp; eauto|].
          apply in_app_or in Hi. destruct Hi as [Hi|Hi]; [exact Hi|].
          apply in_app_or in Hi. destruct Hi as [Hi|[Hi|[]]]; [exfalso; eapply Hnp; [apply (paused_reads_keep mem0)|exact Hi]|discriminate]. }
      destruct (rpm_created_carries _ _ _ _ _ _ _ _ _ _ _ _ _ Hrp Hin_loop) as (ph & Hp & Hc & Hn & Hca & _).
      pose proof Hs as (Hid & Hphs & _).
      exists mem1, ph. split; [exact Hs|]. rewrite <- Hphs. split; [exact Hp|]. split; [exact Hc|].
      split; [unfold pobj_name in *; now rewrite <- Hid|]. split; [exact Hca|]. split; [|exact Habs].
      rewrite <- Hid. eapply carries_controlled; eauto.
  Qed.
End RelayOwn.

(** * 8. delegated_equiv *)

(** The same owner record with another identity. *)
Definition with_id (ow : owner) (id : oid) : owner :=
  {| ow_id := id; ow_rev := ow_rev ow; ow_paused := ow_paused ow; ow_pkg := ow_pkg ow |}.

Section DelegatedEquiv.
  Variable force : bool.
  Let cO : cfg := {| c_flavor := FObjectSet; c_force := force |}.
  Let idw (w : world) := w.

  (** What "the same as an in-process phase" means. The ObjectSet's own loop runs, for a local phase [ph],
        [reconcile_phase cO idw w (as_owner s) (lookup_prev sets s) false (ph_objects ph)]
      ([rpm_cons], second branch) and, on teardown,
        [teardown_phase cO idw w (as_owner s) (ph_objects ph)] ([td_step]).
      For a delegated phase of the built-in class, one pass of the same-cluster ObjectSetPhase controller on a
      phase object that carries the phase produces EXACTLY the member requests and member store of these two
      functions — same configuration [cO] (owner strategy, force flag, preflight checks up to the order of the
      listed violations), same revision, paused flag, package label, objects and previous revisions (including
      their remote phases) — applied to the owner record whose identity is the phase object instead of the
      ObjectSet: [with_id (as_owner s) (op_id p)]. The identity is the only difference: it is what the owner
      references of the member objects name, and what the adoption check compares (section 3 shows that the
      check looks through it in both directions). *)
  Theorem delegated_equiv sw s ph p kind ns name sw' evs r :
    set_kind_wf s -> carries s ph p ->
    find_phase (sw_phases sw) kind ns name = Some p -> op_class p = 1 ->
    objectsetphase_pass FSamePhase force 1 sw kind ns name = (sw', evs, r) ->
    sw_sets sw' = sw_sets sw /\
    if op_deleting p then
      exists w1 td,
        (if op_fin p then if op_orphan p then (sw_w sw, [], TdOk true)
                          else teardown_phase cO idw (sw_w sw) (with_id (as_owner s) (op_id p)) (ph_objects ph)
         else (sw_w sw, [], TdOk true)) = (w1, member_evs evs, td) /\ w_store (sw_w sw') = w_store w1
    else
      (evs = [SPhase (PFinalizer name true false)] /\ w_store (sw_w sw') = w_store (sw_w sw)) \/
      exists w0 w1 pr,
        w_store w0 = w_store (sw_w sw) /\
        reconcile_phase cO idw w0 (with_id (as_owner s) (op_id p)) (lookup_prev (sw_sets sw) s) false (ph_objects ph) = (w1, member_evs evs, pr) /\
        w_store (sw_w sw') = w_store w1.
  Proof.
    intros Hwf Hca Hf Hc H.
    destruct (phase_pass_is_phase_reconciler FSamePhase force 1 _ _ _ _ _ _ _ _ Hf Hc H) as [Hse Hrest].
    split; [exact Hse|].
    assert (Hown : phase_owner p = with_id (as_owner s) (op_id p)) by (rewrite (carried_owner _ _ _ Hca); reflexivity).
    destruct (op_deleting p).
    - destruct Hrest as (w1 & td & E & Hst). exists w1, td. split; [|exact Hst].
      rewrite <- E, <- Hown, <- (ca_objects _ _ _ Hca). destruct (op_fin p); [|reflexivity]. destruct (op_orphan p); [reflexivity|].
      symmetry. apply flavor_same_teardown.
    - destruct Hrest as [(ok & -> & -> & Hst)|(w0 & w1 & pr & Hw0 & E & Hst)]; [left; auto|right].
      rewrite Hown, (carried_prev _ _ _ _ Hwf Hca), (ca_objects _ _ _ Hca) in E.
      pose proof (flavor_same_reconcile force (fun w => w) w0 (with_id (as_owner s) (op_id p)) (lookup_prev (sw_sets sw) s) (ph_objects ph)) as Hfl.
      fold cO in Hfl.
      destruct (reconcile_phase cO (fun w => w) w0 (with_id (as_owner s) (op_id p)) (lookup_prev (sw_sets sw) s) false (ph_objects ph)) as [[wO eO] prO] eqn:EO.
      destruct prO as [e|vs|a fl].
      + rewrite E in Hfl. injection Hfl as -> -> ->. exists w0, wO, (PhErr e). auto.
      + destruct Hfl as (-> & -> & _ & vs' & _ & Hfl). rewrite E in Hfl. injection Hfl as -> Hev _.
        exists w0, w0, (PhPreflight vs). rewrite Hev. auto.
      + rewrite E in Hfl. injection Hfl as -> -> ->. exists w0, wO, (PhOk a fl). auto.
  Qed.
End DelegatedEquiv.

(** ** delegated_equiv, step 4: the owner identity is a name. Exchange, in every owner reference of the member
    store, the identity of the ObjectSet with the identity of the phase object (kind and name, and uid): the run
    of the phase with the phase object as owner in the exchanged store IS the run with the ObjectSet as owner in
    the original store — the same requests on the same keys in the same order with the same outcomes and the
    same resulting objects, up to that exchange. The previous revisions and their remote phases must be other
    objects than the two ([prev_fresh]). Together with [delegated_equiv]: what the ObjectSetPhase controller does
    for a delegated phase is, up to the name of the owner, what the ObjectSet does for the same phase in-process. *)
Section DelegatedRenaming.
  Variable force : bool.
  Let cO : cfg := {| c_flavor := FObjectSet; c_force := force |}.

  Theorem delegated_equiv_renamed s ph p w prev :
    carries s ph p -> prev_fresh (os_id s) (op_id p) prev ->
    let sw := swap_ref (os_id s) (op_id p) in
    reconcile_phase cO (fun w => w) (fw sw w) (with_id (as_owner s) (op_id p)) prev false (ph_objects ph) =
    let '(w', evs, r) := reconcile_phase cO (fun w => w) w (as_owner s) prev false (ph_objects ph) in
    (fw sw w', map (fe sw) evs, fphres sw r).
  Proof.
    intros Hca Hp. cbv zeta.
    exact (reconcile_phase_swap (os_id s) (op_id p) (ca_ns _ _ _ Hca) cO w (as_owner s) prev false (ph_objects ph) eq_refl Hp).
  Qed.

  Theorem delegated_teardown_renamed s ph p w :
    carries s ph p ->
    let sw := swap_ref (os_id s) (op_id p) in
    teardown_phase cO (fun w => w) (fw sw w) (with_id (as_owner s) (op_id p)) (ph_objects ph) =
    let '(w', evs, r) := teardown_phase cO (fun w => w) w (as_owner s) (ph_objects ph) in (fw sw w', map (fe sw) evs, r).
  Proof.
    intros Hca. cbv zeta.
    exact (teardown_phase_swap (os_id s) (op_id p) (ca_ns _ _ _ Hca) cO w (as_owner s) (ph_objects ph) eq_refl).
  Qed.
End DelegatedRenaming.

(** * 9. Witnesses that the hypotheses of the theorems above are satisfiable *)
Definition ex_obj (n : N) : pobj :=
  {| po_gk := 1; po_ns := 0; po_name := n; po_body := 1; po_cp := CPPrevent; po_ownerrefs := false; po_dryreject := false |}.
Definition ex_phase1 : phase := {| ph_name := 1; ph_class := true; ph_objects := [ex_obj 1] |}.
Definition ex_phase2 : phase := {| ph_name := 2; ph_class := false; ph_objects := [ex_obj 2] |}.
Definition ex_set : oset :=
  {| os_id := {| oi_kind := KObjectSet; oi_ns := 1; oi_name := 10; oi_uid := 100 |}; os_rv := 5; os_gen := 1;
     os_deleting := false; os_fin := true; os_orphan := false; os_pkg := 0; os_life := LActive;
     os_phases := [ex_phase1; ex_phase2]; os_prev := []; os_revision := 1; os_conds := []; os_ctrlof := []; os_remotes := [] |}.
Definition ex_world0 : sworld :=
  {| sw_w := {| w_store := []; w_rv := 50; w_uid := 60 |}; sw_sets := [ex_set]; sw_phases := []; sw_nss := [(1, false)] |}.
Definition ex_set_pass (sw : sworld) := objectset_pass false sw KObjectSet 1 10.
Definition ex_phase_pass (sw : sworld) := objectsetphase_pass FSamePhase false 1 sw KObjectSetPhase 1 (join_name 10 1).
Definition ex_w (x : sworld * list sev * sres) : sworld := fst (fst x).
Definition ex_evs (x : sworld * list sev * sres) : list sev := snd (fst x).
(** the ObjectSet creates the phase object; the phase controller rolls the phase out and reports Available;
    the ObjectSet relays it and rolls out the local phase 2 *)
Definition ex_world1 : sworld := ex_w (ex_set_pass ex_world0).
Definition ex_world2 : sworld := ex_w (ex_phase_pass ex_world1).
Definition ex_world3 : sworld := ex_w (ex_set_pass ex_world2).
(** the ObjectSet is deleted: phase 2 is torn down, then the phase object is deleted, the phase controller tears
    phase 1 down and lets the phase object go, and the ObjectSet's finalizer is removed *)
Definition ex_mark_deleting (sw : sworld) : sworld :=
  {| sw_w := sw_w sw; sw_nss := sw_nss sw; sw_phases := sw_phases sw;
     sw_sets := map (fun s => {| os_id := os_id s; os_rv := os_rv s; os_gen := os_gen s; os_deleting := true; os_fin := os_fin s;
                                 os_orphan := os_orphan s; os_pkg := os_pkg s; os_life := os_life s; os_phases := os_phases s;
                                 os_prev := os_prev s; os_revision := os_revision s; os_conds := os_conds s;
                                 os_ctrlof := os_ctrlof s; os_remotes := os_remotes s |}) (sw_sets sw) |}.
Definition ex_world4 : sworld := ex_w (ex_set_pass (ex_mark_deleting ex_world3)).   (* deletes object 2 *)
Definition ex_world5 : sworld := ex_w (ex_set_pass ex_world4).                       (* deletes the phase object *)
Definition ex_world6 : sworld := ex_w (ex_phase_pass ex_world5).                     (* deletes object 1 *)
Definition ex_world7 : sworld := ex_w (ex_phase_pass ex_world6).                     (* removes its finalizer *)
Definition ex_world8 : sworld * list sev * sres := ex_set_pass ex_world7.            (* removes the ObjectSet's finalizer *)

(** The paused state is carried: whenever the remote phase reconciler gets past a phase object (any answer
    other than an error), that object's spec.paused equals the ObjectSet's paused state afterwards. *)
Theorem paused_carried_step sw s ph rem sw1 e1 rem1 active failed :
  remote_reconcile sw s ph rem = (sw1, e1, rem1, RROk active failed) ->
  exists cur, phase_obj_of sw1 s ph = Some cur /\ op_paused cur = lifecycle_eqb (os_life s) LPaused.
Proof.
  unfold remote_reconcile, phase_obj_of, pobj_name. cbn [desired_phase op_id oi_kind oi_ns oi_name op_paused].
  set (name := join_name (oi_name (os_id s)) (ph_name ph)).
  destruct (find_phase (sw_phases sw) (phase_kind s) (oi_ns (os_id s)) name) as [cur|] eqn:Ef; [|discriminate].
  destruct (find_phase_key _ _ _ _ _ Ef) as (Hk & Hns & Hn).
  destruct (negb (controlled_by_uid (op_owners cur) (oi_uid (os_id s)))); [discriminate|].
  destruct (Bool.eqb (op_paused cur) (lifecycle_eqb (os_life s) LPaused)) eqn:Ep.
  - intros H. injection H as <- _ _ _. exists cur. split; [exact Ef|]. now apply Bool.eqb_prop.
  - intros H. injection H as <- _ _ _. cbn [sw_phases with_phases].
    set (cur' := phase_with cur _ _ _ _ _ _). exists cur'. split; [|reflexivity].
    rewrite <- Hk, <- Hns, <- Hn. apply (find_put_phase_same (sw_phases sw) cur').
Qed.
