(** Laws of the chunkers (C14, first clause). *)
From Coq Require Import List NArith Bool Lia.
From PKO Require Import Chunk.
Import ListNotations.
Local Open Scope N_scope.

Section Proofs.
  Context {A : Type}.
  Variable size : A -> N.
  Variable limit : N.
  Hypothesis size_pos : forall x, 0 < size x.

  Notation total := (total size).
  Notation bp_step := (bp_step size limit).

  Lemma total_nil : total [] = 0. Proof. reflexivity. Qed.
  Lemma total_cons x xs : total (x :: xs) = size x + total xs. Proof. reflexivity. Qed.
  Lemma total_one x : total [x] = size x. Proof. cbn. lia. Qed.

  Lemma total_app xs ys : total (xs ++ ys) = total xs + total ys.
  Proof. induction xs as [|x xs IH]; cbn; [reflexivity|]. fold (total (xs ++ ys)). fold (total xs). rewrite IH. lia. Qed.

  Local Arguments Chunk.total : simpl never.

  Lemma total_pos xs : xs <> [] -> 0 < total xs.
  Proof. destruct xs as [|x xs]; [congruence|]. intros _. rewrite total_cons. pose proof (size_pos x). lia. Qed.

  Lemma total_zero xs : total xs = 0 -> xs = [].
  Proof. destruct xs as [|x xs]; [reflexivity|]. intros H. pose proof (total_pos (x :: xs)). assert (x :: xs <> []) by congruence. specialize (H0 H1). lia. Qed.

  (** each_object *)
  Lemma each_concat (xs : list A) : concat (each_object xs) = xs.
  Proof. induction xs as [|x xs IH]; cbn; [reflexivity|]. unfold each_object in IH. now rewrite IH. Qed.

  Lemma each_singletons (xs : list A) : Forall (fun c => length c = 1%nat) (each_object xs).
  Proof. unfold each_object. induction xs; cbn; constructor; auto. Qed.

  Lemma each_length (xs : list A) : length (each_object xs) = length xs.
  Proof. unfold each_object. apply map_length. Qed.

  (** binpack invariant *)
  Definition chunk_ok (c : list A) : Prop := c <> [] /\ (total c <= limit \/ length c = 1%nat).

  Record Inv (pre : list A) (s : bp_state) : Prop := {
    inv_concat : concat (bp_chunks s) ++ bp_cur s = pre;
    inv_chunks : Forall chunk_ok (bp_chunks s);
    inv_size : bp_size s = total (bp_cur s);
    inv_cur : total (bp_cur s) <= limit \/ (length (bp_cur s) <= 1)%nat;
    (* the first element of a chunk after the first could not be added to the chunk before it *)
    inv_nobypass : bp_chunks s = [] -> (length pre <= 1)%nat \/ total pre <= limit;
    inv_bypass : bp_chunks s <> [] -> limit < total pre /\ bp_cur s <> [];
  }.

  Lemma inv_init : Inv [] bp_init.
  Proof. constructor; cbn; auto; try lia. congruence. Qed.

  Lemma concat_snoc (l : list (list A)) c : concat (l ++ [c]) = concat l ++ c.
  Proof. rewrite concat_app. cbn. now rewrite app_nil_r. Qed.

  Lemma inv_step pre s x : Inv pre s -> Inv (pre ++ [x]) (bp_step s x).
  Proof.
    intros [Hc Hch Hs Hcur Hnb Hb]. unfold Chunk.bp_step.
    destruct (0 <? bp_size s) eqn:Epos; cbn [andb].
    - destruct (limit <? bp_size s + size x) eqn:Eov; cbn.
      + (* close the chunk *)
        apply N.ltb_lt in Epos, Eov.
        assert (Hne : bp_cur s <> []) by (intros E; rewrite E, total_nil in Hs; lia).
        constructor; cbn.
        * rewrite concat_snoc. now rewrite Hc.
        * apply Forall_app. split; [assumption|]. constructor; [|constructor].
          split; [assumption|]. destruct Hcur as [H|H]; [left; assumption|right].
          destruct (bp_cur s) as [|a [|b l]]; cbn in *; try congruence; lia.
        * rewrite total_one. lia.
        * right. lia.
        * intros E. destruct (bp_chunks s); discriminate.
        * intros _. split; [|congruence].
          rewrite <- Hc, !total_app, total_one. rewrite Hs in Eov. lia.
      + apply N.ltb_lt in Epos. apply N.ltb_ge in Eov.
        constructor; cbn.
        * rewrite app_assoc. now rewrite Hc.
        * assumption.
        * rewrite total_app, total_one. lia.
        * left. rewrite total_app, total_one. lia.
        * intros E. right. specialize (Hnb E). rewrite E in Hc. cbn in Hc. subst pre.
          rewrite total_app, total_one. lia.
        * intros Hne. destruct (Hb Hne) as [H1 H2]. split; [rewrite total_app, total_one; lia|].
          destruct (bp_cur s); cbn; congruence.
    - (* open chunk has size 0, hence is empty *)
      apply N.ltb_ge in Epos. assert (Hz : total (bp_cur s) = 0) by lia.
      apply total_zero in Hz.
      constructor; cbn.
      + rewrite app_assoc. now rewrite Hc.
      + assumption.
      + rewrite total_app, total_one. lia.
      + right. rewrite Hz. cbn. lia.
      + intros E. left. rewrite E in Hc. cbn in Hc. subst pre. rewrite Hz. cbn. lia.
      + intros Hne. destruct (Hb Hne) as [_ H2]. contradiction.
  Qed.

  Lemma inv_loop_gen xs : forall pre s, Inv pre s -> Inv (pre ++ xs) (fold_left bp_step xs s).
  Proof.
    induction xs as [|x xs IH]; intros pre s H; cbn.
    - now rewrite app_nil_r.
    - replace (pre ++ x :: xs) with ((pre ++ [x]) ++ xs) by now rewrite <- app_assoc.
      apply IH. now apply inv_step.
  Qed.

  Lemma inv_loop xs : Inv xs (bp_loop size limit xs).
  Proof. apply (inv_loop_gen xs [] bp_init inv_init). Qed.

  (** Main laws of BinpackNextFitChunker *)
  Theorem binpack_some_laws xs cs :
    binpack size limit xs = Some cs ->
    concat cs = xs /\ Forall chunk_ok cs /\ (2 <= length cs)%nat /\ limit < total xs.
  Proof.
    unfold binpack. pose proof (inv_loop xs) as [Hc Hch Hs Hcur Hnb Hb].
    destruct (bp_chunks (bp_loop size limit xs)) as [|c0 cr] eqn:E; [discriminate|].
    intros H. injection H as <-.
    assert (Hne : c0 :: cr <> []) by congruence. destruct (Hb Hne) as [Hlim Hcne].
    destruct (bp_cur (bp_loop size limit xs)) as [|a l] eqn:Ecur; [contradiction|].
    repeat split.
    - change (c0 :: cr ++ [a :: l]) with ((c0 :: cr) ++ [a :: l]). rewrite concat_snoc. exact Hc.
    - change (c0 :: cr ++ [a :: l]) with ((c0 :: cr) ++ [a :: l]). apply Forall_app. split; [assumption|]. constructor; [|constructor].
      split; [congruence|]. destruct Hcur as [H|H]; [left; assumption|right].
      destruct l; cbn in *; lia.
    - cbn. rewrite app_length. cbn. lia.
    - assumption.
  Qed.

  Theorem binpack_none_iff xs :
    binpack size limit xs = None <-> ((length xs <= 1)%nat \/ total xs <= limit).
  Proof.
    unfold binpack. pose proof (inv_loop xs) as [Hc Hch Hs Hcur Hnb Hb].
    destruct (bp_chunks (bp_loop size limit xs)) as [|c0 cr] eqn:E.
    - split; [intros _; now apply Hnb|reflexivity].
    - split; [discriminate|]. intros H. exfalso.
      assert (Hne : c0 :: cr <> []) by congruence. destruct (Hb Hne) as [Hlim Hcne].
      destruct H as [H|H]; [|lia].
      (* one element cannot have produced a closed chunk and a non-empty open one *)
      assert (Hl : (length (concat (c0 :: cr) ++ bp_cur (bp_loop size limit xs)) <= 1)%nat) by now rewrite Hc.
      rewrite app_length in Hl. cbn in Hl. rewrite app_length in Hl.
      inversion Hch as [|? ? [Hc0 _] _]; subst.
      destruct c0; [congruence|]. destruct (bp_cur (bp_loop size limit xs)); [congruence|]. cbn in Hl. lia.
  Qed.
End Proofs.
