(** The (Cluster)ObjectDeployment controller (internal/controllers/objectdeployments): one Reconcile pass of
    GenericObjectDeploymentController over a world = the ObjectDeployment + its ObjectSets (+ the member
    objects, which this controller never touches), and the steps of whole-system histories.
    Executable definitions only. Anchors: objectdeployment_controller.go, hash_reconciler.go,
    objectset_reconciler.go, new_revision_reconciler.go, archive_reconciler.go, adapter_objectset.go,
    internal/adapters/objectset.go. *)
From Coq Require Import List NArith ZArith Bool.
From PKO Require Import Util Base Owner Api Phase ObjectSet.
Import ListNotations.
Local Open Scope N_scope.

Definition KObjectDeployment : N := 5.
Definition KClusterObjectDeployment : N := 6.

(** ** Conditions of the ObjectDeployment (mapped conditions, i.e. types containing "/", are not modelled) *)
Inductive dctype := DAvailable | DProgressing | DPaused.
Inductive dreason := DRAvailable | DRObjectSetUnready | DRIdle | DRPendingSuccess | DRProgressing | DRPaused | DROther.
Record dcond := { dc_type : dctype; dc_status : cstatus; dc_reason : dreason; dc_gen : Z }.

Definition dctype_eqb (a b : dctype) : bool :=
  match a, b with DAvailable, DAvailable | DProgressing, DProgressing | DPaused, DPaused => true | _, _ => false end.
Definition dreason_eqb (a b : dreason) : bool :=
  match a, b with
  | DRAvailable, DRAvailable | DRObjectSetUnready, DRObjectSetUnready | DRIdle, DRIdle
  | DRPendingSuccess, DRPendingSuccess | DRProgressing, DRProgressing | DRPaused, DRPaused | DROther, DROther => true
  | _, _ => false
  end.
Definition dcond_eqb (a b : dcond) : bool :=
  dctype_eqb (dc_type a) (dc_type b) && cstatus_eqb (dc_status a) (dc_status b) &&
  dreason_eqb (dc_reason a) (dc_reason b) && Z.eqb (dc_gen a) (dc_gen b).

(** meta.SetStatusCondition / RemoveStatusCondition *)
Fixpoint dset_cond (cs : list dcond) (c : dcond) : list dcond :=
  match cs with
  | [] => [c]
  | x :: cs' => if dctype_eqb (dc_type x) (dc_type c) then c :: cs' else x :: dset_cond cs' c
  end.
Definition dremove_cond (cs : list dcond) (t : dctype) : list dcond :=
  filter (fun x => negb (dctype_eqb (dc_type x) t)) cs.

(** ** The ObjectDeployment *)
Record depl := {
  d_id : oid;                (* kind KObjectDeployment / KClusterObjectDeployment, namespace, name, uid *)
  d_rv : N; d_gen : Z;
  d_paused : bool;           (* spec.paused *)
  d_digest : N;              (* identity of spec.template (metadata.labels + spec) as fed to the hash *)
  d_phases : list phase;     (* spec.template.spec.phases *)
  d_limit : option Z;        (* spec.revisionHistoryLimit (pointer to int32) *)
  (* status *)
  d_hash : N;                (* status.templateHash; 0 = empty *)
  d_cc : option N;           (* status.collisionCount (pointer to int32) *)
  d_conds : list dcond;
  d_revision : Z;
  d_ctrlof : list N          (* status.controllerOf: names of ObjectSets *)
}.

(** An ObjectSet as the deployment controller sees it: the ObjectSet of ObjectSet.v plus the metadata
    this controller reads and writes. *)
Record dset := {
  ds_set : oset;
  ds_hash : option N;        (* package-operator.run/hash annotation *)
  ds_pbp : bool;             (* package-operator.run/paused-by-parent: "true" *)
  ds_sel : bool;             (* labels matched by the deployment's selector (and same namespace) *)
  ds_ctrl : N;               (* uid of the controller ownerReference; 0 = none *)
  ds_ctrlset : bool          (* status.controllerOf present (non-nil) although empty: only a third party writes that *)
}.

Definition sname (s : dset) : N := oi_name (os_id (ds_set s)).
Definition srev (s : dset) : Z := os_revision (ds_set s).
Definition slife (s : dset) : lifecycle := os_life (ds_set s).
Definition sconds (s : dset) : list cond := os_conds (ds_set s).
Definition is_archived (s : dset) : bool := lifecycle_eqb (slife s) LArchived.        (* adapters/objectset.go:131 *)
Definition is_spec_paused (s : dset) : bool := lifecycle_eqb (slife s) LPaused.       (* :146 *)
Definition is_status_paused (s : dset) : bool := cond_true (sconds s) CPaused.        (* :139 *)
Definition is_available (s : dset) : bool := cond_true (sconds s) CAvailable.         (* :154 *)
Definition paused_by_parent (s : dset) : bool := is_spec_paused s && ds_pbp s.        (* :161 *)

(** The world: deployment, ObjectSets, member objects + API counters, and the ghost [dw_fresh]: the name of
    the ObjectSet created by the latest deployment pass, which a stale List may still be missing. *)
Record dworld := { dw_dep : depl; dw_sets : list dset; dw_w : world; dw_fresh : option N }.

(** ** Sorting: sort.Sort is an insertion sort for at most 12 elements, hence stable. *)
Section Sort.
  Context {A : Type} (lt : A -> A -> bool).
  Fixpoint ins_sorted (x : A) (l : list A) : list A :=
    match l with
    | [] => [x]
    | y :: r => if lt y x then y :: ins_sorted x r else x :: y :: r
    end.
  Fixpoint isort (l : list A) : list A :=
    match l with [] => [] | x :: r => ins_sorted x (isort r) end.
End Sort.

Definition name_lt (a b : dset) : bool := sname a <? sname b.
Definition rev_lt (a b : dset) : bool := (srev a <? srev b)%Z.

Definition find_dset (sets : list dset) (n : N) : option dset := find (fun s => sname s =? n) sets.
Fixpoint put_dset (sets : list dset) (s : dset) : list dset :=
  match sets with
  | [] => [s]
  | x :: r => if sname x =? sname s then s :: r else x :: put_dset r s
  end.
Definition del_dset (sets : list dset) (n : N) : list dset := filter (fun x => negb (sname x =? n)) sets.

Definition pobj_eqb (a b : pobj) : bool :=
  (po_gk a =? po_gk b) && (po_ns a =? po_ns b) && (po_name a =? po_name b) && (po_body a =? po_body b) &&
  match po_cp a, po_cp b with CPPrevent, CPPrevent | CPIfNoController, CPIfNoController | CPNone, CPNone => true | _, _ => false end &&
  Bool.eqb (po_ownerrefs a) (po_ownerrefs b) && Bool.eqb (po_dryreject a) (po_dryreject b).
Definition tphase_eqb (a b : phase) : bool :=
  (ph_name a =? ph_name b) && Bool.eqb (ph_class a) (ph_class b) && list_eqb pobj_eqb (ph_objects a) (ph_objects b).
(** equality.Semantic.DeepEqual on the template specs (probes are the same in every scenario) *)
Definition phases_eqb (a b : list phase) : bool := list_eqb tphase_eqb a b.

(** objectdeployment_controller.go:150-176 listObjectSetsByRevision: List by selector and namespace (the
    recording server lists in key order), then sort.Sort by revision. A stale List misses [dw_fresh]. *)
Definition hidden (stale : bool) (w : dworld) (s : dset) : bool :=
  stale && match dw_fresh w with Some n => sname s =? n | None => false end.
Definition listed (stale : bool) (w : dworld) : list dset :=
  isort rev_lt (isort name_lt (filter (fun s => ds_sel s && negb (hidden stale w s)) (dw_sets w))).

(** ** Requests *)
Inductive wres := WOk | WErr | WLost | WConflict | WNotFound.   (* done | injected fault before effect | effect, response lost | API errors *)
Inductive cres := CrOk | CrExists | CrErr | CrLost.
Inductive delres := DlOk | DlNotFound | DlErr | DlLost.

Inductive dev :=
| DCreate (name : N) (phs : list phase) (prev : list N) (hash : N) (r : cres)    (* Create of an ObjectSet *)
| DUpdate (name : N) (life : lifecycle) (pbp : bool) (r : wres)                  (* Update: lifecycleState + annotation *)
| DDelete (name : N) (r : delres)
| DStatus (hash : N) (cc : option N) (conds : list dcond) (rev : Z) (ctrlof : list N) (r : wres).

Inductive dpres := DpDone | DpError.

(** The state of a pass in flight. Once [p_dead] (a request failed) every later request is skipped and the
    pass ends with an error: every request error of this controller aborts Reconcile. *)
Record pst := { p_w : dworld; p_evs : list dev; p_n : nat; p_dead : bool }.

Definition with_sets (w : dworld) (sets : list dset) (ww : world) : dworld :=
  {| dw_dep := dw_dep w; dw_sets := sets; dw_w := ww; dw_fresh := dw_fresh w |}.
Definition with_fresh (w : dworld) (f : option N) : dworld :=
  {| dw_dep := dw_dep w; dw_sets := dw_sets w; dw_w := dw_w w; dw_fresh := f |}.
Definition with_dep (w : dworld) (d : depl) (ww : world) : dworld :=
  {| dw_dep := d; dw_sets := dw_sets w; dw_w := ww; dw_fresh := dw_fresh w |}.
Definition next_uid (w : world) : world := {| w_store := w_store w; w_rv := w_rv w; w_uid := w_uid w + 1 |}.

(** The ObjectSet after an Update that sets lifecycleState and the paused-by-parent annotation: new
    resourceVersion, generation bumped iff the spec changed. *)
Definition set_life (s : dset) (life : lifecycle) (pbp : bool) (rv : N) : dset :=
  let o := ds_set s in
  {| ds_set := {| os_id := os_id o; os_rv := rv;
                  os_gen := if lifecycle_eqb (os_life o) life then os_gen o else (os_gen o + 1)%Z;
                  os_deleting := os_deleting o; os_fin := os_fin o; os_orphan := os_orphan o; os_pkg := os_pkg o;
                  os_life := life; os_phases := os_phases o; os_prev := os_prev o; os_revision := os_revision o;
                  os_conds := os_conds o; os_ctrlof := os_ctrlof o; os_remotes := os_remotes o |};
     ds_hash := ds_hash s; ds_pbp := pbp; ds_sel := ds_sel s; ds_ctrl := ds_ctrl s; ds_ctrlset := ds_ctrlset s |}.

Definition set_deleting (s : dset) (rv : N) : dset :=
  let o := ds_set s in
  {| ds_set := {| os_id := os_id o; os_rv := rv; os_gen := os_gen o;
                  os_deleting := true; os_fin := os_fin o; os_orphan := os_orphan o; os_pkg := os_pkg o;
                  os_life := os_life o; os_phases := os_phases o; os_prev := os_prev o; os_revision := os_revision o;
                  os_conds := os_conds o; os_ctrlof := os_ctrlof o; os_remotes := os_remotes o |};
     ds_hash := ds_hash s; ds_pbp := ds_pbp s; ds_sel := ds_sel s; ds_ctrl := ds_ctrl s; ds_ctrlset := ds_ctrlset s |}.

Definition status_eqb_d (a b : depl) : bool :=
  (d_hash a =? d_hash b) && option_eqb N.eqb (d_cc a) (d_cc b) && list_eqb dcond_eqb (d_conds a) (d_conds b) &&
  Z.eqb (d_revision a) (d_revision b) && list_eqb N.eqb (d_ctrlof a) (d_ctrlof b).

Definition with_status_d (stored mem : depl) (rv : N) : depl :=
  {| d_id := d_id stored; d_rv := rv; d_gen := d_gen stored; d_paused := d_paused stored; d_digest := d_digest stored;
     d_phases := d_phases stored; d_limit := d_limit stored;
     d_hash := d_hash mem; d_cc := d_cc mem; d_conds := d_conds mem; d_revision := d_revision mem; d_ctrlof := d_ctrlof mem |}.

Definition set_hash (d : depl) (h : N) : depl :=
  {| d_id := d_id d; d_rv := d_rv d; d_gen := d_gen d; d_paused := d_paused d; d_digest := d_digest d; d_phases := d_phases d;
     d_limit := d_limit d; d_hash := h; d_cc := d_cc d; d_conds := d_conds d; d_revision := d_revision d; d_ctrlof := d_ctrlof d |}.
Definition set_cc (d : depl) (c : option N) : depl :=
  {| d_id := d_id d; d_rv := d_rv d; d_gen := d_gen d; d_paused := d_paused d; d_digest := d_digest d; d_phases := d_phases d;
     d_limit := d_limit d; d_hash := d_hash d; d_cc := c; d_conds := d_conds d; d_revision := d_revision d; d_ctrlof := d_ctrlof d |}.
Definition set_dconds (d : depl) (cs : list dcond) : depl :=
  {| d_id := d_id d; d_rv := d_rv d; d_gen := d_gen d; d_paused := d_paused d; d_digest := d_digest d; d_phases := d_phases d;
     d_limit := d_limit d; d_hash := d_hash d; d_cc := d_cc d; d_conds := cs; d_revision := d_revision d; d_ctrlof := d_ctrlof d |}.
Definition set_drevision (d : depl) (r : Z) : depl :=
  {| d_id := d_id d; d_rv := d_rv d; d_gen := d_gen d; d_paused := d_paused d; d_digest := d_digest d; d_phases := d_phases d;
     d_limit := d_limit d; d_hash := d_hash d; d_cc := d_cc d; d_conds := d_conds d; d_revision := r; d_ctrlof := d_ctrlof d |}.
Definition set_dctrlof (d : depl) (l : list N) : depl :=
  {| d_id := d_id d; d_rv := d_rv d; d_gen := d_gen d; d_paused := d_paused d; d_digest := d_digest d; d_phases := d_phases d;
     d_limit := d_limit d; d_hash := d_hash d; d_cc := d_cc d; d_conds := d_conds d; d_revision := d_revision d; d_ctrlof := l |}.

(** SetStatusConditions (adapters/objectdeployment.go:103-109): observedGeneration := the deployment's generation *)
Definition mk_dcond (d : depl) (t : dctype) (st : cstatus) (r : dreason) : dcond :=
  {| dc_type := t; dc_status := st; dc_reason := r; dc_gen := d_gen d |}.
Definition add_dcond (d : depl) (t : dctype) (st : cstatus) (r : dreason) : depl :=
  set_dconds d (dset_cond (d_conds d) (mk_dcond d t st r)).

(** int32-pointer collision counter: nil -> 1, n -> n+1 (new_revision_reconciler.go:79-88) *)
Definition bump_cc (c : option N) : option N := match c with None => Some 1 | Some n => Some (n + 1) end.

(** adapter_objectset.go:35-58 getActivelyReconciledObjects: None = "not reported yet" *)
Definition active_objects (s : dset) : option (list okey) :=
  if is_archived s then Some [] else
  if is_nil (os_ctrlof (ds_set s)) && negb (ds_ctrlset s) then None else Some (os_ctrlof (ds_set s)).

(** ObjectSlices. A phase lists inline objects and names of ObjectSlices (ObjectSetTemplatePhase.Slices). The
    slice names of a phase are encoded as trailing entries of the pseudo kind [KSliceRef] in [ph_objects]
    (po_name = name of the slice), so that specs are compared and copied with their slice references. *)
Definition KSliceRef : N := 9.
Definition is_ref (p : pobj) : bool := po_gk p =? KSliceRef.
Definition slice_refs (s : dset) : list N := map po_name (filter is_ref (all_objects (ds_set s))).

(** adapter_objectset.go:60-79 getObjects: the objects inlined in the phases, namespace defaulted to the
    ObjectSet's; objects in ObjectSlices are not looked at (second half of F-C14). *)
Definition set_objects (s : dset) : list okey :=
  map (spec_key (ds_set s)) (filter (fun p => negb (is_ref p)) (all_objects (ds_set s))).

(** What the revision really contains: the inline objects and the objects of the referenced slices
    ([slices]: the ObjectSlices of the deployment's namespace by name). *)
Definition full_objects (slices : N -> option (list pobj)) (s : dset) : list okey :=
  set_objects s ++
  flat_map (fun n => match slices n with Some objs => map (spec_key (ds_set s)) objs | None => [] end) (slice_refs s).

(** archive_reconciler.go:211-223 intersection *)
Definition inter_keys (a b : list okey) : list okey := filter (fun x => existsb (okey_eqb x) a) b.

(** findAvailableRevision / conditionFromPreviousObjectSets (objectset_reconciler.go:242-279) *)
Definition avail_current_gen (s : dset) : bool :=
  match find_cond (sconds s) CAvailable with
  | Some c => cstatus_eqb (cd_status c) STrue && Z.eqb (cd_gen c) (os_gen (ds_set s))
  | None => false
  end.
Definition cond_from_prev (d : depl) (prev : list dset) : depl :=
  if existsb avail_current_gen prev then add_dcond d DAvailable STrue DRAvailable
  else add_dcond d DAvailable SFalse DRObjectSetUnready.

(** setObjectDeploymentStatus (objectset_reconciler.go:133-230) *)
Definition set_status (d : depl) (cur : option dset) (prev : list dset) : depl :=
  match cur with
  | None =>
      let d1 := cond_from_prev (add_dcond d DProgressing STrue DRProgressing) prev in      (* :139-147 *)
      match prev with
      | p0 :: _ => set_drevision d1 (srev p0)                                            (* :148-150: prevObjectSets[0] *)
      | [] => d1
      end
  | Some c =>
      let d1 := set_drevision d (srev c) in                                              (* :154 *)
      if negb (cond_true (sconds c) CSucceeded) then                                      (* :165-191 *)
        let d2 := match find_cond (sconds c) CAvailable with
                  | Some ac => if cstatus_eqb (cd_status ac) SFalse then cond_from_prev d1 prev else d1
                  | None => d1
                  end in
        add_dcond d2 DProgressing STrue DRPendingSuccess
      else
        let d2 := add_dcond d1 DProgressing SFalse DRIdle in                              (* :194-201 *)
        if negb (is_available c) then cond_from_prev d2 prev                              (* :203-209 *)
        else
          let d3 := add_dcond d2 DAvailable STrue DRAvailable in                          (* :212-219 *)
          let d4 := set_dctrlof d3 (map sname prev ++ [sname c]) in                       (* :221-227 *)
          if cond_true (sconds c) CPaused then add_dcond d4 DPaused STrue DRPaused        (* :281-298 updatePausedStatus *)
          else set_dconds d4 (dremove_cond (d_conds d4) DPaused)
  end.

Section Pass.
  (** FNV-32a of the spew of spec.template and the collision count (internal/utils/hash.go:18-31), safe-encoded:
      any function will do. ObjectSet names and hash annotations are abstracted to the same numbers. *)
  Variable hash : N -> option N -> N.
  (** An API fault injected at the n-th request (0-based, reads included) of a pass; true = response lost. *)
  Variable fault : option (nat * bool).
  (** The ObjectSlices of the deployment's namespace (never written by this controller), and the shape of the
      archive reconciler's ObjectSet getter: true = the code as it is (since f07b836: reads the referenced ObjectSlices,
      one Get each; a missing slice is an error), false = the code before that commit (inline objects only). *)
  Variable slices : N -> option (list pobj).
  Variable sliceaware : bool.
  (** The shape of the "slow cache" test of the new-revision reconciler: true = the code as it is (since 0384cff: a
      holder that has not reported its revision yet is the ObjectSet this deployment has just created), false = the
      code before that commit (the holder's revision must be at least the latest listed one). *)
  Variable rev0ok : bool.

  Inductive fk := FGo | FErr | FLost.
  Definition fault_now (st : pst) : fk :=
    match fault with
    | Some (n, lost) => if Nat.eqb n (p_n st) then (if lost then FLost else FErr) else FGo
    | None => FGo
    end.

  Definition emit (st : pst) (w : dworld) (e : list dev) (dead : bool) : pst :=
    {| p_w := w; p_evs := p_evs st ++ e; p_n := S (p_n st); p_dead := dead |}.

  (** Get / List: a fault of either kind fails the read. *)
  Definition read_req (st : pst) : pst :=
    if p_dead st then st else
    match fault_now st with FGo => emit st (p_w st) [] false | _ => emit st (p_w st) [] true end.

  (** Get of an object that may be missing: NotFound is an error of the pass. *)
  Definition get_req (st : pst) (found : bool) : pst :=
    if p_dead st then st else
    match fault_now st with FGo => emit st (p_w st) [] (negb found) | _ => emit st (p_w st) [] true end.

  (** client.Update of an ObjectSet read in this pass; the response refreshes the in-memory object. Delete does
      not: an ObjectSet whose deletion this pass requested is stale in memory (Conflict) or gone (NotFound).
      With a current resourceVersion the in-memory object is the stored one (nobody else writes during the
      pass), so the update is applied to the stored object. *)
  Definition upd_req (st : pst) (s : dset) (life : lifecycle) (pbp : bool) : pst * dset :=
    if p_dead st then (st, s) else
    match fault_now st with
    | FErr => (emit st (p_w st) [DUpdate (sname s) life pbp WErr] true, s)
    | f =>
        let w := p_w st in
        match find_dset (dw_sets w) (sname s) with
        | None => (emit st w [DUpdate (sname s) life pbp WNotFound] true, s)
        | Some cur =>
            if negb (os_rv (ds_set cur) =? os_rv (ds_set s)) then (emit st w [DUpdate (sname s) life pbp WConflict] true, s) else
            let s' := set_life cur life pbp (w_rv (dw_w w)) in
            let lost := match f with FLost => true | _ => false end in
            (emit st (with_sets w (put_dset (dw_sets w) s') (bump_rv (dw_w w)))
                  [DUpdate (sname s) life pbp (if lost then WLost else WOk)] lost, s')
        end
    end.

  (** client.Create: AlreadyExists is decided by the API server on the name alone (any ObjectSet, listed or not). *)
  Definition create_req (st : pst) (s : dset) : pst * cres :=
    let ev r := DCreate (sname s) (os_phases (ds_set s)) (os_prev (ds_set s)) (match ds_hash s with Some h => h | None => 0 end) r in
    if p_dead st then (st, CrErr) else
    match fault_now st with
    | FErr => (emit st (p_w st) [ev CrErr] true, CrErr)
    | f =>
        let w := p_w st in
        match find_dset (dw_sets w) (sname s) with
        | Some _ => (emit st w [ev CrExists] false, CrExists)
        | None =>
            let o := ds_set s in
            let id := os_id o in
            let o' := {| os_id := {| oi_kind := oi_kind id; oi_ns := oi_ns id; oi_name := oi_name id; oi_uid := w_uid (dw_w w) |};
                         os_rv := w_rv (dw_w w); os_gen := 1; os_deleting := false; os_fin := false; os_orphan := false;
                         os_pkg := os_pkg o; os_life := os_life o; os_phases := os_phases o; os_prev := os_prev o;
                         os_revision := 0; os_conds := []; os_ctrlof := []; os_remotes := [] |} in
            let s' := {| ds_set := o'; ds_hash := ds_hash s; ds_pbp := ds_pbp s; ds_sel := ds_sel s; ds_ctrl := ds_ctrl s;
                         ds_ctrlset := false |} in
            let lost := match f with FLost => true | _ => false end in
            (emit st (with_fresh (with_sets w (dw_sets w ++ [s']) (next_uid (bump_rv (dw_w w)))) (Some (sname s)))
                  [ev (if lost then CrLost else CrOk)] lost, if lost then CrLost else CrOk)
        end
    end.

  (** client.Delete without preconditions; finalizers delay the deletion (deletionTimestamp is set once). *)
  Definition del_req (st : pst) (n : N) : pst :=
    if p_dead st then st else
    match fault_now st with
    | FErr => emit st (p_w st) [DDelete n DlErr] true
    | f =>
        let w := p_w st in
        match find_dset (dw_sets w) n with
        | None => emit st w [DDelete n DlNotFound] false           (* errors.IsNotFound is ignored: archive_reconciler.go:241 *)
        | Some s =>
            let lost := match f with FLost => true | _ => false end in
            let w' :=
              if os_fin (ds_set s) || os_orphan (ds_set s) then
                if os_deleting (ds_set s) then w
                else with_sets w (put_dset (dw_sets w) (set_deleting s (w_rv (dw_w w)))) (bump_rv (dw_w w))
              else with_sets w (del_dset (dw_sets w) n) (dw_w w) in
            emit st w' [DDelete n (if lost then DlLost else DlOk)] lost
        end
    end.

  (** Status().Update of the deployment (objectdeployment_controller.go:137); an unchanged status is a no-op. *)
  Definition status_req (st : pst) (d : depl) : pst :=
    let ev r := DStatus (d_hash d) (d_cc d) (d_conds d) (d_revision d) (d_ctrlof d) r in
    if p_dead st then st else
    match fault_now st with
    | FErr => emit st (p_w st) [ev WErr] true
    | f =>
        let w := p_w st in
        let lost := match f with FLost => true | _ => false end in
        let w' := if status_eqb_d (dw_dep w) d then w
                  else with_dep w (with_status_d (dw_dep w) d (w_rv (dw_w w))) (bump_rv (dw_w w)) in
        emit st w' [ev (if lost then WLost else WOk)] lost
    end.

  (** *** objectset_reconciler.go:72-93: pause propagation over the non-archived ObjectSets *)
  Fixpoint pause_loop (st : pst) (paused : bool) (sets : list dset) : pst * list dset :=
    match sets with
    | [] => (st, [])
    | s :: r =>
        let '(st1, s1) :=
          if is_archived s then (st, s) else
          if Bool.eqb paused (paused_by_parent s) then (st, s) else
          if paused then upd_req st s LPaused true           (* SetPausedByParent: annotation + lifecycleState Paused *)
          else upd_req st s LActive false in                 (* SetActiveByParent: annotation removed, Active *)
        let '(st2, r2) := pause_loop st1 paused r in
        (st2, s1 :: r2)
    end.

  (** *** new_revision_reconciler.go *)
  Definition latest_revision (prev : list dset) : Z :=          (* :128-133 *)
    match rev prev with [] => 0%Z | x :: _ => srev x end.

  (** newObjectSetFromDeployment (:95-126): name = <deployment>-<templateHash>, labels from the template (matched
      by the selector), the deployment's (no) annotations + hash annotation, controller reference. *)
  Definition new_set (d : depl) (prev : list dset) : dset :=
    {| ds_set := {| os_id := {| oi_kind := if oi_kind (d_id d) =? KClusterObjectDeployment then KClusterObjectSet else KObjectSet;
                               oi_ns := oi_ns (d_id d); oi_name := d_hash d; oi_uid := 0 |};
                    os_rv := 0; os_gen := 0; os_deleting := false; os_fin := false; os_orphan := false; os_pkg := 0;
                    os_life := LActive; os_phases := d_phases d; os_prev := map sname prev; os_revision := 0;
                    os_conds := []; os_ctrlof := []; os_remotes := [] |};
       ds_hash := Some (d_hash d); ds_pbp := false; ds_sel := true; ds_ctrl := oi_uid (d_id d); ds_ctrlset := false |}.

  (** The "slow cache" test (:66-77) *)
  Definition adoptable_sh (d : depl) (prev : list dset) (c : dset) : bool :=
    negb (is_archived c) && ((rev0ok && Z.eqb (srev c) 0) || (latest_revision prev <=? srev c)%Z) &&
    negb (ds_ctrl c =? 0) && (ds_ctrl c =? oi_uid (d_id d)) &&
    phases_eqb (d_phases d) (os_phases (ds_set c)).

  Definition new_revision_sh (st : pst) (d : depl) (cur : option dset) (prev : list dset) : pst * depl :=
    match cur with
    | Some _ => (st, d)                                                         (* :30-33 *)
    | None =>
        if is_nil (d_phases d) then (st, d) else                                (* :36-40 *)
        let '(st1, r) := create_req st (new_set d prev) in                      (* :42-50 *)
        match r with
        | CrExists =>                                                           (* :52 *)
            let st2 := read_req st1 in                                          (* :56-62 Get of the conflicting ObjectSet *)
            match find_dset (dw_sets (p_w st2)) (d_hash d) with
            | None => (st2, d)                                                  (* cannot happen within a pass *)
            | Some c => if adoptable_sh d prev c then (st2, d)                     (* :66-77 "Slow cache, no collision" *)
                        else (st2, set_cc d (bump_cc (d_cc d)))                 (* :79-88 *)
            end
        | _ => (st1, d)
        end
    end.

  (** *** archive_reconciler.go. [mem] is the list of in-memory ObjectSets of the pass (ascending revision);
      the objects are shared between the slices of the Go code, so requests refresh them in [mem] by name. *)
  Definition ensure_paused (st : pst) (mem : list dset) (s : dset) : pst * list dset * bool :=   (* :192-209 *)
    if is_status_paused s then (st, mem, true) else
    if is_spec_paused s then (st, mem, false) else
    let '(st1, s1) := upd_req st s LPaused (ds_pbp s) in           (* SetPaused: the annotation is left as it is *)
    (st1, put_dset mem s1, false).

  (** archiveAllLaterRevisions (:126-151); [later] ascending. *)
  Fixpoint archive_all_later (st : pst) (mem : list dset) (cur : dset) (later : list dset) : pst * list dset * list N :=
    match later with
    | [] => (st, mem, [])
    | p :: r =>
        if is_archived p then archive_all_later st mem cur r else
        if (srev p <? srev cur)%Z then
          let '(st1, mem1, b) := ensure_paused st mem p in
          let '(st2, mem2, l) := archive_all_later st1 mem1 cur r in
          (st2, mem2, if b then sname p :: l else l)
        else archive_all_later st mem cur r
    end.

  (** The repaired getObjects: one Get per referenced ObjectSlice. *)
  Definition load_slices_req (st : pst) (s : dset) : pst :=
    fold_left (fun st n => get_req st (match slices n with Some _ => true | None => false end)) (slice_refs s) st.
  Definition seen_objects_sh (s : dset) : list okey := if sliceaware then full_objects slices s else set_objects s.

  (** intermediateRevisionCanBeArchived (:153-190) *)
  Definition intermediate_sh (st : pst) (mem : list dset) (prev cur : dset) : pst * list dset * bool :=
    let st0 := if sliceaware then load_slices_req st cur else st in      (* :156 getObjects *)
    let latest_objs := seen_objects_sh cur in
    match active_objects prev with
    | None => (st0, mem, false)                                                      (* :162-166 *)
    | Some act =>
        if is_nil (inter_keys latest_objs act) && negb (is_available prev)           (* :179-180 *)
        then ensure_paused st0 mem prev
        else (st0, mem, false)
    end.

  (** objectSetsToBeArchived (:72-124): the loop runs from the newest revision downwards; [rl] is the list of
      ObjectSets in descending order. *)
  Fixpoint to_archive_sh (st : pst) (mem : list dset) (rl : list dset) : pst * list dset * list N :=
    match rl with
    | [] => (st, mem, [])
    | cur :: rest =>
        if is_available cur then archive_all_later st mem cur (rev rest)             (* :85-91 case 1 *)
        else
          match rest with
          | [] => (st, mem, [])
          | prev :: _ =>
              if is_archived prev then to_archive_sh st mem rest else                   (* :97-100 *)
              if (srev cur <=? srev prev)%Z then to_archive_sh st mem rest else         (* :102-107 *)
              let '(st1, mem1, b) := intermediate_sh st mem prev cur in                 (* :110-120 *)
              let '(st2, mem2, l) := to_archive_sh st1 mem1 rest in
              (st2, mem2, if b then sname prev :: l else l)
          end
    end.

  (** garbageCollectRevisions (:225-248) *)
  Definition gc_count (d : depl) (nprev : nat) : nat :=
    Z.to_nat (Z.of_nat nprev - match d_limit d with Some l => l | None => 10 end).
  Definition gc (st : pst) (d : depl) (prevnames : list N) : pst :=
    fold_left del_req (firstn (gc_count d (length prevnames)) prevnames) st.

  (** markObjectSetsForArchival (:44-70): candidates ascending by revision; SetArchived + Update, then a
      garbage collection round after every candidate. *)
  Fixpoint mark (st : pst) (mem : list dset) (d : depl) (prevnames : list N) (cands : list dset) : pst * list dset :=
    match cands with
    | [] => (st, mem)
    | c :: r =>
        let '(st1, mem1) :=
          if negb (is_archived c) && is_status_paused c then
            let '(st', c') := upd_req st c LArchived (ds_pbp c) in (st', put_dset mem c')
          else (st, mem) in
        mark (gc st1 d prevnames) mem1 d prevnames r
    end.

  Definition lookup_all (mem : list dset) (names : list N) : list dset :=
    flat_map (fun n => match find_dset mem n with Some s => [s] | None => [] end) names.

  Definition archive_sh (st : pst) (d : depl) (has_cur : bool) (mem : list dset) : pst * list dset :=
    if negb has_cur then (st, mem) else                                              (* :26-28 *)
    let '(st1, mem1, names) := to_archive_sh st mem (rev mem) in                        (* :30-33 *)
    let cands := isort rev_lt (lookup_all mem1 names) in                             (* :55 *)
    mark st1 mem1 d (map sname (removelast mem)) cands.

  (** objectset_reconciler.go:51-70: the newest ObjectSet is current iff its hash annotation is the template hash. *)
  Definition has_current (d : depl) (sets : list dset) : bool :=
    match rev sets with
    | [] => false
    | s :: _ => match ds_hash s with Some h => h =? d_hash d | None => false end
    end.
  Definition split_current (has_cur : bool) (mem : list dset) : option dset * list dset :=
    if has_cur then (match rev mem with s :: _ => Some s | [] => None end, removelast mem) else (None, mem).

  Definition created_name (evs : list dev) : option N :=
    fold_left (fun acc e => match e with
                            | DCreate n _ _ _ CrOk | DCreate n _ _ _ CrLost => Some n
                            | _ => acc end) evs None.

  (** GenericObjectDeploymentController.Reconcile (objectdeployment_controller.go:112-138) *)
  Definition dep_pass_sh (stale : bool) (w : dworld) : dworld * list dev * dpres :=
    let st0 := {| p_w := w; p_evs := []; p_n := O; p_dead := false |} in
    let st1 := read_req st0 in                                                        (* :119 Get of the deployment *)
    let d1 := set_hash (dw_dep w) (hash (d_digest (dw_dep w)) (d_cc (dw_dep w))) in   (* hash_reconciler.go:19-20 *)
    let st2 := read_req st1 in                                                        (* :161 List *)
    let sets := listed stale w in
    let '(st3, d2) :=
      if existsb (fun s => Z.eqb (srev s) 0) sets then (st2, d1) else                 (* objectset_reconciler.go:44-48 *)
      let has_cur := has_current d1 sets in
      let '(stp, mem) := pause_loop st2 (d_paused d1) sets in                         (* :72-93 *)
      if d_paused d1 then                                                             (* :96-99 *)
        let '(cur, prev) := split_current has_cur mem in (stp, set_status d1 cur prev)
      else
        let '(cur, prev) := split_current has_cur mem in
        let '(sta, d3) := new_revision_sh stp d1 cur prev in
        let '(stb, mem') := archive_sh sta d3 has_cur mem in
        let '(cur', prev') := split_current has_cur mem' in
        (stb, set_status d3 cur' prev') in
    let st4 := status_req st3 d2 in                                                   (* objectdeployment_controller.go:137 *)
    (with_fresh (p_w st4) (created_name (p_evs st4)), p_evs st4, if p_dead st4 then DpError else DpDone).
End Pass.

(** ** Steps of whole-system histories *)
(** The deployment-level scenarios have no delegated phases: no ObjectSetPhase objects (and no namespace lookups). *)
Definition to_sworld (w : dworld) : sworld :=
  {| sw_w := dw_w w; sw_sets := map ds_set (dw_sets w); sw_phases := []; sw_nss := [] |}.

Definition rewrap (old : list dset) (o : oset) : dset :=
  match find_dset old (oi_name (os_id o)) with
  | Some s => {| ds_set := o; ds_hash := ds_hash s; ds_pbp := ds_pbp s; ds_sel := ds_sel s; ds_ctrl := ds_ctrl s;
                 ds_ctrlset := ds_ctrlset s |}
  | None => {| ds_set := o; ds_hash := None; ds_pbp := false; ds_sel := false; ds_ctrl := 0; ds_ctrlset := false |}
  end.
Definition of_sworld (w : dworld) (sw : sworld) : dworld :=
  {| dw_dep := dw_dep w; dw_sets := map (rewrap (dw_sets w)) (sw_sets sw); dw_w := sw_w sw; dw_fresh := dw_fresh w |}.

Definition set_kind (w : dworld) : N :=
  if oi_kind (d_id (dw_dep w)) =? KClusterObjectDeployment then KClusterObjectSet else KObjectSet.

Definition edit_dep (w : dworld) (f : depl -> depl) (changed : bool) : dworld :=
  if negb changed then w else
  let d := f (dw_dep w) in
  {| dw_dep := {| d_id := d_id d; d_rv := w_rv (dw_w w); d_gen := (d_gen d + 1)%Z; d_paused := d_paused d; d_digest := d_digest d;
                  d_phases := d_phases d; d_limit := d_limit d; d_hash := d_hash d; d_cc := d_cc d; d_conds := d_conds d;
                  d_revision := d_revision d; d_ctrlof := d_ctrlof d |};
     dw_sets := dw_sets w; dw_w := bump_rv (dw_w w); dw_fresh := dw_fresh w |}.

Definition set_template (d : depl) (dg : N) (phs : list phase) : depl :=
  {| d_id := d_id d; d_rv := d_rv d; d_gen := d_gen d; d_paused := d_paused d; d_digest := dg; d_phases := phs; d_limit := d_limit d;
     d_hash := d_hash d; d_cc := d_cc d; d_conds := d_conds d; d_revision := d_revision d; d_ctrlof := d_ctrlof d |}.
Definition set_paused (d : depl) (b : bool) : depl :=
  {| d_id := d_id d; d_rv := d_rv d; d_gen := d_gen d; d_paused := b; d_digest := d_digest d; d_phases := d_phases d; d_limit := d_limit d;
     d_hash := d_hash d; d_cc := d_cc d; d_conds := d_conds d; d_revision := d_revision d; d_ctrlof := d_ctrlof d |}.
Definition set_limit (d : depl) (l : option Z) : depl :=
  {| d_id := d_id d; d_rv := d_rv d; d_gen := d_gen d; d_paused := d_paused d; d_digest := d_digest d; d_phases := d_phases d; d_limit := l;
     d_hash := d_hash d; d_cc := d_cc d; d_conds := d_conds d; d_revision := d_revision d; d_ctrlof := d_ctrlof d |}.

(** A status written for an ObjectSet (by its controller, or by anybody else): conditions and controllerOf. *)
Definition set_set_status (s : dset) (cs : list cond) (co : list okey) (coset : bool) (rv : N) : dset :=
  let o := ds_set s in
  {| ds_set := {| os_id := os_id o; os_rv := rv; os_gen := os_gen o; os_deleting := os_deleting o; os_fin := os_fin o;
                  os_orphan := os_orphan o; os_pkg := os_pkg o; os_life := os_life o; os_phases := os_phases o;
                  os_prev := os_prev o; os_revision := os_revision o; os_conds := cs; os_ctrlof := co; os_remotes := os_remotes o |};
     ds_hash := ds_hash s; ds_pbp := ds_pbp s; ds_sel := ds_sel s; ds_ctrl := ds_ctrl s; ds_ctrlset := coset && is_nil co |}.

Inductive step :=
| SEdit (dg : N) (phs : list phase)                (* template edit: new content, a revert, or a no-op *)
| SPause (b : bool)
| SLimit (l : option Z)
| SDep (stale : bool) (fault : option (nat * bool))  (* a pass of the ObjectDeployment controller *)
| SSet (force : bool) (n : N)                       (* a full pass of the ObjectSet controller for ObjectSet n *)
| SRev (n : N)                                      (* only the revision reconciler of ObjectSet n, persisted *)
| SStat (n : N) (cs : list cond) (co : list okey) (coset : bool)   (* status of ObjectSet n changes: Available, Paused, controllerOf ... *)
| SVanish (n : N)                                   (* a deleting ObjectSet is gone *)
| SMember (k : okey) (avail : N).                   (* a member object's Available condition changes (probe input) *)

Section Run.
  Variable hash : N -> option N -> N.
  Variable slices : N -> option (list pobj).
  Variable sliceaware : bool.
  Variable rev0ok : bool.

  Definition rev_step (w : dworld) (n : N) : dworld :=
    let sw := to_sworld w in
    match find_set (sw_sets sw) (set_kind w) (oi_ns (d_id (dw_dep w))) n with
    | None => w
    | Some mem =>
        let '(sw1, _, mem1, rr) := revision_pass sw mem in
        match rr with
        | RevGo => let '(sw2, _, _) := update_status sw1 mem1 in of_sworld w sw2
        | _ => of_sworld w sw1
        end
    end.

  Definition do_step_sh (w : dworld) (s : step) : dworld :=
    match s with
    | SEdit dg phs =>
        edit_dep w (fun d => set_template d dg phs)
                 (negb (dg =? d_digest (dw_dep w)) || negb (phases_eqb phs (d_phases (dw_dep w))))
    | SPause b => edit_dep w (fun d => set_paused d b) (negb (Bool.eqb b (d_paused (dw_dep w))))
    | SLimit l => edit_dep w (fun d => set_limit d l) (negb (option_eqb Z.eqb l (d_limit (dw_dep w))))
    | SDep stale fault => let '(w', _, _) := dep_pass_sh hash fault slices sliceaware rev0ok stale w in w'
    | SSet force n =>
        let '(sw', _, _) := objectset_pass force (to_sworld w) (set_kind w) (oi_ns (d_id (dw_dep w))) n in of_sworld w sw'
    | SRev n => rev_step w n
    | SStat n cs co coset =>
        match find_dset (dw_sets w) n with
        | None => w
        | Some s =>
            let s' := set_set_status s cs co coset (w_rv (dw_w w)) in
            if list_eqb cond_eqb cs (sconds s) && list_eqb okey_eqb co (os_ctrlof (ds_set s)) && Bool.eqb (ds_ctrlset s') (ds_ctrlset s)
            then w else with_sets w (put_dset (dw_sets w) s') (bump_rv (dw_w w))
        end
    | SVanish n =>
        match find_dset (dw_sets w) n with
        | Some s => if os_deleting (ds_set s) then with_sets w (del_dset (dw_sets w) n) (dw_w w) else w
        | None => w
        end
    | SMember k a =>
        match lookup k (w_store (dw_w w)) with
        | None => w
        | Some o =>
            if o_avail o =? a then w else
            let o' := {| o_uid := o_uid o; o_rv := w_rv (dw_w w); o_gen := o_gen o; o_owners := o_owners o; o_aowners := o_aowners o;
                         o_rev := o_rev o; o_cache := o_cache o; o_pkg := o_pkg o; o_body := o_body o; o_avail := a;
                         o_obsgen := o_obsgen o; o_deleting := o_deleting o; o_fin := o_fin o |} in
            with_sets w (dw_sets w) {| w_store := upsert k o' (w_store (dw_w w)); w_rv := w_rv (dw_w w) + 1; w_uid := w_uid (dw_w w) |}
        end
    end.

  Definition run_sh (w : dworld) (h : list step) : dworld := fold_left do_step_sh h w.
End Run.

(** ** The code as it is, and the shapes before the fixes 0384cff (slow-cache test) and f07b836 (ObjectSlices in the
    archive decision). The [_sh] definitions above are parametric in the shape; the history theorems hold for both. *)
Definition adoptable := adoptable_sh true.
Definition adoptable_v0 := adoptable_sh false.
Definition seen_objects (slices : N -> option (list pobj)) := seen_objects_sh slices true.
Definition seen_objects_v0 (slices : N -> option (list pobj)) := seen_objects_sh slices false.
Definition to_archive fault slices := to_archive_sh fault slices true.
Definition to_archive_v0 fault slices := to_archive_sh fault slices false.
Definition dep_pass hash fault slices := dep_pass_sh hash fault slices true true.
Definition dep_pass_v0 hash fault slices := dep_pass_sh hash fault slices false false.
Definition do_step hash slices := do_step_sh hash slices true true.
Definition do_step_v0 hash slices := do_step_sh hash slices false false.
Definition run hash slices := run_sh hash slices true true.
Definition run_v0 hash slices := run_sh hash slices false false.
