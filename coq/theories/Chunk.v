(** Model of internal/packages/internal/packagedeploy/chunking.go.
    Executable definitions only; proofs are in ChunkProofs.v. *)
From Coq Require Import List NArith Bool.
Import ListNotations.
Local Open Scope N_scope.

Section Chunk.
  Context {A : Type}.
  Variable size : A -> N.     (* len(json.Marshal(obj.Object)) *)
  Variable limit : N.         (* binpackNextFitStrategyChunkLimit *)

  (** EachObjectChunker.Chunk (chunking.go:82-90) *)
  Definition each_object (xs : list A) : list (list A) := map (fun x => [x]) xs.

  (** Loop state of BinpackNextFitChunker.Chunk (chunking.go:96-118):
      closed chunks (in order), open chunk (in order), size of the open chunk. *)
  Record bp_state := { bp_chunks : list (list A); bp_cur : list A; bp_size : N }.

  Definition bp_init : bp_state := {| bp_chunks := []; bp_cur := []; bp_size := 0 |}.

  Definition bp_step (s : bp_state) (x : A) : bp_state :=
    let sz := size x in
    (* chunking.go:107: close the open chunk if it is non-empty by size and would overflow *)
    let s' := if (0 <? bp_size s) && (limit <? bp_size s + sz)
              then {| bp_chunks := bp_chunks s ++ [bp_cur s]; bp_cur := []; bp_size := 0 |}
              else s in
    {| bp_chunks := bp_chunks s'; bp_cur := bp_cur s' ++ [x]; bp_size := bp_size s' + sz |}.

  Definition bp_loop (xs : list A) : bp_state := fold_left bp_step xs bp_init.

  (** BinpackNextFitChunker.Chunk; None = chunking bypass (nil, nil). *)
  Definition binpack (xs : list A) : option (list (list A)) :=
    let s := bp_loop xs in
    match bp_chunks s with
    | [] => None                                    (* chunking.go:121-123 *)
    | _ => Some (bp_chunks s ++ match bp_cur s with [] => [] | _ => [bp_cur s] end)
    end.

  Definition total (xs : list A) : N := fold_right (fun x a => size x + a) 0 xs.
End Chunk.
