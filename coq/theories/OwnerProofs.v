(** Owner-list algebra: what adoption (ReleaseController + SetControllerReference) followed by the
    server-side apply merge leaves on the object (C01 "carried out", C02 "exactly one controller"). *)
From Coq Require Import List NArith ZArith Bool Lia.
From PKO Require Import Util Base BaseProofs Owner Api.
Import ListNotations.
Local Open Scope N_scope.

(** Well-formed owner lists w.r.t. an owner identity: UIDs are unique within the list and a UID
    identifies the object it belongs to (same uid <-> same group/kind/name as the owner). *)
Definition refs_wf (ow : oid) (refs : list oref) : Prop :=
  NoDup (map r_uid refs) /\ forall r, In r refs -> (r_uid r = oi_uid ow <-> same_gkn r ow = true).

Definition refs_wfb (ow : oid) (refs : list oref) : bool :=
  nodupb N.eqb (map r_uid refs) &&
  forallb (fun r => Bool.eqb (r_uid r =? oi_uid ow) (same_gkn r ow)) refs.


Lemma refs_wfb_spec ow refs : refs_wfb ow refs = true -> refs_wf ow refs.
Proof.
  unfold refs_wfb, refs_wf. rewrite andb_true_iff. intros [H1 H2]. split.
  - apply (nodupb_spec N.eqb N.eqb_eq) in H1. exact H1.
  - rewrite forallb_forall in H2. intros r Hin. specialize (H2 r Hin). apply eqb_prop in H2.
    rewrite <- H2. now rewrite N.eqb_eq.
Qed.

Lemma same_gkn_demote r ow : same_gkn (demote r) ow = same_gkn r ow.
Proof. reflexivity. Qed.

Lemma same_obj_ctrl_ref ow : same_obj (ctrl_ref ow) ow = true.
Proof. unfold same_obj, ctrl_ref. cbn. now rewrite !N.eqb_refl. Qed.

Definition adopt_f (ow : oid) (r : oref) : oref := if same_gkn r ow then ctrl_ref ow else demote r.

Lemma refs_wf_tail ow x xs : refs_wf ow (x :: xs) -> refs_wf ow xs.
Proof. intros [H1 H2]. split; [now inversion H1|]. intros r Hin. apply H2. now right. Qed.

Lemma upsert_release_shape ow refs :
  refs_wf ow refs ->
  upsert_ref (fun x => same_gkn x ow) (ctrl_ref ow) (release_l refs) =
  map (adopt_f ow) refs ++ (if existsb (fun r => same_gkn r ow) refs then [] else [ctrl_ref ow]).
Proof.
  induction refs as [|x xs IH]; intros Hwf; [reflexivity|].
  cbn. rewrite same_gkn_demote. unfold adopt_f at 1. destruct (same_gkn x ow) eqn:Ex; cbn.
  - f_equal. rewrite app_nil_r.
    (* no further entry of the owner in xs *)
    destruct Hwf as [Hnd Hc]. inversion Hnd as [|? ? Hnotin Hnd']; subst.
    assert (Hux : r_uid x = oi_uid ow) by (apply Hc; [now left|assumption]).
    unfold release_l. apply map_ext_in. intros y Hy. unfold adopt_f.
    destruct (same_gkn y ow) eqn:Ey; [|reflexivity].
    exfalso. apply Hnotin. rewrite Hux. rewrite <- (proj2 (Hc y (or_intror Hy)) Ey). now apply in_map.
  - f_equal. apply IH. eapply refs_wf_tail; eauto.
Qed.

Lemma find_uid_map_nodup (f : oref -> oref) stored extra r :
  NoDup (map r_uid stored) -> (forall x, r_uid (f x) = r_uid x) -> In r stored ->
  find (fun p => r_uid p =? r_uid r) (map f stored ++ extra) = Some (f r).
Proof.
  intros Hnd Hf. induction stored as [|x xs IH]; intros Hin; [contradiction|]. cbn.
  inversion Hnd as [|? ? Hnotin Hnd']; subst.
  destruct Hin as [<-|Hin].
  - now rewrite Hf, N.eqb_refl.
  - rewrite Hf. destruct (r_uid x =? r_uid r) eqn:E.
    + apply N.eqb_eq in E. exfalso. apply Hnotin. rewrite E. now apply in_map.
    + now apply IH.
Qed.

Lemma filter_all_false {A} (g : A -> bool) l : (forall x, In x l -> g x = false) -> filter g l = [].
Proof. induction l as [|x xs IH]; intros H; [reflexivity|]. cbn. rewrite (H x (or_introl eq_refl)). apply IH. intros y Hy. apply H. now right. Qed.

Lemma filter_all_true {A} (g : A -> bool) l : (forall x, In x l -> g x = true) -> filter g l = l.
Proof. induction l as [|x xs IH]; intros H; [reflexivity|]. cbn. rewrite (H x (or_introl eq_refl)). f_equal. apply IH. intros y Hy. apply H. now right. Qed.

Lemma existsb_uid_in stored u : existsb (fun r => r_uid r =? u) stored = true <-> In u (map r_uid stored).
Proof.
  rewrite existsb_exists, in_map_iff. split.
  - intros (x & Hin & E). apply N.eqb_eq in E. eauto.
  - intros (x & E & Hin). exists x. split; [assumption|]. now apply N.eqb_eq.
Qed.

Lemma merge_refs_pointwise (f : oref -> oref) stored extra :
  NoDup (map r_uid stored) -> (forall x, r_uid (f x) = r_uid x) ->
  (forall x, In x extra -> ~ In (r_uid x) (map r_uid stored)) ->
  merge_refs stored (map f stored ++ extra) = map f stored ++ extra.
Proof.
  intros Hnd Hf Hex. unfold merge_refs. f_equal.
  - apply map_ext_in. intros r Hin. now rewrite (find_uid_map_nodup f stored extra r Hnd Hf Hin).
  - rewrite filter_app. rewrite filter_all_false, filter_all_true; [reflexivity| |].
    + intros x Hin. apply negb_true_iff. destruct (existsb _ stored) eqn:E; [|reflexivity].
      apply existsb_uid_in in E. exfalso. now apply (Hex x Hin).
    + intros y Hin. apply in_map_iff in Hin. destruct Hin as (x & <- & Hin). apply negb_false_iff.
      apply existsb_uid_in. rewrite Hf. now apply in_map.
Qed.

Lemma adopt_f_uid ow refs r : refs_wf ow refs -> In r refs -> r_uid (adopt_f ow r) = r_uid r.
Proof.
  intros [_ Hc] Hin. unfold adopt_f. destruct (same_gkn r ow) eqn:E; [|reflexivity].
  cbn. symmetry. now apply Hc.
Qed.

(** Under well-formedness the apply merge returns exactly the list PKO sent. *)
Lemma merge_adopt_eq ow refs :
  refs_wf ow refs ->
  let l := upsert_ref (fun x => same_gkn x ow) (ctrl_ref ow) (release_l refs) in
  merge_refs refs l = l.
Proof.
  intros Hwf l. subst l. rewrite (upsert_release_shape ow refs Hwf).
  (* replace adopt_f by a uid-preserving total function *)
  set (f := fun r => if r_uid (adopt_f ow r) =? r_uid r then adopt_f ow r else r).
  assert (Hmap : map (adopt_f ow) refs = map f refs).
  { apply map_ext_in. intros r Hin. unfold f. now rewrite (adopt_f_uid ow refs r Hwf Hin), N.eqb_refl. }
  rewrite Hmap. apply merge_refs_pointwise.
  - apply Hwf.
  - intros x. unfold f. destruct (r_uid (adopt_f ow x) =? r_uid x) eqn:E; [now apply N.eqb_eq|reflexivity].
  - intros x Hin. destruct (existsb (fun r => same_gkn r ow) refs) eqn:E; [contradiction|].
    destruct Hin as [<-|[]]. cbn. intros Hu. apply in_map_iff in Hu. destruct Hu as (r & Hr & Hin).
    assert (same_gkn r ow = true) by (apply Hwf; assumption).
    assert (existsb (fun r => same_gkn r ow) refs = true) by (apply existsb_exists; eauto). congruence.
Qed.

(** C02: after adoption the only controller in the list is the adopting owner, and every former
    reference to somebody else is still there, demoted. *)
Lemma adopt_controllers ow refs :
  refs_wf ow refs ->
  let l := upsert_ref (fun x => same_gkn x ow) (ctrl_ref ow) (release_l refs) in
  filter r_ctrl l = [ctrl_ref ow] /\
  (forall r, In r refs -> same_gkn r ow = false -> In (demote r) l) /\
  is_controller_l ow l = true.
Proof.
  intros Hwf l. subst l. rewrite (upsert_release_shape ow refs Hwf).
  destruct Hwf as [Hnd Hc].
  assert (Hone : forall r1 r2, In r1 refs -> In r2 refs -> same_gkn r1 ow = true -> same_gkn r2 ow = true -> r_uid r1 = r_uid r2).
  { intros r1 r2 H1 H2 E1 E2. rewrite (proj2 (Hc r1 H1) E1), (proj2 (Hc r2 H2) E2). reflexivity. }
  split; [|split].
  - rewrite filter_app. clear Hc.
    induction refs as [|x xs IH]; [reflexivity|]. cbn [map existsb].
    inversion Hnd as [|? ? Hnotin Hnd']; subst.
    destruct (same_gkn x ow) eqn:Ex.
    + (* the rest contains no entry of the owner *)
      assert (Hrest : forall y, In y xs -> same_gkn y ow = false).
      { intros y Hy. destruct (same_gkn y ow) eqn:Ey; [|reflexivity]. exfalso. apply Hnotin.
        rewrite (Hone x y (or_introl eq_refl) (or_intror Hy) Ex Ey). now apply in_map. }
      assert (Hx : adopt_f ow x = ctrl_ref ow) by (unfold adopt_f; now rewrite Ex).
      rewrite Hx. cbn. f_equal. rewrite app_nil_r. apply filter_all_false. intros y Hy. apply in_map_iff in Hy.
      destruct Hy as (z & <- & Hz). unfold adopt_f. now rewrite (Hrest z Hz).
    + assert (Hx : adopt_f ow x = demote x) by (unfold adopt_f; now rewrite Ex).
      rewrite Hx. cbn. apply IH; [assumption|]. intros r1 r2 H1 H2. apply Hone; now right.
  - intros r Hin Hr. apply in_or_app. left. apply in_map_iff. exists r. split; [|assumption]. unfold adopt_f. now rewrite Hr.
  - unfold is_controller_l. apply existsb_exists. exists (ctrl_ref ow). split; [|now rewrite same_obj_ctrl_ref].
    destruct (existsb (fun r => same_gkn r ow) refs) eqn:E.
    + apply existsb_exists in E. destruct E as (r & Hin & Hr). apply in_or_app. left. apply in_map_iff.
      exists r. split; [|assumption]. unfold adopt_f. now rewrite Hr.
    + apply in_or_app. right. now left.
Qed.
