(** Model of internal/packages/internal/packageimport/request_manager.go (RequestManager).
    Executable definitions only; proofs are in ReqMgrProofs.v.

    Every step is one critical section under [inFlightLock]; the Go code has exactly two:
    the body of [handleRequest] (request_manager.go:88-109) and the body of [handleResponse]
    (request_manager.go:118-135).  Receiver channels have capacity 1 and get exactly one send
    (request_manager.go:102-104), so the sends inside [handleResponse] never block and a
    critical section always runs to completion: the model needs no "blocked" state. *)
From Coq Require Import List NArith Bool.
Import ListNotations.
Local Open Scope N_scope.

(** Caller ids, image ids and pull numbers are [N].  A result is [true] = package, [false] = error. *)
Inductive step :=
| Req (c img : N)              (* caller c runs the critical section of handleRequest(img) *)
| Done (img : N) (res : bool)  (* the pull goroutine of img runs the critical section of handleResponse *)
| Fail (c : N)                 (* caller c calls Pull with a reference on which the registry-host override fails
                                  (applyOverride, request_manager.go:62-65): Pull returns (nil, err) before
                                  handleRequest; [Req c img] is a Pull whose override step succeeded with img *)
| Cancel (c : N).              (* the context caller c passed to Pull is cancelled while c waits.  Pull
                                  (request_manager.go:67) receives from the channel unconditionally and
                                  never looks at ctx.Done(): no effect on the manager, c keeps waiting. *)

(** Identity of one [RawPackage.DeepCopy()] result: (pull number, index in the broadcast loop). *)
Definition copyid := (N * N)%type.

Inductive event :=
| PullStarted (img n : N)                                      (* `go func(){ r.pullImage(..) .. }` request_manager.go:92-98 *)
| Response (c img n : N) (res : bool) (copy : option copyid)   (* `recv <- response{..}` request_manager.go:128-131 *)
| Rejected (c : N).                                            (* `return nil, err` request_manager.go:64 *)

(** An entry of [r.inFlight]: the receivers in registration order.  [e_pull] is a ghost field:
    the number of the pull goroutine that will call handleResponse for this entry. *)
Record entry := { e_pull : N; e_recv : list N }.

(** [inflight] is the Go map [r.inFlight] (request_manager.go:26); [next] is a ghost counter of
    pull goroutines started so far; [log] the events emitted so far. *)
Record state := { inflight : N -> option entry; next : N; log : list event }.

Definition init : state := {| inflight := fun _ => None; next := 0; log := [] |}.

Definition set {A} (m : N -> A) (img : N) (v : A) : N -> A := fun i => if i =? img then v else m i.

(** The loop of handleResponse (request_manager.go:122-132): the k-th receiver gets its own
    DeepCopy when the pull returned a package (request_manager.go:124-127), nil otherwise. *)
Fixpoint broadcast (img n : N) (res : bool) (k : N) (recv : list N) : list event :=
  match recv with
  | [] => []
  | c :: r => Response c img n res (if res then Some (n, k) else None) :: broadcast img n res (k + 1) r
  end.

(** Events emitted by one critical section. *)
Definition step_events (s : state) (x : step) : list event :=
  match x with
  | Req c img =>
      match inflight s img with
      | None => [PullStarted img (next s)]          (* request_manager.go:91-99: `if !inFlight { go ... }` *)
      | Some _ => []
      end
  | Done img res =>
      match inflight s img with                     (* request_manager.go:122: range over r.inFlight[image] *)
      | Some e => broadcast img (e_pull e) res 0 (e_recv e)
      | None => []                                  (* ranging over a missing key: no iteration *)
      end
  | Fail c => [Rejected c]
  | Cancel _ => []
  end.

Definition do_step (s : state) (x : step) : state :=
  match x with
  | Req c img =>
      match inflight s img with
      | None =>
          (* request_manager.go:106: r.inFlight[image] = append(r.inFlight[image], recv) *)
          {| inflight := set (inflight s) img (Some {| e_pull := next s; e_recv := [c] |});
             next := next s + 1;
             log := log s ++ step_events s x |}
      | Some e =>
          {| inflight := set (inflight s) img (Some {| e_pull := e_pull e; e_recv := e_recv e ++ [c] |});
             next := next s;
             log := log s ++ step_events s x |}
      end
  | Done img res =>
      (* request_manager.go:134: delete(r.inFlight, image), also when there is no entry *)
      {| inflight := set (inflight s) img None; next := next s; log := log s ++ step_events s x |}
  | Fail _ =>
      (* the manager's state is not touched before handleRequest *)
      {| inflight := inflight s; next := next s; log := log s ++ step_events s x |}
  | Cancel _ =>
      (* nothing in RequestManager reads the caller's context while it waits *)
      {| inflight := inflight s; next := next s; log := log s ++ step_events s x |}
  end.

Definition run_from (s : state) (steps : list step) : state := fold_left do_step steps s.
Definition run (steps : list step) : state := run_from init steps.

(** Events per step (same information as [log (run steps)], kept apart per step). *)
Fixpoint outs (s : state) (steps : list step) : list (list event) :=
  match steps with
  | [] => []
  | x :: r => step_events s x :: outs (do_step s x) r
  end.

(** * Vocabulary on schedules and logs used by the theorems (history only, no model state). *)

(** Callers that registered for [img] since the last [Done img]; argument is the schedule
    *reversed* (most recent step first), result is in registration order. *)
Fixpoint waiting (img : N) (rsteps : list step) : list N :=
  match rsteps with
  | [] => []
  | Req c i :: r => if i =? img then waiting img r ++ [c] else waiting img r
  | Done i _ :: r => if i =? img then [] else waiting img r
  | Fail _ :: r => waiting img r
  | Cancel _ :: r => waiting img r      (* a cancelled caller is still registered and still answered *)
  end.

Definition is_nilb {A} (l : list A) : bool := match l with [] => true | _ => false end.

(** Well-formed schedule: a [Done img] happens only while a pull for [img] is running, i.e.
    there is at least one [Req _ img] since the previous [Done img] (in the Go code a
    handleResponse(img) is only ever called by the goroutine a handleRequest(img) started). *)
Fixpoint wf_rev (rsteps : list step) : bool :=
  match rsteps with
  | [] => true
  | Req _ _ :: r => wf_rev r
  | Cancel _ :: r => wf_rev r
  | Fail _ :: r => wf_rev r
  | Done img _ :: r => negb (is_nilb (waiting img r)) && wf_rev r
  end.
Definition wf (steps : list step) : bool := wf_rev (rev steps).

Definition count_started (img : N) (l : list event) : nat :=
  length (filter (fun e => match e with PullStarted i _ => i =? img | _ => false end) l).
Definition count_done (img : N) (steps : list step) : nat :=
  length (filter (fun x => match x with Done i _ => i =? img | _ => false end) steps).
Definition count_req (c img : N) (steps : list step) : nat :=
  length (filter (fun x => match x with Req c' i => (c' =? c) && (i =? img) | _ => false end) steps).
Definition count_resp (c img : N) (l : list event) : nat :=
  length (filter (fun e => match e with Response c' i _ _ _ => (c' =? c) && (i =? img) | _ => false end) l).
Definition count_fail (c : N) (steps : list step) : nat :=
  length (filter (fun x => match x with Fail c' => c' =? c | _ => false end) steps).
Definition count_rejected (c : N) (l : list event) : nat :=
  length (filter (fun e => match e with Rejected c' => c' =? c | _ => false end) l).
Definition count_in (c : N) (l : list N) : nat := length (filter (N.eqb c) l).

(** Number of the most recently started pull for [img]. *)
Definition last_started (img : N) (l : list event) : option N :=
  fold_left (fun acc e => match e with PullStarted i n => if i =? img then Some n else acc | _ => acc end) l None.

(** All pull numbers handed out, and all copy identities handed out. *)
Definition pullnos (l : list event) : list N :=
  flat_map (fun e => match e with PullStarted _ n => [n] | _ => [] end) l.
Definition copies (l : list event) : list copyid :=
  flat_map (fun e => match e with Response _ _ _ _ (Some k) => [k] | _ => [] end) l.
