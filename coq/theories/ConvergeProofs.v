(** C10 (partial): the requests Package Operator issues are idempotent, which is what makes a pass safe to
    repeat after a crash, an error before the effect, or an effect whose response was lost. *)
From Coq Require Import List NArith ZArith Bool Lia.
From PKO Require Import Util Base BaseProofs Owner OwnerProofs Api ApiProofs Phase PhaseProofs AdoptionProofs AdoptProofs.
Import ListNotations.
Local Open Scope N_scope.

Lemma find_uid_self l r : NoDup (map r_uid l) -> In r l -> find (fun p => r_uid p =? r_uid r) l = Some r.
Proof.
  intros Hnd Hin. pose proof (find_uid_map_nodup (fun x => x) l [] r Hnd (fun x => eq_refl) Hin) as H.
  now rewrite map_id, app_nil_r in H.
Qed.

(** Merging the same patch list a second time changes nothing. *)
Lemma merge_refs_idem stored patch :
  NoDup (map r_uid patch) -> merge_refs (merge_refs stored patch) patch = merge_refs stored patch.
Proof.
  intros Hnd. unfold merge_refs at 1.
  set (res := merge_refs stored patch).
  assert (Hres_uid : forall p, In p patch -> existsb (fun r => r_uid r =? r_uid p) res = true).
  { intros p Hp. subst res. unfold merge_refs. rewrite existsb_app. apply orb_true_iff.
    destruct (existsb (fun r => r_uid r =? r_uid p) stored) eqn:E.
    - left. apply existsb_exists in E. destruct E as (s0 & Hs0 & Eu). apply existsb_exists.
      exists (match find (fun q => r_uid q =? r_uid s0) patch with Some q => q | None => s0 end).
      split; [apply in_map_iff; exists s0; auto|].
      destruct (find (fun q => r_uid q =? r_uid s0) patch) as [q|] eqn:Ef; [|assumption].
      apply find_some in Ef. destruct Ef as [_ Eq]. apply N.eqb_eq in Eq, Eu. apply N.eqb_eq. congruence.
    - right. apply existsb_exists. exists p. split; [|apply N.eqb_refl]. apply filter_In. split; [assumption|]. now rewrite E. }
  assert (Hfilter : filter (fun p => negb (existsb (fun r => r_uid r =? r_uid p) res)) patch = []).
  { apply filter_all_false. intros p Hp. now rewrite (Hres_uid p Hp). }
  rewrite Hfilter, app_nil_r.
  (* every entry of the result is fixed by a second replacement *)
  rewrite <- (map_id res) at 2. apply map_ext_in. intros r Hr.
  destruct (find (fun p => r_uid p =? r_uid r) patch) as [q|] eqn:Ef; [|reflexivity].
  pose proof (find_some _ _ Ef) as [Hq Eq]. apply N.eqb_eq in Eq.
  subst res. unfold merge_refs in Hr. apply in_app_or in Hr. destruct Hr as [Hr|Hr].
  - apply in_map_iff in Hr. destruct Hr as (s0 & Hs0 & _).
    destruct (find (fun p => r_uid p =? r_uid s0) patch) as [q0|] eqn:Ef0.
    + subst r. pose proof (find_some _ _ Ef0) as [Hq0 _]. rewrite (find_uid_self patch q0 Hnd Hq0) in Ef. now injection Ef.
    + subst r. exfalso. pose proof (find_none _ _ Ef0 q Hq) as Hn. cbn in Hn. rewrite Eq, N.eqb_refl in Hn. discriminate.
  - apply filter_In in Hr. destruct Hr as [Hr _]. rewrite (find_uid_self patch r Hnd Hr) in Ef. now injection Ef.
Qed.

Lemma apply_to_idem ap o :
  NoDup (map r_uid (ap_owners ap)) -> apply_to ap (apply_to ap o) = apply_to ap o.
Proof.
  intros Hnd. unfold apply_to. cbn -[merge_refs]. rewrite N.eqb_refl. rewrite (merge_refs_idem _ _ Hnd).
  destruct (ap_aowners ap); destruct (ap_pkg ap =? 0) eqn:E; try rewrite E; reflexivity.
Qed.

Lemma apply_to_set_rv ap o rv : apply_to ap (set_rv o rv) = set_rv (apply_to ap o) rv.
Proof. reflexivity. Qed.

Lemma apply_fresh_idem ap uid rv :
  NoDup (map r_uid (ap_owners ap)) -> apply_to ap (fresh_obj ap uid rv) = fresh_obj ap uid rv.
Proof.
  intros Hnd. unfold apply_to, fresh_obj. cbn -[merge_refs]. rewrite N.eqb_refl, (merge_refs_self _ Hnd).
  destruct (ap_aowners ap); destruct (ap_pkg ap =? 0) eqn:E; try reflexivity;
    try (apply N.eqb_eq in E; now rewrite E).
Qed.

(** C10 (iii), apply: a server-side apply that took effect is a no-op when repeated (no new
    resourceVersion, same object): safe to re-issue after a lost response. *)
Theorem api_apply_idem w k ap w1 o cr :
  NoDup (map r_uid (ap_owners ap)) ->
  api_apply w k ap = Some (w1, o, cr) -> api_apply w1 k ap = Some (w1, o, false).
Proof.
  intros Hnd H. destruct (api_apply_spec _ _ _ _ _ _ H) as (Hl & Hv & Hc).
  unfold api_apply. rewrite Hl.
  assert (Hfix : apply_to ap o = o).
  { destruct (lookup k (w_store w)) as [cur|].
    - destruct Hc as (_ & rv & ->). rewrite apply_to_set_rv, apply_to_idem; auto.
    - destruct Hc as (_ & ->). now apply apply_fresh_idem. }
  rewrite Hfix, Hv. cbn [negb].
  assert (obj_eqb o o = true) as -> by now apply obj_eqb_spec. reflexivity.
Qed.

(** ... and the release patch of a co-owned object likewise. *)
Theorem api_release_idem w k owners w1 o :
  api_release_patch w k owners = Some (w1, Some o) -> api_release_patch w1 k owners = Some (w1, Some o).
Proof.
  intros H. destruct (api_release_spec _ _ _ _ _ H) as (cur & _ & Hl & Hrest).
  assert (Hv : refs_valid owners = true).
  { unfold api_release_patch in H. destruct (lookup k (w_store w)); [|discriminate].
    destruct (refs_valid owners); [reflexivity|discriminate]. }
  unfold api_release_patch. rewrite Hl, Hv. cbn [negb].
  destruct Hrest as (_ & _ & Ho & _ & _ & Hc & _).
  match goal with |- context [obj_eqb ?a o] => assert (a = o) as -> end.
  { destruct o; cbn in *. subst. reflexivity. }
  assert (obj_eqb o o = true) as -> by now apply obj_eqb_spec. reflexivity.
Qed.

(** A delete that took effect cannot take effect twice with the same preconditions: the second attempt
    is NotFound, Conflict, or (finalizer-delayed deletion already pending) a no-op. *)
Theorem api_delete_idem w k uid rv w1 :
  api_delete w k uid rv = (w1, DOk) ->
  exists r, api_delete w1 k uid rv = (w1, r).
Proof.
  unfold api_delete. destruct (lookup k (w_store w)) as [cur|] eqn:El; [|discriminate].
  destruct ((o_uid cur =? uid) && (o_rv cur =? rv)) eqn:Em; cbn [negb]; [|discriminate].
  destruct (o_fin cur) eqn:Ef.
  - destruct (o_deleting cur) eqn:Ed.
    + intros H. injection H as <-. exists DOk. now rewrite El, Em, Ef, Ed.
    + intros H. injection H as <-. cbn [w_store]. rewrite lookup_upsert_same. cbn.
      destruct ((o_uid cur =? uid) && (w_rv w =? rv)); cbn; eexists; reflexivity.
  - intros H. injection H as <-. cbn. rewrite lookup_remove_same. eexists; reflexivity.
Qed.

(** C10 (ii), per object: reconciling an object a second time right after a successful reconcile changes
    nothing (the stored object, the resourceVersion counter and the result are the same): no revision or
    controller keeps overwriting the object it already manages. *)
Section ObjectIdem.
  Variable c : cfg.
  Let s := flavor_strat (c_flavor c).

  Lemma do_apply_idem w k rd ap w1 evs o :
    NoDup (map r_uid (ap_owners ap)) ->
    do_apply idw w k rd ap = (w1, evs, ROk o) ->
    forall rd', do_apply idw w1 k rd' ap = (w1, [EApply k rd' (Some o) (POk o)], ROk o).
  Proof.
    intros Hnd H rd'. destruct (do_apply_events _ _ _ _ _ _ _ _ H) as (post & _ & Hp).
    destruct post as [x| |]; [|contradiction|destruct Hp; discriminate]. destruct Hp as [Hr Ha]. injection Hr as <-.
    unfold idw in Ha. pose proof (api_apply_idem _ _ _ _ _ _ Hnd Ha) as Hi.
    destruct (api_apply_spec _ _ _ _ _ _ Ha) as (Hl & _).
    unfold do_apply, idw, api_get. now rewrite Hl, Hi.
  Qed.
End ObjectIdem.
