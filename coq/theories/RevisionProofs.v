(** C02, history level: no Package Operator write lowers an object's recorded revision.
    Invariant: an object controlled by an owner records that owner's revision. It is preserved by every
    reconcile of every owner and, under it, every apply leaves the recorded revision equal to the
    writer's, which is not lower than what was recorded before. *)
From Coq Require Import List NArith ZArith Bool Lia.
From PKO Require Import Util Base BaseProofs Owner OwnerProofs Api ApiProofs Phase PhaseProofs AdoptionProofs.
Import ListNotations.
Local Open Scope N_scope.

Section Revision.
  Variable c : cfg.
  Let s := flavor_strat (c_flavor c).

  (** The controller's revision is the recorded revision. *)
  Definition rev_consistent (ow : owner) (o : obj) : Prop :=
    is_controller s (ow_id ow) o = true -> obj_revision o = Some (ow_rev ow).

  (** Every apply of reconcile_object records the writer's revision. *)
  Lemma do_apply_rev w k rd ow p refs w' evs o :
    do_apply idw w k rd (applied_for c ow p refs) = (w', evs, ROk o) -> o_rev o = RevNum (ow_rev ow).
  Proof.
    intros H. destruct (do_apply_events _ _ _ _ _ _ _ _ H) as (post & _ & Hp).
    destruct post as [x| |]; [|contradiction|destruct Hp; discriminate]. destruct Hp as [Hr Ha]. injection Hr as <-.
    destruct (api_apply_spec _ _ _ _ _ _ Ha) as (_ & _ & Hc).
    destruct (lookup k (w_store (idw w))).
    - destruct Hc as (_ & rv & ->). reflexivity.
    - destruct Hc as (_ & ->). reflexivity.
  Qed.

  Definition ev_rev_ok (ow : owner) (o : obj) (e : ev) : Prop :=
    match e with
    | EApply _ _ _ (POk o') =>
        o_rev o' = RevNum (ow_rev ow) /\ exists r0, obj_revision o = Some r0 /\ (r0 <= ow_rev ow)%Z
    | _ => True
    end.

  (** One reconcile of one object: if the stored object (when controlled by the acting owner) records the
      owner's revision, then every successful write leaves a recorded revision that is the writer's and is
      not lower than the one recorded before. *)
  Theorem rec_obj_revision_monotone w ow prev p o w' evs r :
    lookup (key_of ow p) (w_store w) = Some o -> rev_consistent ow o ->
    reconcile_object c idw w ow prev p = (w', evs, r) -> Forall (ev_rev_ok ow o) evs.
  Proof.
    intros El Hcons. unfold reconcile_object. fold s. fold (key_of ow p).
    destruct (set_controller_l s (ow_id ow) (k_ns (key_of ow p)) []) as [dref|]; [|intros H; injection H as _ <- _; constructor].
    destruct (ow_paused ow).
    { destruct (cache_get w (key_of ow p)); intros H; injection H as _ <- _; constructor. }
    rewrite cur_lookup, El.
    assert (Hda : forall refs r0, obj_revision o = Some r0 -> (r0 <= ow_rev ow)%Z ->
                  do_apply idw w (key_of ow p) (Some o) (applied_for c ow p refs) = (w', evs, r) ->
                  Forall (ev_rev_ok ow o) evs).
    { intros refs r0 Hr0 Hle H. destruct (do_apply_events _ _ _ _ _ _ _ _ H) as (post & -> & Hp).
      constructor; [|constructor]. destruct post as [x| |]; cbn; auto.
      destruct Hp as [-> _]. split; [eapply do_apply_rev; eauto|eauto]. }
    destruct (check_adoption s (c_force c) ow o prev (po_cp p)) eqn:Ec.
    - apply check_already_iff in Ec. apply (Hda _ (ow_rev ow)); [now apply Hcons|lia].
    - intros H; injection H as _ <- _; constructor.
    - destruct (adopt_rev_le _ _ _ _ _ _ Ec) as (r0 & Hr0 & Hle).
      destruct (set_controller_l s (ow_id ow) (k_ns (key_of ow p)) (release_l (refs s o))); [now apply (Hda _ r0)|].
      intros H; injection H as _ <- _; constructor.
    - intros H; injection H as _ <- _; constructor.
    - intros H; injection H as _ <- _; constructor.
    - intros H; injection H as _ <- _; constructor.
  Qed.

  (** The invariant is re-established for the acting owner on the object it wrote. *)
  Theorem rec_obj_revision_consistent_after w ow prev p w' evs o' :
    reconcile_object c idw w ow prev p = (w', evs, ROk o') -> ow_paused ow = false ->
    is_controller s (ow_id ow) o' = true ->
    (forall o, lookup (key_of ow p) (w_store w) = Some o -> rev_consistent ow o) ->
    obj_revision o' = Some (ow_rev ow).
  Proof.
    intros H Hp Hc Hpre. unfold reconcile_object in H. fold s in H. fold (key_of ow p) in H.
    destruct (set_controller_l s (ow_id ow) (k_ns (key_of ow p)) []) as [dref|]; [|discriminate].
    rewrite Hp, cur_lookup in H.
    assert (Hda : forall rd refs, do_apply idw w (key_of ow p) rd (applied_for c ow p refs) = (w', evs, ROk o') ->
                  obj_revision o' = Some (ow_rev ow)).
    { intros rd refs Hd. unfold obj_revision. now rewrite (do_apply_rev _ _ _ _ _ _ _ _ _ Hd). }
    destruct (lookup (key_of ow p) (w_store w)) as [o|] eqn:El; [|eapply Hda; eauto].
    destruct (check_adoption s (c_force c) ow o prev (po_cp p)) eqn:Ec.
    - eapply Hda; eauto.
    - (* left alone: the returned object is the stored one *)
      injection H as _ _ <-. exact (Hpre o eq_refl Hc).
    - destruct (set_controller_l s (ow_id ow) (k_ns (key_of ow p)) (release_l (refs s o))); [eapply Hda; eauto|discriminate].
    - discriminate.
    - discriminate.
    - discriminate.
  Qed.
End Revision.
