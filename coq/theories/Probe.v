(** Model of pkg/probing/{probe,selectors,observedgeneration,condition,fieldsequal,cel}.go and
    internal/probing/parse.go. Executable definitions only; proofs are in ProbeProofs.v.

    A prober maps the probed object to (success, messages). Messages are modelled by reason
    codes (one per fixed message format), not by their text. The CEL evaluator is an oracle:
    [cel_compile] says whether a rule compiles to a boolean expression, [cel_eval] what the
    compiled program returns on an object. *)
From Coq Require Import List ZArith NArith Bool String Ascii.
From PKO Require Import Json.
Import ListNotations.
Local Open Scope string_scope.
Local Open Scope list_scope.

Inductive reason : Type :=
| RStatusOutdated      (* observedgeneration.go:24  ".status outdated" *)
| RCondMissing         (* condition.go:35  "missing .status.conditions" *)
| RCondMalformed       (* condition.go:38,59  "malformed" *)
| RCondOutdated        (* condition.go:51,71  "outdated" *)
| RCondWrongStatus     (* condition.go:77  "wrong status" *)
| RCondNotReported     (* condition.go:79  "not reported" *)
| RFieldMissingA       (* fieldsequal.go:41 *)
| RFieldMissingB       (* fieldsequal.go:45 *)
| RFieldNotEqual       (* fieldsequal.go:49 *)
| RCelFalse            (* cel.go:78  the probe's own message *)
| RCelError            (* cel.go:75  "CEL program failed: ..." *)
| RUnknown.            (* never produced by the model; a message the harness could not classify *)

Definition result : Type := bool * list reason.
Definition prober : Type := json -> result.

Inductive cel_class : Type := CelOk | CelNotBool | CelCompileErr.
Inductive cel_outcome : Type := CelTrue | CelFalse | CelErr.

(** API types (apis/core/v1alpha1/commonobjectset_types.go:123-200, metav1.LabelSelector). *)
Record cond_spec := { c_type : string; c_status : string }.
Record fe_spec := { fe_a : string; fe_b : string }.
Record probe_spec := { p_cond : option cond_spec; p_fe : option fe_spec; p_cel : option N }.

Inductive ls_op : Type := LIn | LNotIn | LExists | LDoesNotExist | LOther.
Record ls_req := { e_key : string; e_op : ls_op; e_vals : list string }.
Record label_selector := { match_labels : list (string * string); match_exprs : list ls_req }.
Record probe_selector := { s_kind : option (string * string); s_labels : option label_selector }.
Record osp := { o_probes : list probe_spec; o_sel : probe_selector }.   (* ObjectSetProbe *)

(** labels.Requirement as built by metav1.LabelSelectorAsSelector. *)
Inductive sel_op : Type := SEquals | SIn | SNotIn | SExists | SDoesNotExist.
Record requirement := { rq_key : string; rq_op : sel_op; rq_vals : list string }.

Inductive perr : Type := ECelNotBool | ECelCompile | ESelector.

Definition str_mem (s : string) (l : list string) : bool := existsb (String.eqb s) l.

(** Requirement.Matches (labels/selector.go:236-280) *)
Definition req_matches (ls : list (string * string)) (r : requirement) : bool :=
  match rq_op r with
  | SEquals | SIn =>
      match assoc (rq_key r) ls with Some v => str_mem v (rq_vals r) | None => false end
  | SNotIn =>
      match assoc (rq_key r) ls with Some v => negb (str_mem v (rq_vals r)) | None => true end
  | SExists => match assoc (rq_key r) ls with Some _ => true | None => false end
  | SDoesNotExist => match assoc (rq_key r) ls with Some _ => false | None => true end
  end.

(** internalSelector.Matches (labels/selector.go:405-412); Everything() is the empty list. *)
Definition sel_matches (reqs : list requirement) (ls : list (string * string)) : bool :=
  forallb (req_matches ls) reqs.

(** metav1.LabelSelectorAsSelector (meta/v1/helpers.go:36-74) with the structural checks of
    labels.NewRequirement (selector.go:174-214). None = error. The syntactic validation of
    keys and values is not modelled (generated selectors are syntactically valid). *)
Definition expr_requirement (e : ls_req) : option requirement :=
  match e_op e with
  | LIn => if match e_vals e with [] => true | _ => false end then None
           else Some {| rq_key := e_key e; rq_op := SIn; rq_vals := e_vals e |}
  | LNotIn => if match e_vals e with [] => true | _ => false end then None
              else Some {| rq_key := e_key e; rq_op := SNotIn; rq_vals := e_vals e |}
  | LExists => match e_vals e with
               | [] => Some {| rq_key := e_key e; rq_op := SExists; rq_vals := [] |}
               | _ => None
               end
  | LDoesNotExist => match e_vals e with
                     | [] => Some {| rq_key := e_key e; rq_op := SDoesNotExist; rq_vals := [] |}
                     | _ => None
                     end
  | LOther => None
  end.

Fixpoint expr_requirements (es : list ls_req) : option (list requirement) :=
  match es with
  | [] => Some []
  | e :: r =>
      match expr_requirement e with
      | None => None
      | Some q => match expr_requirements r with Some qs => Some (q :: qs) | None => None end
      end
  end.

Definition label_selector_as_selector (s : label_selector) : option (list requirement) :=
  match expr_requirements (match_exprs s) with
  | None => None
  | Some qs =>
      Some (map (fun kv => {| rq_key := fst kv; rq_op := SEquals; rq_vals := [snd kv] |}) (match_labels s)
            ++ qs)
  end.

(** probeUnstructuredSingleMsg (probe.go:44-54); None = success. *)
Definition single_msg (r : option reason) : result :=
  match r with None => (true, []) | Some m => (false, [m]) end.

(** And.Probe (probe.go:23-34): all messages of the failing probers, in order; success iff
    there is no message. *)
Definition and_msgs (ps : list prober) (o : json) : list reason :=
  flat_map (fun p : prober => if fst (p o) then [] else snd (p o)) ps.

Definition p_and (ps : list prober) : prober :=
  fun o => match and_msgs ps o with [] => (true, []) | m => (false, m) end.

(** GroupKindSelector.Probe (selectors.go:20-29) *)
Definition gk_eqb (a b : string * string) : bool :=
  String.eqb (fst a) (fst b) && String.eqb (snd a) (snd b).

Definition p_kind (gk : string * string) (p : prober) : prober :=
  fun o => if gk_eqb gk (group_kind o) then p o else (true, []).

(** LabelSelector.Probe (selectors.go:41-49) *)
Definition p_label (reqs : list requirement) (p : prober) : prober :=
  fun o => if negb (sel_matches reqs (labels_of o)) then (true, []) else p o.

(** ObservedGenerationProbe.Probe (observedgeneration.go:18-26) *)
Definition p_og (p : prober) : prober :=
  fun o =>
    match nested_int64 o ["status"; "observedGeneration"] with
    | NFound z => if negb (Z.eqb z (generation o)) then (false, [RStatusOutdated]) else p o
    | _ => p o
    end.

(** ConditionProbe.probe (condition.go:23-80, after fix 9b2e4f3) *)
Definition is_str (v : option json) (s : string) : bool :=
  match v with Some (JStr x) => String.eqb x s | _ => false end.

Definition cond_outdated (kv : list (string * json)) (gen : Z) : bool :=   (* condition.go:48-50, 68-70 *)
  match nested_int64 (JObj kv) ["observedGeneration"] with
  | NFound z => negb (Z.eqb z gen)
  | _ => false
  end.

(** One iteration of the pre-scan (condition.go:43-52): a map entry of the probed type that
    declares an integer observedGeneration other than metadata.generation. Entries that are
    not maps or have another type are skipped. *)
Definition stale_entry (gen : Z) (t : string) (c : json) : bool :=
  match c with
  | JObj kv => is_str (assoc "type" kv) t && cond_outdated kv gen
  | _ => false
  end.

(** The deciding loop (condition.go:55-79). *)
Fixpoint cond_loop (gen : Z) (t s : string) (cs : list json) : option reason :=
  match cs with
  | [] => Some RCondNotReported                                  (* :79 *)
  | JObj kv :: rest =>
      if negb (is_str (assoc "type" kv) t) then cond_loop gen t s rest   (* :62-65 *)
      else if cond_outdated kv gen then Some RCondOutdated               (* :67-72 *)
      else if is_str (assoc "status" kv) s then None                     (* :74-76 *)
      else Some RCondWrongStatus                                         (* :77 *)
  | _ :: _ => Some RCondMalformed                                (* :56-60 *)
  end.

Definition cond_probe (t s : string) : prober :=
  fun o => single_msg
    match nested_field o ["status"; "conditions"] with
    | NFound (JArr cs) =>
        if existsb (stale_entry (generation o) t) cs then Some RCondOutdated   (* :41-53 *)
        else cond_loop (generation o) t s cs
    | NFound _ => Some RCondMalformed                            (* :37-39 *)
    | _ => Some RCondMissing                                     (* :34-36 *)
    end.

(** ConditionProbe.probe as it was before fix 9b2e4f3 (no pre-scan: the first entry of the
    probed type decides). Kept only for the historical refutation in ProbeProofs.v. *)
Definition condition_probe_v0 (t s : string) : prober :=
  fun o => single_msg
    match nested_field o ["status"; "conditions"] with
    | NFound (JArr cs) => cond_loop (generation o) t s cs
    | NFound _ => Some RCondMalformed
    | _ => Some RCondMissing
    end.

(** FieldsEqualProbe.probe (fieldsequal.go:25-52) *)
Definition path_of (f : string) : list string := split_on "." (trim "." f).

Definition fe_probe (a b : string) : prober :=
  fun o => single_msg
    match nested_field o (path_of a) with
    | NFound va =>
        match nested_field o (path_of b) with
        | NFound vb => if json_eqb va vb then None else Some RFieldNotEqual
        | _ => Some RFieldMissingB
        end
    | _ => Some RFieldMissingA
    end.

Section Probe.
  Variable cel_compile : N -> cel_class.           (* NewCELProbe (cel.go:28-63) on the rule *)
  Variable cel_eval : N -> json -> cel_outcome.     (* Program.Eval (cel.go:71-79) *)

  (** CELProbe.probe *)
  Definition cel_probe (rule : N) : prober :=
    fun o => single_msg
      match cel_eval rule o with
      | CelTrue => None
      | CelFalse => Some RCelFalse
      | CelErr => Some RCelError
      end.

  (** ParseProbes (parse.go:64-106). The switch takes fieldsEqual before condition before
      cel; a spec with none of them is skipped. *)
  Fixpoint parse_leaves (specs : list probe_spec) : perr + list prober :=
    match specs with
    | [] => inr []
    | sp :: rest =>
        match p_fe sp, p_cond sp, p_cel sp with
        | Some f, _, _ =>
            match parse_leaves rest with
            | inl e => inl e
            | inr l => inr (fe_probe (fe_a f) (fe_b f) :: l)
            end
        | None, Some c, _ =>
            match parse_leaves rest with
            | inl e => inl e
            | inr l => inr (cond_probe (c_type c) (c_status c) :: l)
            end
        | None, None, Some r =>
            match cel_compile r with
            | CelNotBool => inl ECelNotBool
            | CelCompileErr => inl ECelCompile
            | CelOk =>
                match parse_leaves rest with
                | inl e => inl e
                | inr l => inr (cel_probe r :: l)
                end
            end
        | None, None, None => parse_leaves rest
        end
    end.

  Definition parse_probes (specs : list probe_spec) : perr + prober :=
    match parse_leaves specs with
    | inl e => inl e
    | inr l => inr (p_og (p_and l))            (* parse.go:105 *)
    end.

  (** ParseSelector (parse.go:39-62): kind selector inside, label selector outside. *)
  Definition parse_selector (sel : probe_selector) (p : prober) : option prober :=
    let p1 := match s_kind sel with Some gk => p_kind gk p | None => p end in
    match s_labels sel with
    | None => Some p1
    | Some ls =>
        match label_selector_as_selector ls with
        | None => None
        | Some reqs => Some (p_label reqs p1)
        end
    end.

  (** One iteration of the loop of Parse (parse.go:19-33). *)
  Definition parse_group (q : osp) : perr + prober :=
    match parse_probes (o_probes q) with
    | inl e => inl e
    | inr p =>
        match parse_selector (o_sel q) p with
        | None => inl ESelector
        | Some g => inr g
        end
    end.

  Fixpoint parse_groups (i : N) (qs : list osp) : (N * perr) + list prober :=
    match qs with
    | [] => inr []
    | q :: r =>
        match parse_group q with
        | inl e => inl (i, e)
        | inr g =>
            match parse_groups (i + 1) r with
            | inl e => inl e
            | inr gs => inr (g :: gs)
            end
        end
    end.

  (** Parse (parse.go:16-35) *)
  Definition parse (qs : list osp) : (N * perr) + prober :=
    match parse_groups 0 qs with
    | inl e => inl e
    | inr gs => inr (p_and gs)
    end.

  (** * Reference reading of the property (used by the theorems and by the monitor) *)

  (** The probes of a ObjectSetProbe that are in effect. *)
  Inductive leaf : Type := LCond (t s : string) | LFE (a b : string) | LCel (rule : N).

  Definition leaf_of (sp : probe_spec) : option leaf :=
    match p_fe sp, p_cond sp, p_cel sp with
    | Some f, _, _ => Some (LFE (fe_a f) (fe_b f))
    | None, Some c, _ => Some (LCond (c_type c) (c_status c))
    | None, None, Some r => Some (LCel r)
    | None, None, None => None
    end.

  Fixpoint leaves (specs : list probe_spec) : list leaf :=
    match specs with
    | [] => []
    | sp :: r => match leaf_of sp with Some l => l :: leaves r | None => leaves r end
    end.

  Definition leaf_prober (l : leaf) : prober :=
    match l with
    | LCond t s => cond_probe t s
    | LFE a b => fe_probe a b
    | LCel r => cel_probe r
    end.

  (** Label selector read directly off the API type. *)
  Definition expr_matches (ls : list (string * string)) (e : ls_req) : bool :=
    match e_op e, assoc (e_key e) ls with
    | LIn, Some v => str_mem v (e_vals e)
    | LIn, None => false
    | LNotIn, Some v => negb (str_mem v (e_vals e))
    | LNotIn, None => true
    | LExists, Some _ => true
    | LExists, None => false
    | LDoesNotExist, Some _ => false
    | LDoesNotExist, None => true
    | LOther, _ => false
    end.

  Definition ls_matches (s : label_selector) (ls : list (string * string)) : bool :=
    forallb (fun kv => match assoc (fst kv) ls with Some v => String.eqb v (snd kv) | None => false end)
            (match_labels s)
    && forallb (expr_matches ls) (match_exprs s).

  (** "a probe whose kind and label selector match the object" *)
  Definition selects (q : osp) (o : json) : bool :=
    match s_kind (o_sel q) with Some gk => gk_eqb gk (group_kind o) | None => true end
    && match s_labels (o_sel q) with Some s => ls_matches s (labels_of o) | None => true end.

  (** status.observedGeneration is an integer different from metadata.generation *)
  Definition og_stale (o : json) : bool :=
    match nested_int64 o ["status"; "observedGeneration"] with
    | NFound z => negb (Z.eqb z (generation o))
    | _ => false
    end.

  (** "the probe passes": status up to date and every leaf passes *)
  Definition passes_one (q : osp) (o : json) : bool :=
    negb (og_stale o) && forallb (fun l => fst (leaf_prober l o)) (leaves (o_probes q)).

  (** what a selected probe reports *)
  Definition messages_one (q : osp) (o : json) : list reason :=
    if og_stale o then [RStatusOutdated]
    else flat_map (fun l => snd (leaf_prober l o)) (leaves (o_probes q)).

  (** failures of the whole list, tagged with the index of the ObjectSetProbe *)
  Fixpoint failures_from (i : N) (qs : list osp) (o : json) : list (N * reason) :=
    match qs with
    | [] => []
    | q :: r =>
        (if selects q o && negb (passes_one q o) then map (pair i) (messages_one q o) else [])
        ++ failures_from (i + 1) r o
    end.

  Definition failures (qs : list osp) (o : json) : list (N * reason) := failures_from 0 qs o.

  (** * The callers of the prober *)

  (** recordingProbe (internal/controllers/phase_reconciler.go:111-150): ReconcilePhase probes
      every object of the phase (:213); an object gets an entry in ProbingResult.FailedProbes
      iff the success flag of the prober is false (:126-129) -- whatever the messages are, also
      none or empty ones (recordForObj :135-140 always appends); the result is zero iff no
      object was recorded (:142-151). An object whose reconciliation ends in NotFound is not probed
      but recorded as missing (:203-207, :131-133); it is None here. One boolean per object:
      recorded or not. *)
  Definition record_one (p : prober) (o : option json) : bool :=
    match o with Some o => negb (fst (p o)) | None => true end.

  Definition record_phase (p : prober) (objs : list (option json)) : list bool :=
    map (record_one p) objs.

  Definition result_is_zero (recorded : list bool) : bool := negb (existsb (fun b : bool => b) recorded).

  (** objectSetPhasesReconciler.reconcile
      (internal/controllers/objectsets/objectsetphases_reconciler.go:220-235): on every pass the
      prober is parsed from the availabilityProbes of the ObjectSet being reconciled and handed
      to ReconcilePhase; nothing is kept from one pass to the next. A call is (probe list of the
      ObjectSet, objects of its phase as found on the cluster). *)
  Definition verdict (call : list osp * list (option json)) : (N * perr) + list bool :=
    match parse (fst call) with
    | inl e => inl e
    | inr p => inr (record_phase p (snd call))
    end.

  Definition run_history (calls : list (list osp * list (option json))) : list ((N * perr) + list bool) :=
    map verdict calls.
End Probe.
