(** Model of one pass of the Package controller (C16):
      GenericPackageController.Reconcile   internal/controllers/packages/package_controller.go:133-202
      unpackReconciler.Reconcile           internal/controllers/packages/unpack_reconciler.go:89-152
      objectDeploymentStatusReconciler     internal/controllers/packages/object_deployment_status_reconciler.go:23-67
      PackageDeployer.Deploy               internal/packages/internal/packagedeploy/deployer.go:136-214
      validateConstraints / validateUnique internal/packages/internal/packagedeploy/deployer.go:268-386
      DeploymentReconciler.Reconcile       internal/packages/internal/packagedeploy/deployment_reconciler.go:71-142
    written from the code as it is, including which branches [return nil] and go on.

    What the package content does (pull, load, constraints, config admission, image references,
    render + validation) is not computed here: the outcome of every stage is an ORACLE supplied by
    the scenario, and all theorems quantify over all oracle outcomes.  The API server is part of the
    state; every request can be made to fail (before or after taking effect) by the scenario.

    Abstractions: the spec hash (ComputeSHA256Hash of PackageSpec, adapters/package.go:82-84) is the
    spec itself (collision freedom of SHA-256 assumed); the rendered ObjectSetTemplateSpec is
    identified by a digest number [digest image config component]; phases are small enough not to
    be sliced (chunking bypass, C14), so the deployment reconciler issues no ObjectSlice writes;
    the ObjectDeployment carries no status conditions (no ObjectDeployment controller runs), so the
    status reconciler copies nothing; the Package is never deleted.
    Besides API faults a scenario can let a third party write the ObjectDeployment (a metadata
    change: new resourceVersion, same spec) right before any request of a pass: an Update sent with
    a copy read before that write is rejected with Conflict.  The controller's pause propagation
    returns that error; the deployment reconciler re-reads and retries (retry.RetryOnConflict).
    [fixed = true] is the code as it is (Deploy stops when constraints are unmet);
    [fixed = false] is Deploy before the defect was fixed by cb58cda, kept for the [_v0_]
    refutation only.
    Executable definitions only; proofs are in PackageProofs.v. *)
From Coq Require Import List NArith Bool.
From PKO Require Import Util.
Import ListNotations.
Local Open Scope N_scope.

(** ** Package spec, status, ObjectDeployment *)

(** PackageSpec (apis/core/v1alpha1/package_types.go): every field goes into the spec hash. *)
Record spec := { s_image : N; s_config : N; s_comp : N; s_paused : bool }.

Definition spec_eqb (a b : spec) : bool :=
  (s_image a =? s_image b) && (s_config a =? s_config b) && (s_comp a =? s_comp b)
  && Bool.eqb (s_paused a) (s_paused b).

Definition hash_eqb (h : option spec) (s : spec) : bool :=
  match h with Some x => spec_eqb x s | None => false end.

Inductive ctype := CUnpacked | CInvalid.
Inductive creason := RImagePullBackOff | RUnpackSuccess | RLoadError | RConstraintsFailed.

(** metav1.Condition without message and transition time. *)
Record cond := { c_type : ctype; c_status : bool; c_reason : creason; c_gen : N }.

Definition ctype_eqb (a b : ctype) : bool :=
  match a, b with CUnpacked, CUnpacked | CInvalid, CInvalid => true | _, _ => false end.

Definition creason_eqb (a b : creason) : bool :=
  match a, b with
  | RImagePullBackOff, RImagePullBackOff | RUnpackSuccess, RUnpackSuccess
  | RLoadError, RLoadError | RConstraintsFailed, RConstraintsFailed => true
  | _, _ => false
  end.

(** meta.SetStatusCondition: replace in place, else append. *)
Fixpoint set_cond (c : cond) (l : list cond) : list cond :=
  match l with
  | [] => [c]
  | x :: r => if ctype_eqb (c_type x) (c_type c) then c :: r else x :: set_cond c r
  end.

(** meta.RemoveStatusCondition *)
Definition remove_cond (t : ctype) (l : list cond) : list cond :=
  filter (fun x => negb (ctype_eqb (c_type x) t)) l.

(** meta.FindStatusCondition *)
Fixpoint find_cond (t : ctype) (l : list cond) : option cond :=
  match l with
  | [] => None
  | x :: r => if ctype_eqb (c_type x) t then Some x else find_cond t r
  end.

(** The Package object: spec, metadata.generation, status.unpackedHash, status.conditions. *)
Record pkg := { p_spec : spec; p_gen : N; p_hash : option spec; p_conds : list cond }.

(** The template of an ObjectDeployment: [None] = the empty ObjectSetTemplateSpec the deployment
    reconciler pre-creates (deployment_reconciler.go:80-85), [Some d] = the render with digest d. *)
Definition tmpl := option N.
Definition tmpl_eqb (a b : tmpl) : bool := option_eqb N.eqb a b.

(** The ObjectDeployment: spec.template, spec.paused, metadata.generation. *)
Record od := { d_tmpl : tmpl; d_paused : bool; d_gen : N }.

(** The other (Cluster)Packages of the cluster, seen from the Package at hand and the name of its
    manifest: how many carry the label package-operator.run/package=<manifest name> in the same
    scope (the namespace of a Package, the cluster for a ClusterPackage), how many carry it in
    another namespace (none for a ClusterPackage), how many do not carry it; and whether the
    Package itself carries it.  No pass changes any of this. *)
Record peers := { n_same : N; n_elsewhere : N; n_unrelated : N; self_labelled : bool }.

Record world := { w_pkg : pkg; w_od : option od; w_pulls : N; w_peers : peers }.

(** ** Oracles *)

Inductive ckind := KPlatform | KKubeVersion | KOpenShiftVersion | KUnique.
Inductive cfg_out :=
| CfgOk
| CfgErr         (* spec.config is not a JSON object / the schema is unusable: error, no condition *)
| CfgViolation.  (* the configuration violates the schema *)

Record oracle := {
  o_pull : bool;          (* imagePuller.Pull returns the image *)
  o_load : bool;          (* structuralLoader.LoadComponent succeeds *)
  o_range_ok : bool;      (* every platformVersion range and the environment's versions parse *)
  o_unmet : list ckind;   (* messages of unmet platform / version constraints, in manifest order *)
  o_unique : option N;    (* a uniqueInScope constraint exists: number of (Cluster)Packages the List of
                             validateUnique returns; in a history this number is not supplied by the
                             scenario but computed from the peers in the world, see [seen] *)
  o_config : cfg_out;     (* json.Unmarshal + AdmitPackageConfiguration *)
  o_images : bool;        (* every lock file image reference parses *)
  o_render : bool;        (* RenderPackageInstance: package validators + object validators *)
}.

Definition is_some {A} (x : option A) : bool := match x with Some _ => true | None => false end.

(** ** The constraint list of the manifest

    One entry of manifest.spec.constraints in the environment at hand (an entry of the generated
    packages carries one kind of constraint). *)
Inductive centry :=
| CPlatform (met : bool)         (* platform: [OpenShift] needs OpenShift to be detected (platformConstraintMet) *)
| CVersion (k : ckind) (parses applies met : bool)
                                 (* platformVersion: the range and the platform's version parse; the constraint
                                    names the platform the cluster is (Kubernetes always, OpenShift if detected);
                                    the version is in the range *)
| CUniqueInScope.

(** The loop of checkConstraints over manifest.Spec.Constraints (deployer.go:360-399), statement by
    statement: [None] = an error is returned, [Some msgs] = the messages collected. *)
Fixpoint constraint_loop (cs : list centry) (msgs : list ckind) : option (list ckind) :=
  match cs with
  | [] => Some msgs
  | CPlatform met :: r =>
      (* :361-365 *)
      constraint_loop r (if met then msgs else msgs ++ [KPlatform])
  | CVersion k parses applies met :: r =>
      if negb parses then None                                  (* :368-371, :383-385 return false, err *)
      else if negb applies then constraint_loop r msgs          (* :386-388 continue *)
      else constraint_loop r (if met then msgs else msgs ++ [k]) (* :389-393 *)
  | CUniqueInScope :: r => constraint_loop r msgs               (* looked at by validateUnique, :401 *)
  end.

Definition is_unique_entry (c : centry) : bool := match c with CUniqueInScope => true | _ => false end.

(** The oracle of a pass from the constraint list and the outcomes of the other stages. *)
Definition mk_oracle (pull load : bool) (cs : list centry) (cfg : cfg_out) (images render : bool) : oracle :=
  {| o_pull := pull; o_load := load;
     o_range_ok := is_some (constraint_loop cs []);
     o_unmet := match constraint_loop cs [] with Some m => m | None => [] end;
     o_unique := if existsb is_unique_entry cs then Some 0 else None;
     o_config := cfg; o_images := images; o_render := render |}.

(** ** API requests and events *)

Inductive rstat := SOk | SErr (* fails without effect *) | SLost (* takes effect, the caller sees an error *).

Inductive rkind :=
| KGetPkg | KGetOD
| KPauseOD               (* Update of the ObjectDeployment by the controller's pause propagation *)
| KListPkg               (* validateUnique *)
| KCreateOD | KUpdateOD  (* deployment reconciler *)
| KListSet | KListSlice  (* slice garbage collection *)
| KStatus.               (* Status().Update of the Package *)

Inductive rout := OOk | ONotFound | OConflict | OFault.

Inductive ev :=
| EPull (img : N)        (* imagePuller.Pull entered *)
| EDeploy                (* PackageDeployer.Deploy entered: load, admission, render *)
| EReq (k : rkind) (r : rout).

Record st := { st_w : world; st_f : list rstat (* outcome of the next requests; [] = all succeed *);
               st_d : list bool (* a third party writes the ObjectDeployment right before the next requests *);
               st_dirty : bool  (* a third party wrote the ObjectDeployment since the controller last read or wrote it:
                                   the controller's in-memory copy carries an old resourceVersion *);
               st_log : list ev }.

Record result := { r_st : st; r_err : bool (* Reconcile returned an error *);
                   r_requeue : bool (* RequeueAfter > 0 and no error: controller-runtime ignores the
                                       Result of a pass that returns an error *) }.

Definition logev (s : st) (e : ev) : st :=
  {| st_w := st_w s; st_f := st_f s; st_d := st_d s; st_dirty := st_dirty s; st_log := st_log s ++ [e] |}.

Definition fail (s : st) : result := {| r_st := s; r_err := true; r_requeue := false |}.

(** requests after which the controller holds the current ObjectDeployment (response of a Get,
    Create or Update) *)
Definition reads_od (k : rkind) : bool :=
  match k with KGetOD | KCreateOD | KUpdateOD | KPauseOD => true | _ => false end.
(** Updates of the ObjectDeployment: sent with the resourceVersion of the in-memory copy *)
Definition checks_od (k : rkind) : bool :=
  match k with KUpdateOD | KPauseOD => true | _ => false end.

(** One API request of kind [k].  [found]: the object addressed exists (reads and updates of a
    missing object return NotFound); [eff]: the effect on the stored objects.  First the third party
    writes the ObjectDeployment if the scenario says so (and there is one); then, in the order of
    the recording server: an injected error; NotFound; Conflict for an Update whose copy is out of
    date; the effect (with the response lost if injected).  An API error ends the pass with an error
    (every caller in the pass wraps and returns it) unless the caller handles it: [kok] continues
    after success, [knf] after NotFound, [kcf] after Conflict. *)
Definition call_gen (k : rkind) (found : bool) (eff : world -> world) (s : st)
                    (kok knf kcf : st -> result) : result :=
  let x := match st_f s with [] => SOk | x :: _ => x end in
  let t := match st_d s with [] => false | t :: _ => t end && is_some (w_od (st_w s)) in
  let dirty := st_dirty s || t in
  let mk (w : world) (d : bool) (r : rout) :=
    {| st_w := w; st_f := tl (st_f s); st_d := tl (st_d s); st_dirty := d; st_log := st_log s ++ [EReq k r] |} in
  let after := if reads_od k then false else dirty in
  match x with
  | SErr => fail (mk (st_w s) dirty OFault)
  | SOk =>
      if negb found then knf (mk (st_w s) dirty ONotFound)
      else if checks_od k && dirty then kcf (mk (st_w s) dirty OConflict)
      else kok (mk (eff (st_w s)) after OOk)
  | SLost =>
      if negb found then knf (mk (st_w s) dirty ONotFound)
      else if checks_od k && dirty then kcf (mk (st_w s) dirty OConflict)
      else fail (mk (eff (st_w s)) after OFault)
  end.

(** a request whose caller returns a Conflict like any other error *)
Definition call (k : rkind) (found : bool) (eff : world -> world) (s : st)
                (kok knf : st -> result) : result :=
  call_gen k found eff s kok knf fail.

(** Effects on the stored objects.  The recording API server bumps metadata.generation exactly
    when something outside metadata and status changes. *)
Definition eff_pause (b : bool) (w : world) : world :=
  match w_od w with
  | Some d => {| w_pkg := w_pkg w; w_pulls := w_pulls w; w_peers := w_peers w;
                 w_od := Some {| d_tmpl := d_tmpl d; d_paused := b;
                                 d_gen := if Bool.eqb (d_paused d) b then d_gen d else d_gen d + 1 |} |}
  | None => w
  end.

Definition eff_create (w : world) : world :=
  {| w_pkg := w_pkg w; w_pulls := w_pulls w; w_peers := w_peers w;
     w_od := Some {| d_tmpl := None; d_paused := false; d_gen := 1 |} |}.

Definition eff_update (t : tmpl) (w : world) : world :=
  match w_od w with
  | Some d => {| w_pkg := w_pkg w; w_pulls := w_pulls w; w_peers := w_peers w;
                 w_od := Some {| d_tmpl := t; d_paused := d_paused d;
                                 d_gen := if tmpl_eqb (d_tmpl d) t then d_gen d else d_gen d + 1 |} |}
  | None => w
  end.

(** Status().Update: only unpackedHash and conditions of the in-memory Package reach the server. *)
Definition eff_status (p : pkg) (w : world) : world :=
  {| w_pkg := {| p_spec := p_spec (w_pkg w); p_gen := p_gen (w_pkg w);
                 p_hash := p_hash p; p_conds := p_conds p |};
     w_od := w_od w; w_pulls := w_pulls w; w_peers := w_peers w |}.

Definition eff_pull (w : world) : world :=
  {| w_pkg := w_pkg w; w_od := w_od w; w_pulls := w_pulls w + 1; w_peers := w_peers w |}.

Definition with_conds (p : pkg) (l : list cond) : pkg :=
  {| p_spec := p_spec p; p_gen := p_gen p; p_hash := p_hash p; p_conds := l |}.

Definition mk_cond (p : pkg) (t : ctype) (b : bool) (r : creason) : cond :=
  {| c_type := t; c_status := b; c_reason := r; c_gen := p_gen p |}.

Section Pass.
  (** digest of the ObjectSetTemplateSpec rendered from (image, config, component) *)
  Variable digest : N -> N -> N -> N.
  (** [fixed = true]: the code as it is, Deploy stops when constraints are unmet.
      [fixed = false]: Deploy before cb58cda (validateConstraints' nil was taken for "constraints met"). *)
  Variable fixed : bool.
  Variable o : oracle.

  Definition spec_digest (sp : spec) : N := digest (s_image sp) (s_config sp) (s_comp sp).

  (** GenericPackageController.updateStatus (package_controller.go:204-209); [p] is the in-memory Package. *)
  Definition update_status (p : pkg) (requeue : bool) (s : st) : result :=
    call KStatus true (eff_status p) s
         (fun s => {| r_st := s; r_err := false; r_requeue := requeue |}) fail.

  (** objectDeploymentStatusReconciler.Reconcile (object_deployment_status_reconciler.go:26-29):
      Get, NotFound ignored.  The ObjectDeployment has no conditions: nothing is copied, removing
      the Paused condition is a no-op (lines 31-64). *)
  Definition status_reconcile (s : st) (k : st -> result) : result :=
    call KGetOD (is_some (w_od (st_w s))) (fun w => w) s k k.

  (** package_controller.go:191-202 after the unpack reconciler returned (res zero, err nil):
      next sub-reconciler, then updateStatus. *)
  Definition after_unpack (p : pkg) (s : st) : result :=
    status_reconcile s (update_status p false).

  (** unpack_reconciler.go:137-151 after Deploy returned nil. *)
  Definition unpacked (p : pkg) (s : st) : result :=
    let p1 := {| p_spec := p_spec p; p_gen := p_gen p; p_hash := Some (p_spec p);   (* :141 *)
                 p_conds := set_cond (mk_cond p CUnpacked true RUnpackSuccess) (p_conds p) |} in (* :142-149 *)
    after_unpack p1 s.

  (** the closure of retry.RetryOnConflict(retry.DefaultRetry, ..) (deployment_reconciler.go:101-133):
      labels / annotations merged and the template set on the in-memory copy (:102-115), Update
      (:117); on Conflict the copy is re-read (:122-130) and the wrapped Conflict returned, which
      RetryOnConflict answers with another attempt as long as attempts are left; any other error
      ends the loop.  [tries] = attempts left after this one. *)
  Fixpoint update_loop (tries : nat) (t : tmpl) (s : st) (k : st -> result) : result :=
    call_gen KUpdateOD true (eff_update t) s k fail
      (fun s => call KGetOD true (fun w => w) s
                  (fun s => match tries with O => fail s | S m => update_loop m t s k end)
                  fail).

  (** retry.DefaultRetry.Steps = 5 attempts *)
  Definition retry_steps : nat := 5.

  (** DeploymentReconciler.Reconcile (deployment_reconciler.go:71-142) with the desired template
      [Some (spec_digest ..)], followed by deployer.go:211-213. *)
  Definition deployment_reconcile (p : pkg) (s : st) : result :=
    let update (s : st) : result :=
      (* :101-136 *)
      update_loop (pred retry_steps) (Some (spec_digest (p_spec p))) s
        (fun s =>
           (* :138 sliceGarbageCollection: list ObjectSets (:206-213), list ObjectSlices (:167-176), nothing to delete *)
           call KListSet true (fun w => w) s
             (fun s => call KListSlice true (fun w => w) s
                (fun s =>
                   (* deployer.go:212 Load success *)
                   unpacked (with_conds p (remove_cond CInvalid (p_conds p))) s)
                fail)
             fail) in
    (* :77-89 *)
    call KGetOD (is_some (w_od (st_w s))) (fun w => w) s
      update
      (fun s => (* :80-86 pre-create without phases *)
         call KCreateOD true eff_create s update fail).

  (** Deploy after validateConstraints returned nil with [msgs] (deployer.go:156-213). *)
  Definition deploy_rest (p : pkg) (msgs : list ckind) (s : st) : result :=
    (* validateConstraints :375-385: record the condition, return nil *)
    let p1 := if is_nil msgs then p
              else with_conds p (set_cond (mk_cond p CInvalid true RConstraintsFailed) (p_conds p)) in
    if fixed && negb (is_nil msgs) then
      (* deployer.go:156-161 (since cb58cda): stop like after a load error, keep the condition *)
      unpacked p1 s
    else
      (* deployer.go:156-173 *)
      match o_config o with
      | CfgErr => fail s                       (* :160-162, :166-168 *)
      | CfgViolation => fail s                 (* :169-173 condition set in memory only, error returned *)
      | CfgOk =>
          if negb (o_images o) then fail s     (* :174-185 *)
          else if negb (o_render o) then fail s (* :188-199 condition set in memory only, error returned *)
          else deployment_reconcile p1 s       (* :201-213 *)
      end.

  (** PackageDeployer.Deploy (deployer.go:136-214). *)
  Definition deploy (p : pkg) (s : st) : result :=
    let s := logev s EDeploy in
    if negb (o_load o) then
      (* :142-148 LoadError recorded, nil returned *)
      unpacked (with_conds p (set_cond (mk_cond p CInvalid true RLoadError) (p_conds p))) s
    else if negb (o_range_ok o) then
      fail s                                   (* :339-341, :354-356 -> :151-154 *)
    else
      match o_unique o with
      | None => deploy_rest p (o_unmet o) s    (* validateUnique :272-281 *)
      | Some l =>
          (* :283-311 List of the (Cluster)Packages; which ones: see [listed] *)
          call KListPkg true (fun w => w) s
            (fun s =>
               if l =? 0 then fail s           (* :314-315 ErrNonExisting -> :369-371 -> :151-154 *)
               else if l =? 1 then deploy_rest p (o_unmet o) s                (* :316-317 *)
               else deploy_rest p (o_unmet o ++ [KUnique]) s)                 (* :318-322, :373 *)
            fail
      end.

  (** unpackReconciler.Reconcile (unpack_reconciler.go:89-152). *)
  Definition unpack (p : pkg) (s : st) : result :=
    if hash_eqb (p_hash p) (p_spec p) then
      after_unpack p s                         (* :101-104 already unpacked *)
    else
      (* :108 Pull *)
      let s := {| st_w := eff_pull (st_w s); st_f := st_f s; st_d := st_d s; st_dirty := st_dirty s;
                  st_log := st_log s ++ [EPull (s_image (p_spec p))] |} in
      if negb (o_pull o) then
        (* :109-126 ImagePullBackOff, RequeueAfter = backoff > 0, nil error;
           package_controller.go:193-202: loop left, status persisted *)
        update_status (with_conds p (set_cond (mk_cond p CUnpacked false RImagePullBackOff) (p_conds p))) true s
      else
        (* :128-135 GetEnvironment issues no request without HyperShift; Deploy *)
        deploy p s.

  (** GenericPackageController.Reconcile (package_controller.go:133-202). *)
  Definition reconcile (s : st) : result :=
    (* :140-144 *)
    call KGetPkg true (fun w => w) s
      (fun s =>
         let p := w_pkg (st_w s) in
         let k_od (s : st) : result :=
           let odp := match w_od (st_w s) with Some d => d_paused d | None => false end in
           let k_sub (s : st) : result :=
             if s_paused (p_spec p) then
               (* :183-189 paused: only the status reconciler *)
               status_reconcile s (update_status p false)
             else unpack p s in                (* :191-202 *)
           if Bool.eqb (s_paused (p_spec p)) odp then k_sub s
           else
             (* :168-180; updating the empty, unnamed object of the NotFound case is an error *)
             call KPauseOD (is_some (w_od (st_w s))) (eff_pause (s_paused (p_spec p))) s k_sub fail in
         (* :162-166 *)
         call KGetOD (is_some (w_od (st_w s))) (fun w => w) s k_od k_od)
      fail.
End Pass.

(** ** Histories *)

Inductive step :=
| SEdit (sp : spec)             (* the user replaces the Package spec *)
| SFault (n : N) (k : rstat)    (* request number n of the next pass gets outcome k *)
| SDisturb (n : N)              (* a third party writes the ObjectDeployment right before request number n of the next pass *)
| SPass (o : oracle).           (* one Reconcile with these stage outcomes *)

(** What is observable of a pass. *)
Record obs := {
  ob_events : list ev; ob_err : bool; ob_requeue : bool;
  ob_hash : option spec; ob_conds : list cond;   (* persisted Package status after the pass *)
  ob_od : option od;                             (* stored ObjectDeployment after the pass *)
  ob_pulls : N;
}.

Fixpoint arm (n : nat) (k : rstat) (f : list rstat) : list rstat :=
  match n, f with
  | O, [] => [k]
  | O, _ :: r => k :: r
  | S m, [] => SOk :: arm m k []
  | S m, x :: r => x :: arm m k r
  end.

Fixpoint armb (n : nat) (d : list bool) : list bool :=
  match n, d with
  | O, [] => [true]
  | O, _ :: r => true :: r
  | S m, [] => false :: armb m []
  | S m, x :: r => x :: armb m r
  end.

Definition edit (sp : spec) (w : world) : world :=
  let p := w_pkg w in
  if spec_eqb sp (p_spec p) then w
  else {| w_pkg := {| p_spec := sp; p_gen := p_gen p + 1; p_hash := p_hash p; p_conds := p_conds p |};
          w_od := w_od w; w_pulls := w_pulls w; w_peers := w_peers w |}.

Definition obs_of (r : result) : obs :=
  let w := st_w (r_st r) in
  {| ob_events := st_log (r_st r); ob_err := r_err r; ob_requeue := r_requeue r;
     ob_hash := p_hash (w_pkg w); ob_conds := p_conds (w_pkg w); ob_od := w_od w; ob_pulls := w_pulls w |}.

(** What the List of validateUnique (deployer.go:283-311) returns.
    [scoped = false], the code as it is: a selector for the package label is built (:286-290), but
    the result of Selector.Add is dropped (:291), so the empty selector is used, and the List is not
    restricted to the Package's namespace: every (Cluster)Package of the cluster is listed, the
    Package itself included.
    [scoped = true], what the constraint says: the (Cluster)Packages carrying the manifest's package
    label in the same scope. *)
Definition listed (scoped : bool) (p : peers) : N :=
  if scoped then (if self_labelled p then 1 else 0) + n_same p
  else 1 + n_same p + n_elsewhere p + n_unrelated p.

(** The oracle of a pass as the controller sees it among these peers: the scenario says whether the
    manifest has a uniqueInScope constraint ([o_unique = Some _]); the List result comes from the peers. *)
Definition seen (scoped : bool) (ps : peers) (o : oracle) : oracle :=
  match o_unique o with
  | None => o
  | Some _ =>
      {| o_pull := o_pull o; o_load := o_load o; o_range_ok := o_range_ok o; o_unmet := o_unmet o;
         o_unique := Some (listed scoped ps); o_config := o_config o; o_images := o_images o;
         o_render := o_render o |}
  end.

Section Run.
  Variable digest : N -> N -> N -> N.
  Variable fixed : bool.
  Variable scoped : bool.

  (** State between passes: the stored objects, the armed faults and the armed third-party writes. *)
  Definition do_pass (o : oracle) (w : world) (f : list rstat) (d : list bool) : result :=
    reconcile digest fixed (seen scoped (w_peers w) o)
              {| st_w := w; st_f := f; st_d := d; st_dirty := false; st_log := [] |}.

  Fixpoint run (steps : list step) (w : world) (f : list rstat) (d : list bool) : list obs :=
    match steps with
    | [] => []
    | SEdit sp :: r => run r (edit sp w) f d
    | SFault n k :: r => run r w (arm (N.to_nat n) k f) d
    | SDisturb n :: r => run r w f (armb (N.to_nat n) d)
    | SPass o :: r =>
        let res := do_pass o w f d in
        obs_of res :: run r (st_w (r_st res)) [] []
    end.

  (** The stored objects after a history. *)
  Fixpoint final (steps : list step) (w : world) (f : list rstat) (d : list bool) : world :=
    match steps with
    | [] => w
    | SEdit sp :: r => final r (edit sp w) f d
    | SFault n k :: r => final r w (arm (N.to_nat n) k f) d
    | SDisturb n :: r => final r w f (armb (N.to_nat n) d)
    | SPass o :: r => final r (st_w (r_st (do_pass o w f d))) [] []
    end.
End Run.

(** A freshly created Package among the given peers: generation 1, empty status, no ObjectDeployment. *)
Definition init_world (sp : spec) (ps : peers) : world :=
  {| w_pkg := {| p_spec := sp; p_gen := 1; p_hash := None; p_conds := [] |}; w_od := None; w_pulls := 0;
     w_peers := ps |}.

(** the Package is labelled and alone *)
Definition no_peers : peers := {| n_same := 0; n_elsewhere := 0; n_unrelated := 0; self_labelled := true |}.

(** ** Classification of oracle outcomes *)

Definition unique_unmet (o : oracle) : bool := match o_unique o with Some l => 2 <=? l | None => false end.
Definition unique_err (o : oracle) : bool := match o_unique o with Some l => l =? 0 | None => false end.

(** some platform / version / uniqueness constraint is not met *)
Definition unmet (o : oracle) : bool := negb (is_nil (o_unmet o)) || unique_unmet o.
(** the constraints cannot be evaluated *)
Definition cons_err (o : oracle) : bool := negb (o_range_ok o) || unique_err o.
Definition config_ok (o : oracle) : bool := match o_config o with CfgOk => true | _ => false end.

(** every stage other than the constraint check passes *)
Definition stages_ok (o : oracle) : bool :=
  o_pull o && o_load o && negb (cons_err o) && config_ok o && o_images o && o_render o.
(** the package is valid and admissible *)
Definition all_ok (o : oracle) : bool := stages_ok o && negb (unmet o).
(** what lets Deploy reach the deployment reconciler *)
Definition deployable (fixed : bool) (o : oracle) : bool := if fixed then all_ok o else stages_ok o.

Definition is_od_write (e : ev) : bool :=
  match e with EReq KCreateOD _ | EReq KUpdateOD _ => true | _ => false end.
Definition is_pull (e : ev) : bool := match e with EPull _ => true | _ => false end.
Definition is_deploy (e : ev) : bool := match e with EDeploy => true | _ => false end.
Definition none_of (f : ev -> bool) (l : list ev) : bool := forallb (fun e => negb (f e)) l.

Definition has_cond (t : ctype) (b : bool) (r : creason) (l : list cond) : bool :=
  match find_cond t l with
  | Some c => Bool.eqb (c_status c) b && creason_eqb (c_reason c) r
  | None => false
  end.

(** template of the stored ObjectDeployment: None = no ObjectDeployment *)
Definition od_tmpl (w : world) : option tmpl := option_map d_tmpl (w_od w).
