(** C10 — Reconciliation converges from any crash, fault or drift (PARTIAL).
    What is proved: every write request Package Operator issues is idempotent, so a pass repeated after a
    restart, after an error before the effect, or after an effect whose response was lost, re-issues
    requests that change nothing where the effect already took place. A pass of the model is a function
    of the stored world alone (no in-memory state survives a pass), by construction of ObjectSet.v /
    Phase.v and checked against the code by running every pass on a fresh controller and cache.
    What is NOT proved (explored by fault enumeration on the real code in checks/C10.py): that the
    sequence of passes reaches the clean-run end state from every disturbed state, for multi-revision
    deployments and under every fair schedule. Statements only. *)
From Coq Require Import List NArith ZArith Bool.
From PKO Require Import Base Owner Api ApiProofs Phase PhaseProofs ConvergeProofs.
Import ListNotations.

Theorem C10_apply_idempotent :
  forall w k ap w1 o cr,
    NoDup (map r_uid (ap_owners ap)) ->
    api_apply w k ap = Some (w1, o, cr) -> api_apply w1 k ap = Some (w1, o, false).
Proof. exact api_apply_idem. Qed.
Print Assumptions C10_apply_idempotent.

Theorem C10_release_patch_idempotent :
  forall w k owners w1 o,
    api_release_patch w k owners = Some (w1, Some o) -> api_release_patch w1 k owners = Some (w1, Some o).
Proof. exact api_release_idem. Qed.
Print Assumptions C10_release_patch_idempotent.

Theorem C10_delete_not_twice :
  forall w k uid rv w1, api_delete w k uid rv = (w1, DOk) -> exists r, api_delete w1 k uid rv = (w1, r).
Proof. exact api_delete_idem. Qed.
Print Assumptions C10_delete_not_twice.

(** Further reconciles change nothing, per object: re-applying right after a successful apply leaves the
    stored object, the resourceVersion counter and the result unchanged. *)
Theorem C10_reapply_changes_nothing :
  forall w k rd ap w1 evs o,
    NoDup (map r_uid (ap_owners ap)) ->
    do_apply idw w k rd ap = (w1, evs, ROk o) ->
    forall rd', do_apply idw w1 k rd' ap = (w1, [EApply k rd' (Some o) (POk o)], ROk o).
Proof. exact do_apply_idem. Qed.
Print Assumptions C10_reapply_changes_nothing.

(** The owner-reference merge of server-side apply is idempotent for any stored list. *)
Theorem C10_owner_merge_idempotent :
  forall stored patch, NoDup (map r_uid patch) -> merge_refs (merge_refs stored patch) patch = merge_refs stored patch.
Proof. exact merge_refs_idem. Qed.
Print Assumptions C10_owner_merge_idempotent.
