(** C10 — Reconciliation converges from any crash, fault or drift (PARTIAL).
    What is proved: every write request Package Operator issues is idempotent, so a pass repeated after a
    restart, after an error before the effect, or after an effect whose response was lost, re-issues
    requests that change nothing where the effect already took place. A pass of the model is a function
    of the stored world alone (no in-memory state survives a pass), by construction of ObjectSet.v /
    Phase.v and checked against the code by running every pass on a fresh controller and cache.
    Also proved: quiescence of a phase - the desired state is a fixpoint of the phase reconciler (a settled object is
    re-applied without any change; every successful apply leaves the object settled; a completed pass over a
    phase is followed by passes that change neither the store nor the counters: "further reconciles change nothing").
    Also proved: quiescence of the whole controller pass - one Reconcile of the (Cluster)ObjectSet controller is a
    fixpoint of itself: whatever an active, unpaused pass did (completed, stopped at a failing probe, refused an
    adoption, found a duplicate, waited for a previous revision, assigned the revision, added the finalizer), the
    next pass from the world it left returns the same result and writes NOTHING - member store, both counters, all
    stored ObjectSets and phase objects are unchanged; it sends only no-op applies (or applies the server rejects
    again), reads, and a status equal to the stored one, which is not persisted. Premises: stored members have
    well-formed owner lists; phase objects of delegated phases exist, are controlled and in sync (the pass that
    CREATES a phase object is not a fixpoint: refuted, the third pass is); the ObjectSet does not name itself as its
    previous revision unless the remote-phase references are already recorded (refuted otherwise).
    What is NOT proved (explored by fault enumeration on the real code in checks/C10.py): that the
    sequence of passes reaches the clean-run end state from every disturbed state, for multi-revision
    deployments and under every fair schedule; quiescence of the ObjectSetPhase and ObjectDeployment controllers. Statements only. *)
From Coq Require Import List NArith ZArith Bool.
From PKO Require Import Base Owner OwnerProofs Api ApiProofs Phase PhaseProofs AdoptProofs ConvergeProofs FixpointProofs
  ObjectSet ObjectSetProofs SetExamples QuiescenceProofs QuiescenceExamples.
Import ListNotations.

Theorem C10_apply_idempotent :
  forall w k ap w1 o cr,
    NoDup (map r_uid (ap_owners ap)) ->
    api_apply w k ap = Some (w1, o, cr) -> api_apply w1 k ap = Some (w1, o, false).
Proof. exact api_apply_idem. Qed.
Print Assumptions C10_apply_idempotent.

Theorem C10_release_patch_idempotent :
  forall w k owners w1 o,
    api_release_patch w k owners = Some (w1, Some o) -> api_release_patch w1 k owners = Some (w1, Some o).
Proof. exact api_release_idem. Qed.
Print Assumptions C10_release_patch_idempotent.

Theorem C10_delete_not_twice :
  forall w k uid rv w1, api_delete w k uid rv = (w1, DOk) -> exists r, api_delete w1 k uid rv = (w1, r).
Proof. exact api_delete_idem. Qed.
Print Assumptions C10_delete_not_twice.

(** Further reconciles change nothing, per object: re-applying right after a successful apply leaves the
    stored object, the resourceVersion counter and the result unchanged. *)
Theorem C10_reapply_changes_nothing :
  forall w k rd ap w1 evs o,
    NoDup (map r_uid (ap_owners ap)) ->
    do_apply idw w k rd ap = (w1, evs, ROk o) ->
    forall rd', do_apply idw w1 k rd' ap = (w1, [EApply k rd' (Some o) (POk o)], ROk o).
Proof. exact do_apply_idem. Qed.
Print Assumptions C10_reapply_changes_nothing.

(** The owner-reference merge of server-side apply is idempotent for any stored list. *)
Theorem C10_owner_merge_idempotent :
  forall stored patch, NoDup (map r_uid patch) -> merge_refs (merge_refs stored patch) patch = merge_refs stored patch.
Proof. exact merge_refs_idem. Qed.
Print Assumptions C10_owner_merge_idempotent.

(** The desired state is a fixpoint: an object that is cached, controlled by the owner, carries the desired body,
    the owner's revision and package label and a well-formed owner list is re-applied by an unpaused pass without
    any change to the store or the counters (the one request is a no-op apply), for every controller flavour. *)
Theorem C10_settled_object_noop :
  forall c w ow prev p o,
    ow_paused ow = false ->
    set_controller_l (flavor_strat (c_flavor c)) (ow_id ow) (k_ns (key_of ow p)) [] <> None ->
    lookup (key_of ow p) (w_store w) = Some o -> settled c ow p o ->
    reconcile_object c idw w ow prev p = (w, [EApply (key_of ow p) (Some o) (Some o) (POk o)], ROk o).
Proof. exact rec_obj_settled. Qed.
Print Assumptions C10_settled_object_noop.

(** Every successful apply of a pass (create, refresh of an owned object, permitted adoption) leaves the object
    settled, for any stored object with a well-formed owner list. *)
Theorem C10_apply_settles :
  forall c w ow prev p w1 e1 o1,
    ow_paused ow = false ->
    (forall cu, lookup (key_of ow p) (w_store w) = Some cu -> obj_wf (flavor_strat (c_flavor c)) (ow_id ow) cu) ->
    reconcile_object c idw w ow prev p = (w1, e1, ROk o1) -> e1 <> [] ->
    lookup (key_of ow p) (w_store w1) = Some o1 /\ settled c ow p o1.
Proof. exact rec_obj_settles. Qed.
Print Assumptions C10_apply_settles.

(** Quiescence of a phase: after a completed, unpaused pass over a phase with distinct keys (and well-formed stored
    owner lists) reconciling the phase again - from any accumulator, i.e. inside any later pass - leaves the store
    and both counters exactly as they are, sends only no-op applies and completes again. *)
Theorem C10_phase_pass_is_fixpoint :
  forall c ow prev ps w acc failed w' evs a f,
    ow_paused ow = false -> NoDup (map (key_of ow) ps) ->
    (forall p cu, In p ps -> lookup (key_of ow p) (w_store w) = Some cu -> obj_wf (flavor_strat (c_flavor c)) (ow_id ow) cu) ->
    reconcile_objects c idw w ow prev ps acc failed = (w', evs, PhOk a f) ->
    forall acc2 failed2, exists evs2 a2 f2,
      reconcile_objects c idw w' ow prev ps acc2 failed2 = (w', evs2, PhOk a2 f2) /\ Forall noop_ev evs2.
Proof. exact phase_pass_is_fixpoint. Qed.
Print Assumptions C10_phase_pass_is_fixpoint.

(** ** Quiescence of the whole ObjectSet controller pass *)

(** The status computed after the phase loop, computed again from an ObjectSet that already carries it (same spec,
    same remote phases, same controllerOf / failed phase), is the status it carries: Available, InTransition,
    Succeeded and Paused are all re-derived unchanged. *)
Theorem C10_status_recomputed_is_stored :
  forall phs m m' ctrlof failed,
    os_life m' = os_life m -> os_remotes m' = os_remotes m -> os_id m' = os_id m -> os_gen m' = os_gen m ->
    os_phases m' = os_phases m ->
    os_conds m' = os_conds (final_status phs m ctrlof failed) ->
    os_conds (final_status phs m' ctrlof failed) = os_conds m'.
Proof. exact final_status_fix. Qed.
Print Assumptions C10_status_recomputed_is_stored.

(** A status update that equals the stored status (sent with the current resourceVersion) is not persisted: the
    world, including the resourceVersion counter, is unchanged. *)
Theorem C10_unchanged_status_not_written :
  forall sw m st,
    find_set (sw_sets sw) (oi_kind (os_id m)) (oi_ns (os_id m)) (oi_name (os_id m)) = Some st ->
    os_rv st = os_rv m -> stat_eq st m -> update_status sw m = (sw, m, true).
Proof. exact update_status_noop. Qed.
Print Assumptions C10_unchanged_status_not_written.

(** A phase replayed: for EVERY outcome of reconciling a list of objects (complete, failing probes, refused
    adoption, rejected apply), reconciling it again in any world that agrees with the output world on the phase's
    keys returns the same outcome, leaves that world unchanged and sends only no-op applies (besides re-sending an
    apply the server rejects). *)
Theorem C10_phase_replay :
  forall c ow prev ps w acc failed w' evs r,
    ow_paused ow = false -> NoDup (map (key_of ow) ps) ->
    (forall p cu, In p ps -> lookup (key_of ow p) (w_store w) = Some cu -> obj_wf (flavor_strat (c_flavor c)) (ow_id ow) cu) ->
    reconcile_objects c idw w ow prev ps acc failed = (w', evs, r) ->
    forall w2, (forall p, In p ps -> lookup (key_of ow p) (w_store w2) = lookup (key_of ow p) (w_store w')) ->
    exists evs2, reconcile_objects c idw w2 ow prev ps acc failed = (w2, evs2, r) /\ Forall calm_ev evs2 /\
                 (r <> PhErr ErrInvalid -> Forall noop_ev evs2).
Proof. exact rec_objs_replay. Qed.
Print Assumptions C10_phase_replay.

(** One Reconcile of the ObjectSet controller is a fixpoint of itself (PARTIAL: under the premises below; the
    unconditional statement is refuted by the two witnesses that follow).
    [members_wf]: stored members of local phases have well-formed owner lists; [remotes_ok]: the phase object of every
    delegated phase exists, is controlled by the ObjectSet and has spec.paused in sync; [remotes_recorded]: its
    reference is in status.remotePhases; [not_own_prev]: the ObjectSet is not listed in its own spec.previous.
    [quiet_sev st']: a member apply that changed nothing or was rejected, a read of a phase object, or a status
    update equal to the stored status [st']; [noop_sev]: the same with every member apply accepted. No finalizer
    request, no write to a phase object. Holds with or without finalizer / assigned revision before the first pass,
    and for every outcome of the first pass. *)
Theorem C10_pass_is_fixpoint_partial :
  forall force sw k ns n mem0 sw1 evs1 r1,
    find_set (sw_sets sw) k ns n = Some mem0 -> is_active mem0 ->
    os_life mem0 <> LPaused ->
    members_wf sw mem0 -> remotes_ok sw mem0 -> remotes_recorded sw mem0 \/ not_own_prev mem0 ->
    objectset_pass force sw k ns n = (sw1, evs1, r1) ->
    exists st' evs2, find_set (sw_sets sw1) k ns n = Some st' /\
      objectset_pass force sw1 k ns n = (sw1, evs2, r1) /\
      Forall (quiet_sev st') evs2 /\ (r1 <> SError -> Forall (noop_sev st') evs2).
Proof. exact pass_fixpoint. Qed.
Print Assumptions C10_pass_is_fixpoint_partial.

(** Zero state-changing writes at quiescence: after a pass that ran to its end (in particular one that reported
    Available=True for every phase) the next pass leaves the world exactly as it is and every member request it
    sends is a no-op apply. *)
Theorem C10_quiescent_pass_writes_nothing :
  forall force sw k ns n mem0 sw1 evs1 requeue,
    find_set (sw_sets sw) k ns n = Some mem0 -> is_active mem0 -> os_life mem0 <> LPaused ->
    members_wf sw mem0 -> remotes_ok sw mem0 -> remotes_recorded sw mem0 \/ not_own_prev mem0 ->
    objectset_pass force sw k ns n = (sw1, evs1, SDone requeue) ->
    exists st' evs2, find_set (sw_sets sw1) k ns n = Some st' /\
      objectset_pass force sw1 k ns n = (sw1, evs2, SDone requeue) /\ Forall (noop_sev st') evs2.
Proof. exact quiescent_pass. Qed.
Print Assumptions C10_quiescent_pass_writes_nothing.

(** Without [remotes_ok] the statement is false: the pass that creates the phase object of a delegated phase ends with
    an error before any status is written; the next pass finds the phase object and writes the ObjectSet's status. *)
Theorem C10_pass_fixpoint_creating_refuted :
  exists sw mem0, find_set (sw_sets sw) KObjectSet 1 10 = Some mem0 /\ is_active mem0 /\ os_life mem0 <> LPaused /\
    members_wf sw mem0 /\ remotes_recorded sw mem0 /\ not_own_prev mem0 /\
    second_world sw <> world_after (pass10 sw).
Proof. exact pass_fixpoint_creating_refuted. Qed.
Print Assumptions C10_pass_fixpoint_creating_refuted.

(** Without [remotes_recorded \/ not_own_prev] the statement is false: an ObjectSet listed in its own spec.previous
    refuses an object in the pass that first records its remote phase, and adopts it in the next (through the remote
    phase of "the previous revision", which is itself). *)
Theorem C10_pass_fixpoint_self_previous_refuted :
  exists sw mem0, find_set (sw_sets sw) KObjectSet 1 10 = Some mem0 /\ is_active mem0 /\ os_life mem0 <> LPaused /\
    members_wf sw mem0 /\ remotes_ok sw mem0 /\
    second_world sw <> world_after (pass10 sw).
Proof. exact pass_fixpoint_self_previous_refuted. Qed.
Print Assumptions C10_pass_fixpoint_self_previous_refuted.

(** The premises are satisfiable non-trivially: a world in which the first pass creates an object of the second phase
    and writes the status (resourceVersion counter 50 -> 52, uid counter 60 -> 61), and the second pass returns the
    same world. *)
Example C10_pass_fixpoint_premises_met :
  find_set (sw_sets (ex_world 1 S0)) KObjectSet 1 10 = Some S0 /\ is_active S0 /\ os_life S0 <> LPaused /\
  members_wf (ex_world 1 S0) S0 /\ (remotes_ok (ex_world 1 S0) S0 /\ remotes_recorded (ex_world 1 S0) S0) /\
  snd (pass10 (ex_world 1 S0)) = SDone false /\
  w_rv (sw_w (world_after (pass10 (ex_world 1 S0)))) = 52%N /\ w_uid (sw_w (world_after (pass10 (ex_world 1 S0)))) = 61%N.
Proof. exact qx_premises. Qed.
Example C10_pass_fixpoint_second_pass :
  let sw1 := world_after (pass10 (ex_world 1 S0)) in
  world_after (pass10 sw1) = sw1 /\ snd (pass10 sw1) = SDone false /\
  map ev_key (member_evs (snd (fst (pass10 sw1)))) = [ex_key 1 1; ex_key 2 2; ex_key 1 3].
Proof. exact qx_second_pass_same_world. Qed.
