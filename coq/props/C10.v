(** C10 — Reconciliation converges from any crash, fault or drift (PARTIAL).
    What is proved: every write request Package Operator issues is idempotent, so a pass repeated after a
    restart, after an error before the effect, or after an effect whose response was lost, re-issues
    requests that change nothing where the effect already took place. A pass of the model is a function
    of the stored world alone (no in-memory state survives a pass), by construction of ObjectSet.v /
    Phase.v and checked against the code by running every pass on a fresh controller and cache.
    Also proved: quiescence of a phase - the desired state is a fixpoint of the phase reconciler (a settled object is
    re-applied without any change; every successful apply leaves the object settled; a completed pass over a
    phase is followed by passes that change neither the store nor the counters: "further reconciles change nothing").
    What is NOT proved (explored by fault enumeration on the real code in checks/C10.py): that the
    sequence of passes reaches the clean-run end state from every disturbed state, for multi-revision
    deployments and under every fair schedule; quiescence of the ObjectSet's own status writes. Statements only. *)
From Coq Require Import List NArith ZArith Bool.
From PKO Require Import Base Owner OwnerProofs Api ApiProofs Phase PhaseProofs AdoptProofs ConvergeProofs FixpointProofs.
Import ListNotations.

Theorem C10_apply_idempotent :
  forall w k ap w1 o cr,
    NoDup (map r_uid (ap_owners ap)) ->
    api_apply w k ap = Some (w1, o, cr) -> api_apply w1 k ap = Some (w1, o, false).
Proof. exact api_apply_idem. Qed.
Print Assumptions C10_apply_idempotent.

Theorem C10_release_patch_idempotent :
  forall w k owners w1 o,
    api_release_patch w k owners = Some (w1, Some o) -> api_release_patch w1 k owners = Some (w1, Some o).
Proof. exact api_release_idem. Qed.
Print Assumptions C10_release_patch_idempotent.

Theorem C10_delete_not_twice :
  forall w k uid rv w1, api_delete w k uid rv = (w1, DOk) -> exists r, api_delete w1 k uid rv = (w1, r).
Proof. exact api_delete_idem. Qed.
Print Assumptions C10_delete_not_twice.

(** Further reconciles change nothing, per object: re-applying right after a successful apply leaves the
    stored object, the resourceVersion counter and the result unchanged. *)
Theorem C10_reapply_changes_nothing :
  forall w k rd ap w1 evs o,
    NoDup (map r_uid (ap_owners ap)) ->
    do_apply idw w k rd ap = (w1, evs, ROk o) ->
    forall rd', do_apply idw w1 k rd' ap = (w1, [EApply k rd' (Some o) (POk o)], ROk o).
Proof. exact do_apply_idem. Qed.
Print Assumptions C10_reapply_changes_nothing.

(** The owner-reference merge of server-side apply is idempotent for any stored list. *)
Theorem C10_owner_merge_idempotent :
  forall stored patch, NoDup (map r_uid patch) -> merge_refs (merge_refs stored patch) patch = merge_refs stored patch.
Proof. exact merge_refs_idem. Qed.
Print Assumptions C10_owner_merge_idempotent.

(** The desired state is a fixpoint: an object that is cached, controlled by the owner, carries the desired body,
    the owner's revision and package label and a well-formed owner list is re-applied by an unpaused pass without
    any change to the store or the counters (the one request is a no-op apply), for every controller flavour. *)
Theorem C10_settled_object_noop :
  forall c w ow prev p o,
    ow_paused ow = false ->
    set_controller_l (flavor_strat (c_flavor c)) (ow_id ow) (k_ns (key_of ow p)) [] <> None ->
    lookup (key_of ow p) (w_store w) = Some o -> settled c ow p o ->
    reconcile_object c idw w ow prev p = (w, [EApply (key_of ow p) (Some o) (Some o) (POk o)], ROk o).
Proof. exact rec_obj_settled. Qed.
Print Assumptions C10_settled_object_noop.

(** Every successful apply of a pass (create, refresh of an owned object, permitted adoption) leaves the object
    settled, for any stored object with a well-formed owner list. *)
Theorem C10_apply_settles :
  forall c w ow prev p w1 e1 o1,
    ow_paused ow = false ->
    (forall cu, lookup (key_of ow p) (w_store w) = Some cu -> obj_wf (flavor_strat (c_flavor c)) (ow_id ow) cu) ->
    reconcile_object c idw w ow prev p = (w1, e1, ROk o1) -> e1 <> [] ->
    lookup (key_of ow p) (w_store w1) = Some o1 /\ settled c ow p o1.
Proof. exact rec_obj_settles. Qed.
Print Assumptions C10_apply_settles.

(** Quiescence of a phase: after a completed, unpaused pass over a phase with distinct keys (and well-formed stored
    owner lists) reconciling the phase again - from any accumulator, i.e. inside any later pass - leaves the store
    and both counters exactly as they are, sends only no-op applies and completes again. *)
Theorem C10_phase_pass_is_fixpoint :
  forall c ow prev ps w acc failed w' evs a f,
    ow_paused ow = false -> NoDup (map (key_of ow) ps) ->
    (forall p cu, In p ps -> lookup (key_of ow p) (w_store w) = Some cu -> obj_wf (flavor_strat (c_flavor c)) (ow_id ow) cu) ->
    reconcile_objects c idw w ow prev ps acc failed = (w', evs, PhOk a f) ->
    forall acc2 failed2, exists evs2 a2 f2,
      reconcile_objects c idw w' ow prev ps acc2 failed2 = (w', evs2, PhOk a2 f2) /\ Forall noop_ev evs2.
Proof. exact phase_pass_is_fixpoint. Qed.
Print Assumptions C10_phase_pass_is_fixpoint.
