(** C19 (no package content or cluster object state can crash Package Operator): property theorems.
    Statements only; every proof is `exact <lemma>`.

    PARTIAL by nature: a Gallina function cannot panic, so the models of theories/NoPanic.v make
    partiality explicit (`Ok | Err | Panic site`) at exactly the places the translator finds in the
    source. What is stated here concerns the logic of package-operator's own code at those places.
    NOT covered by any model: panics inside yaml, text/template, sprig, cel-go, jsonpath,
    go-containerregistry, apimachinery; nil map writes, integer division, stack exhaustion; the
    run-time part of the check fuzzes those through the real code.

    The primary statements speak about the PRESENT tree. Five stages panicked in earlier trees; those
    shapes survive as `_v0` models and `C19_v0_..._refuted` theorems, each naming the fixing commit, and
    as `Fixed` entries of the site table that are not accepted by the inventory check any more. *)
From Coq Require Import List Bool NArith ZArith String.
From PKO Require Import NoPanic NoPanicProofs.
From PKOCorr Require Import C19Corr.
Import ListNotations.
Local Open Scope string_scope.

(** ---- the site table *)

(** every constructor of [site_id] is classified: it is in the table the inventory is checked against
    exactly if it is not a historical (repaired) site; no two entries share an identity *)
Theorem C19_table_classifies_every_site : forall i, is_accounted (descr i) = negb (historical i).
Proof. exact accounted_iff_current. Qed.
Print Assumptions C19_table_classifies_every_site.

Theorem C19_table_identities_distinct : distinct_sites (map fst accounted) = true.
Proof. exact accounted_identities_distinct. Qed.
Print Assumptions C19_table_identities_distinct.

(** ---- (1) condition-map annotation and the phase collector *)

(** For every object list - whatever the condition-map annotations say - parsing, validation and the
    collector return a result or an error. *)
Theorem C19_collector_total : forall phases objs s, render_and_collect phases objs <> Panic s.
Proof. exact collector_total. Qed.
Print Assumptions C19_collector_total.

(** The parser accepts exactly the grammar; the index expressions inside it are unreachable; the
    collector itself is total on lists that follow the grammar (what parseObjects guarantees). *)
Theorem C19_condmap_grammar : forall anno, condmap_ok anno = true <-> exists m, parse_condmap anno = Ok m.
Proof. exact parse_condmap_ok_iff. Qed.
Print Assumptions C19_condmap_grammar.

Theorem C19_condmap_index_sites_unreachable : forall anno s, parse_condmap anno <> Panic s.
Proof. exact parse_condmap_no_panic. Qed.
Print Assumptions C19_condmap_index_sites_unreachable.

Theorem C19_collector_total_if_validated : forall phases objs,
  forallb (fun o => condmap_ok (o_condmap o)) objs = true -> exists n, collect phases objs = Ok n.
Proof. exact collector_total_if_validated. Qed.
Print Assumptions C19_collector_total_if_validated.

(** HISTORICAL, F-C19a, fixed by commit 6890742 ("reject a malformed condition-map annotation when parsing
    package objects"): before it the default validators accepted and the collector panicked. The present
    pipeline is that one with exactly this panic turned into a violation. *)
Theorem C19_v0_collector_panics_refuted :
  exists phases objs, validators_accept phases objs = true /\ render_and_collect_v0 phases objs = Panic S_v0_col_panic.
Proof. exact v0_collector_panics_refuted. Qed.
Print Assumptions C19_v0_collector_panics_refuted.

Theorem C19_collector_repairs_v0 : forall phases objs,
  render_and_collect phases objs = repaired (render_and_collect_v0 phases objs).
Proof. exact collector_repairs_v0. Qed.
Print Assumptions C19_collector_repairs_v0.

(** ---- (2) mapConditions over arbitrary status shapes *)

Theorem C19_map_conditions_total : forall mappings obj s, map_conditions mappings obj <> Panic s.
Proof. exact map_conditions_total. Qed.
Print Assumptions C19_map_conditions_total.

(** ---- (3) ObjectTemplate: conditions of the templated object, source items *)

Theorem C19_template_conditions_total : forall gen obj s, template_conditions gen obj <> Panic s.
Proof. exact template_conditions_total. Qed.
Print Assumptions C19_template_conditions_total.

(** for every behaviour of the regular expression, jsonpath and SetNestedField *)
Theorem C19_template_source_total : forall key_empty submatches executed destination set_ok s,
  copy_source_item key_empty submatches executed destination set_ok <> Panic s.
Proof. exact template_source_total. Qed.
Print Assumptions C19_template_source_total.

(** HISTORICAL, F-C19c and F-C19d, fixed by commit a818a7e ("do not panic on malformed source items and
    conditions in ObjectTemplates"): a current condition entry without `reason`; an empty destination,
    which the CRD schema admits. *)
Theorem C19_v0_template_conditions_refuted : exists gen obj, template_conditions_v0 gen obj = Panic S_v0_ot_cond_reason.
Proof. exact v0_template_conditions_refuted. Qed.
Print Assumptions C19_v0_template_conditions_refuted.

Theorem C19_v0_template_source_refuted :
  exists executed, copy_source_item_v0 false (Some ["{.data.k}"; ".data.k"; ""]) (Some executed) "" true = Panic S_v0_ot_destination0.
Proof. exact v0_template_source_refuted. Qed.
Print Assumptions C19_v0_template_source_refuted.

Theorem C19_template_conditions_repairs_v0 : forall gen obj,
  template_conditions gen obj = repaired (template_conditions_v0 gen obj).
Proof. exact template_conditions_repairs_v0. Qed.
Print Assumptions C19_template_conditions_repairs_v0.

Theorem C19_template_source_repairs_v0 : forall key_empty submatches executed destination set_ok,
  copy_source_item key_empty submatches executed destination set_ok
  = repaired (copy_source_item_v0 key_empty submatches executed destination set_ok).
Proof. exact template_source_repairs_v0. Qed.
Print Assumptions C19_template_source_repairs_v0.

(** ---- (4) FromOCI *)

Theorem C19_oci_total : forall evs files s, from_oci evs files <> Panic s.
Proof. exact oci_total. Qed.
Print Assumptions C19_oci_total.

(** HISTORICAL, F-C19b, fixed by commit e1805ac ("return tar read errors from FromOCI instead of
    dereferencing a nil header"): the layer breaks off inside the body of an entry FromOCI skips, or
    Next fails otherwise. *)
Theorem C19_v0_oci_refuted :
  from_oci_v0 [THeader (PUnder false) true; THeader (PUnder true) false] 0 = Panic S_v0_imp_hdr
  /\ from_oci_v0 [THeader POutside false] 0 = Panic S_v0_imp_hdr
  /\ from_oci_v0 [THeader (PUnder false) true; TError] 0 = Panic S_v0_imp_hdr.
Proof. exact v0_oci_refuted. Qed.
Print Assumptions C19_v0_oci_refuted.

Theorem C19_oci_repairs_v0 : forall evs files, from_oci evs files = repaired (from_oci_v0 evs files).
Proof. exact oci_repairs_v0. Qed.
Print Assumptions C19_oci_repairs_v0.

(** ---- (4b) x-kubernetes-validations in the package's config schema *)

(** for every behaviour of the type-information and compilation library *)
Theorem C19_xvalidations_total : forall se cn te tn rules dn s, compile_xvalidations se cn te tn rules dn <> Panic s.
Proof. exact xvalidations_total. Qed.
Print Assumptions C19_xvalidations_total.

(** HISTORICAL, F-C19f (found by the fuzz stage), fixed by commit 35e301a ("compile x-kubernetes-validations
    of the config schema with a CEL environment"): one rule in a structurally valid schema; Compile was
    handed a nil environment set. *)
Theorem C19_v0_xvalidations_refuted : compile_xvalidations_v0 false false false false 1 false = Panic S_v0_mv_nil_envset.
Proof. exact v0_xvalidations_refuted. Qed.
Print Assumptions C19_v0_xvalidations_refuted.

Theorem C19_xvalidations_agrees_with_v0 : forall se cn te tn rules dn,
  compile_xvalidations_v0 se cn te tn rules dn = Panic S_v0_mv_nil_envset
  \/ compile_xvalidations se cn te tn rules dn = compile_xvalidations_v0 se cn te tn rules dn.
Proof. exact xvalidations_agrees_with_v0. Qed.
Print Assumptions C19_xvalidations_agrees_with_v0.

(** ---- (6) the include recursion guard of the template function table *)

(** Whatever a template does - any sequence of includes and returns over the helper names [names] - at no
    point of the render are more than (limit + 1) * |names| includes active; per name never more than
    limit + 1. (limit = recursionDepth = 1000.) *)
Theorem C19_include_depth_bounded : forall limit names ops,
  NoDup names -> (forall n, In (Enter n) ops -> In n names) ->
  depth (grun Decrement limit ops g_init) <= S limit * List.length names.
Proof. exact include_depth_bounded. Qed.
Print Assumptions C19_include_depth_bounded.

Theorem C19_include_per_name_bounded : forall limit ops n,
  count_occ PeanoNat.Nat.eq_dec (g_stack (grun Decrement limit ops g_init)) n <= S limit.
Proof. exact include_per_name_bounded. Qed.
Print Assumptions C19_include_per_name_bounded.

(** REFUTED for the delete-on-exit shape of the guard (seed C19-E; never part of the tree): one helper that
    includes itself for a call that returns and then includes itself again reaches every depth. *)
Theorem C19_delete_on_exit_unbounded_refuted : forall limit d, 1 <= limit ->
  depth (grun Delete limit (leaf_first_ops d) g_init) = d.
Proof. exact delete_on_exit_unbounded_refuted. Qed.
Print Assumptions C19_delete_on_exit_unbounded_refuted.

(** the run-time monitor's nesting bound is the one the guard model guarantees *)
Theorem C19_include_monitor_sound : forall names ops,
  NoDup names -> (forall n, In (Enter n) ops -> In n names) ->
  forall o, o <> ObsRunaway -> (forall f, o <> ObsPanic f) ->
  monitor (ScInclude (N.of_nat (List.length names)) (N.of_nat (depth (grun Decrement include_limit ops g_init))), o) = true.
Proof. exact include_monitor_sound. Qed.
Print Assumptions C19_include_monitor_sound.

(** ---- (7) uniqueInScope constraint check of the deployers *)

Theorem C19_check_unique_total : forall has_unique list_ok s, check_unique has_unique list_ok <> Panic s.
Proof. exact check_unique_total. Qed.
Print Assumptions C19_check_unique_total.

(** HISTORICAL, F-C19g, fixed by commit 9533cda ("ClusterPackage deployer panicked on uniqueInScope constraints
    (nil uncached client)"): NewClusterPackageDeployer left uncachedClient unset. *)
Theorem C19_v0_cluster_deployer_refuted : forall list_ok, check_unique_v0_cluster true list_ok = Panic S_v0_pd_uncachedClient_unset.
Proof. exact v0_cluster_deployer_refuted. Qed.
Print Assumptions C19_v0_cluster_deployer_refuted.

(** ---- (5) annotation owner strategy (multi-cluster ObjectSetPhase controllers) - OPEN *)

(** REFUTED (F-C19e, boxcutter, open): owners annotation that is not a JSON list of references, on the
    cluster object (reconcile, teardown, event handler) or on the desired object of the phase. *)
Theorem C19_owner_annotation_refuted :
  phase_owner_reads false AAbsent (Some ANotJSON) = Panic S_bx_a_getOwnerReferences_panic
  /\ phase_owner_reads true AAbsent (Some (AJSON (JObj []))) = Panic S_bx_a_getOwnerReferences_panic
  /\ phase_owner_reads false (AJSON (JArr [JInt 1])) None = Panic S_bx_a_getOwnerReferences_panic.
Proof. exact owner_annotation_refuted. Qed.
Print Assumptions C19_owner_annotation_refuted.

(** Strongest true variant: the only panic is getOwnerReferences' and needs an annotation that is not a
    JSON list of references. Missing: an error return in boxcutter (or a guard in front of it). *)
Theorem C19_owner_annotation_partial : forall teardown desired actual s,
  phase_owner_reads teardown desired actual = Panic s ->
  s = S_bx_a_getOwnerReferences_panic
  /\ ((teardown = false /\ anno_wellformed desired = false)
      \/ exists a, actual = Some a /\ anno_wellformed a = false).
Proof. exact owner_annotation_partial. Qed.
Print Assumptions C19_owner_annotation_partial.

(** ---- monitor *)

Theorem C19_monitor_sound : forall sc x, wellformed sc = true -> model sc = Some x -> monitor (sc, obs_of x) = true.
Proof. exact monitor_sound. Qed.
Print Assumptions C19_monitor_sound.

(** ---- the hypotheses are satisfiable *)

Example C19_validated_objects_exist :
  let objs := [mkobj (Some "deploy") true true 1 (Some (bytes_of "Available => my.io/Available"))] in
  validators_accept ["deploy"] objs = true
  /\ forallb (fun o => condmap_ok (o_condmap o)) objs = true
  /\ render_and_collect ["deploy"] objs = Ok 1%N.
Proof. exact validated_objects_exist. Qed.
Print Assumptions C19_validated_objects_exist.

Example C19_clean_stream_exists :
  no_tar_error [THeader (PUnder false) true; THeader (PUnder true) true] = true
  /\ from_oci [THeader (PUnder false) true; THeader (PUnder true) true] 0 = Ok 1%N.
Proof. exact clean_stream_exists. Qed.
Print Assumptions C19_clean_stream_exists.

Example C19_wellformed_owner_annotation_exists :
  let a := AJSON (JArr [JObj [("apiVersion", JStr "package-operator.run/v1alpha1"); ("kind", JStr "ObjectSetPhase");
                               ("name", JStr "n"); ("uid", JStr "u"); ("controller", JBool true)]]) in
  anno_wellformed a = true /\ phase_owner_reads false a (Some a) = Ok tt.
Proof. exact wellformed_owner_annotation_exists. Qed.
Print Assumptions C19_wellformed_owner_annotation_exists.
