(** C19 (no package content or cluster object state can crash Package Operator): property theorems.
    Statements only; every proof is `exact <lemma>`.

    PARTIAL by nature: a Gallina function cannot panic, so the models of theories/NoPanic.v make
    partiality explicit (`Ok | Err | Panic site`) at exactly the places the translator finds in the
    source. What is stated here concerns the logic of package-operator's own code at those places.
    NOT covered by any model: panics inside yaml, text/template, sprig, cel-go, jsonpath,
    go-containerregistry, apimachinery; nil map writes, integer division, stack exhaustion; the
    run-time part of the check fuzzes those through the real code. *)
From Coq Require Import List Bool NArith ZArith String.
From PKO Require Import NoPanic NoPanicProofs.
From PKOCorr Require Import C19Corr.
Import ListNotations.
Local Open Scope string_scope.

(** ---- the site table *)

(** every constructor of [site_id] is in the table, and no two entries share an identity *)
Theorem C19_table_complete : forall i : site_id, In i all_sites.
Proof. exact all_sites_complete. Qed.
Print Assumptions C19_table_complete.

Theorem C19_table_identities_distinct : distinct_sites (map fst accounted) = true.
Proof. exact accounted_identities_distinct. Qed.
Print Assumptions C19_table_identities_distinct.

(** ---- (1) condition-map annotation and the phase collector *)

(** The collector is total for every object list whose condition-map annotations follow the grammar
    (which no validator of the present tree enforces). *)
Theorem C19_collector_total_if_validated : forall phases objs,
  forallb (fun o => condmap_ok (o_condmap o)) objs = true -> exists n, collect phases objs = Ok n.
Proof. exact collector_total_if_validated. Qed.
Print Assumptions C19_collector_total_if_validated.

(** The parser accepts exactly that grammar; the index expressions inside it are unreachable. *)
Theorem C19_condmap_grammar : forall anno, condmap_ok anno = true <-> exists m, parse_condmap anno = Ok m.
Proof. exact parse_condmap_ok_iff. Qed.
Print Assumptions C19_condmap_grammar.

Theorem C19_condmap_index_sites_unreachable : forall anno s, parse_condmap anno <> Panic s.
Proof. exact parse_condmap_no_panic. Qed.
Print Assumptions C19_condmap_index_sites_unreachable.

(** REFUTED (F-C19a): the default validators accept, the collector panics. *)
Theorem C19_collector_panics_refuted :
  exists phases objs, validators_accept phases objs = true /\ render_and_collect phases objs = Panic S_col_panic.
Proof. exact collector_panics_refuted. Qed.
Print Assumptions C19_collector_panics_refuted.

(** Strongest true variant: the only Panic constructor reachable from validated objects is the explicit
    panic of AddObjects, and only with an annotation outside the grammar. Missing for the full claim:
    a validator for the annotation. *)
Theorem C19_collector_partial : forall phases objs s,
  render_and_collect phases objs = Panic s ->
  s = S_col_panic /\ existsb (fun o => negb (condmap_ok (o_condmap o))) objs = true.
Proof. exact collector_partial. Qed.
Print Assumptions C19_collector_partial.

(** With the grammar enforced before the collector the stage is total, and nothing changes for
    packages that follow it. *)
Theorem C19_collector_fixed_total : forall phases objs s, render_and_collect_fixed phases objs <> Panic s.
Proof. exact collector_fixed_total. Qed.
Print Assumptions C19_collector_fixed_total.

Theorem C19_collector_fixed_agrees : forall phases objs,
  forallb (fun o => condmap_ok (o_condmap o)) objs = true ->
  render_and_collect_fixed phases objs = render_and_collect phases objs.
Proof. exact collector_fixed_agrees. Qed.
Print Assumptions C19_collector_fixed_agrees.

(** ---- (2) mapConditions over arbitrary status shapes *)

Theorem C19_map_conditions_total : forall mappings obj s, map_conditions mappings obj <> Panic s.
Proof. exact map_conditions_total. Qed.
Print Assumptions C19_map_conditions_total.

(** ---- (3) ObjectTemplate: conditions of the templated object, source items *)

(** REFUTED (F-C19c): a current condition entry without `reason`. *)
Theorem C19_template_conditions_refuted : exists gen obj, template_conditions gen obj = Panic S_ot_cond_reason.
Proof. exact template_conditions_refuted. Qed.
Print Assumptions C19_template_conditions_refuted.

(** Strongest true variant: only the four assertions can fire, and only on an entry one of whose
    type/status/reason/message is not a string. Missing: comma-ok assertions. *)
Theorem C19_template_conditions_partial : forall gen obj s,
  template_conditions gen obj = Panic s -> In s ot_assert_sites /\ conditions_wellformed obj = false.
Proof. exact template_conditions_partial. Qed.
Print Assumptions C19_template_conditions_partial.

Theorem C19_template_conditions_each_site_reachable :
  forall s, In s ot_assert_sites -> exists gen obj, template_conditions gen obj = Panic s.
Proof. exact template_conditions_each_site_reachable. Qed.
Print Assumptions C19_template_conditions_each_site_reachable.

(** REFUTED (F-C19d): an empty destination, which the CRD schema admits. *)
Theorem C19_template_source_refuted :
  exists executed, copy_source_item false (Some ["{.data.k}"; ".data.k"; ""]) (Some executed) "" true = Panic S_ot_destination0.
Proof. exact template_source_refuted. Qed.
Print Assumptions C19_template_source_refuted.

(** Strongest true variant, for every behaviour of the regular expression, jsonpath and
    SetNestedField: the only panic is the index of an empty destination. Missing: a length check
    (or minLength in the CRD). *)
Theorem C19_template_source_partial : forall key_empty submatches executed destination set_ok s,
  copy_source_item key_empty submatches executed destination set_ok = Panic s ->
  s = S_ot_destination0 /\ destination = "".
Proof. exact template_source_partial. Qed.
Print Assumptions C19_template_source_partial.

Theorem C19_template_source_fixed_total : forall key_empty submatches executed destination set_ok s,
  copy_source_item_fixed key_empty submatches executed destination set_ok <> Panic s.
Proof. exact template_source_fixed_total. Qed.
Print Assumptions C19_template_source_fixed_total.

(** ---- (4) FromOCI *)

(** REFUTED (F-C19b): the layer's tar stream breaks off inside the body of an entry FromOCI skips (a dot
    file, a file outside package/), or Next fails otherwise. *)
Theorem C19_oci_refuted :
  from_oci [THeader (PUnder false) true; THeader (PUnder true) false] 0 = Panic S_imp_hdr
  /\ from_oci [THeader POutside false] 0 = Panic S_imp_hdr
  /\ from_oci [THeader (PUnder false) true; TError] 0 = Panic S_imp_hdr.
Proof. exact oci_refuted. Qed.
Print Assumptions C19_oci_refuted.

(** Strongest true variant: the only panic is the nil header after a read error. Missing: the
    `err != nil` check. *)
Theorem C19_oci_partial : forall evs files s,
  from_oci evs files = Panic s -> s = S_imp_hdr /\ no_tar_error evs = false.
Proof. exact oci_partial. Qed.
Print Assumptions C19_oci_partial.

Theorem C19_oci_fixed_total : forall evs files s, from_oci_fixed evs files <> Panic s.
Proof. exact oci_fixed_total. Qed.
Print Assumptions C19_oci_fixed_total.

Theorem C19_oci_fixed_agrees : forall evs files, no_tar_error evs = true -> from_oci_fixed evs files = from_oci evs files.
Proof. exact oci_fixed_agrees. Qed.
Print Assumptions C19_oci_fixed_agrees.

(** ---- (4b) x-kubernetes-validations in the package's config schema *)

(** REFUTED (F-C19f, found by the fuzz stage): one rule in a structurally valid schema; Compile is
    handed a nil environment set. *)
Theorem C19_xvalidations_refuted : compile_xvalidations false false false false 1 false false = Panic S_mv_nil_envset.
Proof. exact xvalidations_refuted. Qed.
Print Assumptions C19_xvalidations_refuted.

(** Strongest true variant, for every behaviour of the type-information and compilation library: the
    only panic needs a rule, no schema error and the nil environment set. Missing: a base environment. *)
Theorem C19_xvalidations_partial : forall se cn te tn rules dn base s,
  compile_xvalidations se cn te tn rules dn base = Panic s ->
  s = S_mv_nil_envset /\ base = false /\ rules <> 0 /\ se = false.
Proof. exact xvalidations_partial. Qed.
Print Assumptions C19_xvalidations_partial.

Theorem C19_xvalidations_total_with_env : forall se cn te tn rules dn s,
  compile_xvalidations se cn te tn rules dn true <> Panic s.
Proof. exact xvalidations_total_with_env. Qed.
Print Assumptions C19_xvalidations_total_with_env.

(** ---- (5) annotation owner strategy (multi-cluster ObjectSetPhase controllers) *)

(** REFUTED (F-C19e): owners annotation that is not a JSON list of references, on the cluster
    object (reconcile and teardown) or on the desired object of the phase. *)
Theorem C19_owner_annotation_refuted :
  phase_owner_reads false AAbsent (Some ANotJSON) = Panic S_bx_a_getOwnerReferences_panic
  /\ phase_owner_reads true AAbsent (Some (AJSON (JObj []))) = Panic S_bx_a_getOwnerReferences_panic
  /\ phase_owner_reads false (AJSON (JArr [JInt 1])) None = Panic S_bx_a_getOwnerReferences_panic.
Proof. exact owner_annotation_refuted. Qed.
Print Assumptions C19_owner_annotation_refuted.

Theorem C19_owner_annotation_partial : forall teardown desired actual s,
  phase_owner_reads teardown desired actual = Panic s ->
  s = S_bx_a_getOwnerReferences_panic
  /\ ((teardown = false /\ anno_wellformed desired = false)
      \/ exists a, actual = Some a /\ anno_wellformed a = false).
Proof. exact owner_annotation_partial. Qed.
Print Assumptions C19_owner_annotation_partial.

(** ---- monitor and repaired shapes *)

Theorem C19_monitor_sound : forall sc x, wellformed sc = true -> model sc = Some x -> monitor (sc, obs_of x) = true.
Proof. exact monitor_sound. Qed.
Print Assumptions C19_monitor_sound.

Theorem C19_fixed_models_are_repairs :
  (forall phases objs, render_and_collect_fixed phases objs = repaired (render_and_collect phases objs))
  /\ (forall evs files, from_oci_fixed evs files = repaired (from_oci evs files))
  /\ (forall k sm ex d ok, copy_source_item_fixed k sm ex d ok = repaired (copy_source_item k sm ex d ok)).
Proof. exact fixed_models_are_repairs. Qed.
Print Assumptions C19_fixed_models_are_repairs.

(** ---- the hypotheses are satisfiable *)

Example C19_validated_objects_exist :
  let objs := [mkobj (Some "deploy") true true 1 (Some (bytes_of "Available => my.io/Available"))] in
  validators_accept ["deploy"] objs = true
  /\ forallb (fun o => condmap_ok (o_condmap o)) objs = true
  /\ render_and_collect ["deploy"] objs = Ok 1%N.
Proof. exact validated_objects_exist. Qed.
Print Assumptions C19_validated_objects_exist.

Example C19_wellformed_templated_exists :
  let obj := [("metadata", JObj [("generation", JInt 1)]);
              ("status", JObj [("conditions", JArr [JObj [("type", JStr "Ready"); ("status", JStr "True");
                 ("reason", JStr "Ok"); ("message", JStr "all good"); ("observedGeneration", JInt 1)]])])] in
  conditions_wellformed obj = true /\ template_conditions 1 obj = Ok ["Ready"].
Proof. exact wellformed_templated_exists. Qed.
Print Assumptions C19_wellformed_templated_exists.

Example C19_clean_stream_exists :
  no_tar_error [THeader (PUnder false) true; THeader (PUnder true) true] = true
  /\ from_oci [THeader (PUnder false) true; THeader (PUnder true) true] 0 = Ok 1%N.
Proof. exact clean_stream_exists. Qed.
Print Assumptions C19_clean_stream_exists.

Example C19_wellformed_owner_annotation_exists :
  let a := AJSON (JArr [JObj [("apiVersion", JStr "package-operator.run/v1alpha1"); ("kind", JStr "ObjectSetPhase");
                               ("name", JStr "n"); ("uid", JStr "u"); ("controller", JBool true)]]) in
  anno_wellformed a = true /\ phase_owner_reads false a (Some a) = Ok tt.
Proof. exact wellformed_owner_annotation_exists. Qed.
Print Assumptions C19_wellformed_owner_annotation_exists.
