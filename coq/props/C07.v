(** C07 — One ObjectSet per template, with unique, increasing revision numbers. Statements only.
    [hash] is ANY function (template digest, collision count) -> name; [slices] are the ObjectSlices of the namespace.
    [dep_pass] / [do_step] / [run] are the code as it is; the slow-cache test as it was before commit 0384cff is kept as
    [dep_pass_v0] / [run_v0] with a [_v0_refuted] theorem only. Histories range over template edits (reverts, no-ops),
    pause and limit edits, deployment passes with an API fault at any request, full passes of the ObjectSet controller
    (ObjectSet.v), revision reconciler passes, arbitrary status changes of ObjectSets, disappearance of deleted
    ObjectSets, probe changes.  [ok_step] excludes only a deployment pass with a stale List. *)
From Coq Require Import List NArith ZArith Bool.
Local Open Scope N_scope.
From PKO Require Import Base Owner Api Phase ObjectSet Deployment DeploymentProofs.
From PKOCorr Require Import DeployCorr C08Corr C07Corr.
Import ListNotations.

(** No two ObjectSets of a deployment share a non-zero revision: over all histories with fresh Lists. *)
Theorem C07_revisions_unique :
  forall hash slices w0 h, Inv w0 -> Forall ok_step h ->
  forall a b, In a (dw_sets (run hash slices w0 h)) -> In b (dw_sets (run hash slices w0 h)) ->
    ds_sel a = true -> ds_sel b = true -> sname a <> sname b -> srev a <> 0%Z -> srev a <> srev b.
Proof. exact revisions_unique. Qed.
Print Assumptions C07_revisions_unique.

(** The invariant itself (unique names, unique non-zero revisions, an ObjectSet without revision names all others,
    which have one) is kept by every step. *)
Theorem C07_invariant_step :
  forall hash slices w s, Inv w -> ok_step s -> Inv (do_step hash slices w s).
Proof. exact (fun hash slices => inv_step hash slices true true). Qed.
Print Assumptions C07_invariant_step.

(** F-C07b (open): in the create-not-yet-listed window uniqueness fails once the template is edited inside the window:
    two ObjectSets with the same previous list get the same revision number. *)
Theorem C07_revisions_unique_stale_refuted :
  exists w0 h a b, Inv w0 /\ In a (dw_sets (run wit_hash no_slices w0 h)) /\ In b (dw_sets (run wit_hash no_slices w0 h)) /\
    ds_sel a = true /\ ds_sel b = true /\ sname a <> sname b /\ srev a <> 0%Z /\ srev a = srev b /\
    os_prev (ds_set a) = os_prev (ds_set b).
Proof. exact revisions_unique_stale_refuted. Qed.
Print Assumptions C07_revisions_unique_stale_refuted.

(** Every Create request of a pass (any fault, fresh or stale List): the deployment is not paused, the template has
    phases, every listed ObjectSet has reported its revision, the newest listed one does not carry the template hash;
    the name and the hash annotation are the template hash, the spec is the template, and the previous list names
    every listed ObjectSet (with a fresh List: every ObjectSet of the deployment, terminating ones included). *)
Theorem C07_create_justified :
  forall hash fault slices stale w w' evs r n phs prev h cr,
    NoDup (map sname (dw_sets w)) -> dep_pass hash fault slices stale w = (w', evs, r) ->
    In (DCreate n phs prev h cr) evs ->
    d_paused (dw_dep w) = false /\ d_phases (dw_dep w) <> [] /\ (forall s, In s (listed stale w) -> srev s <> 0%Z) /\
    has_current (dep_hashed hash w) (listed stale w) = false /\
    n = hash (d_digest (dw_dep w)) (d_cc (dw_dep w)) /\ h = n /\ phs = d_phases (dw_dep w) /\ prev = map sname (listed stale w).
Proof. exact (fun hash fault slices => create_justified hash fault slices true true). Qed.
Print Assumptions C07_create_justified.

Theorem C07_listed_fresh :
  forall w s, In s (listed false w) <-> In s (dw_sets w) /\ ds_sel s = true.
Proof. exact listed_fresh_iff. Qed.
Print Assumptions C07_listed_fresh.

(** Revision numbers: a step either keeps an ObjectSet's revision, or takes it from 0 to a number greater than the
    revision of every other ObjectSet of the deployment (or the ObjectSet is the one the pass has just created). *)
Theorem C07_revision_increasing :
  forall hash slices w s x x',
    Inv w -> ok_step s -> In x (dw_sets w) -> In x' (dw_sets (do_step hash slices w s)) -> sname x' = sname x ->
    srev x' = srev x \/
    (srev x = 0%Z /\ srev x' <> 0%Z /\
     (ds_sel x = true -> forall b, In b (dw_sets w) -> ds_sel b = true -> sname b <> sname x -> (srev b < srev x')%Z)) \/
    (exists stale f, s = SDep stale f /\ srev x' = 0%Z).
Proof. exact (fun hash slices => revisions_of_step hash slices true true). Qed.
Print Assumptions C07_revision_increasing.

(** Existence: template unmatched, unpaused, phases present, all revisions reported, name free => created. *)
Theorem C07_create_when :
  forall hash slices stale w w' evs r,
    NoDup (map sname (dw_sets w)) -> d_paused (dw_dep w) = false -> d_phases (dw_dep w) <> [] ->
    has_rev0 (listed stale w) = false -> has_current (dep_hashed hash w) (listed stale w) = false ->
    find_dset (dw_sets w) (hash (d_digest (dw_dep w)) (d_cc (dw_dep w))) = None ->
    dep_pass hash None slices stale w = (w', evs, r) ->
    In (DCreate (hash (d_digest (dw_dep w)) (d_cc (dw_dep w))) (d_phases (dw_dep w)) (map sname (listed stale w))
                (hash (d_digest (dw_dep w)) (d_cc (dw_dep w))) CrOk) evs.
Proof. exact (fun hash slices => create_when hash slices true true). Qed.
Print Assumptions C07_create_when.

(** A clash with an archived, spec-different, foreign or older holder of the name (the last case is the rollback to
    an earlier template) is not resolved by reuse: nothing is created, the holder keeps name, revision, previous list,
    labels, hash annotation, controller and spec, and the collision counter is bumped; [C07_create_when] then
    applies to the new hash. *)
Theorem C07_no_reuse :
  forall hash slices stale w w' evs r c,
    NoDup (map sname (dw_sets w)) -> d_paused (dw_dep w) = false -> d_phases (dw_dep w) <> [] ->
    has_rev0 (listed stale w) = false -> has_current (dep_hashed hash w) (listed stale w) = false ->
    In c (dw_sets w) -> sname c = hash (d_digest (dw_dep w)) (d_cc (dw_dep w)) ->
    (is_archived c = true \/ phases_eqb (d_phases (dw_dep w)) (os_phases (ds_set c)) = false \/
     ds_ctrl c <> oi_uid (d_id (dw_dep w)) \/
     ((srev c < latest_revision (listed stale w))%Z /\ srev c <> 0%Z)) ->
    dep_pass hash None slices stale w = (w', evs, r) ->
    r = DpDone /\ created_name evs = None /\
    In (DCreate (sname c) (d_phases (dw_dep w)) (map sname (listed stale w)) (sname c) CrExists) evs /\
    d_cc (dw_dep w') = bump_cc (d_cc (dw_dep w)) /\
    exists c', In c' (dw_sets w') /\ sid c' = sid c.
Proof. exact no_reuse_now. Qed.
Print Assumptions C07_no_reuse.

(** Bounded progress after such a clash: the pass stores the bumped counter, and whatever the next pass creates carries
    the name of the bumped counter (the history monitor m07_clash_progress). *)
Theorem C07_clash_then_next_name :
  forall hash slices stale w w' evs r c fault2 stale2 w'' evs2 r2 n phs prev h cr,
    NoDup (map sname (dw_sets w)) -> d_paused (dw_dep w) = false -> d_phases (dw_dep w) <> [] ->
    has_rev0 (listed stale w) = false -> has_current (dep_hashed hash w) (listed stale w) = false ->
    In c (dw_sets w) -> sname c = hash (d_digest (dw_dep w)) (d_cc (dw_dep w)) ->
    (is_archived c = true \/ phases_eqb (d_phases (dw_dep w)) (os_phases (ds_set c)) = false \/
     ds_ctrl c <> oi_uid (d_id (dw_dep w)) \/
     ((srev c < latest_revision (listed stale w))%Z /\ srev c <> 0%Z)) ->
    dep_pass hash None slices stale w = (w', evs, r) ->
    dep_pass hash fault2 slices stale2 w' = (w'', evs2, r2) -> In (DCreate n phs prev h cr) evs2 ->
    d_cc (dw_dep w') = bump_cc (d_cc (dw_dep w)) /\ n = hash (d_digest (dw_dep w)) (bump_cc (d_cc (dw_dep w))).
Proof. exact clash_then_next_name. Qed.
Print Assumptions C07_clash_then_next_name.

(** The collision counter changes in no other way. *)
Theorem C07_bump_only_on_clash :
  forall hash fault slices stale w w' evs r h cc cs rv co sr,
    dep_pass hash fault slices stale w = (w', evs, r) -> In (DStatus h cc cs rv co sr) evs ->
    cc = d_cc (dw_dep w) \/
    (cc = bump_cc (d_cc (dw_dep w)) /\ forall n phs prev hh cr, In (DCreate n phs prev hh cr) evs -> cr = CrExists).
Proof. exact (fun hash fault slices => dep_pass_bump hash fault slices true true). Qed.
Print Assumptions C07_bump_only_on_clash.

(** Rolling back to an earlier template yields a new revision (concrete run: templates 1 -> 2 -> 1). *)
Theorem C07_rollback_new_revision :
  map (fun s => (sname s, srev s, phases_eqb (os_phases (ds_set s)) tmpl1, os_prev (ds_set s)))
      (dw_sets (run wit_hash no_slices wit_rollback_world [SDep false None; SDep false None; SRev 101])) =
    [(100, 1%Z, true, []); (200, 2%Z, false, [100]); (101, 3%Z, true, [100; 200])] /\
  d_cc (dw_dep (run wit_hash no_slices wit_rollback_world [SDep false None])) = Some 1%N.
Proof. exact wit_rollback. Qed.
Print Assumptions C07_rollback_new_revision.

(** Exactly one: along any history with fresh Lists the number of ObjectSets created is at most one more than the number
    of template changes, and at most that number once the newest ObjectSet matches the template. *)
Theorem C07_exactly_one_fresh_cache :
  forall hash slices h w, Inv w -> Forall ok_step h ->
    (matched hash w -> (count_creates hash slices w h <= count_changes hash slices w h)%nat) /\
    (count_creates hash slices w h <= 1 + count_changes hash slices w h)%nat.
Proof. exact (fun hash slices => creates_bounded hash slices true true). Qed.
Print Assumptions C07_exactly_one_fresh_cache.

(** In the create-not-yet-listed window with an unchanged template the code as it is creates one ObjectSet
    (concrete run; the slow-cache test accepts the just-created ObjectSet without revision). *)
Theorem C07_exactly_one_stale_witness :
  count_creates wit_hash no_slices wit_w0 wit_stale_history = 1%nat /\
  d_cc (dw_dep (run wit_hash no_slices wit_w0 wit_stale_history)) = None.
Proof. exact wit_stale_repaired. Qed.
Print Assumptions C07_exactly_one_stale_witness.

(** F-C07, fixed by /repo commit 0384cff: the slow-cache test as it was (holder's revision >= latest listed revision)
    reported a hash collision for the just-created ObjectSet; two ObjectSets for one unchanged template. *)
Theorem C07_exactly_one_v0_refuted :
  exists w0 h, Inv w0 /\ count_changes_v0 wit_hash no_slices w0 h = 0%nat /\ count_creates_v0 wit_hash no_slices w0 h = 2%nat.
Proof. exact exactly_one_v0_refuted. Qed.
Print Assumptions C07_exactly_one_v0_refuted.

(** The two shapes of the test differ only for a name holder that has not reported its revision. *)
Theorem C07_slow_cache_v0_agrees :
  forall d prev c, srev c <> 0%Z -> adoptable d prev c = adoptable_v0 d prev c.
Proof. exact adoptable_v0_agrees. Qed.
Print Assumptions C07_slow_cache_v0_agrees.

(** The creation monitors of the correspondence check accept every pass of the model (fresh List). *)
Theorem C07_monitor_sound :
  forall hash fault slices w w' evs r,
    NoDup (map sname (dw_sets w)) -> dep_pass hash fault slices false w = (w', evs, r) ->
    m07_spec (state_of w) (obs_of w' evs r) = true /\ m07_prev (state_of w) (obs_of w' evs r) = true.
Proof. exact monitor_sound_create. Qed.
Print Assumptions C07_monitor_sound.

(** Non-vacuity: the invariant holds in a world with an earlier revision, a fresh history from it creates an
    ObjectSet, and the template is matched afterwards. *)
Example C07_inv_satisfiable : Inv wit_w0.
Proof. exact wit_w0_inv. Qed.
Print Assumptions C07_inv_satisfiable.
Example C07_history_ok : Forall ok_step [SDep false None; SDep false None; SSet false 100; SRev 100; SDep false None; SEdit 3 tmpl3; SStat 100 [] [] false].
Proof. repeat constructor. Qed.
Print Assumptions C07_history_ok.
Example C07_fresh_creates_one :
  count_creates wit_hash no_slices wit_w0 [SDep false None; SDep false None; SRev 100; SDep false None] = 1%nat.
Proof. exact wit_fresh_one_create. Qed.
Print Assumptions C07_fresh_creates_one.

(** A pass in which a request failed (Create, Update, Delete or status update answered with an error, a conflict, or lost) returns
    the error - the work queue retries nothing else. The monitor C07Corr.m07_wake checks this on the real controller. *)
From PKOCorr Require Import DeployCorr C07Corr.
Theorem C07_failed_request_fails_pass :
  forall hash fault slices stale w w' evs r,
    dep_pass hash fault slices stale w = (w', evs, r) -> existsb ev_failed evs = true -> r = DpError.
Proof. exact (fun hash fault slices => monitor_sound_wake hash fault slices true true). Qed.
Print Assumptions C07_failed_request_fails_pass.
