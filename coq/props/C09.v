(** C09 — Paused means hands-off (ObjectSet / ObjectSetPhase level). Statements only.
    The ObjectDeployment / Package propagation clauses are decided by the deployment-level model. *)
From Coq Require Import List NArith ZArith Bool.
From PKO Require Import Base Owner Api Phase PhaseProofs PreflightProofs ObjectSet ObjectSetProofs.
Import ListNotations.

(** A paused ObjectSet (not deleted, not archived) sends no create, update or delete for any member and
    leaves the members unchanged, whatever their state (missing, modified, foreign-owned). *)
Theorem C09_paused_objectset_hands_off :
  forall force sw k ns n mem0 sw' evs r,
    find_set (sw_sets sw) k ns n = Some mem0 -> is_active mem0 -> os_life mem0 = LPaused ->
    objectset_pass force sw k ns n = (sw', evs, r) ->
    member_evs evs = [] /\ w_store (sw_w sw') = w_store (sw_w sw).
Proof. exact C09_paused_hands_off. Qed.
Print Assumptions C09_paused_objectset_hands_off.

(** The same for any phase owner (ObjectSetPhase controllers use the same PhaseReconciler), for every
    controller flavour, any phase, any world and any concurrent third party. *)
Theorem C09_paused_phase_owner_hands_off :
  forall c between ow prev ps w acc failed w' evs r,
    ow_paused ow = true ->
    reconcile_objects c between w ow prev ps acc failed = (w', evs, r) -> w' = w /\ evs = [].
Proof. exact phase_paused_no_write. Qed.
Print Assumptions C09_paused_phase_owner_hands_off.

(** ... yet it keeps probing: the per-object result of a paused pass is exactly what the cache holds
    (present: the cached object, which is then probed; absent: reported as missing). *)
Theorem C09_paused_still_probes :
  forall c between w ow prev p w' evs r,
    ow_paused ow = true -> reconcile_object c between w ow prev p = (w', evs, r) ->
    r = RErr ErrOwnerRef \/
    r = match cache_get w (desired_key ow p) with Some o => ROk o | None => RMissing end.
Proof. exact paused_still_probes. Qed.
Print Assumptions C09_paused_still_probes.

(** The phase-level monitor (coq/corr/PhaseMonitors.v m09p) accepts every pass of the model. *)
From PKOCorr Require Import PhaseCorr PhaseMonitors C05Sound PhaseMonSound.
Theorem C09_phase_monitor_sound : forall c : pcase, m09p (set_obs c (model_run c)) = true.
Proof. exact m09p_sound. Qed.
Print Assumptions C09_phase_monitor_sound.

(** m09r: with quiet third parties the implementation's paused pass must end like the model's - the same keys among the
    actual objects (what becomes status.controllerOf), the same failed keys, no error instead; the clause accepts every
    pass of the model. *)
Theorem C09_paused_report_monitor_sound : forall c : pcase, m09r (set_obs c (model_run c)) = true.
Proof. exact m09r_sound. Qed.
Print Assumptions C09_paused_report_monitor_sound.

(** Delegated phases. REFUTED as stated (open finding F-C09, known_findings.json): the paused state reaches a
    delegated phase only when the phase loop reaches it. Behind a phase whose probes fail the phase object stays
    unpaused and the ObjectSetPhase controller writes an object listed in the paused ObjectSet. *)
From PKO Require Import PhaseController DelegationProofs PauseFinding.
Theorem C09_delegated_pause_refuted :
  exists sw kind ns name s pname k,
    find_set (sw_sets sw) kind ns name = Some s /\ os_life s = LPaused /\ is_active s /\
    In k (map (spec_key s) (all_objects s)) /\
    In k (member_writes (snd (fst (objectsetphase_pass FSamePhase false 1
                                     (fst (fst (objectset_pass false sw kind ns name))) KObjectSetPhase ns pname)))).
Proof. exact pause_behind_gate_refuted. Qed.
Print Assumptions C09_delegated_pause_refuted.

(** What holds (partial: only for the phases the loop gets past): whenever the remote phase reconciler gets past a
    phase object, that object's spec.paused equals the ObjectSet's paused state afterwards - whatever its status
    says - and a paused phase object's controller writes nothing (C09_paused_phase_owner_hands_off). *)
Theorem C09_delegated_pause_partial :
  forall sw s ph rem sw1 e1 rem1 active failed,
    remote_reconcile sw s ph rem = (sw1, e1, rem1, RROk active failed) ->
    exists cur, phase_obj_of sw1 s ph = Some cur /\ op_paused cur = lifecycle_eqb (os_life s) LPaused.
Proof. exact paused_carried_step. Qed.
Print Assumptions C09_delegated_pause_partial.

(** The controller-level monitor m09 (coq/corr/SetMonitors.v: a paused ObjectSet sends no member request and the
    members are unchanged) accepts every pass of the model. *)
From PKOCorr Require Import SetCorr SetMonitors SetMonSound.
Theorem C09_set_monitor_sound : forall c : scase, m09 (set_obs_s c (SetCorr.model_run c)) = true.
Proof. exact m09_sound. Qed.
Print Assumptions C09_set_monitor_sound.

(** The delegated part of the C09 check (m09d = C15Corr.m_pause: every phase object the pass obtained - controlled by
    the ObjectSet, not being deleted, up to the phase named as failing - carries the ObjectSet's paused state or was
    sent the pause patch). REFUTED as an acceptance claim over all cases: a pass that waits for its previous revision
    (status.revision still 0) reads the phase objects named in status.remotePhases for the Paused condition without
    patching them; on [x_requeue_case] the monitor raises a false alarm on the model itself. *)
From PKOCorr Require Import SetMonSound2.
Theorem C09_set_monitor_delegated_refuted :
  exists c : scase, rev_before_remotes c = false /\ m09d (set_obs_s c (SetCorr.model_run c)) = false.
Proof. exact m09d_refuted. Qed.
Print Assumptions C09_set_monitor_delegated_refuted.

(** Partial (excluded: active ObjectSets without a revision that nevertheless record, in status.remotePhases, the phase
    object of one of their delegated phases - a state no run of the controller produces, since remote phases are
    recorded by the phase loop, which runs only once the revision is set): otherwise the monitor accepts every pass of
    the model. *)
Theorem C09_set_monitor_delegated_sound_partial :
  forall c : scase, rev_before_remotes c = true -> m09d (set_obs_s c (SetCorr.model_run c)) = true.
Proof. exact m09d_sound_partial. Qed.
Print Assumptions C09_set_monitor_delegated_sound_partial.

Example C09_set_monitor_delegated_hypothesis_satisfiable :
  rev_before_remotes x_pause_case = true /\
  existsb (fun e => match e with SPhase (PPause 10001%N true _) => true | _ => false end)
          (sc_events (set_obs_s x_pause_case (SetCorr.model_run x_pause_case))) = true.
Proof. exact m09d_hypothesis_satisfiable. Qed.
Print Assumptions C09_set_monitor_delegated_hypothesis_satisfiable.
