(** C03 — Phases roll out in order, each gated on the probes of the previous.
    Statements only. Model: ObjectSet.v (GenericObjectSetController.Reconcile), Phase.v. *)
From Coq Require Import List NArith ZArith Bool.
From PKO Require Import Base Owner Api Phase PhaseProofs ObjectSet ObjectSetProofs.
Import ListNotations.

(** For every world (members, ObjectSets, counters), every ObjectSet spec (any number of phases and
    objects) and every state of the members: if any request of an active Reconcile pass names an object
    of some phase, then every object of every earlier phase is present after the pass and passes the
    availability probe — the states the pass itself obtained, since later phases never touch earlier
    objects. No hypothesis on the spec: the duplicate check of the same pass supplies distinctness. *)
Theorem C03_rollout_gated :
  forall force sw k ns n mem0 sw' evs r,
    find_set (sw_sets sw) k ns n = Some mem0 -> is_active mem0 ->
    objectset_pass force sw k ns n = (sw', evs, r) ->
    forall pre ph post, local_phases mem0 = pre ++ ph :: post ->
      Exists (fun e => In (ev_key e) (phase_keys (as_owner mem0) ph)) (member_evs evs) ->
      forall q, In q pre -> phase_ok (sw_w sw') (as_owner mem0) q.
Proof. exact C03_rollout_gated_all. Qed.
Print Assumptions C03_rollout_gated.

(** The loop itself, for any phase list with distinct object keys. *)
Theorem C03_phase_loop_gated :
  forall force ow prev phs w acc w' evs r,
    reconcile_phases force w ow prev phs acc = (w', evs, r) ->
    NoDup (flat_map (phase_keys ow) phs) ->
    forall pre ph post, phs = pre ++ ph :: post ->
      Exists (fun e => In (ev_key e) (phase_keys ow ph)) evs ->
      forall q, In q pre -> phase_ok w' ow q.
Proof. exact rp_gate. Qed.
Print Assumptions C03_phase_loop_gated.

(** The first failing phase stops the rollout and is the one named: all phases before it are complete,
    it has an object that is absent / fails the probe (paused: invisible to the cache), and no request
    names an object of a later phase. *)
Theorem C03_first_failure_named :
  forall force ow prev phs w acc w' evs ctrlof n,
    reconcile_phases force w ow prev phs acc = (w', evs, PROk ctrlof (Some n)) ->
    NoDup (flat_map (phase_keys ow) phs) ->
    exists pre ph post, phs = pre ++ ph :: post /\ ph_name ph = n /\
      (forall q, In q pre -> phase_ok w' ow q) /\
      (exists p, In p (ph_objects ph) /\ obj_fails w' ow p) /\
      Forall (fun e => ~ In (ev_key e) (flat_map (phase_keys ow) post)) evs.
Proof. exact rp_first_failure. Qed.
Print Assumptions C03_first_failure_named.

(** A completed loop means every phase is complete. *)
Theorem C03_all_phases_complete :
  forall force ow prev phs w acc w' evs ctrlof,
    reconcile_phases force w ow prev phs acc = (w', evs, PROk ctrlof None) ->
    NoDup (flat_map (phase_keys ow) phs) -> forall q, In q phs -> phase_ok w' ow q.
Proof. exact rp_all_ok. Qed.
Print Assumptions C03_all_phases_complete.
