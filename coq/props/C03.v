(** C03 — Phases roll out in order, each gated on the probes of the previous.
    Statements only. Model: ObjectSet.v (GenericObjectSetController.Reconcile), Phase.v. *)
From Coq Require Import List NArith ZArith Bool.
From PKO Require Import Base Owner Api Phase PhaseProofs ObjectSet ObjectSetProofs.
Import ListNotations.

(** For every world (members, ObjectSets, counters), every ObjectSet spec (any number of phases and
    objects) and every state of the members: if any request of an active Reconcile pass names an object
    of some phase, then every object of every earlier phase is present after the pass and passes the
    availability probe — the states the pass itself obtained, since later phases never touch earlier
    objects. No hypothesis on the spec: the duplicate check of the same pass supplies distinctness. *)
Theorem C03_rollout_gated :
  forall force sw k ns n mem0 sw' evs r,
    find_set (sw_sets sw) k ns n = Some mem0 -> is_active mem0 ->
    objectset_pass force sw k ns n = (sw', evs, r) ->
    forall pre ph post, local_phases mem0 = pre ++ ph :: post ->
      Exists (fun e => In (ev_key e) (phase_keys (as_owner mem0) ph)) (member_evs evs) ->
      forall q, In q pre -> phase_ok (sw_w sw') (as_owner mem0) q.
Proof. exact C03_rollout_gated_all. Qed.
Print Assumptions C03_rollout_gated.

(** The loop itself, for any phase list with distinct object keys. *)
Theorem C03_phase_loop_gated :
  forall force ow prev phs w acc w' evs r,
    reconcile_phases force w ow prev phs acc = (w', evs, r) ->
    NoDup (flat_map (phase_keys ow) phs) ->
    forall pre ph post, phs = pre ++ ph :: post ->
      Exists (fun e => In (ev_key e) (phase_keys ow ph)) evs ->
      forall q, In q pre -> phase_ok w' ow q.
Proof. exact rp_gate. Qed.
Print Assumptions C03_phase_loop_gated.

(** The first failing phase stops the rollout and is the one named: all phases before it are complete,
    it has an object that is absent / fails the probe (paused: invisible to the cache), and no request
    names an object of a later phase. *)
Theorem C03_first_failure_named :
  forall force ow prev phs w acc w' evs ctrlof n,
    reconcile_phases force w ow prev phs acc = (w', evs, PROk ctrlof (Some n)) ->
    NoDup (flat_map (phase_keys ow) phs) ->
    exists pre ph post, phs = pre ++ ph :: post /\ ph_name ph = n /\
      (forall q, In q pre -> phase_ok w' ow q) /\
      (exists p, In p (ph_objects ph) /\ obj_fails w' ow p) /\
      Forall (fun e => ~ In (ev_key e) (flat_map (phase_keys ow) post)) evs.
Proof. exact rp_first_failure. Qed.
Print Assumptions C03_first_failure_named.

(** A completed loop means every phase is complete. *)
Theorem C03_all_phases_complete :
  forall force ow prev phs w acc w' evs ctrlof,
    reconcile_phases force w ow prev phs acc = (w', evs, PROk ctrlof None) ->
    NoDup (flat_map (phase_keys ow) phs) -> forall q, In q phs -> phase_ok w' ow q.
Proof. exact rp_all_ok. Qed.
Print Assumptions C03_all_phases_complete.

(** The controller-level monitor m03 (coq/corr/SetMonitors.v: a member request on phase j implies that the earlier
    local phases are complete; the phase named as failing is the first incomplete one and nothing behind it is
    touched). REFUTED as an acceptance claim over all cases: the monitor looks the failing phase up BY NAME, so on an
    ObjectSet with two phases of the same name whose second one fails it judges the first (complete) one and raises
    a false alarm on the model itself ([x_dupname_case]). *)
From PKOCorr Require Import SetCorr SetMonitors SetMonSound SetMonSound2.
Theorem C03_set_monitor_refuted :
  exists c : scase, phase_names_unique c = false /\ m03 (set_obs_s c (SetCorr.model_run c)) = false.
Proof. exact m03_refuted. Qed.
Print Assumptions C03_set_monitor_refuted.

(** Partial (excluded: active ObjectSets with pairwise distinct local keys - the only ones the monitor judges - in which
    two phases carry the same name): otherwise the monitor accepts every pass of the model. *)
Theorem C03_set_monitor_sound_partial :
  forall c : scase, phase_names_unique c = true -> m03 (set_obs_s c (SetCorr.model_run c)) = true.
Proof. exact m03_sound_partial. Qed.
Print Assumptions C03_set_monitor_sound_partial.

Example C03_set_monitor_hypothesis_satisfiable :
  phase_names_unique x_names_case = true /\
  map (fun s => let '(_, _, fph, _) := s in fph) (statuses (set_obs_s x_names_case (SetCorr.model_run x_names_case))) = [Some 2%N].
Proof. exact m03_hypothesis_satisfiable. Qed.
Print Assumptions C03_set_monitor_hypothesis_satisfiable.

(** The delegated part of the C03 check (m03d = C15Corr.m_gate && C15Corr.m_relay: a write to phase j only after every
    earlier delegated phase's phase object was seen Available for its generation in this pass; Available=True newly
    reported only if every delegated phase's phase object, as last obtained, is) accepts every pass of the model. *)
Theorem C03_set_monitor_delegated_sound : forall c : scase, m03d (set_obs_s c (SetCorr.model_run c)) = true.
Proof. exact m03d_sound. Qed.
Print Assumptions C03_set_monitor_delegated_sound.
