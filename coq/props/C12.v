(** C12 (Dynamic cache: one informer per watched kind, released with its last owner): property theorems.
    This file contains statements only; every proof is `exact <lemma>`.

    Models (theories/Cache.v): [run]/[step]/[exec] follow internal/dynamiccache/cache.go as it was up to
    the repair of F-C12 ("the code as it is" in the comments below refers to that revision);
    [Cache_fixed.run]/[.step] follows fixes/C12-watch-rollback.diff, which has since been applied to the
    repository (commit 95ce509), i.e. Cache_fixed is the model of the current cache.go.  The check
    decides on every run which of the two the implementation follows (F-C12 witness sequence).  Operation
    sequences are arbitrary lists of Watch/Free/Get/List/OwnersForGKV over any owners and kinds; every
    call carries an adversarially chosen outcome (informerMap.Get fails before or after starting the
    informer, the k-th handler registration fails, informerMap.Delete fails) and every Free an arbitrary
    order in which Go's map iteration visits the kinds.  [stepf false] = [step], [stepf true] =
    [Cache_fixed.step]; [runf] likewise. *)
From Coq Require Import List NArith Bool.
From PKO Require Import Cache CacheProofs.
From PKOCorr Require Import C12Corr.
Import ListNotations.
Local Open Scope N_scope.

(** ** Clause "an informer runs for a kind exactly while some owner references it" *)

(** REFUTED for the code as it is (defect F-C12): after a Watch whose informer start failed, the
    next Watch of that kind reports success although no informer runs. *)
Theorem C12_inv_informer_iff_owner_refuted :
  exists handlers ops g,
    no_delete_failures ops = true /\
    map (fun p => o_err (fst p)) (exec (init handlers) ops) = [ErrInformerGet; ErrNone] /\
    let s := run (init handlers) ops in owned s g /\ ~ running s g.
Proof. exact inv_informer_iff_owner_refuted. Qed.
Print Assumptions C12_inv_informer_iff_owner_refuted.

(** What holds for the code as it is.  Missing: sequences in which an informer start failed
    (informerMap.Get or a handler registration) - the case the property singles out. *)
Theorem C12_inv_informer_iff_owner_partial :
  forall handlers ops g,
    no_start_failures ops = true -> no_delete_failures ops = true ->
    let s := run (init handlers) ops in running s g <-> owned s g.
Proof. exact inv_informer_iff_owner_partial. Qed.
Print Assumptions C12_inv_informer_iff_owner_partial.

(** One direction holds for the code as it is whatever failed at start-up: informers are released
    with their last owner. *)
Theorem C12_informer_only_if_owner :
  forall handlers ops g,
    no_delete_failures ops = true ->
    let s := run (init handlers) ops in running s g -> owned s g.
Proof. exact informer_only_if_owner. Qed.
Print Assumptions C12_informer_only_if_owner.

(** The repair candidate: full statement.  ("Only if" cannot hold after an informerMap.Delete that
    failed - the informer then keeps running by definition; the real Delete never fails.) *)
Theorem C12_fixed_inv_informer_iff_owner :
  forall handlers ops g,
    no_delete_failures ops = true ->
    let s := Cache_fixed.run (init handlers) ops in running s g <-> owned s g.
Proof. exact Cache_fixed_inv_informer_iff_owner. Qed.
Print Assumptions C12_fixed_inv_informer_iff_owner.

Theorem C12_fixed_owner_has_informer :
  forall handlers ops g,
    let s := Cache_fixed.run (init handlers) ops in owned s g -> running s g /\ all_handlers s g.
Proof. exact Cache_fixed_owner_has_informer. Qed.
Print Assumptions C12_fixed_owner_has_informer.

(** ** Clause "every informer it starts - including after an earlier failed start - delivers
    events to all registered handlers" *)

(** REFUTED for the code as it is (F-C12): Get/List start the missing informer without handlers. *)
Theorem C12_handlers_complete_refuted :
  exists handlers ops g h,
    no_delete_failures ops = true /\
    map (fun p => o_err (fst p)) (exec (init handlers) ops) = [ErrInformerGet; ErrNone; ErrNone] /\
    let s := run (init handlers) ops in running s g /\ In h (hs s) /\ ~ In h (attached s g).
Proof. exact handlers_complete_refuted. Qed.
Print Assumptions C12_handlers_complete_refuted.

(** Missing: sequences with a failed informer start. *)
Theorem C12_handlers_complete_partial :
  forall handlers ops g,
    no_start_failures ops = true ->
    let s := run (init handlers) ops in running s g -> all_handlers s g.
Proof. exact handlers_complete_partial. Qed.
Print Assumptions C12_handlers_complete_partial.

Theorem C12_fixed_handlers_complete :
  forall handlers ops g,
    let s := Cache_fixed.run (init handlers) ops in running s g -> all_handlers s g.
Proof. exact Cache_fixed_handlers_complete. Qed.
Print Assumptions C12_fixed_handlers_complete.

(** ** Clause "watching is idempotent per owner and kind" (both models, from any state) *)
Theorem C12_watch_idempotent :
  forall fixed s o g out1 out2 s1 o1,
    stepf fixed s (Watch o g out1) = (s1, o1) -> o_err o1 = ErrNone ->
    stepf fixed s1 (Watch o g out2) = (s1, mk_out ErrNone []).
Proof. exact watch_idempotent. Qed.
Print Assumptions C12_watch_idempotent.

Theorem C12_owners_nodup :
  forall fixed handlers ops g, NoDup (owners (runf fixed (init handlers) ops) g).
Proof. exact owners_nodup. Qed.
Print Assumptions C12_owners_nodup.

(** ** Clause "freeing an owner drops all and only its watches and stops informers nobody else
    needs" (both models, from any state, any visiting order) *)
Theorem C12_free_exact :
  forall fixed s o out order s' o',
    stepf fixed s (Free o out order) = (s', o') -> o_err o' = ErrNone ->
    (forall g, owners s' g = rem o (owners s g)) /\
    (forall g, running s' g <-> running s g /\ ~ (In o (owners s g) /\ rem o (owners s g) = [])) /\
    (forall g, In (EDelete g true) (o_events o') <-> In o (owners s g) /\ rem o (owners s g) = []) /\
    (forall e, In e (o_events o') -> exists g, e = EDelete g true \/ e = EStop g).
Proof. exact free_exact. Qed.
Print Assumptions C12_free_exact.

(** Also when Free fails half-way: other owners' references are never touched. *)
Theorem C12_free_only_that_owner :
  forall fixed s o out order s' o',
    stepf fixed s (Free o out order) = (s', o') ->
    forall g o2, o2 <> o -> (In o2 (owners s' g) <-> In o2 (owners s g)).
Proof. exact free_only_that_owner. Qed.
Print Assumptions C12_free_only_that_owner.

(** ** Clause "reading a kind nobody watches fails instead of silently starting an informer"
    (both models; start-up failures allowed) *)
Theorem C12_read_unwatched_fails_without_start :
  forall fixed handlers ops g,
    no_delete_failures ops = true ->
    let s := runf fixed (init handlers) ops in
    ~ owned s g ->
    stepf fixed s (Get g) = (s, mk_out ErrNotStarted []) /\
    stepf fixed s (List g) = (s, mk_out ErrNotStarted []).
Proof. exact read_unwatched_fails_without_start. Qed.
Print Assumptions C12_read_unwatched_fails_without_start.

(** Why the hypothesis: a failed informerMap.Delete leaves an empty reference entry behind. *)
Theorem C12_read_unwatched_after_failed_delete :
  exists handlers ops g,
    let s := run (init handlers) ops in ~ owned s g /\ o_err (snd (step s (Get g))) = ErrNone.
Proof. exact read_unwatched_after_failed_delete. Qed.
Print Assumptions C12_read_unwatched_after_failed_delete.

(** ** The observable events are faithful to the informer map (both models) *)
Theorem C12_events_faithful :
  forall fixed s x s' o' g,
    stepf fixed s x = (s', o') -> replay g (o_events o') (lookup g (infs s)) = lookup g (infs s').
Proof. exact events_faithful. Qed.
Print Assumptions C12_events_faithful.

(** ** Clause "these guarantees hold when watch, free and read calls race" *)

(** In the model a call is one atomic step (the critical section of informerReferencesMux), and the
    clauses above hold after every sequence of steps, hence after every interleaving of the steps of any
    number of concurrent callers.  Whether a call of the implementation IS atomic - whether the mutex is
    held from the first look at informerReferences to the last use of the informer - is not a statement
    about the model; it is tested by the overlapping-call runs (checks/C12.py, harness mode cacheoverlap),
    which hold one call inside an informer-map call, start others meanwhile, and require the joint outcome
    to be one the model produces for some serial order ([lin_agree]). *)
Theorem C12_any_interleaving_of_atomic_steps_keeps_invariant :
  forall handlers ps ops g,
    interleaving ps ops ->
    Forall (fun p => no_delete_failures p = true) ps ->
    let s := Cache_fixed.run (init handlers) ops in
    (running s g <-> owned s g) /\ (running s g -> all_handlers s g) /\ NoDup (owners s g).
Proof. exact any_interleaving_of_atomic_steps_keeps_invariant. Qed.
Print Assumptions C12_any_interleaving_of_atomic_steps_keeps_invariant.

(** For the revision before the repair: missing are interleavings in which an informer start fails. *)
Theorem C12_any_interleaving_of_atomic_steps_keeps_invariant_partial :
  forall handlers ps ops g,
    interleaving ps ops ->
    Forall (fun p => no_start_failures p = true) ps ->
    Forall (fun p => no_delete_failures p = true) ps ->
    let s := run (init handlers) ops in
    (running s g <-> owned s g) /\ (running s g -> all_handlers s g) /\ NoDup (owners s g).
Proof. exact any_interleaving_of_atomic_steps_keeps_invariant_partial. Qed.
Print Assumptions C12_any_interleaving_of_atomic_steps_keeps_invariant_partial.

Example C12_interleaving_exists :
  interleaving [[Watch 0 0 ok; Free 0 ok []]; [Get 0; Watch 1 0 ok]]
               [Watch 0 0 ok; Get 0; Free 0 ok []; Watch 1 0 ok].
Proof. exact interleaving_example. Qed.
Print Assumptions C12_interleaving_exists.

(** The linearizability judge accepts every serial execution of the model: the calls run atomically in
    the listed order (any other order: [lin_search_pick]), Free visiting the kinds in one of the orders
    the judge tries. *)
Theorem C12_lin_search_accepts_model :
  forall fixed kinds final ops s,
    Forall (fun x => In x (cands kinds x)) ops ->
    final (snd (calls_of fixed s ops)) = true ->
    lin_search (length ops) fixed kinds final s (fst (calls_of fixed s ops)) = true.
Proof. exact lin_search_accepts_model. Qed.
Print Assumptions C12_lin_search_accepts_model.

(** ... and it is not vacuous: for Get g overlapping Free of the last owner of g it accepts both serial
    outcomes and rejects "Free stopped the informer between Get's check and Get's informerMap.Get, which
    then started a new informer" - an informer nobody owns, without handlers. *)
Example C12_lin_rejects_get_free_race :
  let pre := steps_of true [0; 1] (init [0; 1]) [Watch 0 0 ok] in
  judge_lin ([0; 1], [0; 1], pre,
             [(Get 0, CObs ErrNone [EGet 0 true; EStart 0] None);
              (Free 0 ok [], CObs ErrNone [EDelete 0 true; EStop 0] None)],
             [(0, None); (1, None)], [(0, Some []); (1, None)]) = (false, false, false).
Proof. exact lin_rejects_get_free_race. Qed.
Print Assumptions C12_lin_rejects_get_free_race.

Example C12_lin_accepts_serial_orders :
  let pre := steps_of true [0; 1] (init [0; 1]) [Watch 0 0 ok] in
  judge_lin ([0; 1], [0; 1], pre,
             [(Get 0, CObs ErrNone [EGet 0 true] None);
              (Free 0 ok [], CObs ErrNone [EDelete 0 true; EStop 0] None)],
             [(0, None); (1, None)], [(0, None); (1, None)]) = (true, true, true) /\
  judge_lin ([0; 1], [0; 1], pre,
             [(Get 0, CObs ErrNotStarted [] None);
              (Free 0 ok [], CObs ErrNone [EDelete 0 true; EStop 0] None)],
             [(0, None); (1, None)], [(0, None); (1, None)]) = (true, true, true).
Proof. exact (conj lin_accepts_get_then_free lin_accepts_free_then_get). Qed.
Print Assumptions C12_lin_accepts_serial_orders.

(** ** No leaked informer (the InformerMap part of the model follows informer_map.go: an informer is
    started when its entry is added and stopped only by Delete, together with the entry; a Get that
    times out waiting for the initial sync leaves the entry AND the running informer behind, and it is
    Cache.Watch's releaseInformer that removes both) *)

(** Every informer ever started is either the map's entry of its kind or stopped: at any time the number
    of informers of a kind started and not stopped is 1 if the map has an entry and 0 otherwise - for all
    operation sequences, all outcomes (sync failures included), both models. *)
Theorem C12_no_leaked_informer :
  forall fixed handlers ops g,
    live g (history (exec_with (stepf fixed) (init handlers) ops))
    = if runningb (runf fixed (init handlers) ops) g then 1%nat else 0%nat.
Proof. exact no_leaked_informer. Qed.
Print Assumptions C12_no_leaked_informer.

(** With the first clause: exactly one running informer for a kind somebody references, none otherwise,
    never two (current cache.go). *)
Theorem C12_fixed_informers_match_owners :
  forall handlers ops g,
    no_delete_failures ops = true ->
    let s := Cache_fixed.run (init handlers) ops in
    live g (history (Cache_fixed.exec (init handlers) ops)) = if nilb (owners s g) then 0%nat else 1%nat.
Proof. exact Cache_fixed_informers_match_owners. Qed.
Print Assumptions C12_fixed_informers_match_owners.

(** ** Reads through the cache (Cache.Get/List over CacheReader; the reader's scope is the one the API
    declares for the kind - RESTMapper, informer_map.go:164-175 - never derived from a sample object) *)

(** A Get of a kind some owner references returns the object the informer holds under the
    scope-normalised key iff there is one - after ANY operation sequence, i.e. independent of which owner
    watched the kind first, with which sample object, and of what failed before. *)
Theorem C12_read_watched_returns_store :
  forall fixed handlers ops scope store g ns n,
    let s := runf fixed (init handlers) ops in
    owned s g ->
    let k := store_key scope g ns n in
    (In k (store g) -> cache_get scope store s g ns n = Some (Some k)) /\
    (~ In k (store g) -> cache_get scope store s g ns n = Some None).
Proof. exact read_watched_returns_store. Qed.
Print Assumptions C12_read_watched_returns_store.

Theorem C12_read_cluster_scoped_ignores_namespace :
  forall scope store s g ns ns' n,
    scope g = false -> cache_get scope store s g ns n = cache_get scope store s g ns' n.
Proof. exact read_cluster_scoped_ignores_namespace. Qed.
Print Assumptions C12_read_cluster_scoped_ignores_namespace.

Theorem C12_read_namespaced_by_namespace :
  forall fixed handlers ops scope store g ns n,
    let s := runf fixed (init handlers) ops in
    owned s g -> scope g = true ->
    cache_get scope store s g ns n = Some (if existsb (key_eqb (ns, n)) (store g) then Some (ns, n) else None).
Proof. exact read_namespaced_by_namespace. Qed.
Print Assumptions C12_read_namespaced_by_namespace.

Theorem C12_list_watched_returns_store :
  forall fixed handlers ops store g ns,
    let s := runf fixed (init handlers) ops in
    owned s g ->
    exists l, cache_list store s g ns = Some l /\
              forall k, In k l <-> In k (store g) /\ (ns = 0 \/ fst k = ns).
Proof. exact list_watched_returns_store. Qed.
Print Assumptions C12_list_watched_returns_store.

(** The checks applied to the real InformerMap's observable behaviour (open WATCH streams per kind, event
    delivery to the handlers, results of Get/List through the cache) accept what the model of the current
    cache.go predicts, whatever reads are made at every step. *)
Theorem C12_monitor_real_sound_fixed :
  forall handlers kinds scope store gets lists ops,
    no_delete_failures ops = true ->
    Forall (fun q => In (fst (fst q)) kinds) gets -> Forall (fun q => In (fst q) kinds) lists ->
    let steps := real_steps_of true kinds scope store gets lists (init handlers) ops in
    forallb (fun p => real_streams_ok kinds (snd p)) steps = true /\
    forallb (fun p => real_delivered_ok handlers kinds (snd p)) steps = true /\
    forallb (fun p => real_reads_ok scope store (snd p)) steps = true.
Proof. exact monitor_real_sound_fixed. Qed.
Print Assumptions C12_monitor_real_sound_fixed.

(** ... and reject an informer that survives the roll-back of its failed start, and a Get of a
    cluster-scoped kind that misses the held object because the caller's namespace was not blanked. *)
Example C12_judge_real_rejects_leak :
  judge_real ([0; 1], [0; 1], [], [],
    [(Watch 0 0 informer_sync_fails, RObs ErrInformerGet [(0, None); (1, None)] [(0, 1); (1, 0)] [(0, []); (1, [])] [] []);
     (Watch 0 0 ok, RObs ErrNone [(0, Some [0]); (1, None)] [(0, 2); (1, 0)] [(0, [0; 1]); (1, [])] [] []);
     (Free 0 ok [], RObs ErrNone [(0, None); (1, None)] [(0, 1); (1, 0)] [(0, []); (1, [])] [] [])],
    [(0, 2); (1, 0)]) = (false, false, false, true, false, true).
Proof. exact judge_real_rejects_leak. Qed.
Print Assumptions C12_judge_real_rejects_leak.

Example C12_judge_real_rejects_scope :
  judge_real ([0; 1], [4], [(4, false)], [(4, [(0, 0); (0, 1)])],
    [(Watch 0 4 ok, RObs ErrNone [(4, Some [0])] [(4, 1)] [(4, [0; 1])]
                         [(4, 0, 0, Some (Some (0, 0))); (4, 1, 0, Some None)] [(4, 0, Some [(0, 0); (0, 1)])])],
    [(4, 1)]) = (false, false, true, true, true, false).
Proof. exact judge_real_rejects_scope. Qed.
Print Assumptions C12_judge_real_rejects_scope.

(** ** Owner deletion: controllers.FreeCacheAndRemoveFinalizer (controllers.go:89-98) = Cache.Free, then -
    only if that succeeded - the finalizer patch, whose answer is adversarial *)

(** Whenever the helper lets go of the owner - it returns nil, or its patch reaches the API server at all
    (applied, response lost, or answered NotFound because the owner is already gone) - Cache.Free has run
    and succeeded: the owner is in no owner set and exactly the informers nobody else needs are stopped
    (both models, from any state, any visiting order). *)
Theorem C12_helper_frees_before_finalizer_goes :
  forall fixed s o out order has_fin p s' fo sent r,
    free_and_remove_finalizer (stepf fixed) s o out order has_fin p = (s', fo, sent, r) ->
    sent = true \/ r = RetNil ->
    stepf fixed s (Free o out order) = (s', fo) /\ o_err fo = ErrNone /\
    (forall g, owners s' g = rem o (owners s g)) /\
    (forall g, ~ In o (owners s' g)) /\
    (forall g, running s' g <-> running s g /\ ~ (In o (owners s g) /\ rem o (owners s g) = [])).
Proof. exact helper_frees_before_finalizer_goes. Qed.
Print Assumptions C12_helper_frees_before_finalizer_goes.

(** When Free fails no patch is sent: the finalizer stays and the owner is reconciled again. *)
Theorem C12_helper_failed_free_keeps_finalizer :
  forall fixed s o out order has_fin p s' fo sent r,
    free_and_remove_finalizer (stepf fixed) s o out order has_fin p = (s', fo, sent, r) ->
    o_err fo <> ErrNone -> sent = false /\ r = RetFreeErr.
Proof. exact helper_failed_free_keeps_finalizer. Qed.
Print Assumptions C12_helper_failed_free_keeps_finalizer.

(** An owner that no longer exists (patch answered NotFound) has been freed. *)
Theorem C12_helper_owner_gone_is_freed :
  forall fixed s o out order s' fo sent r,
    free_and_remove_finalizer (stepf fixed) s o out order true patch_not_found = (s', fo, sent, r) ->
    o_err fo = ErrNone -> sent = true /\ (forall g, ~ In o (owners s' g)).
Proof. exact helper_owner_gone_is_freed. Qed.
Print Assumptions C12_helper_owner_gone_is_freed.

(** The monitor applied to runs of the real helper accepts the model of the current cache.go (all
    sequences of cache operations, helper calls with any patch answer, EnsureCachedFinalizer calls). *)
Theorem C12_monitor_fin_sound_fixed :
  forall handlers kinds ins,
    monitor (handlers, kinds, fin_to_steps (fin_steps_of true kinds (init handlers) ins)) = true.
Proof. exact monitor_fin_sound_fixed. Qed.
Print Assumptions C12_monitor_fin_sound_fixed.

(** ... and rejects a helper that patches first and gives up on NotFound without freeing. *)
Example C12_judge_fin_rejects_unfreed_owner :
  let pre := steps_of true [0; 1] (init [0; 1]) [Watch 0 0 ok] in
  judge_fin ([0; 1], [0; 1],
             map (fun p => (FOp (fst p), FObs (snd p) false RetNil)) pre ++
             [(FFinalize 0 ok true patch_not_found,
               FObs (Obs ErrNone [] None [(0, Some [0]); (1, None)]) true RetPatchErr);
              (FOp (Get 0), FObs (Obs ErrNone [EGet 0 true] None [(0, Some [0]); (1, None)]) false RetNil)])
  = (false, false, false, true, false, false).
Proof. exact judge_fin_rejects_unfreed_owner. Qed.
Print Assumptions C12_judge_fin_rejects_unfreed_owner.

(** ** The run-time monitor used on the implementation's observations accepts every behaviour of the
    model of the code as it is on start-failure-free sequences, and every behaviour of the repair
    candidate. *)
Theorem C12_monitor_sound :
  forall handlers kinds ops,
    no_start_failures ops = true ->
    monitor (handlers, kinds, steps_of false kinds (init handlers) ops) = true.
Proof. exact monitor_sound. Qed.
Print Assumptions C12_monitor_sound.

Theorem C12_monitor_sound_fixed :
  forall handlers kinds ops,
    monitor (handlers, kinds, steps_of true kinds (init handlers) ops) = true.
Proof. exact monitor_sound_fixed. Qed.
Print Assumptions C12_monitor_sound_fixed.

(** ** Non-vacuity *)

(** The hypotheses of the implications are satisfiable by a sequence that exercises every operation:
    two owners share a kind, one is freed (informer stays), the other is freed (informer stops). *)
Example C12_hypotheses_satisfiable :
  let ops := [Watch 0 0 ok; Watch 1 0 ok; Watch 0 1 ok; Get 0; Free 0 ok []; List 0; OwnersForGKV 0;
              Free 1 ok [1; 0]; Get 0] in
  no_start_failures ops = true /\ no_delete_failures ops = true /\
  map (fun p => o_err (fst p)) (exec (init [0; 1]) ops) =
    [ErrNone; ErrNone; ErrNone; ErrNone; ErrNone; ErrNone; ErrNone; ErrNone; ErrNotStarted] /\
  map (fun p => (runningb (snd p) 0, runningb (snd p) 1)) (exec (init [0; 1]) ops) =
    [(true, false); (true, false); (true, true); (true, true); (true, false); (true, false);
     (true, false); (false, false); (false, false)].
Proof. exact (conj eq_refl (conj eq_refl (conj eq_refl eq_refl))). Qed.
Print Assumptions C12_hypotheses_satisfiable.

(** The repair candidate recovers from a failed start: the retry starts the informer with all
    handlers (the sequence that refutes the code as it is). *)
Example C12_fixed_recovers :
  let ops := [Watch 0 0 informer_get_fails; Watch 0 0 ok; Get 0] in
  map (fun p => o_err (fst p)) (Cache_fixed.exec (init [0; 1]) ops) = [ErrInformerGet; ErrNone; ErrNone] /\
  attached (Cache_fixed.run (init [0; 1]) ops) 0 = [0; 1].
Proof. exact (conj eq_refl eq_refl). Qed.
Print Assumptions C12_fixed_recovers.

(** The monitor rejects the behaviour of the code as it is on the F-C12 witness (clause "started"),
    so it is not vacuous; the case agrees with the model of the code as it is and not with the
    repair candidate. *)
Example C12_monitor_rejects_witness :
  let ops := [Watch 0 0 informer_get_fails; Watch 0 0 ok; Get 0] in
  judge ([0; 1], [0; 1], steps_of false [0; 1] (init [0; 1]) ops) = (true, false, true, false, true, true).
Proof. exact monitor_rejects_F_C12. Qed.
Print Assumptions C12_monitor_rejects_witness.
