(** C16 (only valid, admissible packages roll out; unchanged packages are left alone):
    property theorems.  Statements only; every proof is `exact <lemma>`.

    [pass digest fixed o s] is one Reconcile of the Package controller (Package.v) started in the
    state [s] = stored Package + stored ObjectDeployment + outcomes of the API requests to come;
    [o] gives the outcome of every stage (pull, load, constraints, config admission, image
    references, render + validation); [digest] identifies the template rendered from (image,
    config, component).  [fixed = false] is the code as it is, [fixed = true] the repaired Deploy
    in which unmet constraints stop the deployment.  Every statement holds for ALL stored states,
    ALL oracle outcomes and ALL API request outcomes (faults before or after the effect). *)
From Coq Require Import List NArith Bool Lia.
From PKO Require Import Util Package PackageProofs.
From PKOCorr Require Import C16Corr.
Import ListNotations.
Local Open Scope N_scope.

(** ** Stage k fails => no ObjectDeployment create / update request in that pass, template
    (or absence of the ObjectDeployment) unchanged.  One statement per failure class; all of these
    hold for the code as it is ([fixed] arbitrary). *)

Theorem C16_invalid_no_deploy_pull :
  forall digest fixed o s, o_pull o = false ->
  exists l, new_events s (pass digest fixed o s) l /\ none_of is_od_write l = true /\
            od_tmpl (st_w (r_st (pass digest fixed o s))) = od_tmpl (st_w s).
Proof. exact invalid_no_deploy_pull. Qed.
Print Assumptions C16_invalid_no_deploy_pull.

Theorem C16_invalid_no_deploy_load :
  forall digest fixed o s, o_load o = false ->
  exists l, new_events s (pass digest fixed o s) l /\ none_of is_od_write l = true /\
            od_tmpl (st_w (r_st (pass digest fixed o s))) = od_tmpl (st_w s).
Proof. exact invalid_no_deploy_load. Qed.
Print Assumptions C16_invalid_no_deploy_load.

(** configuration violating the manifest's schema (or not a JSON object) *)
Theorem C16_invalid_no_deploy_config :
  forall digest fixed o s, config_ok o = false ->
  exists l, new_events s (pass digest fixed o s) l /\ none_of is_od_write l = true /\
            od_tmpl (st_w (r_st (pass digest fixed o s))) = od_tmpl (st_w s).
Proof. exact invalid_no_deploy_config. Qed.
Print Assumptions C16_invalid_no_deploy_config.

(** structural / object validation failure or unusable lock file image reference *)
Theorem C16_invalid_no_deploy_render :
  forall digest fixed o s, o_images o = false \/ o_render o = false ->
  exists l, new_events s (pass digest fixed o s) l /\ none_of is_od_write l = true /\
            od_tmpl (st_w (r_st (pass digest fixed o s))) = od_tmpl (st_w s).
Proof. exact invalid_no_deploy_render. Qed.
Print Assumptions C16_invalid_no_deploy_render.

(** constraints that cannot be evaluated (unparsable range or version, no labelled Package found) *)
Theorem C16_invalid_no_deploy_constraint_error :
  forall digest fixed o s, cons_err o = true ->
  exists l, new_events s (pass digest fixed o s) l /\ none_of is_od_write l = true /\
            od_tmpl (st_w (r_st (pass digest fixed o s))) = od_tmpl (st_w s).
Proof. exact invalid_no_deploy_constraint_error. Qed.
Print Assumptions C16_invalid_no_deploy_constraint_error.

(** all of the above at once: whatever is not deployable is not deployed *)
Theorem C16_not_deployable_no_deploy :
  forall digest fixed o s, deployable fixed o = false ->
  exists l, new_events s (pass digest fixed o s) l /\ none_of is_od_write l = true /\
            od_tmpl (st_w (r_st (pass digest fixed o s))) = od_tmpl (st_w s).
Proof. exact not_deployable_no_deploy. Qed.
Print Assumptions C16_not_deployable_no_deploy.

(** ** Unmet platform / version / uniqueness constraint.
    REFUTED for the code as it is (F-C16): validateConstraints records Invalid/ConstraintsFailed and
    returns nil (deployer.go:375-385), Deploy goes on (deployer.go:151-154), writes the
    ObjectDeployment and removes the condition (deployer.go:212). *)
Theorem C16_constraints_block_refuted :
  exists (o : oracle) (s : st),
    let r := pass wit_digest false o s in
    unmet o = true /\ r_err r = false /\
    existsb is_od_write (st_log (r_st r)) = true /\
    od_tmpl (st_w (r_st r)) = Some (Some (spec_digest wit_digest (p_spec (w_pkg (st_w s))))) /\
    od_tmpl (st_w s) = None /\
    find_cond CInvalid (p_conds (stored_pkg r)) = None /\
    p_hash (stored_pkg r) = Some (p_spec (w_pkg (st_w s))).
Proof. exact constraints_block_refuted. Qed.
Print Assumptions C16_constraints_block_refuted.

(** The clause holds for the repaired Deploy ([fixed = true], fixes/C16-constraints-block.diff):
    no write, and the condition is persisted by every error-free pass. *)
Theorem C16_invalid_no_deploy_unmet_fixed :
  forall digest o s, unmet o = true ->
  exists l, new_events s (pass digest true o s) l /\ none_of is_od_write l = true /\
            od_tmpl (st_w (r_st (pass digest true o s))) = od_tmpl (st_w s).
Proof. exact invalid_no_deploy_unmet. Qed.
Print Assumptions C16_invalid_no_deploy_unmet_fixed.

Theorem C16_constraints_failure_condition_fixed :
  forall digest o s,
    let p := w_pkg (st_w s) in let r := pass digest true o s in
    reach p = true -> o_pull o = true -> o_load o = true -> unmet o = true -> r_err r = false ->
    p_conds (stored_pkg r) =
      set_cond (mk_cond p CUnpacked true RUnpackSuccess) (set_cond (mk_cond p CInvalid true RConstraintsFailed) (p_conds p)) /\
    has_cond CInvalid true RConstraintsFailed (p_conds (stored_pkg r)) = true /\
    p_hash (stored_pkg r) = Some (p_spec p).
Proof. exact constraints_failure_condition. Qed.
Print Assumptions C16_constraints_failure_condition_fixed.

(** ** Conditions persisted by an error-free pass ([reach]: not paused and spec hash <> unpackedHash).
    A pass that returns an error persists nothing (package_controller.go:197-202). *)
Theorem C16_pull_failure_condition :
  forall digest fixed o s,
    let p := w_pkg (st_w s) in let r := pass digest fixed o s in
    reach p = true -> o_pull o = false -> r_err r = false ->
    p_conds (stored_pkg r) = set_cond (mk_cond p CUnpacked false RImagePullBackOff) (p_conds p) /\
    has_cond CUnpacked false RImagePullBackOff (p_conds (stored_pkg r)) = true /\
    p_hash (stored_pkg r) = p_hash p /\ r_requeue r = true.
Proof. exact pull_failure_condition. Qed.
Print Assumptions C16_pull_failure_condition.

Theorem C16_load_failure_condition :
  forall digest fixed o s,
    let p := w_pkg (st_w s) in let r := pass digest fixed o s in
    reach p = true -> o_pull o = true -> o_load o = false -> r_err r = false ->
    p_conds (stored_pkg r) =
      set_cond (mk_cond p CUnpacked true RUnpackSuccess) (set_cond (mk_cond p CInvalid true RLoadError) (p_conds p)) /\
    has_cond CInvalid true RLoadError (p_conds (stored_pkg r)) = true /\
    p_hash (stored_pkg r) = Some (p_spec p).
Proof. exact load_failure_condition. Qed.
Print Assumptions C16_load_failure_condition.

(** Without an API fault such passes are error free, so the condition IS persisted: Deploy returns
    nil after a load failure, the unpack reconciler returns nil after a pull failure. *)
Theorem C16_nofault_pull_failure :
  forall digest fixed o s,
    st_f s = [] -> reach (w_pkg (st_w s)) = true -> o_pull o = false -> r_err (pass digest fixed o s) = false.
Proof. exact nofault_pull_failure. Qed.
Print Assumptions C16_nofault_pull_failure.

Theorem C16_nofault_load_failure :
  forall digest fixed o s,
    st_f s = [] -> reach (w_pkg (st_w s)) = true -> o_pull o = true -> o_load o = false ->
    r_err (pass digest fixed o s) = false.
Proof. exact nofault_load_failure. Qed.
Print Assumptions C16_nofault_load_failure.

Theorem C16_nofault_unmet_fixed :
  forall digest o s,
    st_f s = [] -> reach (w_pkg (st_w s)) = true -> o_pull o = true -> o_load o = true ->
    cons_err o = false -> unmet o = true -> r_err (pass digest true o s) = false.
Proof. exact nofault_unmet. Qed.
Print Assumptions C16_nofault_unmet_fixed.

(** ** Unchanged spec: no pull, no Deploy (load / render), no ObjectDeployment write. *)
Theorem C16_unchanged_no_pull :
  forall digest fixed o s,
    hash_eqb (p_hash (w_pkg (st_w s))) (p_spec (w_pkg (st_w s))) = true ->
    exists l, new_events s (pass digest fixed o s) l /\ none_of busy l = true /\
              od_tmpl (st_w (r_st (pass digest fixed o s))) = od_tmpl (st_w s).
Proof. exact unchanged_no_pull. Qed.
Print Assumptions C16_unchanged_no_pull.

(** status.unpackedHash moves only in an error-free, unpaused pass whose pull succeeded - and then
    to the hash of the current spec; this is what makes the short cut above apply next time. *)
Theorem C16_unpacked_hash :
  forall digest fixed o s,
    let p := w_pkg (st_w s) in let r := pass digest fixed o s in
    r_err r = false ->
    p_hash (stored_pkg r) =
      if s_paused (p_spec p) then p_hash p
      else if hash_eqb (p_hash p) (p_spec p) then p_hash p
      else if o_pull o then Some (p_spec p) else p_hash p.
Proof. exact pass_hash_ok. Qed.
Print Assumptions C16_unpacked_hash.

(** ** Changed spec, deployable package, error-free pass: the template is the render of the new
    spec; hash recorded, Unpacked=True, no Invalid condition.  With [fixed = true] "deployable" is
    "valid and admissible"; for the code as it is ([fixed = false]) it leaves out the constraints -
    this is the [_partial] variant of the clause. *)
Theorem C16_changed_template :
  forall digest fixed o s,
    let p := w_pkg (st_w s) in let r := pass digest fixed o s in
    reach p = true -> deployable fixed o = true -> r_err r = false ->
    od_tmpl (st_w (r_st r)) = Some (Some (spec_digest digest (p_spec p))) /\
    p_hash (stored_pkg r) = Some (p_spec p) /\
    has_cond CUnpacked true RUnpackSuccess (p_conds (stored_pkg r)) = true /\
    find_cond CInvalid (p_conds (stored_pkg r)) = None.
Proof. exact changed_template. Qed.
Print Assumptions C16_changed_template.

(** ** History invariant.  For all histories (spec edits, API faults, passes with arbitrary oracle
    outcomes) from a fresh Package: the stored ObjectDeployment's template is the pre-created empty
    one or the render of a spec that was current at a pass in which the package was valid and
    admissible.  Proved for the repaired Deploy. *)
Theorem C16_od_history_fixed :
  forall digest steps sp,
    od_ok (goods_of digest true all_ok steps (init_world sp) []) (final digest true steps (init_world sp) []).
Proof. exact (fun digest steps sp => od_history_init digest true steps sp). Qed.
Print Assumptions C16_od_history_fixed.

(** REFUTED for the code as it is (consequence of F-C16). *)
Theorem C16_od_history_refuted :
  exists steps sp,
    od_okb (goods_of wit_digest false all_ok steps (init_world sp) []) (final wit_digest false steps (init_world sp) []) = false.
Proof. exact od_history_refuted. Qed.
Print Assumptions C16_od_history_refuted.

(** What the code as it is does guarantee: the same with "every stage other than the constraint
    check passed" ([stages_ok]) - the constraints clause is what is missing. *)
Theorem C16_od_history_partial :
  forall digest steps sp,
    od_ok (goods_of digest false stages_ok steps (init_world sp) []) (final digest false steps (init_world sp) []).
Proof. exact (fun digest steps sp => od_history_init digest false steps sp). Qed.
Print Assumptions C16_od_history_partial.

(** ** The run-time monitor accepts every history of the repaired model, and every history of the
    code as it is in which no pass has an unmet constraint. *)
Theorem C16_monitor_sound_fixed :
  forall t sp steps fx, verdict_all (monitor (fx, t, sp, steps, model_obs true t sp steps)) = true.
Proof. exact monitor_sound_fixed. Qed.
Print Assumptions C16_monitor_sound_fixed.

Theorem C16_monitor_sound_current_partial :
  forall t sp steps fx, constraints_met steps = true ->
    verdict_all (monitor (fx, t, sp, steps, model_obs false t sp steps)) = true.
Proof. exact monitor_sound_current. Qed.
Print Assumptions C16_monitor_sound_current_partial.

(** ** Non-vacuity: the hypotheses of the implications are satisfiable, and the interesting
    branches are really taken. *)
Definition ex_ok : oracle :=
  {| o_pull := true; o_load := true; o_range_ok := true; o_unmet := []; o_unique := Some 1;
     o_config := CfgOk; o_images := true; o_render := true |}.

(** a fresh package is reachable, an all-ok oracle is deployable in both models, and the pass is
    error free: create + update happen and the template is the digest of the spec *)
Example C16_nonvacuous_success :
  reach (w_pkg (st_w wit_start)) = true /\ deployable true ex_ok = true /\ deployable false ex_ok = true /\
  r_err (pass wit_digest true ex_ok wit_start) = false /\
  od_tmpl (st_w (r_st (pass wit_digest true ex_ok wit_start))) = Some (Some 2) /\
  existsb is_od_write (st_log (r_st (pass wit_digest true ex_ok wit_start))) = true.
Proof. vm_compute. repeat split. Qed.

(** every failure class has an oracle, and an error-free pass exists for the classes whose
    condition clause needs one (pull failure, load failure, unmet constraint on the repaired model) *)
Example C16_nonvacuous_failures :
  let pullf := {| o_pull := false; o_load := true; o_range_ok := true; o_unmet := []; o_unique := None;
                  o_config := CfgOk; o_images := true; o_render := true |} in
  let loadf := {| o_pull := true; o_load := false; o_range_ok := true; o_unmet := []; o_unique := None;
                  o_config := CfgOk; o_images := true; o_render := true |} in
  r_err (pass wit_digest false pullf wit_start) = false /\
  r_err (pass wit_digest false loadf wit_start) = false /\
  unmet wit_oracle = true /\ r_err (pass wit_digest true wit_oracle wit_start) = false /\
  has_cond CInvalid true RConstraintsFailed (p_conds (stored_pkg (pass wit_digest true wit_oracle wit_start))) = true /\
  od_tmpl (st_w (r_st (pass wit_digest true wit_oracle wit_start))) = None.
Proof. vm_compute. repeat split. Qed.

(** a second pass over the unchanged spec takes the short cut (hash = unpackedHash) *)
Example C16_nonvacuous_unchanged :
  let w1 := st_w (r_st (pass wit_digest false ex_ok wit_start)) in
  hash_eqb (p_hash (w_pkg w1)) (p_spec (w_pkg w1)) = true /\
  st_log (r_st (pass wit_digest false ex_ok {| st_w := w1; st_f := []; st_log := [] |})) =
    [EReq KGetPkg OOk; EReq KGetOD OOk; EReq KGetOD OOk; EReq KStatus OOk].
Proof. vm_compute. repeat split. Qed.
