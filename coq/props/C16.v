(** C16 (only valid, admissible packages roll out; unchanged packages are left alone):
    property theorems.  Statements only; every proof is `exact <lemma>`.

    [pass digest o s] is one Reconcile of the Package controller (Package.v) started in the state
    [s] = stored Package + stored ObjectDeployment + outcomes of the API requests to come +
    schedule of third-party writes to the ObjectDeployment; [o] gives the outcome of every stage
    (pull, load, constraints, config admission, image references, render + validation); [digest]
    identifies the template rendered from (image, config, component).  [pass] is the code as it
    is; [pass_v0] is the code before cb58cda, in which unmet constraints did not stop Deploy (kept
    for the refutation only).  Every statement holds for ALL stored states, ALL oracle outcomes,
    ALL API request outcomes (faults before or after the effect) and ALL schedules of third-party
    writes (which make the controller's Updates fail with Conflict and send the deployment
    reconciler through its retry loop). *)
From Coq Require Import List NArith Bool Lia Permutation.
From PKO Require Import Util Package PackageProofs.
From PKOCorr Require Import C16Corr.
Import ListNotations.
Local Open Scope N_scope.

(** ** Stage k fails => no ObjectDeployment create / update request in that pass, template
    (or absence of the ObjectDeployment) unchanged.  One statement per failure class. *)

Theorem C16_invalid_no_deploy_pull :
  forall digest o s, o_pull o = false ->
  exists l, new_events s (pass digest o s) l /\ none_of is_od_write l = true /\
            od_tmpl (st_w (r_st (pass digest o s))) = od_tmpl (st_w s).
Proof. exact (fun digest => invalid_no_deploy_pull digest true). Qed.
Print Assumptions C16_invalid_no_deploy_pull.

Theorem C16_invalid_no_deploy_load :
  forall digest o s, o_load o = false ->
  exists l, new_events s (pass digest o s) l /\ none_of is_od_write l = true /\
            od_tmpl (st_w (r_st (pass digest o s))) = od_tmpl (st_w s).
Proof. exact (fun digest => invalid_no_deploy_load digest true). Qed.
Print Assumptions C16_invalid_no_deploy_load.

(** unmet platform / version / uniqueness constraint *)
Theorem C16_invalid_no_deploy_unmet :
  forall digest o s, unmet o = true ->
  exists l, new_events s (pass digest o s) l /\ none_of is_od_write l = true /\
            od_tmpl (st_w (r_st (pass digest o s))) = od_tmpl (st_w s).
Proof. exact invalid_no_deploy_unmet. Qed.
Print Assumptions C16_invalid_no_deploy_unmet.

(** constraints that cannot be evaluated (unparsable range or version, no labelled Package found) *)
Theorem C16_invalid_no_deploy_constraint_error :
  forall digest o s, cons_err o = true ->
  exists l, new_events s (pass digest o s) l /\ none_of is_od_write l = true /\
            od_tmpl (st_w (r_st (pass digest o s))) = od_tmpl (st_w s).
Proof. exact (fun digest => invalid_no_deploy_constraint_error digest true). Qed.
Print Assumptions C16_invalid_no_deploy_constraint_error.

(** configuration violating the manifest's schema (or not a JSON object) *)
Theorem C16_invalid_no_deploy_config :
  forall digest o s, config_ok o = false ->
  exists l, new_events s (pass digest o s) l /\ none_of is_od_write l = true /\
            od_tmpl (st_w (r_st (pass digest o s))) = od_tmpl (st_w s).
Proof. exact (fun digest => invalid_no_deploy_config digest true). Qed.
Print Assumptions C16_invalid_no_deploy_config.

(** structural / object validation failure or unusable lock file image reference *)
Theorem C16_invalid_no_deploy_render :
  forall digest o s, o_images o = false \/ o_render o = false ->
  exists l, new_events s (pass digest o s) l /\ none_of is_od_write l = true /\
            od_tmpl (st_w (r_st (pass digest o s))) = od_tmpl (st_w s).
Proof. exact (fun digest => invalid_no_deploy_render digest true). Qed.
Print Assumptions C16_invalid_no_deploy_render.

(** all of the above at once: whatever is not valid and admissible is not deployed *)
Theorem C16_not_deployable_no_deploy :
  forall digest o s, all_ok o = false ->
  exists l, new_events s (pass digest o s) l /\ none_of is_od_write l = true /\
            od_tmpl (st_w (r_st (pass digest o s))) = od_tmpl (st_w s).
Proof. exact (fun digest => not_deployable_no_deploy digest true). Qed.
Print Assumptions C16_not_deployable_no_deploy.

(** ** The constraint LIST.  [mk_oracle] runs the loop of checkConstraints over the entries of
    manifest.spec.constraints ([constraint_loop], statement by statement, with its `continue` for a
    platformVersion constraint of another platform and its error returns).  The loop is a
    conjunction: the constraints can be evaluated iff every entry parses, and then there is no
    message iff every entry is met, an entry for another platform being neutral. *)
Theorem C16_constraint_list_conjunction :
  forall pull load cs cfg images render,
    let o := mk_oracle pull load cs cfg images render in
    o_range_ok o = constraints_evaluable cs /\
    (constraints_evaluable cs = true -> is_nil (o_unmet o) = constraints_met cs) /\
    is_some (o_unique o) = existsb is_unique_entry cs.
Proof. exact mk_oracle_constraints. Qed.
Print Assumptions C16_constraint_list_conjunction.

(** ... independent of the order of the list: what a pass depends on (unmet, not evaluable, valid
    and admissible) is the same for every permutation, among any peers. *)
Theorem C16_constraints_permutation :
  forall pull load cs cs' cfg images render sc ps,
    Permutation cs cs' ->
    let o := seen sc ps (mk_oracle pull load cs cfg images render) in
    let o' := seen sc ps (mk_oracle pull load cs' cfg images render) in
    unmet o = unmet o' /\ cons_err o = cons_err o' /\ all_ok o = all_ok o' /\
    forall fixed, deployable fixed o = deployable fixed o'.
Proof. exact constraints_permutation. Qed.
Print Assumptions C16_constraints_permutation.

(** One unmet entry anywhere in an evaluable list blocks the deployment write. *)
Theorem C16_unmet_entry_blocks :
  forall digest scoped pull load cs cfg images render w f d,
    constraints_evaluable cs = true -> constraints_met cs = false ->
    let r := do_pass digest true scoped (mk_oracle pull load cs cfg images render) w f d in
    none_of is_od_write (st_log (r_st r)) = true /\ od_tmpl (st_w (r_st r)) = od_tmpl w.
Proof. exact unmet_entry_blocks. Qed.
Print Assumptions C16_unmet_entry_blocks.

(** The constraints clause was REFUTED for the code before cb58cda (F-C16, defect fixed by cb58cda):
    validateConstraints recorded Invalid/ConstraintsFailed and returned nil, Deploy went on, wrote
    the ObjectDeployment and removed the condition. *)
Theorem C16_v0_constraints_block_refuted :
  exists (o : oracle) (s : st),
    let r := pass_v0 wit_digest o s in
    unmet o = true /\ r_err r = false /\
    existsb is_od_write (st_log (r_st r)) = true /\
    od_tmpl (st_w (r_st r)) = Some (Some (spec_digest wit_digest (p_spec (w_pkg (st_w s))))) /\
    od_tmpl (st_w s) = None /\
    find_cond CInvalid (p_conds (stored_pkg r)) = None /\
    p_hash (stored_pkg r) = Some (p_spec (w_pkg (st_w s))).
Proof. exact constraints_block_refuted. Qed.
Print Assumptions C16_v0_constraints_block_refuted.

(** ** Conditions persisted by an error-free pass ([reach]: not paused and spec hash <> unpackedHash).
    A pass that returns an error persists nothing (package_controller.go:197-202). *)
Theorem C16_pull_failure_condition :
  forall digest o s,
    let p := w_pkg (st_w s) in let r := pass digest o s in
    reach p = true -> o_pull o = false -> r_err r = false ->
    p_conds (stored_pkg r) = set_cond (mk_cond p CUnpacked false RImagePullBackOff) (p_conds p) /\
    has_cond CUnpacked false RImagePullBackOff (p_conds (stored_pkg r)) = true /\
    p_hash (stored_pkg r) = p_hash p /\ r_requeue r = true.
Proof. exact (fun digest => pull_failure_condition digest true). Qed.
Print Assumptions C16_pull_failure_condition.

Theorem C16_load_failure_condition :
  forall digest o s,
    let p := w_pkg (st_w s) in let r := pass digest o s in
    reach p = true -> o_pull o = true -> o_load o = false -> r_err r = false ->
    p_conds (stored_pkg r) =
      set_cond (mk_cond p CUnpacked true RUnpackSuccess) (set_cond (mk_cond p CInvalid true RLoadError) (p_conds p)) /\
    has_cond CInvalid true RLoadError (p_conds (stored_pkg r)) = true /\
    p_hash (stored_pkg r) = Some (p_spec p).
Proof. exact (fun digest => load_failure_condition digest true). Qed.
Print Assumptions C16_load_failure_condition.

Theorem C16_constraints_failure_condition :
  forall digest o s,
    let p := w_pkg (st_w s) in let r := pass digest o s in
    reach p = true -> o_pull o = true -> o_load o = true -> unmet o = true -> r_err r = false ->
    p_conds (stored_pkg r) =
      set_cond (mk_cond p CUnpacked true RUnpackSuccess) (set_cond (mk_cond p CInvalid true RConstraintsFailed) (p_conds p)) /\
    has_cond CInvalid true RConstraintsFailed (p_conds (stored_pkg r)) = true /\
    p_hash (stored_pkg r) = Some (p_spec p).
Proof. exact constraints_failure_condition. Qed.
Print Assumptions C16_constraints_failure_condition.

(** Without an API fault and without third-party writes ([calm]) such passes are error free, so the
    condition IS persisted: Deploy returns nil after a load failure and after unmet constraints,
    the unpack reconciler returns nil after a pull failure. *)
Theorem C16_calm_pull_failure :
  forall digest o s,
    calm s -> reach (w_pkg (st_w s)) = true -> o_pull o = false -> r_err (pass digest o s) = false.
Proof. exact (fun digest => nofault_pull_failure digest true). Qed.
Print Assumptions C16_calm_pull_failure.

Theorem C16_calm_load_failure :
  forall digest o s,
    calm s -> reach (w_pkg (st_w s)) = true -> o_pull o = true -> o_load o = false ->
    r_err (pass digest o s) = false.
Proof. exact (fun digest => nofault_load_failure digest true). Qed.
Print Assumptions C16_calm_load_failure.

Theorem C16_calm_unmet :
  forall digest o s,
    calm s -> reach (w_pkg (st_w s)) = true -> o_pull o = true -> o_load o = true ->
    cons_err o = false -> unmet o = true -> r_err (pass digest o s) = false.
Proof. exact nofault_unmet. Qed.
Print Assumptions C16_calm_unmet.

(** ** Unchanged spec: no pull, no Deploy (load / render), no ObjectDeployment write. *)
Theorem C16_unchanged_no_pull :
  forall digest o s,
    hash_eqb (p_hash (w_pkg (st_w s))) (p_spec (w_pkg (st_w s))) = true ->
    exists l, new_events s (pass digest o s) l /\ none_of busy l = true /\
              od_tmpl (st_w (r_st (pass digest o s))) = od_tmpl (st_w s).
Proof. exact (fun digest => unchanged_no_pull digest true). Qed.
Print Assumptions C16_unchanged_no_pull.

(** status.unpackedHash moves only in an error-free, unpaused pass whose pull succeeded - and then
    to the hash of the current spec; this is what makes the short cut above apply next time. *)
Theorem C16_unpacked_hash :
  forall digest o s,
    let p := w_pkg (st_w s) in let r := pass digest o s in
    r_err r = false ->
    p_hash (stored_pkg r) =
      if s_paused (p_spec p) then p_hash p
      else if hash_eqb (p_hash p) (p_spec p) then p_hash p
      else if o_pull o then Some (p_spec p) else p_hash p.
Proof. exact (fun digest => pass_hash_ok digest true). Qed.
Print Assumptions C16_unpacked_hash.

(** ** Changed spec, valid and admissible package, error-free pass: the stored template is the
    render of the new spec (hash recorded, Unpacked=True, no Invalid condition) - whatever third
    parties wrote to the ObjectDeployment in between, i.e. also when the reconciler's Update was
    answered with Conflict one or more times and went through re-Get + retry. *)
Theorem C16_changed_template :
  forall digest o s,
    let p := w_pkg (st_w s) in let r := pass digest o s in
    reach p = true -> all_ok o = true -> r_err r = false ->
    od_tmpl (st_w (r_st r)) = Some (Some (spec_digest digest (p_spec p))) /\
    p_hash (stored_pkg r) = Some (p_spec p) /\
    has_cond CUnpacked true RUnpackSuccess (p_conds (stored_pkg r)) = true /\
    find_cond CInvalid (p_conds (stored_pkg r)) = None.
Proof. exact (fun digest => changed_template digest true). Qed.
Print Assumptions C16_changed_template.

(** The retry loop of the deployment reconciler (deployment_reconciler.go:101-133) on its own:
    however many of its attempts are answered with Conflict, it leaves into its continuation only
    with the template [t] stored (the template is set inside the retried closure, after the
    re-Get); every other exit is an error. *)
Theorem C16_update_loop_writes :
  forall n t (k : st -> result) (P : result -> Prop) s,
    (forall s', od_tmpl (st_w s') = option_map (fun _ => t) (w_od (st_w s)) ->
                w_pkg (st_w s') = w_pkg (st_w s) -> P (k s')) ->
    (forall s', w_pkg (st_w s') = w_pkg (st_w s) -> P (fail s')) ->
    P (update_loop n t s k).
Proof. exact update_loop_writes. Qed.
Print Assumptions C16_update_loop_writes.

(** ** status.unpackedHash and the template move together: in EVERY pass - error-free or not, with
    lost responses, conflicts, anything - the persisted unpackedHash stays what it was or becomes the
    hash of the spec the pass started with; in the latter case the pull succeeded and, for a valid
    and admissible package, the stored template is the render of that spec when the pass ends.
    (So a retry that takes the "already unpacked" short cut never leaves a half-written
    ObjectDeployment behind.) *)
Theorem C16_hash_moves :
  forall digest o s,
    let p := w_pkg (st_w s) in let r := pass digest o s in
    p_hash (stored_pkg r) = p_hash p \/
    (p_hash (stored_pkg r) = Some (p_spec p) /\ o_pull o = true /\
     (all_ok o = true -> od_tmpl (st_w (r_st r)) = Some (Some (spec_digest digest (p_spec p))))).
Proof. exact (fun digest => hash_moves digest true). Qed.
Print Assumptions C16_hash_moves.

(** The stronger "unpackedHash = hash of the current spec => stored template = render of that spec"
    is REFUTED for the code as it is: a pass for spec B that fails after its Update, an edit back
    to A before the retry, and the short cut keeps B's render under A's hash (replayed on the real
    controller by the corpus of checks/C16.py; reported as an observation, not part of C16's text,
    which speaks about passes that process a changed spec). *)
Theorem C16_hash_fit_refuted :
  forall scoped,
    let w := final wit_digest true scoped revert_steps (init_world wit_spec no_peers) [] [] in
    p_spec (w_pkg w) = wit_spec /\ p_hash (w_pkg w) = Some wit_spec /\
    od_tmpl w = Some (Some (spec_digest wit_digest wit_spec_b)) /\
    spec_digest wit_digest wit_spec_b <> spec_digest wit_digest wit_spec /\
    forallb ob_err (run wit_digest true scoped revert_steps (init_world wit_spec no_peers) [] [])
      = false.
Proof. exact hash_fit_refuted. Qed.
Print Assumptions C16_hash_fit_refuted.

(** The clause of C16 this refutes, as the run-time monitor evaluates it on a history ([fit], m_fit):
    every pass the scenario does not disturb, that ends without error, over an unpaused, valid and
    admissible package leaves the stored template equal to the render of the CURRENT spec.
    F-C16c: the model (= the implementation: [agree]) violates it on [revert_steps], all other
    clauses hold there, and the history shows the pattern [reverted]: a failed pass wrote the
    ObjectDeployment without moving unpackedHash, then the spec was edited to the spec behind the
    stored hash. *)
Theorem C16_fit_refuted :
  agree wit_case_revert = true /\ verdict_all (monitor wit_case_revert) = true /\
  fit wit_case_revert = false /\ reverted wit_case_revert = true.
Proof. exact wit_case_revert_judged. Qed.
Print Assumptions C16_fit_refuted.

(** m_fit holds on every history of valid packages without uniqueInScope constraint whose constraints
    are met - with pull failures, API faults (before / after the effect), third-party writes, pausing
    and arbitrary edits - in which that pattern does not occur; for either List. *)
Theorem C16_fit_partial :
  forall sc scoped t sp ps steps,
    valid_only steps = true ->
    reverted (sc, t, sp, ps, steps, model_obs_gen true scoped t sp ps steps) = false ->
    fit (sc, t, sp, ps, steps, model_obs_gen true scoped t sp ps steps) = true.
Proof. exact fit_partial. Qed.
Print Assumptions C16_fit_partial.

(** ** uniqueInScope.  The other (Cluster)Packages are part of the world ([w_peers]); [listed true ps]
    is the number of (Cluster)Packages carrying the manifest's package label in the scope of the
    Package at hand (itself included if it carries the label).  If that number is at least two the
    deployment is not written - for either List validateUnique may use ([scoped]), for Package and
    ClusterPackage alike (the model is the same; a ClusterPackage has no peers elsewhere) - and
    every error-free pass reports Invalid/ConstraintsFailed. *)
Theorem C16_unique_unmet_blocks :
  forall digest scoped o w f d,
    o_unique o <> None -> 2 <= listed true (w_peers w) ->
    let r := do_pass digest true scoped o w f d in
    none_of is_od_write (st_log (r_st r)) = true /\ od_tmpl (st_w (r_st r)) = od_tmpl w.
Proof. exact unique_unmet_blocks. Qed.
Print Assumptions C16_unique_unmet_blocks.

Theorem C16_unique_unmet_reported :
  forall digest scoped o w f d,
    o_unique o <> None -> 2 <= listed true (w_peers w) ->
    let r := do_pass digest true scoped o w f d in
    reach (w_pkg w) = true -> o_pull o = true -> o_load o = true -> r_err r = false ->
    has_cond CInvalid true RConstraintsFailed (p_conds (stored_pkg r)) = true /\
    p_hash (stored_pkg r) = Some (p_spec (w_pkg w)).
Proof. exact unique_unmet_reported. Qed.
Print Assumptions C16_unique_unmet_reported.

(** REFUTED for the code as it is (F-C16b): validateUnique builds the label selector and drops it
    (the result of Selector.Add is ignored, deployer.go:291) and does not restrict the List to the
    namespace, so every (Cluster)Package of the cluster counts.  (1) a valid package that is unique
    in its scope is not rolled out next to a stranger; (2) an unlabelled Package, for which the
    constraint cannot be evaluated (validateUnique's own ErrNonExisting case), is rolled out. *)
Theorem C16_unique_scope_refuted :
  (let r := do_pass wit_digest true false uniq_oracle (init_world wit_spec one_stranger) [] [] in
   all_ok (seen true one_stranger uniq_oracle) = true /\ r_err r = false /\
   od_tmpl (st_w (r_st r)) = None /\
   has_cond CInvalid true RConstraintsFailed (p_conds (stored_pkg r)) = true) /\
  (let r := do_pass wit_digest true false uniq_oracle (init_world wit_spec unlabelled) [] [] in
   cons_err (seen true unlabelled uniq_oracle) = true /\ r_err r = false /\
   od_tmpl (st_w (r_st r)) = Some (Some (spec_digest wit_digest wit_spec))).
Proof. exact unique_scope_refuted. Qed.
Print Assumptions C16_unique_scope_refuted.

(** ** History invariant.  For all histories (spec edits, API faults, third-party writes, passes
    with arbitrary oracle outcomes) from a fresh Package among any peers: the stored
    ObjectDeployment's template is the pre-created empty one or the render of a spec that was
    current at a pass in which the package was valid and admissible.  Proved for the List
    restricted to the labelled packages of the scope (fixes/C16-unique-scope.diff). *)
Theorem C16_od_history_scoped :
  forall digest steps sp ps,
    od_ok (goods_of digest true true (fun ps o => all_ok (seen true ps o)) steps (init_world sp ps) [] [])
          (final digest true true steps (init_world sp ps) [] []).
Proof. exact (fun digest steps sp ps => od_history_init digest true true steps sp ps). Qed.
Print Assumptions C16_od_history_scoped.

(** For the code as it is: the same with "valid and admissible as the controller judges it", i.e.
    uniqueness counted over every (Cluster)Package of the cluster - what is missing is the scope. *)
Theorem C16_od_history_partial :
  forall digest steps sp ps,
    od_ok (goods_of digest true false (fun ps o => all_ok (seen false ps o)) steps (init_world sp ps) [] [])
          (final digest true false steps (init_world sp ps) [] []).
Proof. exact (fun digest steps sp ps => od_history_init digest true false steps sp ps). Qed.
Print Assumptions C16_od_history_partial.

(** REFUTED for the code before cb58cda (consequence of F-C16). *)
Theorem C16_v0_od_history_refuted :
  exists steps sp,
    od_okb (goods_of wit_digest false true (fun ps o => all_ok (seen true ps o)) steps (init_world sp no_peers) [] [])
           (final wit_digest false true steps (init_world sp no_peers) [] []) = false.
Proof. exact od_history_refuted. Qed.
Print Assumptions C16_v0_od_history_refuted.

(** ** The run-time monitor accepts every history of the model with the scoped List, and every
    history of the code as it is without uniqueInScope constraint or among plain peers (the Package
    labelled, nobody else around that is unlabelled or elsewhere). *)
Theorem C16_monitor_sound_scoped :
  forall sc t sp ps steps, verdict_all (monitor (sc, t, sp, ps, steps, model_obs_scoped t sp ps steps)) = true.
Proof. exact monitor_sound_scoped. Qed.
Print Assumptions C16_monitor_sound_scoped.

Theorem C16_monitor_sound_partial :
  forall sc t sp ps steps, plain ps = true \/ no_unique steps = true ->
    verdict_all (monitor (sc, t, sp, ps, steps, model_obs t sp ps steps)) = true.
Proof. exact monitor_sound_partial. Qed.
Print Assumptions C16_monitor_sound_partial.

(** ** Non-vacuity: the hypotheses of the implications are satisfiable, and the interesting
    branches are really taken. *)
Definition ex_ok : oracle :=
  {| o_pull := true; o_load := true; o_range_ok := true; o_unmet := []; o_unique := Some 1;
     o_config := CfgOk; o_images := true; o_render := true |}.

(** a fresh package is reachable, an all-ok oracle is deployable, and the pass is error free:
    create + update happen and the template is the digest of the spec *)
Example C16_nonvacuous_success :
  reach (w_pkg (st_w wit_start)) = true /\ all_ok ex_ok = true /\
  r_err (pass wit_digest ex_ok wit_start) = false /\
  od_tmpl (st_w (r_st (pass wit_digest ex_ok wit_start))) = Some (Some 2) /\
  existsb is_od_write (st_log (r_st (pass wit_digest ex_ok wit_start))) = true.
Proof. vm_compute. repeat split. Qed.

(** every failure class has an oracle, and an error-free pass exists for the classes whose
    condition clause needs one (pull failure, load failure, unmet constraint) *)
Example C16_nonvacuous_failures :
  let pullf := {| o_pull := false; o_load := true; o_range_ok := true; o_unmet := []; o_unique := None;
                  o_config := CfgOk; o_images := true; o_render := true |} in
  let loadf := {| o_pull := true; o_load := false; o_range_ok := true; o_unmet := []; o_unique := None;
                  o_config := CfgOk; o_images := true; o_render := true |} in
  calm wit_start /\
  r_err (pass wit_digest pullf wit_start) = false /\
  r_err (pass wit_digest loadf wit_start) = false /\
  unmet wit_oracle = true /\ r_err (pass wit_digest wit_oracle wit_start) = false /\
  has_cond CInvalid true RConstraintsFailed (p_conds (stored_pkg (pass wit_digest wit_oracle wit_start))) = true /\
  od_tmpl (st_w (r_st (pass wit_digest wit_oracle wit_start))) = None.
Proof. vm_compute. repeat split. Qed.

(** a second pass over the unchanged spec takes the short cut (hash = unpackedHash) *)
Example C16_nonvacuous_unchanged :
  let w1 := st_w (r_st (pass wit_digest ex_ok wit_start)) in
  hash_eqb (p_hash (w_pkg w1)) (p_spec (w_pkg w1)) = true /\
  st_log (r_st (pass wit_digest ex_ok {| st_w := w1; st_f := []; st_d := []; st_dirty := false; st_log := [] |})) =
    [EReq KGetPkg OOk; EReq KGetOD OOk; EReq KGetOD OOk; EReq KStatus OOk].
Proof. vm_compute. repeat split. Qed.

(** a changed spec over an existing ObjectDeployment with a third-party write right before the
    reconciler's Update (request 4) and another one before the retry (request 6): two Conflicts,
    two re-Gets, the third attempt succeeds, the pass is error free and the template is the render
    of the NEW spec; with a third-party write before every attempt the five attempts are used up
    and the pass ends with an error, the old template still stored *)
Example C16_nonvacuous_conflict :
  let w1 := st_w (r_st (pass wit_digest ex_ok wit_start)) in
  let w2 := edit {| s_image := 3; s_config := 0; s_comp := 0; s_paused := false |} w1 in
  let r := pass wit_digest ex_ok {| st_w := w2; st_f := []; st_d := [false; false; false; false; true; false; true];
                                    st_dirty := false; st_log := [] |} in
  let r5 := pass wit_digest ex_ok {| st_w := w2; st_f := []; st_d := [false; false; false; false; true; false; true; false; true; false; true; false; true];
                                     st_dirty := false; st_log := [] |} in
  st_log (r_st r) =
    [EReq KGetPkg OOk; EReq KGetOD OOk; EPull 3; EDeploy; EReq KListPkg OOk; EReq KGetOD OOk;
     EReq KUpdateOD OConflict; EReq KGetOD OOk; EReq KUpdateOD OConflict; EReq KGetOD OOk; EReq KUpdateOD OOk;
     EReq KListSet OOk; EReq KListSlice OOk; EReq KGetOD OOk; EReq KStatus OOk] /\
  r_err r = false /\ od_tmpl w1 = Some (Some 2) /\ od_tmpl (st_w (r_st r)) = Some (Some 4) /\
  r_err r5 = true /\ od_tmpl (st_w (r_st r5)) = Some (Some 2).
Proof. vm_compute. repeat split. Qed.
